// gfmaps lists every `range` over a map in the non-test sources of the repository, with a
// syntactic classification of what the loop body does with the iteration order, and writes it
// as a Lean data file.  Identity of a site is (file, function, ranged expression, ordinal) - no
// line numbers, so unrelated edits do not move sites.
package main

import (
	"bytes"
	"crypto/sha256"
	"encoding/hex"
	"flag"
	"fmt"
	"go/ast"
	"go/printer"
	"go/token"
	"go/types"
	"os"
	"path/filepath"
	"sort"
	"strings"

	"golang.org/x/tools/go/packages"
)

type site struct {
	File, Func, Expr string
	Nth              int
	Class            string
	Digest           string // of the whole loop statement, whitespace-normalised
}

func exprText(fset *token.FileSet, e ast.Node) string {
	var b bytes.Buffer
	printer.Fprint(&b, fset, e)
	return strings.Join(strings.Fields(b.String()), " ")
}

func leanStr(s string) string {
	var b strings.Builder
	b.WriteByte('"')
	for _, r := range s {
		switch r {
		case '"':
			b.WriteString("\\\"")
		case '\\':
			b.WriteString("\\\\")
		case '\n':
			b.WriteString("\\n")
		case '\t':
			b.WriteString("\\t")
		default:
			b.WriteRune(r)
		}
	}
	b.WriteByte('"')
	return b.String()
}

// is the call one of the sorting functions, applied to the slice named name?
func sortsSlice(call *ast.CallExpr, name string) bool {
	sel, ok := call.Fun.(*ast.SelectorExpr)
	if !ok || len(call.Args) == 0 {
		return false
	}
	pkg, ok := sel.X.(*ast.Ident)
	if !ok || (pkg.Name != "sort" && pkg.Name != "slices") {
		return false
	}
	if !strings.HasPrefix(sel.Sel.Name, "Sort") && !strings.HasPrefix(sel.Sel.Name, "Slice") && sel.Sel.Name != "Strings" && sel.Sel.Name != "Ints" && sel.Sel.Name != "Stable" {
		return false
	}
	arg := call.Args[0]
	// sort.Sort(byX(s)) / sort.Strings(s)
	if c, ok := arg.(*ast.CallExpr); ok && len(c.Args) == 1 {
		arg = c.Args[0]
	}
	id, ok := arg.(*ast.Ident)
	return ok && id.Name == name
}

type classifier struct {
	info *types.Info
	fn   ast.Node // enclosing function body
	loop *ast.RangeStmt
}

// classes of statements: "map" (write into a map/set), "acc" (commutative accumulation), "append:<slice>", "other"
func (c *classifier) stmt(s ast.Stmt, out map[string]bool) {
	switch st := s.(type) {
	case *ast.AssignStmt:
		// s = append(s, ...)
		if len(st.Lhs) == 1 && len(st.Rhs) == 1 {
			if call, ok := st.Rhs[0].(*ast.CallExpr); ok {
				if id, ok := call.Fun.(*ast.Ident); ok && id.Name == "append" && len(call.Args) >= 1 {
					if l, ok := st.Lhs[0].(*ast.Ident); ok {
						if a, ok := call.Args[0].(*ast.Ident); ok && a.Name == l.Name {
							out["append:"+l.Name] = true
							return
						}
					}
				}
			}
		}
		allMap, allLocal := true, true
		for _, l := range st.Lhs {
			if ix, ok := l.(*ast.IndexExpr); ok {
				if _, isMap := c.info.TypeOf(ix.X).Underlying().(*types.Map); isMap {
					continue
				}
			}
			allMap = false
			if id, ok := l.(*ast.Ident); ok && (st.Tok == token.DEFINE || id.Name == "_") {
				continue
			}
			allLocal = false
		}
		switch {
		case allMap:
			out["map"] = true
		case allLocal:
			out["local"] = true
		case st.Tok == token.ADD_ASSIGN || st.Tok == token.OR_ASSIGN || st.Tok == token.AND_ASSIGN:
			if b, ok := c.info.TypeOf(st.Lhs[0]).Underlying().(*types.Basic); ok && b.Info()&(types.IsInteger|types.IsBoolean) != 0 {
				out["acc"] = true
			} else {
				out["other"] = true
			}
		default:
			out["other"] = true
		}
	case *ast.IncDecStmt:
		out["acc"] = true
	case *ast.ExprStmt:
		if call, ok := st.X.(*ast.CallExpr); ok {
			if id, ok := call.Fun.(*ast.Ident); ok && id.Name == "delete" {
				out["map"] = true
				return
			}
		}
		out["other"] = true
	case *ast.IfStmt:
		if st.Init != nil {
			c.stmt(st.Init, out)
		}
		c.block(st.Body, out)
		if st.Else != nil {
			c.stmt(st.Else, out)
		}
	case *ast.BlockStmt:
		c.block(st, out)
	case *ast.BranchStmt:
		if st.Tok == token.BREAK {
			out["break"] = true
		}
	case *ast.ReturnStmt:
		consts := true
		for _, r := range st.Results {
			tv, ok := c.info.Types[r]
			if !(ok && tv.Value != nil) {
				if id, ok := r.(*ast.Ident); !(ok && (id.Name == "nil" || id.Name == "true" || id.Name == "false")) {
					consts = false
				}
			}
		}
		if consts {
			out["return-const"] = true
		} else {
			out["return-value"] = true
		}
	case *ast.DeclStmt:
		out["local"] = true
	default:
		out["other"] = true
	}
}

func (c *classifier) block(b *ast.BlockStmt, out map[string]bool) {
	for _, s := range b.List {
		c.stmt(s, out)
	}
}

func (c *classifier) classify() string {
	kinds := map[string]bool{}
	c.block(c.loop.Body, kinds)
	delete(kinds, "local")
	var appended []string
	for k := range kinds {
		if strings.HasPrefix(k, "append:") {
			appended = append(appended, k[7:])
			delete(kinds, k)
		}
	}
	sort.Strings(appended)
	// every appended slice must be sorted after the loop, in the same function
	for _, name := range appended {
		sorted := false
		ast.Inspect(c.fn, func(n ast.Node) bool {
			if call, ok := n.(*ast.CallExpr); ok && call.Pos() > c.loop.End() && sortsSlice(call, name) {
				sorted = true
			}
			return true
		})
		if !sorted {
			kinds["append-unsorted"] = true
		}
	}
	if c.loop.Key == nil && c.loop.Value == nil {
		return "count-only"
	}
	var ks []string
	for k := range kinds {
		ks = append(ks, k)
	}
	sort.Strings(ks)
	bad := false
	for _, k := range ks {
		if k == "other" || k == "append-unsorted" || k == "break" || k == "return-value" {
			bad = true
		}
	}
	switch {
	case bad:
		return "order-visible:" + strings.Join(ks, "+")
	case len(ks) == 0 && len(appended) > 0:
		return "sorted-after"
	case len(ks) == 0:
		return "no-effect"
	default:
		if len(appended) > 0 {
			ks = append(ks, "sorted-after")
		}
		return "insensitive:" + strings.Join(ks, "+")
	}
}

// ---- census of writes to receiver fields after construction -----------------------------------------------

type fieldWrite struct {
	Type, Field, Method, Sync string
}

// how a write inside method fd is synchronised: "mutex" (the method starts by locking a mutex field of the receiver and
// defers the unlock), "once" (inside a function literal passed to a sync.Once's Do), or "none"
func syncOf(info *types.Info, fd *ast.FuncDecl, recv string, pos token.Pos) string {
	if len(fd.Body.List) >= 2 {
		if es, ok := fd.Body.List[0].(*ast.ExprStmt); ok {
			if call, ok := es.X.(*ast.CallExpr); ok {
				if sel, ok := call.Fun.(*ast.SelectorExpr); ok && sel.Sel.Name == "Lock" {
					if inner, ok := sel.X.(*ast.SelectorExpr); ok {
						if id, ok := inner.X.(*ast.Ident); ok && id.Name == recv {
							if ds, ok := fd.Body.List[1].(*ast.DeferStmt); ok {
								if s2, ok := ds.Call.Fun.(*ast.SelectorExpr); ok && s2.Sel.Name == "Unlock" {
									return "mutex"
								}
							}
						}
					}
				}
			}
		}
	}
	res := "none"
	ast.Inspect(fd.Body, func(n ast.Node) bool {
		call, ok := n.(*ast.CallExpr)
		if !ok || len(call.Args) != 1 {
			return true
		}
		sel, ok := call.Fun.(*ast.SelectorExpr)
		if !ok || sel.Sel.Name != "Do" {
			return true
		}
		if t := info.TypeOf(sel.X); t == nil || !strings.HasSuffix(t.String(), "sync.Once") {
			return true
		}
		if fl, ok := call.Args[0].(*ast.FuncLit); ok && fl.Pos() <= pos && pos <= fl.End() {
			res = "once"
		}
		return true
	})
	return res
}

func fieldWrites(pkgs []*packages.Package, repo string) []fieldWrite {
	seen := map[fieldWrite]bool{}
	for _, p := range pkgs {
		for _, f := range p.Syntax {
			rel, _ := filepath.Rel(repo, p.Fset.File(f.Pos()).Name())
			if strings.HasPrefix(rel, "cmd/") || strings.HasPrefix(rel, "test/") || strings.HasPrefix(rel, "antlr/") || strings.HasPrefix(rel, "services/") {
				continue
			}
			for _, d := range f.Decls {
				fd, ok := d.(*ast.FuncDecl)
				if !ok || fd.Body == nil || fd.Recv == nil || len(fd.Recv.List) == 0 || len(fd.Recv.List[0].Names) == 0 {
					continue
				}
				if _, isPtr := fd.Recv.List[0].Type.(*ast.StarExpr); !isPtr {
					continue
				}
				recv := fd.Recv.List[0].Names[0].Name
				typ := p.PkgPath[strings.LastIndex(p.PkgPath, "/")+1:] + "." + strings.TrimPrefix(exprText(p.Fset, fd.Recv.List[0].Type), "*")
				record := func(target ast.Expr, pos token.Pos) {
					// recv.field, recv.field[...], recv.field.sub
					for {
						switch t := target.(type) {
						case *ast.IndexExpr:
							target = t.X
							continue
						case *ast.StarExpr:
							target = t.X
							continue
						}
						break
					}
					sel, ok := target.(*ast.SelectorExpr)
					if !ok {
						return
					}
					for {
						inner, ok := sel.X.(*ast.SelectorExpr)
						if !ok {
							break
						}
						sel = inner
					}
					id, ok := sel.X.(*ast.Ident)
					if !ok || id.Name != recv {
						return
					}
					seen[fieldWrite{typ, sel.Sel.Name, fd.Name.Name, syncOf(p.TypesInfo, fd, recv, pos)}] = true
				}
				ast.Inspect(fd.Body, func(n ast.Node) bool {
					switch st := n.(type) {
					case *ast.AssignStmt:
						for _, l := range st.Lhs {
							record(l, st.Pos())
						}
					case *ast.IncDecStmt:
						record(st.X, st.Pos())
					case *ast.CallExpr:
						if id, ok := st.Fun.(*ast.Ident); ok && id.Name == "delete" && len(st.Args) == 2 {
							record(st.Args[0], st.Pos())
						}
					}
					return true
				})
			}
		}
	}
	var out []fieldWrite
	for w := range seen {
		out = append(out, w)
	}
	sort.Slice(out, func(i, j int) bool {
		a, b := out[i], out[j]
		if a.Type != b.Type {
			return a.Type < b.Type
		}
		if a.Field != b.Field {
			return a.Field < b.Field
		}
		return a.Method < b.Method
	})
	return out
}

// writes to package-level variables outside init functions: (variable, function)
func globalWrites(pkgs []*packages.Package, repo string) [][2]string {
	seen := map[[2]string]bool{}
	for _, p := range pkgs {
		for _, f := range p.Syntax {
			rel, _ := filepath.Rel(repo, p.Fset.File(f.Pos()).Name())
			if strings.HasPrefix(rel, "cmd/") || strings.HasPrefix(rel, "test/") || strings.HasPrefix(rel, "antlr/") || strings.HasPrefix(rel, "services/") {
				continue
			}
			for _, d := range f.Decls {
				fd, ok := d.(*ast.FuncDecl)
				if !ok || fd.Body == nil || (fd.Name.Name == "init" && fd.Recv == nil) {
					continue
				}
				fname := fd.Name.Name
				if fd.Recv != nil && len(fd.Recv.List) > 0 {
					fname = exprText(p.Fset, fd.Recv.List[0].Type) + "." + fname
				}
				record := func(target ast.Expr) {
					for {
						switch t := target.(type) {
						case *ast.IndexExpr:
							target = t.X
							continue
						case *ast.StarExpr:
							target = t.X
							continue
						case *ast.SelectorExpr:
							if _, isPkg := p.TypesInfo.Uses[identOf(t.X)].(*types.PkgName); isPkg {
								break
							}
							target = t.X
							continue
						}
						break
					}
					var id *ast.Ident
					switch t := target.(type) {
					case *ast.Ident:
						id = t
					case *ast.SelectorExpr:
						id = t.Sel
					}
					if id == nil {
						return
					}
					if v, ok := p.TypesInfo.Uses[id].(*types.Var); ok && v.Parent() == v.Pkg().Scope() {
						pk := v.Pkg().Path()
						seen[[2]string{pk[strings.LastIndex(pk, "/")+1:] + "." + v.Name(), fname}] = true
					}
				}
				ast.Inspect(fd.Body, func(n ast.Node) bool {
					switch st := n.(type) {
					case *ast.AssignStmt:
						if st.Tok != token.DEFINE {
							for _, l := range st.Lhs {
								record(l)
							}
						}
					case *ast.IncDecStmt:
						record(st.X)
					case *ast.CallExpr:
						if id, ok := st.Fun.(*ast.Ident); ok && id.Name == "delete" && len(st.Args) == 2 {
							record(st.Args[0])
						}
					}
					return true
				})
			}
		}
	}
	var out [][2]string
	for w := range seen {
		out = append(out, w)
	}
	sort.Slice(out, func(i, j int) bool { return out[i][0]+"|"+out[i][1] < out[j][0]+"|"+out[j][1] })
	return out
}

// ---- URN redaction census ------------------------------------------------------------------------------

// every call of RedactionPolicy(): (file, function); and every method call on a URN-carrying type made inside a
// function that returns expression values: (function, receiver type, method)
func redactionCensus(pkgs []*packages.Package, repo string) (uses [][2]string, reads [][3]string) {
	seenR := map[[3]string]bool{}
	for _, p := range pkgs {
		for _, f := range p.Syntax {
			rel, _ := filepath.Rel(repo, p.Fset.File(f.Pos()).Name())
			if strings.HasPrefix(rel, "cmd/") || strings.HasPrefix(rel, "test/") || strings.HasPrefix(rel, "antlr/") || strings.HasPrefix(rel, "services/") {
				continue
			}
			for _, d := range f.Decls {
				fd, ok := d.(*ast.FuncDecl)
				if !ok || fd.Body == nil {
					continue
				}
				fname := fd.Name.Name
				if fd.Recv != nil && len(fd.Recv.List) > 0 {
					fname = exprText(p.Fset, fd.Recv.List[0].Type) + "." + fname
				}
				returnsX := false
				if fd.Type.Results != nil {
					for _, r := range fd.Type.Results.List {
						if t := p.TypesInfo.TypeOf(r.Type); t != nil && strings.Contains(t.String(), "excellent/types.X") {
							returnsX = true
						}
					}
				}
				ast.Inspect(fd.Body, func(n ast.Node) bool {
					call, ok := n.(*ast.CallExpr)
					if !ok {
						return true
					}
					sel, ok := call.Fun.(*ast.SelectorExpr)
					if !ok {
						return true
					}
					if sel.Sel.Name == "RedactionPolicy" {
						uses = append(uses, [2]string{rel, fname})
					}
					if returnsX {
						if t := p.TypesInfo.TypeOf(sel.X); t != nil {
							ts := t.String()
							if strings.HasSuffix(ts, "urns.URN") || strings.HasSuffix(ts, "flows.ContactURN") || strings.HasSuffix(ts, "flows.URNList") {
								ts = ts[strings.LastIndex(ts, "/")+1:]
								seenR[[3]string{fname, ts, sel.Sel.Name}] = true
							}
						}
					}
					return true
				})
			}
		}
	}
	sort.Slice(uses, func(i, j int) bool { return uses[i][0]+"|"+uses[i][1] < uses[j][0]+"|"+uses[j][1] })
	for r := range seenR {
		reads = append(reads, r)
	}
	sort.Slice(reads, func(i, j int) bool { return strings.Join(reads[i][:], "|") < strings.Join(reads[j][:], "|") })
	return
}

func emitRedaction(uses [][2]string, reads [][3]string, out string) {
	var b strings.Builder
	b.WriteString("-- GENERATED by gfmaps; do not edit\nnamespace GoflowModel.Gen.Redaction\n\n/-- every call of RedactionPolicy(): (file, function) -/\ndef policyUses : List (String × String) := [")
	var xs []string
	for _, u := range uses {
		xs = append(xs, "("+leanStr(u[0])+", "+leanStr(u[1])+")")
	}
	b.WriteString(strings.Join(xs, ", "))
	b.WriteString("]\n\n/-- method calls on URN-carrying values inside functions that return expression values: (function, receiver type, method) -/\ndef urnReads : List (String × String × String) := [")
	xs = nil
	for _, r := range reads {
		xs = append(xs, "("+leanStr(r[0])+", "+leanStr(r[1])+", "+leanStr(r[2])+")")
	}
	b.WriteString(strings.Join(xs, ", "))
	b.WriteString("]\n\nend GoflowModel.Gen.Redaction\n")
	old, err := os.ReadFile(out)
	if err != nil || string(old) != b.String() {
		os.WriteFile(out, []byte(b.String()), 0o644)
	}
}

func identOf(e ast.Expr) *ast.Ident {
	id, _ := e.(*ast.Ident)
	return id
}

func emitWrites(ws []fieldWrite, globals [][2]string, out string) {
	var b strings.Builder
	b.WriteString("-- GENERATED by gfmaps; do not edit\nnamespace GoflowModel.Gen.FieldWrites\n\n/-- every write to a field of a pointer receiver: (type, field, method, synchronisation) -/\ndef writes : List (String × String × String × String) := [\n")
	for i, w := range ws {
		sep := ","
		if i == len(ws)-1 {
			sep = ""
		}
		fmt.Fprintf(&b, "  (%s, %s, %s, %s)%s\n", leanStr(w.Type), leanStr(w.Field), leanStr(w.Method), leanStr(w.Sync), sep)
	}
	b.WriteString("]\n\n/-- the types that have a write without synchronisation -/\ndef unsynchronisedTypes : List String := [")
	var ts []string
	last := ""
	for _, w := range ws {
		if w.Sync == "none" && w.Type != last {
			ts = append(ts, leanStr(w.Type))
			last = w.Type
		}
	}
	b.WriteString(strings.Join(ts, ", "))
	b.WriteString("]\n\n/-- writes to package-level variables outside `init`: (variable, function) -/\ndef globalWrites : List (String × String) := [")
	var gs []string
	for _, g := range globals {
		gs = append(gs, "("+leanStr(g[0])+", "+leanStr(g[1])+")")
	}
	b.WriteString(strings.Join(gs, ", "))
	b.WriteString("]\n\nend GoflowModel.Gen.FieldWrites\n")
	old, err := os.ReadFile(out)
	if err != nil || string(old) != b.String() {
		os.WriteFile(out, []byte(b.String()), 0o644)
	}
}

func main() {
	repo := flag.String("repo", "/repo", "repository root")
	out := flag.String("out", "/verif/lean/GoflowModel/Gen/MapRanges.lean", "output file")
	flag.Parse()
	cfg := &packages.Config{Mode: packages.NeedName | packages.NeedFiles | packages.NeedSyntax | packages.NeedTypes | packages.NeedTypesInfo | packages.NeedImports | packages.NeedDeps, Dir: *repo}
	pkgs, err := packages.Load(cfg, "./...")
	if err != nil {
		fmt.Fprintln(os.Stderr, err)
		os.Exit(2)
	}
	var sites []site
	for _, p := range pkgs {
		if len(p.Errors) > 0 {
			fmt.Fprintln(os.Stderr, "package errors:", p.PkgPath, p.Errors[0])
			os.Exit(2)
		}
		for _, f := range p.Syntax {
			rel, _ := filepath.Rel(*repo, p.Fset.File(f.Pos()).Name())
			if strings.HasPrefix(rel, "cmd/") || strings.HasPrefix(rel, "test/") || strings.HasPrefix(rel, "antlr/") || strings.HasPrefix(rel, "services/") {
				continue
			}
			for _, d := range f.Decls {
				fd, ok := d.(*ast.FuncDecl)
				if !ok || fd.Body == nil {
					continue
				}
				name := fd.Name.Name
				if fd.Recv != nil && len(fd.Recv.List) > 0 {
					name = exprText(p.Fset, fd.Recv.List[0].Type) + "." + name
				}
				n := 0
				ast.Inspect(fd.Body, func(nd ast.Node) bool {
					rs, ok := nd.(*ast.RangeStmt)
					if !ok {
						return true
					}
					t := p.TypesInfo.TypeOf(rs.X)
					if t == nil {
						return true
					}
					if _, isMap := t.Underlying().(*types.Map); !isMap {
						return true
					}
					c := &classifier{info: p.TypesInfo, fn: fd.Body, loop: rs}
					sum := sha256.Sum256([]byte(exprText(p.Fset, rs)))
					sites = append(sites, site{File: rel, Func: name, Expr: exprText(p.Fset, rs.X), Nth: n, Class: c.classify(), Digest: hex.EncodeToString(sum[:])[:12]})
					n++
					return true
				})
			}
		}
	}
	sort.Slice(sites, func(i, j int) bool {
		a, b := sites[i], sites[j]
		if a.File != b.File {
			return a.File < b.File
		}
		if a.Func != b.Func {
			return a.Func < b.Func
		}
		return a.Nth < b.Nth
	})
	var b strings.Builder
	b.WriteString("-- GENERATED by gfmaps; do not edit\nnamespace GoflowModel.Gen.MapRanges\n\n/-- (file, function, ranged expression, ordinal, classification, classification is one of the order-independent shapes, digest of the loop's text) -/\ndef sites : List (String × String × String × Nat × String × Bool × String) := [\n")
	for i, s := range sites {
		sep := ","
		if i == len(sites)-1 {
			sep = ""
		}
		shape := "false"
		if s.Class == "sorted-after" || s.Class == "no-effect" || s.Class == "count-only" || strings.HasPrefix(s.Class, "insensitive:") {
			shape = "true"
		}
		fmt.Fprintf(&b, "  (%s, %s, %s, %d, %s, %s, %s)%s\n", leanStr(s.File), leanStr(s.Func), leanStr(s.Expr), s.Nth, leanStr(s.Class), shape, leanStr(s.Digest), sep)
	}
	b.WriteString("]\n\nend GoflowModel.Gen.MapRanges\n")
	old, err := os.ReadFile(*out)
	if err != nil || string(old) != b.String() {
		if err := os.WriteFile(*out, []byte(b.String()), 0o644); err != nil {
			fmt.Fprintln(os.Stderr, err)
			os.Exit(2)
		}
	}
	pu, ur := redactionCensus(pkgs, *repo)
	emitRedaction(pu, ur, filepath.Join(filepath.Dir(*out), "Redaction.lean"))
	ws := fieldWrites(pkgs, *repo)
	emitWrites(ws, globalWrites(pkgs, *repo), filepath.Join(filepath.Dir(*out), "FieldWrites.lean"))
	fmt.Printf("gfmaps: %d map-range sites, %d receiver field writes\n", len(sites), len(ws))
}
