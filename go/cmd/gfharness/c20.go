package main

import (
	"io"
	"net/http"

	"github.com/nyaruka/gocommon/httpx"
	"encoding/json"
	"fmt"
	"os"
	"path/filepath"
	"sort"
	"strings"

	"github.com/nyaruka/gocommon/i18n"
	"github.com/nyaruka/gocommon/urns"
	"github.com/nyaruka/goflow/assets"
	"github.com/nyaruka/goflow/flows/definition"
	"github.com/nyaruka/goflow/flows/inspect"
	"github.com/nyaruka/goflow/assets/static"
	"github.com/nyaruka/goflow/envs"
	"github.com/nyaruka/goflow/flows"
	"github.com/nyaruka/goflow/flows/engine"
	"github.com/nyaruka/goflow/flows/events"
	"github.com/nyaruka/goflow/flows/resumes"
	"github.com/nyaruka/goflow/flows/triggers"
	"github.com/nyaruka/goflow/test"
	"github.com/nyaruka/goflow/utils"
)

func init() {
	register("C20", "flows assembled from every action definition in flows/actions/testdata (all registered action types, with the repository's own asset file) plus generated "+
		"switch/random routers with result names and waits, executed with a manual trigger and msg resumes; every run_result_changed, every exit left from a wait and every "+
		"asset touched (groups, fields, labels, flows, topics, users, templates, classifiers, globals) is checked against Inspect(); non-trivial = distinct (action types present, results saved, dependency kinds touched)", runC20)
}

func loadActionPalette() (assetsJSON map[string]json.RawMessage, palette []json.RawMessage, err error) {
	dir := "/repo/flows/actions/testdata"
	b, err := os.ReadFile(filepath.Join(dir, "_assets.json"))
	if err != nil {
		return nil, nil, err
	}
	if err := json.Unmarshal(b, &assetsJSON); err != nil {
		return nil, nil, err
	}
	files, _ := filepath.Glob(filepath.Join(dir, "*.json"))
	sort.Strings(files)
	for _, f := range files {
		if strings.HasPrefix(filepath.Base(f), "_") {
			continue
		}
		b, err := os.ReadFile(f)
		if err != nil {
			return nil, nil, err
		}
		var tests []struct {
			Action    json.RawMessage `json:"action"`
			ReadError string          `json:"read_error"`
			NoContact bool            `json:"no_contact"`
		}
		if err := json.Unmarshal(b, &tests); err != nil {
			continue
		}
		for _, t := range tests {
			if t.Action != nil && t.ReadError == "" {
				palette = append(palette, t.Action)
			}
		}
	}
	return
}

// answers webhook and resthook calls from the URL alone: every status a subscriber can answer with
type c20Requestor struct{}

func (c20Requestor) Do(client *http.Client, request *http.Request) (*http.Response, error) {
	body, status := `{"ok":true}`, 200
	u := request.URL.String()
	switch {
	case strings.Contains(u, "gone"):
		body, status = "gone", 410
	case strings.Contains(u, "unavailable"):
		body, status = "unavailable", 503
	case strings.Contains(u, "missing"):
		body, status = "not found", 404
	case strings.Contains(u, "refused"):
		return nil, fmt.Errorf("connection refused")
	}
	return &http.Response{Status: fmt.Sprintf("%d X", status), StatusCode: status, Proto: "HTTP/1.1", ProtoMajor: 1, ProtoMinor: 1,
		Header: http.Header{"Content-Type": []string{"application/json"}}, Body: io.NopCloser(strings.NewReader(body)), ContentLength: int64(len(body)), Request: request}, nil
}

func runC20(c *Ctx) {
	r := c.Rng
	httpx.SetRequestor(c20Requestor{})
	defer httpx.SetRequestor(httpx.DefaultRequestor)
	base, palette, err := loadActionPalette()
	if err != nil || len(palette) < 50 {
		c.Fail("monitor", "harness", "palette-unavailable", fmt.Sprintf("cannot load the action palette from the repository testdata: %v (%d actions)", err, len(palette)), nil)
		return
	}
	c.Dist["palette-actions"] = len(palette)
	// the static (query-less) groups of the repository's test assets: has_group cases name them
	var staticGroups []struct{ UUID, Name, Query string }
	json.Unmarshal(base["groups"], &staticGroups)
	{
		var kept []struct{ UUID, Name, Query string }
		for _, g := range staticGroups {
			if g.Query == "" {
				kept = append(kept, g)
			}
		}
		staticGroups = kept
	}
	env := envs.NewBuilder().WithAllowedLanguages("eng", "spa").WithDefaultCountry("US").Build()
	n := c.N(600, 30000)
	for i := 0; i < n; i++ {
		us := &uuidSeq{n: i * 1000}
		flowUUID, childUUID := us.next(), us.next()
		// unique action UUIDs
		pickActions := func(k int) []json.RawMessage {
			var out []json.RawMessage
			for j := 0; j < k; j++ {
				var a map[string]any
				json.Unmarshal(Pick(r, palette), &a)
				a["uuid"] = us.next()
				if a["type"] == "enter_flow" {
					a["flow"] = map[string]any{"uuid": childUUID, "name": "Child"}
					a["terminal"] = false
				}
				b, _ := json.Marshal(a)
				out = append(out, b)
			}
			return out
		}
		type exitDef struct{ uuid string }
		mkRouter := func(wait bool, dests []string) (map[string]any, []map[string]any) {
			ncat := r.Range(1, 3)
			var cats, cases, exits []map[string]any
			for k := 0; k < ncat; k++ {
				eu := us.next()
				ex := map[string]any{"uuid": eu}
				if d := Pick(r, dests); d != "" {
					ex["destination_uuid"] = d
				}
				exits = append(exits, ex)
				cu := us.next()
				cats = append(cats, map[string]any{"uuid": cu, "name": Pick(r, []string{"Red", "Blue", "Other", "Yes"}), "exit_uuid": eu})
				if k > 0 {
					if len(staticGroups) > 0 && r.Chance(25) {
						// a fixed group: a dependency. Test names are lower-case; other spellings must be refused when the flow is
						// read, or be treated like the lower-case one by everything, inspection included
						g := Pick(r, staticGroups)
						typ := Pick(r, []string{"has_group", "has_group", "has_group", "HAS_GROUP", "Has_Group"})
						cases = append(cases, map[string]any{"uuid": us.next(), "type": typ, "arguments": []string{g.UUID, g.Name}, "category_uuid": cu})
					} else {
						cases = append(cases, map[string]any{"uuid": us.next(), "type": "has_any_word", "arguments": []string{Pick(r, []string{"red", "blue", "yes"})}, "category_uuid": cu})
					}
				}
			}
			if cases == nil {
				cases = []map[string]any{}
			}
			router := map[string]any{"type": "switch", "operand": "@input.text", "cases": cases, "categories": cats, "default_category_uuid": cats[0]["uuid"]}
			if r.Chance(25) && !wait {
				router = map[string]any{"type": "random", "categories": cats}
			}
			if wait {
				router["wait"] = map[string]any{"type": "msg"}
			}
			if r.Chance(70) {
				router["result_name"] = Pick(r, []string{"Color", "Fav Color", "Answer", "Ticket", "Intent"})
			}
			return router, exits
		}
		n1, n2, n3, n4 := us.next(), us.next(), us.next(), us.next()
		r2, e2 := mkRouter(true, []string{n3, n3, n2, ""})
		r4, e4 := mkRouter(false, []string{"", n2, ""})
		// an action on the router's own node saving the same result name with another category
		sameNode := func(router map[string]any) []json.RawMessage {
			rn, ok := router["result_name"].(string)
			if !ok || !r.Chance(50) {
				return nil
			}
			b, _ := json.Marshal(map[string]any{"uuid": us.next(), "type": "set_run_result", "name": rn, "value": "v", "category": Pick(r, []string{"Pending", "Red", "Maybe"})})
			return []json.RawMessage{b}
		}
		trOnly := us.next() // a send_msg whose quick replies exist only in a translation
		trOnlyAction, _ := json.Marshal(map[string]any{"uuid": trOnly, "type": "send_msg", "text": "hola"})
		n1Actions := pickActions(r.Range(1, 4))
		localization := map[string]any{}
		if r.Chance(50) {
			n1Actions = append(n1Actions, trOnlyAction)
			localization["spa"] = map[string]any{trOnly: map[string]any{"quick_replies": []string{"@globals.org_name", "@fields.gender"}, "attachments": []string{"image/jpeg:http://x.com/@fields.age"}}}
		}
		if r.Chance(40) {
			// fields and globals whose keys are also names of functions and router tests
			refs := []string{"@fields.title", "@contact.fields.code", "@(fields.date)", "@globals.count", "@(globals.min & fields.text)", "@fields.number", "@(upper(contact.fields.title))", "@globals.max",
				// the contact is also reachable through the run
				"@run.contact.fields.code", "@(run.contact.fields.title)"}
			b, _ := json.Marshal(map[string]any{"uuid": us.next(), "type": "send_msg", "text": "Dear " + Pick(r, refs) + " / " + Pick(r, refs)})
			n1Actions = append(n1Actions, b)
		}
		if r.Chance(35) {
			// resthooks whose subscribers answer with every kind of status; webhooks likewise
			if r.Bool() {
				b, _ := json.Marshal(map[string]any{"uuid": us.next(), "type": "call_resthook", "resthook": Pick(r, []string{"all-gone", "one-gone", "gone-and-down", "gone-and-fine", "refused", "missing", "unpopular-resthook"}),
					"result_name": Pick(r, []string{"Hook", "Color"})})
				n1Actions = append(n1Actions, b)
			} else {
				b, _ := json.Marshal(map[string]any{"uuid": us.next(), "type": "call_webhook", "method": "GET", "url": Pick(r, []string{"http://gone1.com/", "http://unavailable.com/", "http://refused.com/", "http://fine.com/", "http://missing.com/"}),
					"result_name": Pick(r, []string{"Hook", "Answer"})})
				n1Actions = append(n1Actions, b)
			}
		}
		n2node := map[string]any{"uuid": n2, "router": r2, "exits": e2}
		if a := sameNode(r2); a != nil {
			n2node["actions"] = a
		}
		n4node := map[string]any{"uuid": n4, "router": r4, "exits": e4}
		if a := sameNode(r4); a != nil {
			n4node["actions"] = a
		}
		nodes := []map[string]any{
			{"uuid": n1, "actions": n1Actions, "exits": []map[string]any{{"uuid": us.next(), "destination_uuid": n2}}},
			n2node,
			{"uuid": n3, "actions": pickActions(r.Range(1, 4)), "exits": []map[string]any{{"uuid": us.next(), "destination_uuid": n4}}},
			n4node,
		}
		rc, ec := mkRouter(true, []string{""})
		child := map[string]any{"uuid": childUUID, "name": "Child", "spec_version": "13.6.0", "language": "eng", "type": "messaging", "revision": 1, "expire_after_minutes": 60,
			"localization": map[string]any{}, "nodes": []map[string]any{{"uuid": us.next(), "actions": pickActions(1), "router": rc, "exits": ec}}}
		main := map[string]any{"uuid": flowUUID, "name": "Main", "spec_version": "13.6.0", "language": "eng", "type": "messaging", "revision": 1, "expire_after_minutes": 60,
			"localization": localization, "nodes": nodes}
		all := map[string]any{}
		for k, v := range base {
			all[k] = v
		}
		all["flows"] = []any{main, child}
		{
			var fs, gs []any
			json.Unmarshal(base["fields"], &fs)
			json.Unmarshal(base["globals"], &gs)
			for k, key := range []string{"title", "code", "date", "text", "number"} {
				fs = append(fs, map[string]any{"uuid": fmt.Sprintf("7a1f5c2e-0000-4000-8000-0000000000%02d", k), "key": key, "name": strings.ToUpper(key[:1]) + key[1:], "type": "text"})
			}
			for _, key := range []string{"count", "min", "max"} {
				gs = append(gs, map[string]any{"key": key, "name": strings.ToUpper(key[:1]) + key[1:], "value": "7"})
			}
			all["fields"], all["globals"] = fs, gs
			var rh []any
			json.Unmarshal(base["resthooks"], &rh)
			rh = append(rh, map[string]any{"slug": "all-gone", "subscribers": []string{"http://gone1.com/", "http://gone2.com/"}},
				map[string]any{"slug": "one-gone", "subscribers": []string{"http://gone1.com/"}},
				map[string]any{"slug": "gone-and-down", "subscribers": []string{"http://gone1.com/", "http://unavailable.com/"}},
				map[string]any{"slug": "gone-and-fine", "subscribers": []string{"http://gone1.com/", "http://fine.com/"}},
				map[string]any{"slug": "refused", "subscribers": []string{"http://refused.com/"}},
				map[string]any{"slug": "missing", "subscribers": []string{"http://missing.com/", "http://gone2.com/"}})
			all["resthooks"] = rh
		}
		aj, _ := json.Marshal(all)
		desc := map[string]any{"flows": []any{main, child}, "seed": i}
		src, err := static.NewSource(aj)
		if err != nil {
			c.Count("C20-assets-rejected")
			continue
		}
		sa, err := engine.NewSessionAssets(env, src, nil)
		if err != nil {
			c.Count("C20-assets-rejected")
			continue
		}
		defJSON := map[string]string{}
		mb, _ := json.Marshal(main)
		cb, _ := json.Marshal(child)
		defJSON[flowUUID], defJSON[childUUID] = string(mb), string(cb)
		flowsByUUID := map[string]flows.Flow{}
		bad := false
		for _, fu := range []string{flowUUID, childUUID} {
			f, err := sa.Flows().Get(assets.FlowUUID(fu))
			if err != nil {
				bad = true
				c.Notes = appendNote(c.Notes, "flow rejected: "+truncate(err.Error(), 200))
				break
			}
			flowsByUUID[fu] = f
		}
		if bad {
			c.Count("C20-flow-rejected")
			continue
		}
		// ---- inspection --------------------------------------------------------------------
		type insp struct {
			results map[string][]string
			waiting map[string]bool
			deps    map[string]bool
		}
		inspections := map[string]*insp{}
		okInspect := !c.Guard("C20-inspect", "panic:Inspect", desc, func() {
			for fu, f := range flowsByUUID {
				in := f.Inspect(sa)
				x := &insp{results: map[string][]string{}, waiting: map[string]bool{}, deps: map[string]bool{}}
				for _, rs := range in.Results {
					x.results[rs.Key] = append(x.results[rs.Key], rs.Categories...)
					if len(rs.Categories) == 0 {
						x.results[rs.Key] = append(x.results[rs.Key], "*")
					}
				}
				for _, e := range in.WaitingExits {
					x.waiting[string(e)] = true
				}
				for _, d := range in.Dependencies {
					x.deps[d.Reference().Type()+":"+d.Reference().Identity()] = true
				}
				inspections[fu] = x
			}
		})
		if !okInspect {
			continue
		}
		// ---- execution -----------------------------------------------------------------------
		eng := test.NewEngine()
		var session flows.Session
		type obs struct {
			run flows.Run
			ev  flows.Event
		}
		var observed []obs
		leftWaitBy := []string{}
		ok := !c.Guard("C20-run", "panic:run", desc, func() {
			restore := setDeterministic(int64(i))
			defer restore()
			contact := flows.NewEmptyContact(sa, "Ann", i18n.Language(Pick(r, []string{"eng", "spa"})), nil)
			contact.AddURN(urns.URN("tel:+12065550100"), nil)
			trig := triggers.NewBuilder(env, assets.NewFlowReference(assets.FlowUUID(flowUUID), "Main"), contact).Manual().Build()
			s, _, err := eng.NewSession(sa, trig)
			if err != nil {
				c.Count("C20-go-error")
				c.Notes = appendNote(c.Notes, "go error: "+truncate(err.Error(), 200))
				return
			}
			session = s
			for k := 0; k < 4 && s.Status() == flows.SessionStatusWaiting; k++ {
				var wrun flows.Run
				for _, rn := range s.Runs() {
					if rn.Status() == flows.RunStatusWaiting {
						wrun = rn
					}
				}
				wstep := len(wrun.Path()) - 1
				_, err := s.Resume(resumes.NewMsg(nil, nil, flows.NewMsgIn(flows.MsgUUID(us.next()), "tel:+12065550100", nil, Pick(r, []string{"red", "blue", "yes", "hmm"}), nil)))
				if err != nil {
					c.Count("C20-go-error")
					c.Notes = appendNote(c.Notes, "go error: "+truncate(err.Error(), 200))
					return
				}
				if eu := wrun.Path()[wstep].ExitUUID(); eu != "" {
					leftWaitBy = append(leftWaitBy, string(wrun.FlowReference().UUID)+"|"+string(eu))
				}
			}
			for _, rn := range s.Runs() {
				for _, e := range rn.Events() {
					observed = append(observed, obs{rn, e})
				}
			}
		})
		if !ok || session == nil {
			continue
		}
		// ---- the three clauses ---------------------------------------------------------------
		kinds := map[string]bool{}
		fail := func(sig, what string) { c.Fail("monitor", "M-inspect", sig, what, desc) }
		for _, o := range observed {
			in := inspections[string(o.run.FlowReference().UUID)]
			if in == nil {
				continue
			}
			need := func(typ, id string) {
				// only fixed references count: the asset must be named in the flow's definition (not reached through an expression)
				if !strings.Contains(defJSON[string(o.run.FlowReference().UUID)], "\""+id+"\"") {
					c.Count("touched-through-expression:" + typ)
					return
				}
				kinds[typ] = true
				if !in.deps[typ+":"+id] {
					sig := "dependency-missing:" + typ
					fail(sig, fmt.Sprintf("the run touched %s %s (event %s) which inspection does not list as a dependency", typ, id, o.ev.Type()))
				}
			}
			switch e := o.ev.(type) {
			case *events.RunResultChangedEvent:
				key := utils.Snakify(e.Name)
				cats, listed := in.results[key]
				kinds["result"] = true
				saver := actionTypeAt(flowsByUUID[string(o.run.FlowReference().UUID)], o.run, e)
				if saver == "open_ticket" && (!listed || (!contains(cats, "*") && !contains(cats, e.Category))) {
					fail("inspect-missing-result:open_ticket", fmt.Sprintf("open_ticket saved result %q (key %s, category %s) which inspection does not declare", e.Name, key, e.Category))
				} else if !listed {
					fail("inspect-missing-result", fmt.Sprintf("the run saved result %q (key %s) which inspection does not list", e.Name, key))
				} else if e.Category != "" && !contains(cats, "*") && !contains(cats, e.Category) {
					// a result saved without a category has nothing to be listed; several savers may share a key; categories are merged per key only from the first - be exact: any listed spec with open categories allows all
					fail("inspect-missing-category", fmt.Sprintf("result %s was saved with category %q, inspection lists %v", key, e.Category, cats))
				}
			case *events.ContactGroupsChangedEvent:
				for _, g := range append(append([]*assets.GroupReference{}, e.GroupsAdded...), e.GroupsRemoved...) {
					if grp := sa.Groups().Get(g.UUID); grp != nil && !grp.UsesQuery() {
						need("group", string(g.UUID))
					}
				}
			case *events.ContactFieldChangedEvent:
				need("field", e.Field.Key)
			case *events.InputLabelsAddedEvent:
				for _, l := range e.Labels {
					need("label", string(l.UUID))
				}
			case *events.FlowEnteredEvent:
				need("flow", string(e.Flow.UUID))
			case *events.TicketOpenedEvent:
				if e.Ticket.Topic != nil {
					kinds["topic"] = true
					if !in.deps["topic:"+string(e.Ticket.Topic.UUID)] {
						sig := "dependency-missing:topic"
						if e.Ticket.Topic.Name == "General" && !strings.Contains(defJSON[string(o.run.FlowReference().UUID)], string(e.Ticket.Topic.UUID)) {
							sig = "dependency-missing:topic:implicit-default"
						}
						fail(sig, fmt.Sprintf("a ticket was opened with topic %s which inspection does not list as a dependency", e.Ticket.Topic.Name))
					}
				}
				if e.Ticket.Assignee != nil {
					need("user", e.Ticket.Assignee.Email)
				}
			case *events.MsgCreatedEvent:
				if t := e.Msg.Templating(); t != nil {
					need("template", string(t.Template.UUID))
				}
			case *events.ClassifierCalledEvent:
				need("classifier", string(e.Classifier.UUID))
			}
		}
		for _, lw := range leftWaitBy {
			parts := strings.SplitN(lw, "|", 2)
			kinds["waiting-exit"] = true
			if in := inspections[parts[0]]; in != nil && !in.waiting[parts[1]] {
				fail("waiting-exit-missing", "a resumed run left its wait through exit "+parts[1]+" which inspection does not list as a waiting exit")
			}
		}
		// groups named by has_group cases, read from the definition itself
		for fu := range flowsByUUID {
			var def struct {
				Nodes []struct {
					Router *struct {
						Cases []struct {
							Type      string   `json:"type"`
							Arguments []string `json:"arguments"`
						} `json:"cases"`
					} `json:"router"`
				} `json:"nodes"`
			}
			json.Unmarshal([]byte(defJSON[fu]), &def)
			for _, nd := range def.Nodes {
				if nd.Router == nil {
					continue
				}
				for _, cs := range nd.Router.Cases {
					if strings.ToLower(cs.Type) == "has_group" && len(cs.Arguments) > 0 {
						kinds["group-case"] = true
						if !inspections[fu].deps["group:"+cs.Arguments[0]] {
							fail("dependency-missing:group-case", "a switch case ("+cs.Type+") tests membership of group "+cs.Arguments[0]+" which inspection does not list")
						}
					}
				}
			}
		}
		// template-borne globals and fields: statically named references anywhere in the definition, translations included
		// (scanned from the JSON text, independently of the flow's own template extraction)
		for fu := range flowsByUUID {
			in := inspections[fu]
			var strs []string
			collectStrings(json.RawMessage(defJSON[fu]), &strs)
			for _, t := range strs {
				if !strings.Contains(t, "@") {
					continue
				}
				for _, g := range findRefs(t, "globals") {
					kinds["global"] = true
					if sa.Globals().Get(g) != nil && !in.deps["global:"+g] {
						fail("dependency-missing:global", "template "+t+" references global "+g+" which inspection does not list")
					}
				}
				for _, fk := range findRefs(t, "fields") {
					kinds["field-ref"] = true
					if sa.Fields().Get(fk) != nil && !in.deps["field:"+fk] {
						fail("dependency-missing:field", "template "+t+" references field "+fk+" which inspection does not list")
					}
				}
			}
		}
		var ks []string
		for k := range kinds {
			ks = append(ks, k)
		}
		sort.Strings(ks)
		c.Eval(strings.Join(ks, ","))
		c.Count("check:M-inspect")
		if i < 2 {
			c.Sample(map[string]any{"kinds_observed": ks, "events": len(observed), "left_waits_by": len(leftWaitBy)})
		}

		// ---- K: the model's declared keys and waiting exits vs Inspect() -----------------------
		for fu, def := range map[string]map[string]any{flowUUID: main, childUUID: child} {
			spec, exitIDs := c20ModelSpec(def)
			in := inspections[fu]
			var keys []string
			for k := range in.results {
				keys = append(keys, hx(k))
			}
			sort.Strings(keys)
			var wex []string
			for eu := range in.waiting {
				wex = append(wex, fmt.Sprint(exitIDs[eu]))
			}
			sort.Strings(wex)
			c.Model("inspect", "inspect "+spec, "keys "+encList(keys, ",")+" waiting "+encList(wex, ","), desc)
		}
	}
	// ---- K: what inspection reads off one context path ----
	c20ContextRefs(c)
	// ---- K: the merge of extracted results ----
	c20ResultSpecs(c)
}

// statically named references @top.key / @(… top.key …) in a template
// K:ctxref — what inspection reads off one context path (inspect.ExtractFromTemplate on "@(a.b.c)") against the model's
// classification over the regenerated table of field paths: every documented way to a contact's fields, other paths that
// look like them, every case, keys that are also names of functions
func c20ContextRefs(c *Ctx) {
	r := c.Rng
	heads := [][]string{{"fields"}, {"contact", "fields"}, {"run", "contact", "fields"}, {"parent", "fields"}, {"parent", "contact", "fields"}, {"child", "fields"},
		{"child", "contact", "fields"}, {"globals"}, {"parent", "results"}, {"results"}, {"run", "results"}, {"child", "results"}, {"run", "fields"}, {"trigger", "contact", "fields"},
		{"contact"}, {"parent"}, {"urns"}, {"parent", "run", "contact", "fields"}, {"x", "fields"}, {"upper", "fields"}, {"contact", "contact", "fields"}}
	keys := []string{"age", "Gender", "title", "date", "number", "count", "org_name", "x", "fields", "results", "contact", "a1_b"}
	vary := func(s string) string {
		switch r.Intn(4) {
		case 0:
			return strings.ToUpper(s)
		case 1:
			return strings.ToUpper(s[:1]) + s[1:]
		}
		return s
	}
	for i := 0; i < c.N(1500, 40000); i++ {
		var path []string
		for _, h := range Pick(r, heads) {
			path = append(path, vary(h))
		}
		for k := r.Intn(3); k > 0; k-- {
			path = append(path, vary(Pick(r, keys)))
		}
		if r.Chance(5) {
			path = path[:1]
		}
		tpl := "@(" + strings.Join(path, ".") + ")"
		desc := map[string]any{"template": tpl}
		exp := "none"
		if c.Guard("K-ctxref", "panic:extract", desc, func() {
			refs, parents := inspect.ExtractFromTemplate(tpl)
			var out []string
			for _, p := range parents {
				out = append(out, "parentresult:"+hx(p))
			}
			for _, rf := range refs {
				switch ref := rf.(type) {
				case *assets.FieldReference:
					out = append(out, "field:"+hx(ref.Key))
				case *assets.GlobalReference:
					out = append(out, "global:"+hx(ref.Key))
				default:
					out = append(out, "other")
				}
			}
			sort.Strings(out)
			if len(out) > 0 {
				exp = strings.Join(out, ";")
			}
		}) {
			continue
		}
		var enc []string
		for _, p := range path {
			enc = append(enc, hx(p))
		}
		c.Eval("ctxref|" + strings.ToLower(strings.Join(path[:len(path)-1], ".")) + "|" + strings.SplitN(exp, ":", 2)[0])
		c.Model("ctxref", "ctxref "+strings.Join(enc, ","), exp, desc)
	}
}

// K:rspecs — flows.NewResultSpecs (the merge of the extracted results into the inspection's results) against its model: keys
// shared by several results on the same and on other nodes, categories repeated in other spellings, results without categories
func c20ResultSpecs(c *Ctx) {
	r := c.Rng
	names := []string{"Color", "Fav Color", "Status", "N"}
	catPool := []string{"Red", "red", "RED", "Blue", "Other", "Yes", "yes", "Pending", "Known", ""}
	nodeUUID := func(k int) string { return fmt.Sprintf("1fb823c3-599a-41e9-b59b-65826600000%d", k) }
	var nodes []flows.Node
	for k := 0; k < 4; k++ {
		nodes = append(nodes, definition.NewNode(flows.NodeUUID(nodeUUID(k)), nil, nil, []flows.Exit{definition.NewExit(flows.ExitUUID(fmt.Sprintf("3c158842-24f3-4a40-bea4-75229520000%d", k)), "")}))
	}
	for i := 0; i < c.N(1500, 60000); i++ {
		n := r.Intn(7)
		var extracted []flows.ExtractedResult
		var enc []string
		for k := 0; k < n; k++ {
			ni, nd := r.Intn(len(names)), r.Intn(len(nodes))
			var cats []string
			for q := r.Intn(4); q > 0; q-- {
				cats = append(cats, Pick(r, catPool))
			}
			var hs []string
			for _, ct := range cats {
				hs = append(hs, hx(ct))
			}
			cs := "_"
			if len(hs) > 0 {
				cs = strings.Join(hs, ",")
			}
			extracted = append(extracted, flows.ExtractedResult{Node: nodes[nd], Info: flows.NewResultInfo(names[ni], append([]string{}, cats...))})
			enc = append(enc, fmt.Sprintf("%d:%d:%d:%s", ni, ni, nd, cs))
		}
		desc := map[string]any{"extracted": enc}
		exp := "_"
		if c.Guard("K-rspecs", "panic:NewResultSpecs", desc, func() {
			var out []string
			for _, sp := range flows.NewResultSpecs(extracted) {
				ni := -1
				for k, nm := range names {
					if nm == sp.Name {
						ni = k
					}
				}
				var hs, ns []string
				for _, ct := range sp.Categories {
					hs = append(hs, hx(ct))
				}
				for _, u := range sp.NodeUUIDs {
					ns = append(ns, u[len(u)-1:])
				}
				cs := "_"
				if len(hs) > 0 {
					cs = strings.Join(hs, ",")
				}
				out = append(out, fmt.Sprintf("%d:%d:%s:%s", ni, ni, cs, strings.Join(ns, ",")))
			}
			if len(out) > 0 {
				exp = strings.Join(out, ";")
			}
		}) {
			continue
		}
		op := "_"
		if len(enc) > 0 {
			op = strings.Join(enc, ";")
		}
		c.Eval(fmt.Sprintf("rspecs|%d|%d", n, strings.Count(exp, ";")))
		c.Model("rspecs", "rspecs "+op, exp, desc)
	}
}

func findRefs(t, top string) []string {
	var out []string
	lower := strings.ToLower(t)
	idx := 0
	for {
		j := strings.Index(lower[idx:], top+".")
		if j < 0 {
			break
		}
		start := idx + j + len(top) + 1
		end := start
		for end < len(lower) && (lower[end] == '_' || lower[end] >= 'a' && lower[end] <= 'z' || lower[end] >= '0' && lower[end] <= '9') {
			end++
		}
		viaContact := top == "fields" && strings.HasSuffix(lower[:idx+j], "@contact.") || strings.HasSuffix(lower[:idx+j], "(contact.") ||
			top == "fields" && (strings.HasSuffix(lower[:idx+j], "@run.contact.") || strings.HasSuffix(lower[:idx+j], "(run.contact."))
		if end > start && (idx+j == 0 || viaContact || !(lower[idx+j-1] >= 'a' && lower[idx+j-1] <= 'z' || lower[idx+j-1] == '_' || lower[idx+j-1] == '.')) {
			out = append(out, lower[start:end])
		}
		idx = end
		if idx >= len(lower) {
			break
		}
	}
	return out
}

// which action type produced the result event: the action on the event's step node whose result name matches
func actionTypeAt(f flows.Flow, run flows.Run, e *events.RunResultChangedEvent) string {
	for _, st := range run.Path() {
		if st.UUID() == e.StepUUID() {
			if n := f.GetNode(st.NodeUUID()); n != nil {
				for _, a := range n.Actions() {
					b, _ := json.Marshal(a)
					var m map[string]any
					json.Unmarshal(b, &m)
					if rn, _ := m["result_name"].(string); rn == e.Name {
						return a.Type()
					}
					if rn, _ := m["name"].(string); rn == e.Name && a.Type() == "set_run_result" {
						return a.Type()
					}
				}
			}
		}
	}
	return ""
}

// encoding of a definition for the model's `inspect` op: nodes `;`, node = actions `,` (kind~resultName) | router | exits
func c20ModelSpec(def map[string]any) (string, map[string]int) {
	exitIDs := map[string]int{}
	var ns []string
	for _, n := range def["nodes"].([]map[string]any) {
		var acts []string
		if as, ok := n["actions"].([]json.RawMessage); ok {
			for _, raw := range as {
				var a map[string]any
				json.Unmarshal(raw, &a)
				rn := "*"
				if v, ok := a["result_name"].(string); ok && v != "" {
					rn = hx(utils.Snakify(v))
				}
				if a["type"] == "set_run_result" {
					if v, ok := a["name"].(string); ok {
						rn = hx(utils.Snakify(v))
					}
				}
				acts = append(acts, fmt.Sprintf("%s~%s", a["type"], rn))
			}
		}
		router := "-"
		if r, ok := n["router"].(map[string]any); ok {
			rn := "*"
			if v, ok := r["result_name"].(string); ok {
				rn = hx(utils.Snakify(v))
			}
			_, hasWait := r["wait"]
			router = fmt.Sprintf("%s~%s", rn, b01(hasWait))
		}
		var exs []string
		for _, e := range n["exits"].([]map[string]any) {
			id := len(exitIDs)
			exitIDs[e["uuid"].(string)] = id
			exs = append(exs, fmt.Sprint(id))
		}
		ns = append(ns, encList(acts, ",")+"|"+router+"|"+encList(exs, ","))
	}
	return strings.Join(ns, ";"), exitIDs
}

// every JSON string value in a document
func collectStrings(raw json.RawMessage, out *[]string) {
	var v any
	if json.Unmarshal(raw, &v) != nil {
		return
	}
	var walk func(x any)
	walk = func(x any) {
		switch t := x.(type) {
		case string:
			*out = append(*out, t)
		case []any:
			for _, e := range t {
				walk(e)
			}
		case map[string]any:
			for _, e := range t {
				walk(e)
			}
		}
	}
	walk(v)
}
