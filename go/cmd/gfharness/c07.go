package main

import (
	"encoding/json"
	"fmt"
	"strings"

	"github.com/nyaruka/gocommon/i18n"
	"github.com/nyaruka/gocommon/random"
	"github.com/nyaruka/goflow/assets"
	"github.com/nyaruka/goflow/assets/static"
	"github.com/nyaruka/goflow/envs"
	"github.com/nyaruka/goflow/excellent"
	"github.com/nyaruka/goflow/excellent/types"
	"github.com/nyaruka/goflow/flows"
	"github.com/nyaruka/goflow/flows/engine"
	"github.com/nyaruka/goflow/flows/resumes"
	"github.com/nyaruka/goflow/flows/routers/cases"
	"github.com/nyaruka/goflow/flows/triggers"
	"github.com/nyaruka/goflow/utils"
)

func init() {
	register("C07", "one-node flows with generated switch routers (0-6 cases over registered tests, duplicate categories, with/without default, localized argument "+
		"lists of equal and unequal length, arguments that are expressions or evaluate to errors), operands of every kind, timeout resumes and seeded random draws; "+
		"each case's outcome is obtained from the real test function, the routing decision is compared; non-trivial = distinct (outcome vector, default?, exit, result saved)", runC07)
}

type c07Case struct {
	uuid, test string
	args     []string
	fraArgs  []string // localized arguments, nil = no translation
	cat      int
}

var c07Tests = []struct {
	name string
	args [][]string
}{
	// arguments that are text around an expression that fails: the argument is what is left of the text (an error is logged)
	{"has_any_word", [][]string{{"red blue"}, {"yes"}, {"@contact.name"}, {"@(1/0)"}, {"red blue @(1/0)"}, {"@(1/0) yes @fields.nope"}, {"red@(1/0)"}}},
	{"has_all_words", [][]string{{"red blue"}, {"the"}}},
	{"has_phrase", [][]string{{"red"}, {"the red"}, {"the @(1/0)red"}, {"@(1/0) red @(upper(1/0))"}}},
	{"has_only_phrase", [][]string{{"red"}, {"yes"}}},
	{"has_beginning", [][]string{{"re"}, {"the"}, {" re"}, {"re@(1/0)"}}},
	{"has_text", [][]string{{}}},
	{"has_number", [][]string{{}}},
	{"has_number_gt", [][]string{{"5"}, {"x"}, {"@(1/0)"}}},
	{"has_number_between", [][]string{{"1", "10"}, {"5", "@fields.nope"}}},
	{"has_number_eq", [][]string{{"7"}, {"7@(1/0)"}, {"@(1/0) 7"}}},
	{"has_pattern", [][]string{{"r.d"}, {"("}, {"red "}}},
	{"has_email", [][]string{{}}},
	{"has_error", [][]string{{}}},
	{"has_only_text", [][]string{{"red"}, {"Red"}, {"red "}, {" red"}, {"\tyes please\n"}}}, // arguments are trimmed when they are evaluated
	{"has_phone", [][]string{{}}},
	{"has_state", [][]string{{}}},
	{"has_category", [][]string{{"@results.color", "Red"}, {"@results.color", " Red "}}},
}

var c07Operands = []string{"@input.text", "@(upper(input.text))", "@contact.name", "@fields.nope", "@(1/0)", "@input", "@(input.text & \" 7\")", "red", "@(array(1,2))", "@(null)"}
var c07Inputs = []string{"red", "the red fox", "blue", "7", "yes please", "", "RED", "x@y.com", "12", "rød", "re", "2024-01-02"}

func runC07(c *Ctx) {
	r := c.Rng
	env := envs.NewBuilder().WithAllowedLanguages("eng", "fra", "spa").Build()
	n := c.N(2500, 120000)
	for i := 0; i < n; i++ {
		us := &uuidSeq{n: i * 100}
		// categories and exits
		ncat := r.Range(1, 4)
		type cat struct {
			uuid, name string
			exit     int
		}
		nexits := r.Range(1, ncat)
		var exits []string
		for k := 0; k < nexits; k++ {
			exits = append(exits, us.next())
		}
		var cats []cat
		for k := 0; k < ncat; k++ {
			cats = append(cats, cat{us.next(), Pick(r, []string{"Red", "Blue", "Other", "Yes", "Timeout", "Red"}), r.Intn(nexits)})
		}
		ncase := r.Intn(7)
		var cs []c07Case
		for k := 0; k < ncase; k++ {
			t := Pick(r, c07Tests)
			args := append([]string{}, Pick(r, t.args)...)
			cc := c07Case{uuid: us.next(), test: t.name, args: args, cat: r.Intn(ncat)}
			if i%6 == 3 && len(args) > 0 {
				// every sixth flow: arguments translated throughout, into words the inputs use (so that which language's
				// arguments are tested decides the exit)
				cc.fraArgs = append([]string{}, args...)
				for ai := range cc.fraArgs {
					cc.fraArgs[ai] = Pick(r, []string{"rouge", "red", "7", "blue", "yes", "fox"})
				}
			} else if r.Chance(30) {
				switch r.Intn(4) {
				case 0:
					cc.fraArgs = append([]string{}, args...)
					for ai := range cc.fraArgs {
						cc.fraArgs[ai] = Pick(r, []string{"rouge", "red", "7", "@(1/0)", "red @(1/0)", "7@(1/0)"})
					}
				case 1:
					cc.fraArgs = append(append([]string{}, args...), "extra")
				case 2:
					cc.fraArgs = []string{}
				default:
					if len(args) > 0 {
						cc.fraArgs = args[:len(args)-1]
					} else {
						cc.fraArgs = []string{"x"}
					}
				}
			}
			cs = append(cs, cc)
		}
		def := -1
		if !r.Chance(25) {
			def = r.Intn(ncat)
		}
		resultName := ""
		if r.Chance(65) {
			resultName = Pick(r, []string{"Color", "My Answer"})
		}
		operand := Pick(r, c07Operands)
		input := Pick(r, c07Inputs)
		contactLang := Pick(r, []string{"eng", "fra", "fra", "", "spa"})
		// the flow's own language, and the language of its translations: either may be the environment's default (eng), and the
		// contact's language may be a third one (then the default's translation is the one to use)
		baseLang := Pick(r, []string{"eng", "eng", "fra", "spa"})
		trLang := Pick(r, map[string][]string{"eng": {"fra", "fra", "spa"}, "fra": {"eng", "eng", "spa"}, "spa": {"eng", "eng", "fra"}}[baseLang])
		if i%12 == 3 {
			// a contact in a third language: neither the flow's nor the one translated into, which is the environment's default
			contactLang, baseLang, trLang = Pick(r, []string{"fra", "spa"}), "", "eng"
			baseLang = map[string]string{"fra": "spa", "spa": "fra"}[contactLang]
		}
		mode := Pick(r, []string{"switch", "switch", "switch", "timeout", "random", "twice"})

		// ---- definition -------------------------------------------------------------------
		var jcats, jcases, jexits []map[string]any
		for _, ct := range cats {
			jcats = append(jcats, map[string]any{"uuid": ct.uuid, "name": ct.name, "exit_uuid": exits[ct.exit]})
		}
		nodeUUID := us.next()
		for _, e := range exits {
			ex := map[string]any{"uuid": e}
			if mode == "twice" {
				ex["destination_uuid"] = nodeUUID
			}
			jexits = append(jexits, ex)
		}
		loc := map[string]any{}
		for _, cc := range cs {
			jcases = append(jcases, map[string]any{"uuid": cc.uuid, "type": cc.test, "arguments": cc.args, "category_uuid": cats[cc.cat].uuid})
			if cc.fraArgs != nil {
				loc[cc.uuid] = map[string]any{"arguments": cc.fraArgs}
			}
		}
		if jcases == nil {
			jcases = []map[string]any{}
		}
		router := map[string]any{"type": "switch", "categories": jcats, "cases": jcases, "operand": operand}
		if def >= 0 {
			router["default_category_uuid"] = cats[def].uuid
		}
		if resultName != "" {
			router["result_name"] = resultName
		}
		tcat := r.Intn(ncat)
		if mode == "timeout" {
			router["wait"] = map[string]any{"type": "msg", "timeout": map[string]any{"seconds": 60, "category_uuid": cats[tcat].uuid}}
		}
		input2 := Pick(r, c07Inputs)
		if mode == "twice" {
			// the node waits and every exit loops back to it: the same router routes twice with different operands
			router["wait"] = map[string]any{"type": "msg"}
			router["operand"] = "@input.text"
			operand = "@input.text"
			if r.Chance(60) {
				pair := Pick(r, [][2]string{{"red", "the red fox"}, {"7", "I am 7"}, {"yes please", "yes"}, {"blue", "BLUE blue"}, {"x@y.com", "mail x@y.com"}})
				input, input2 = pair[0], pair[1]
			}
		}
		if mode == "random" {
			router = map[string]any{"type": "random", "categories": jcats}
			if resultName != "" {
				router["result_name"] = resultName
			}
		}
		flowUUID := us.next()
		def13 := map[string]any{"uuid": flowUUID, "name": "R", "spec_version": "13.6.0", "language": baseLang, "type": "messaging", "revision": 1,
			"expire_after_minutes": 60, "localization": map[string]any{trLang: loc},
			"nodes": []map[string]any{{"uuid": nodeUUID, "router": router, "exits": jexits}}}
		aj, _ := json.Marshal(map[string]any{"flows": []any{def13}, "fields": []map[string]any{{"uuid": "d66a7823-eada-40e5-9a3a-57239d4690bf", "key": "gender", "name": "Gender", "type": "text"}}})
		desc := map[string]any{"assets": json.RawMessage(aj), "input": input, "contact_language": contactLang, "mode": mode, "seed": i}
		src, err := static.NewSource(aj)
		if err != nil {
			c.Count("C07-assets-rejected")
			continue
		}
		sa, err := engine.NewSessionAssets(env, src, nil)
		if err != nil {
			c.Count("C07-assets-rejected")
			continue
		}
		if _, err := sa.Flows().Get(assets.FlowUUID(flowUUID)); err != nil {
			c.Count("C07-flow-rejected")
			c.Notes = appendNote(c.Notes, "flow rejected: "+err.Error())
			continue
		}
		eng := engine.NewBuilder().Build()

		// ---- run ---------------------------------------------------------------------------
		var session flows.Session
		var draw string
		ok := !c.Guard("C07-run", "panic:route", desc, func() {
			restore := setDeterministic(int64(i))
			defer restore()
			if mode == "random" {
				random.SetGenerator(random.NewSeededGenerator(int64(i)))
				draw = random.Decimal().String()
				random.SetGenerator(random.NewSeededGenerator(int64(i)))
			}
			contact := flows.NewEmptyContact(sa, "Ann Red", i18n.Language(contactLang), nil)
			contact.AddURN("tel:+12065550100", nil)
			tb := triggers.NewBuilder(env, assets.NewFlowReference(assets.FlowUUID(flowUUID), "R"), contact)
			var trig flows.Trigger
			if mode == "timeout" || mode == "twice" {
				trig = tb.Manual().Build()
			} else {
				trig = tb.Msg(flows.NewMsgIn("0d1c5a36-fff5-4a0f-a2c7-02f7c7f3c4a8", "tel:+12065550100", nil, input, nil)).Build()
			}
			s, _, err := eng.NewSession(sa, trig)
			if err != nil {
				c.Fail("monitor", "M-route", "go-error", "NewSession returned a Go error: "+err.Error(), desc)
				return
			}
			if mode == "timeout" {
				if _, err := s.Resume(resumes.NewWaitTimeout(nil, nil)); err != nil {
					c.Fail("monitor", "M-route", "go-error", "Resume returned an error: "+err.Error(), desc)
					return
				}
			}
			if mode == "twice" {
				for _, in := range []string{input, input2} {
					if s.Status() != flows.SessionStatusWaiting {
						break
					}
					if _, err := s.Resume(resumes.NewMsg(nil, nil, flows.NewMsgIn(flows.MsgUUID(us.next()), "tel:+12065550100", nil, in, nil))); err != nil {
						c.Fail("monitor", "M-route", "go-error", "Resume returned an error: "+err.Error(), desc)
						return
					}
				}
			}
			session = s
		})
		if !ok || session == nil {
			continue
		}
		run := session.Runs()[0]
		routedStep := 0
		if mode == "twice" {
			// the routing compared is the last one carried out (the step before the one now waiting), with the last input
			if len(run.Path()) < 2 {
				c.Count("C07-twice-did-not-route")
				continue
			}
			routedStep = len(run.Path()) - 2
			if run.Status() == flows.RunStatusFailed {
				routedStep = len(run.Path()) - 1
			}
			if len(run.Path()) == 3 || (len(run.Path()) == 2 && run.Status() == flows.RunStatusFailed && session.Input() != nil) {
				desc["input"] = input2
			}
			if len(run.Path()) == 2 && run.Status() != flows.RunStatusFailed {
				desc["input"] = input
			}
		} else if len(run.Path()) != 1 {
			c.Fail("monitor", "M-route", "unexpected-path", fmt.Sprintf("expected one step, got %d", len(run.Path())), desc)
			continue
		}
		gotExit := "-"
		for ei, e := range exits {
			if string(run.Path()[routedStep].ExitUUID()) == e {
				gotExit = fmt.Sprint(ei)
			}
		}
		got := "exit " + gotExit
		if mode == "twice" && gotExit == "-" {
			got += " noresult" // no category this time: a result left by the first routing is not this routing's
		} else if resultName != "" && run.Results().Get(utils.Snakify(resultName)) != nil {
			res := run.Results().Get(utils.Snakify(resultName))
			got += fmt.Sprintf(" result %s %s %s %s", hx(res.Name), hx(res.Value), hx(res.Category), hx(res.Input))
		} else {
			got += " noresult"
		}

		// ---- the prescribed routing, from the real tests' outcomes --------------------------
		var catSpec []string
		for _, ct := range cats {
			catSpec = append(catSpec, hx(ct.name)+"~"+fmt.Sprint(ct.exit))
		}
		rn := "*"
		if resultName != "" {
			rn = hx(resultName)
		}
		var op, want, lastOperand string
		switch mode {
		case "random":
			digits := strings.TrimPrefix(draw, "0.")
			if draw == "0" {
				digits = "0"
			}
			den := "1" + strings.Repeat("0", len(digits))
			if draw == "0" {
				den = "1"
			}
			op = fmt.Sprintf("rrandom %s %s %s %s %s", strings.Join(catSpec, ","), rn, strings.TrimLeft(digits, "0")+zeroIfEmpty(strings.TrimLeft(digits, "0")), den, hx(draw))
		case "timeout":
			// value = ISO time of the wait_timed_out event
			ts := ""
			for _, e := range run.Events() {
				if e.Type() == "wait_timed_out" {
					ts = e.CreatedOn().Format("2006-01-02T15:04:05.000000Z07:00")
				}
			}
			op = fmt.Sprintf("rtimeout %s %s %d %s", strings.Join(catSpec, ","), rn, tcat, hx(ts))
		default:
			ctx := session.CurrentContext()
			evalV := func(t string) types.XValue {
				v, _, _ := excellent.NewEvaluator().TemplateValue(session.MergedEnvironment(), ctx, t)
				return v
			}
			// the operand is evaluated before the result is saved; results are not referenced by the operands used here
			opv := evalV(operand)
			opStr := ""
			if opv != nil {
				t, _ := types.ToXText(env, opv)
				opStr = t.Native()
			}
			var outs, caseCats []string
			for _, cc := range cs {
				args := cc.args
				// the contact's language, then the environment's default, up to the flow's own language
				for _, l := range []string{contactLang, "eng"} {
					if l == baseLang {
						break
					}
					if l == trLang && cc.fraArgs != nil && len(cc.fraArgs) > 0 && len(cc.fraArgs) == len(cc.args) {
						args = cc.fraArgs
						break
					}
				}
				xargs := []types.XValue{opv}
				for _, a := range args {
					if strings.Contains(a, "@results") {
						xargs = append(xargs, nil)
						continue
					}
					xargs = append(xargs, evalV(a))
				}
				var res types.XValue
				c.Guard("C07-test", "panic:test:"+cc.test, desc, func() { res = cases.XTESTS[cc.test].Call(session.MergedEnvironment(), xargs) })
				switch t := res.(type) {
				case *types.XError:
					outs = append(outs, "e")
				case *types.XObject:
					if t.Truthy() {
						m, _ := t.Get("match")
						ms, _ := types.ToXText(env, m)
						outs = append(outs, "m"+hx(ms.Native()))
					} else {
						outs = append(outs, "n")
					}
				default:
					outs = append(outs, "n")
				}
				caseCats = append(caseCats, fmt.Sprint(cc.cat))
			}
			d := "-"
			if def >= 0 {
				d = fmt.Sprint(def)
			}
			op = fmt.Sprintf("rswitch %s %s %s %s %s %s", strings.Join(catSpec, ","), encList(caseCats, ","), d, rn, hx(opStr), encList(outs, ","))
			want = strings.Join(outs, ",")
			lastOperand = opStr
		}
		desc["model_op"] = op
		c.Model("route", op, got, desc)
		if mode == "switch" || mode == "twice" {
			// M: the statement itself - first matching case in definition order, else default, else no category
			wantM := prescribed(strings.Split(want, ","), cs2cats(cs), def, catExits(cats2(cats)), catNames(cats2(cats)), resultName, lastOperand)
			if wantM != got {
				c.Fail("monitor", "M-first-match", "switch-routing-differs-from-definition", "the router did not take the exit / save the result its definition prescribes",
					map[string]any{"assets": json.RawMessage(aj), "input": desc["input"], "contact_language": contactLang, "mode": mode, "outcomes": want, "prescribed": wantM, "implementation": got})
			}
		}
		c.Eval(fmt.Sprintf("%s|%s|%d|%s|%v", mode, want, def, gotExit, resultName != ""))
		c.Count("check:route:" + mode)
		if i < 3 {
			c.Sample(map[string]any{"mode": mode, "operand": operand, "input": input, "cases": len(cs), "model_op": op, "implementation": got})
		}
		// M: a router that selected no exit must have failed the run; otherwise the run is not failed by routing
		if gotExit == "-" && run.Status() != flows.RunStatusFailed {
			c.Fail("monitor", "M-no-category", "no-exit-but-run-not-failed", "the router selected no exit but the run was not failed", desc)
		}
	}
}

func zeroIfEmpty(s string) string {
	if s == "" {
		return "0"
	}
	return ""
}

type catLite struct {
	name string
	exit int
}

func cats2[T any](cs []T) []catLite {
	out := make([]catLite, len(cs))
	for i := range cs {
		v := fmt.Sprintf("%v", cs[i]) // {uuid name exit}
		parts := strings.Fields(strings.Trim(v, "{}"))
		e := 0
		fmt.Sscan(parts[len(parts)-1], &e)
		out[i] = catLite{strings.Join(parts[1:len(parts)-1], " "), e}
	}
	return out
}

func catExits(cs []catLite) []int {
	out := make([]int, len(cs))
	for i, c := range cs {
		out[i] = c.exit
	}
	return out
}

func catNames(cs []catLite) []string {
	out := make([]string, len(cs))
	for i, c := range cs {
		out[i] = c.name
	}
	return out
}

func cs2cats(cs []c07Case) []int {
	out := make([]int, len(cs))
	for i, c := range cs {
		out[i] = c.cat
	}
	return out
}

// the routing the definition prescribes, from the outcomes of the cases' tests
func prescribed(outs []string, caseCats []int, def int, exits []int, names []string, resultName, operand string) string {
	cat, value := -1, ""
	for i, o := range outs {
		if strings.HasPrefix(o, "m") && i < len(caseCats) {
			cat, value = caseCats[i], unhx(o[1:])
			break
		}
	}
	if cat < 0 && def >= 0 {
		cat, value = def, operand
	}
	if cat < 0 {
		return "exit - noresult"
	}
	s := fmt.Sprintf("exit %d", exits[cat])
	if resultName != "" {
		s += fmt.Sprintf(" result %s %s %s %s", hx(resultName), hx(value), hx(names[cat]), hx(operand))
	} else {
		s += " noresult"
	}
	return s
}
