package main

import (
	"bytes"
	"encoding/json"
	"fmt"

	"github.com/nyaruka/goflow/assets"
	"github.com/nyaruka/goflow/assets/static"
	"github.com/nyaruka/goflow/flows"
	"github.com/nyaruka/goflow/flows/engine"
	"github.com/nyaruka/goflow/flows/events"
)

func init() {
	register("C10", "generated histories (as C01) in which, at every wait, every type of resume (msg, wait_timeout, run_expiration, dial) is tried on a freshly "+
		"restored copy of the session, with and without a fault injected into the asset store between sprints (waiting run's flow deleted, its node edited to have no router, its node gone, "+
		"the node an ancestor run is paused at gone, parent flow deleted) and with small resume limits; non-trivial = distinct (fault, resume type, outcome class, session shape)", runC10)
}

var allResumeSpecs = []string{"msg:red", "timeout", "expiration", "dial:answered"}

type fault struct {
	name string
	// apply modifies a clone of the assets; returns false if not applicable
	apply func(ga *genAssets, cs *canonSession) bool
	// breaks = makes resuming the waiting run impossible
	breaks bool
}

func waitingOf(cs *canonSession) int {
	for i, r := range cs.Runs {
		if r.Status == "w" {
			return i
		}
	}
	return -1
}

var faults = []fault{
	{"none", func(ga *genAssets, cs *canonSession) bool { return true }, false},
	{"flow-deleted", func(ga *genAssets, cs *canonSession) bool {
		w := waitingOf(cs)
		if w < 0 || cs.Runs[w].Flow < 0 {
			return false
		}
		ga.Flows[cs.Runs[w].Flow].deleted = true
		return true
	}, true},
	{"node-deleted", func(ga *genAssets, cs *canonSession) bool {
		w := waitingOf(cs)
		if w < 0 || cs.Runs[w].Flow < 0 || len(cs.Runs[w].Path) == 0 {
			return false
		}
		f := ga.Flows[cs.Runs[w].Flow]
		ni := cs.Runs[w].Path[len(cs.Runs[w].Path)-1].Node
		if ni >= len(f.Nodes) {
			return false
		}
		// remove the node; exits that led to it lose their destination
		for _, n := range f.Nodes {
			for ei := range n.Exits {
				if n.Exits[ei].Dest == ni {
					n.Exits[ei].Dest = -1
				} else if n.Exits[ei].Dest > ni {
					n.Exits[ei].Dest--
				}
			}
		}
		f.Nodes = append(f.Nodes[:ni], f.Nodes[ni+1:]...)
		return true
	}, true},
	{"wait-removed", func(ga *genAssets, cs *canonSession) bool {
		w := waitingOf(cs)
		if w < 0 || cs.Runs[w].Flow < 0 || len(cs.Runs[w].Path) == 0 {
			return false
		}
		f := ga.Flows[cs.Runs[w].Flow]
		ni := cs.Runs[w].Path[len(cs.Runs[w].Path)-1].Node
		if ni >= len(f.Nodes) || f.Nodes[ni].Router == nil {
			return false
		}
		delete(f.Nodes[ni].Router, "wait")
		f.Nodes[ni].Router["operand"] = "@contact.name"
		f.Nodes[ni].HasWait = ""
		// a timeout category may stay as an ordinary category
		return true
	}, true},
	{"router-removed", func(ga *genAssets, cs *canonSession) bool {
		w := waitingOf(cs)
		if w < 0 || cs.Runs[w].Flow < 0 || len(cs.Runs[w].Path) == 0 {
			return false
		}
		f := ga.Flows[cs.Runs[w].Flow]
		ni := cs.Runs[w].Path[len(cs.Runs[w].Path)-1].Node
		if ni >= len(f.Nodes) || f.Nodes[ni].Router == nil {
			return false
		}
		// the node keeps its UUID and exits but becomes a plain node (e.g. edited into a send_msg node)
		f.Nodes[ni].Router = nil
		f.Nodes[ni].HasWait = ""
		f.Nodes[ni].Actions = []map[string]any{{"uuid": "9487a60e-a6ef-4a88-b35d-894bfe074144", "type": "send_msg", "text": "edited"}}
		return true
	}, true},
	// the node is replaced by one with another UUID (exits that led to it now lead to the replacement): the run's step names a
	// node that no longer exists
	{"node-vanished", func(ga *genAssets, cs *canonSession) bool {
		w := waitingOf(cs)
		if w < 0 || cs.Runs[w].Flow < 0 || len(cs.Runs[w].Path) == 0 {
			return false
		}
		f := ga.Flows[cs.Runs[w].Flow]
		ni := cs.Runs[w].Path[len(cs.Runs[w].Path)-1].Node
		if ni >= len(f.Nodes) {
			return false
		}
		f.Nodes[ni].UUID = "0e5c1d2a-7b3f-4c4d-8e9a-1f2b3c4d5e6f"
		return true
	}, true},
	// the same for the node an ancestor run is paused at: the waiting run can still be resumed, its ancestor no longer
	{"ancestor-node-vanished", func(ga *genAssets, cs *canonSession) bool {
		w := waitingOf(cs)
		if w < 0 || cs.Runs[w].Parent < 0 {
			return false
		}
		p := cs.Runs[w].Parent
		if cs.Runs[p].Parent >= 0 && len(cs.Runs)%2 == 0 {
			p = cs.Runs[p].Parent // sometimes the grandparent
		}
		if cs.Runs[p].Flow < 0 || len(cs.Runs[p].Path) == 0 {
			return false
		}
		f := ga.Flows[cs.Runs[p].Flow]
		ni := cs.Runs[p].Path[len(cs.Runs[p].Path)-1].Node
		if ni >= len(f.Nodes) {
			return false
		}
		if cs.Runs[p].Flow == cs.Runs[w].Flow && len(cs.Runs[w].Path) > 0 && cs.Runs[w].Path[len(cs.Runs[w].Path)-1].Node == ni {
			return false // that is the waiting node itself
		}
		f.Nodes[ni].UUID = "1f6d2e3b-8c4a-4d5e-9fab-2a3b4c5d6e7a"
		return true
	}, false},
	// the flow is still in the store and still parses, but no longer validates: an exit of another node leads nowhere
	{"flow-invalid", func(ga *genAssets, cs *canonSession) bool {
		w := waitingOf(cs)
		if w < 0 || cs.Runs[w].Flow < 0 || len(cs.Runs[w].Path) == 0 {
			return false
		}
		f := ga.Flows[cs.Runs[w].Flow]
		wn := cs.Runs[w].Path[len(cs.Runs[w].Path)-1].Node
		for ni, n := range f.Nodes {
			if ni != wn && len(n.Exits) > 0 {
				n.Exits[0].BadDest = "2a7e3f4c-9d5b-4e6f-8a1b-3c4d5e6f7a8b"
				f.invalid = true
				return true
			}
		}
		if wn < len(f.Nodes) && len(f.Nodes[wn].Exits) > 0 {
			f.Nodes[wn].Exits[0].BadDest = "2a7e3f4c-9d5b-4e6f-8a1b-3c4d5e6f7a8b"
			f.invalid = true
			return true
		}
		return false
	}, true},
	{"parent-flow-deleted", func(ga *genAssets, cs *canonSession) bool {
		w := waitingOf(cs)
		if w < 0 || cs.Runs[w].Parent < 0 {
			return false
		}
		pf := cs.Runs[cs.Runs[w].Parent].Flow
		if pf < 0 || pf == cs.Runs[w].Flow {
			return false
		}
		ga.Flows[pf].deleted = true
		return true
	}, false},
}

func runC10(c *Ctx) {
	r := c.Rng
	n := c.N(500, 20000)
	var corpus []*engCase
	for _, ec := range adversarialCorpus() {
		if ec.MaxResumes < 100 {
			corpus = append(corpus, ec) // the hand-built histories that run into the resume limit (msg waits and dial waits)
		}
	}
	for i := 0; i < n+len(corpus); i++ {
		var ec *engCase
		if i < len(corpus) {
			ec = corpus[i]
		} else {
			ec = genEngCase(r, false)
			if r.Chance(40) {
				ec.MaxResumes = Pick(r, []int{1, 2, 3})
			}
		}
		ncall := 0
		runEngCase(c, ec, "C10", func(er *engRun, call *engCall) {
			ncall++
			if call.Post == nil || call.Class == "goerr" {
				return
			}
			// the monitor on the main history: an engine error leaves the JSON untouched and produces no events
			if call.Pre != nil {
				checkRejection(c, ec, "none", call, ncall)
			}
			if er.Session.Status() != flows.SessionStatusWaiting {
				return
			}
			// at this wait: every resume type, on restored copies, under each fault
			sessJSON, _ := json.Marshal(er.Session)
			for _, f := range faults {
				ga2, err := genAssetsFromJSON(ec.GA.JSON(ec.Voice))
				if err != nil {
					return
				}
				if !f.apply(ga2, call.Post) {
					continue
				}
				src, err := static.NewSource(ga2.JSON(ec.Voice))
				if err != nil {
					c.Count("C10-fault-assets-rejected")
					continue
				}
				sa2, err := engine.NewSessionAssets(er.Env, src, nil)
				if err != nil {
					c.Count("C10-fault-assets-rejected")
					continue
				}
				for _, spec := range allResumeSpecs {
					var s2 flows.Session
					var rerr error
					desc := func() map[string]any {
						d := ec.describe()
						d["fault"], d["resume"], d["at_call"] = f.name, spec, ncall
						d["faulted_assets"] = json.RawMessage(ga2.JSON(ec.Voice))
						return d
					}
					if c.Guard("C10-read", "panic:ReadSession", desc(), func() { s2, rerr = er.Eng.ReadSession(sa2, sessJSON, assets.IgnoreMissing) }) {
						continue
					}
					if rerr != nil {
						c.Fail("monitor", "M-read", "restore-fails-after-asset-fault", "a session cannot be read back after a change in the asset store: "+rerr.Error(), desc())
						continue
					}
					er2 := &engRun{Case: &engCase{GA: ga2, Voice: ec.Voice, MaxSteps: ec.MaxSteps, MaxResumes: ec.MaxResumes, StartFlow: ec.StartFlow}, SA: sa2, Eng: er.Eng, Session: s2, Env: er.Env}
					var call2 *engCall
					if c.Guard("C10-resume", "panic:Resume", desc(), func() { call2 = er2.resume(spec) }) {
						continue
					}
					c.Count("fault:" + f.name + ":" + call2.Class)
					c.Eval(fmt.Sprintf("%s|%s|%s|%s", f.name, call2.Call, call2.Class, shapeKey(call2.Post)))
					if call2.Class == "goerr" {
						c.Fail("monitor", "M-no-go-error", "go-error-on-resume", "Resume returned a Go error instead of an engine error or a failed session: "+call2.Err.Error(), desc())
						continue
					}
					checkRejection(c, er2.Case, f.name, call2, ncall)
					// the resume limit: once the waits the runs have logged reach MaxResumesPerSession, any resume only fails the session
					nwaits := 0
					for _, run := range call.Post.Runs {
						for _, e := range run.Events {
							if e.IsWait {
								nwaits++
							}
						}
					}
					if f.name == "none" && nwaits >= ec.MaxResumes {
						c.Count("check:M-resume-limit")
						if !(call2.Class == "ok" && call2.Post.Status == "f" && sprintHasFailure(call2)) {
							d := desc()
							d["waits_logged"] = nwaits
							c.Fail("monitor", "M-resume-limit", "resume-limit-not-enforced", fmt.Sprintf("the session has logged %d waits, MaxResumesPerSession is %d, and a resume did not end it as failed with a failure event", nwaits, ec.MaxResumes), d)
						}
					}
					if f.breaks {
						ok := call2.Class == "ok" && call2.Post.Status == "f" && sprintHasFailure(call2)
						if !ok {
							c.Fail("monitor", "M-unrecoverable", "unrecoverable-not-failed", "a condition that makes resumption impossible did not end the session as failed with a failure event",
								desc())
						}
					}
					if call2.Class == "ok" {
						for _, fl := range checkSessionInv(call2.Post, ga2, f.name != "none") {
							if fl.clause == "iii" {
								continue // paths were walked in the old graph
							}
							c.Fail("monitor", "M-inv-"+fl.clause, fl.sig, fl.what, desc())
						}
					}
					missing := map[int]bool{}
					for fi, gf := range ga2.Flows {
						if gf.deleted || gf.invalid {
							missing[fi] = true
						}
					}
					op, expect := er2.modelOp(call2, missing)
					c.Model("eng", op, expect, map[string]any{"case": desc(), "call_index": ncall})
				}
			}
			if i < 2 && ncall == 1 {
				c.Sample(map[string]any{"model_assets": ec.GA.ModelSpec(nil), "session_at_wait": call.Post.enc(), "faults": []string{"none", "flow-deleted", "node-deleted", "node-vanished", "ancestor-node-vanished", "parent-flow-deleted"}, "resumes": allResumeSpecs})
			}
		})
	}
}

func sprintHasFailure(call *engCall) bool {
	if call.Sprint == nil {
		return false
	}
	for _, e := range call.Sprint.Events() {
		if e.Type() == events.TypeFailure {
			return true
		}
	}
	return false
}

// an engine error must leave the session JSON byte-identical and the sprint empty
func checkRejection(c *Ctx, ec *engCase, faultName string, call *engCall, ncall int) {
	if len(call.Class) < 3 || call.Class[:3] != "eng" {
		return
	}
	c.Count("check:M-reject-untouched")
	nev := 0
	if call.Sprint != nil {
		nev = len(call.Sprint.Events())
	}
	if !bytes.Equal(call.PreJSON, call.PostJSON) || nev != 0 {
		d := ec.describe()
		d["fault"], d["call"], d["at_call"], d["class"] = faultName, call.Call, ncall, call.Class
		d["json_before"], d["json_after"] = json.RawMessage(call.PreJSON), json.RawMessage(call.PostJSON)
		c.Fail("monitor", "M-reject-untouched", "rejected-resume-changed-session", fmt.Sprintf("a resume rejected with %s changed the session JSON or produced %d events", call.Class, nev), d)
	}
}
