package main

import (
	"fmt"
	"strconv"
	"strings"
	"unicode"
	"unicode/utf8"

	"github.com/antlr4-go/antlr/v4"
	gen "github.com/nyaruka/goflow/antlr/gen/excellent3"
	"github.com/nyaruka/goflow/envs"
	"github.com/nyaruka/goflow/excellent"
	"github.com/nyaruka/goflow/excellent/types"
)

func init() {
	register("C12", "strings over a syntax-biased alphabet (quotes, backslashes incl. trailing, parens, @, control, non-BMP); "+
		"non-trivial = distinct (check, string class, outcome) with at least one of quote/backslash/@/paren/non-ASCII present",
		runC12)
}

// quoteSafe: strconv.Quote, but every backslash of the *value* is written as the six-character unicode escape (u005c)
func quoteSafe(s string) string {
	bsEscape := "\\" + "u005c"
	var b strings.Builder
	b.WriteByte('"')
	for _, r := range s {
		if r == '\\' {
			b.WriteString(bsEscape)
		} else {
			q := strconv.Quote(string(r))
			b.WriteString(q[1 : len(q)-1])
		}
	}
	b.WriteByte('"')
	return b.String()
}

func isNameCharGo(ch rune) bool { return unicode.IsLetter(ch) || unicode.IsNumber(ch) || ch == '_' }

type tok struct {
	K string
	T string
}

func scanTokens(tpl string, tops []string, unescape bool) []tok {
	var out []tok
	excellent.VisitTemplate(tpl, tops, unescape, func(tt excellent.XTokenType, t string) error {
		k := "B"
		switch tt {
		case excellent.IDENTIFIER:
			k = "I"
		case excellent.EXPRESSION:
			k = "E"
		}
		out = append(out, tok{k, t})
		return nil
	})
	return out
}

func tokLine(ts []tok) string {
	parts := []string{"toks"}
	for _, t := range ts {
		parts = append(parts, t.K+":"+hx(t.T))
	}
	return strings.Join(parts, " ")
}

func topsArg(tops []string) string {
	if tops == nil {
		return "*"
	}
	if len(tops) == 0 {
		return "[]"
	}
	h := make([]string, len(tops))
	for i, t := range tops {
		h[i] = hx(t)
	}
	return strings.Join(h, ",")
}

// first lexer token of an expression text starting with a quote: rune length of a TEXT token or -1
func lexTextLen(s string) int {
	lexer := gen.NewExcellent3Lexer(antlr.NewInputStream(s))
	lexer.RemoveErrorListeners()
	t := lexer.NextToken()
	if t.GetTokenType() == gen.Excellent3LexerTEXT && t.GetStart() == 0 {
		return utf8.RuneCountInString(t.GetText())
	}
	return -1
}

// does the expression contain (as the real lexer sees it) a TEXT token whose closing quote is
// immediately preceded by a backslash?  That is the family of known finding F-C12-a.
func hasBackslashClosedLiteral(e string) bool {
	lexer := gen.NewExcellent3Lexer(antlr.NewInputStream(e))
	lexer.RemoveErrorListeners()
	for {
		t := lexer.NextToken()
		if t.GetTokenType() == antlr.TokenEOF {
			return false
		}
		if t.GetTokenType() == gen.Excellent3LexerTEXT {
			txt := t.GetText()
			if len(txt) >= 3 && strings.HasSuffix(txt, `\"`) {
				return true
			}
		}
	}
}

func evalTpl(tpl string, ctx *types.XObject) (string, error) {
	env := envs.NewBuilder().Build()
	out, _, err := excellent.NewEvaluator().Template(env, ctx, tpl, nil)
	return out, err
}

func runC12(c *Ctx) {
	r := c.Rng
	ctx := types.NewXObject(map[string]types.XValue{
		"contact": types.NewXObject(map[string]types.XValue{"name": types.NewXText("Bob"), "__default__": types.NewXText("Bob")}),
		"fields":  types.NewXObject(map[string]types.XValue{"age": types.NewXNumberFromInt(3)}),
	})
	tops := []string{"contact", "fields"}

	check := func(name, class string, ok bool) {
		key := ""
		if class != "plain" && class != "empty" {
			key = name + "|" + class + "|" + fmt.Sprint(ok)
		}
		c.Eval(key)
		c.Count("check:" + name)
	}

	// ---- M1: body passthrough -------------------------------------------------------------
	n := c.N(6000, 300000)
	for i := 0; i < n; i++ {
		s := genString(r, 24)
		cls := classifyString(s)
		// (a) every '@' doubled: evaluates to s exactly
		tpl := strings.ReplaceAll(s, "@", "@@")
		var out string
		var err error
		if c.Guard("M1-escape", "panic:template", map[string]any{"template": tpl}, func() { out, err = evalTpl(tpl, ctx) }) {
			continue
		}
		ok := err == nil && out == s
		check("M1-escape", cls, ok)
		if !ok {
			c.Fail("monitor", "M1-escape", "body-escape", "text with every @ doubled does not evaluate to itself",
				map[string]any{"template": tpl, "expected": s, "got": out, "err": fmt.Sprint(err)})
		}
		// (b) an '@' not followed by '(', '@' or a name character stays literal
		var b strings.Builder
		rs := []rune(s)
		for j, ch := range rs {
			b.WriteRune(ch)
			if ch == '@' && j+1 < len(rs) && (rs[j+1] == '(' || rs[j+1] == '@' || isNameCharGo(rs[j+1])) {
				b.WriteRune(' ')
			}
		}
		lit := b.String()
		if c.Guard("M1-literal-at", "panic:template", map[string]any{"template": lit}, func() { out, err = evalTpl(lit, ctx) }) {
			continue
		}
		ok = err == nil && out == lit
		check("M1-literal-at", classifyString(lit), ok)
		if !ok {
			c.Fail("monitor", "M1-literal-at", "body-literal-at", "an @ not followed by (, @ or a name character did not stay literal",
				map[string]any{"template": lit, "got": out, "err": fmt.Sprint(err)})
		}
		// (c) e-mail addresses / mentions: @name whose top level is not allowed stays literal
		// (incl. words that equal an allowed top level only under Unicode case folding: long s for s, dotless i for i)
		name := Pick(r, []string{"nyaruka.com", "bob", "Contacts.name", "field", "x.y.z", "été.fr", "contact_", "fieldsx.age",
			"field\u017f.age", "field\u017f", "FIELD\u017f.age", "Field\u017f.AGE", "f\u0131elds.age", "F\u0131ELD\u017f"})
		mail := genPlain(r, 6) + "@" + name + Pick(r, []string{"", " ", ".", "!", ". Bye", ")"})
		if c.Guard("M1-email", "panic:template", map[string]any{"template": mail}, func() { out, err = evalTpl(mail, ctx) }) {
			continue
		}
		ok = err == nil && out == mail
		check("M1-email", classifyString(mail), ok)
		if !ok {
			c.Fail("monitor", "M1-email", "body-email", "an @name with a top level that is not allowed did not stay literal",
				map[string]any{"template": mail, "got": out, "err": fmt.Sprint(err)})
		}
		// (c') the same in a context without any properties: no top level is allowed, every @name is literal
		{
			mail2 := genPlain(r, 6) + "@" + Pick(r, []string{"contact", "fields.age", "bob", "example.com", "x"}) + Pick(r, []string{"", " or ping @alice", ".", " @fields"})
			var out2 string
			var err2 error
			if !c.Guard("M1-email", "panic:template", map[string]any{"template": mail2}, func() { out2, err2 = evalTpl(mail2, types.XObjectEmpty) }) {
				ok2 := err2 == nil && out2 == mail2
				check("M1-email-empty-context", classifyString(mail2), ok2)
				if !ok2 {
					c.Fail("monitor", "M1-email", "body-email:empty-context", "in a context without properties an @name did not stay literal",
						map[string]any{"template": mail2, "got": out2, "err": fmt.Sprint(err2)})
				}
			}
		}
		if i < 3 {
			c.Sample(map[string]any{"check": "M1", "templates": []string{tpl, lit, mail}})
		}
		// (d) with un-escaping off the scanner loses nothing: re-rendering the tokens gives back the template
		// (what an identity rewrite of a template relies on)
		for _, t := range []string{s, tpl, lit, mail, "@@" + s, s + "@(1)@@x", "@contact@@" + s} {
			var b strings.Builder
			for _, k := range scanTokens(t, tops, false) {
				switch k.K {
				case "B":
					b.WriteString(k.T)
				case "I":
					b.WriteString("@" + k.T)
				case "E":
					b.WriteString("@(" + k.T + ")")
				}
			}
			ok := b.String() == t
			check("M1-reassemble", classifyString(t), ok)
			if !ok {
				c.Fail("monitor", "M1-reassemble", "scanner-loses-text", "scanning a template without un-escaping and re-rendering the tokens does not give back the template",
					map[string]any{"template": t, "rendered": b.String()})
			}
		}
		// (e) the other entry point (what routers evaluate operands and case arguments with) gives the same text, whatever scans
		// came before it in the process (the scans of (d) just ran with un-escaping off)
		{
			var v types.XValue
			var verr error
			if !c.Guard("M1-template-value", "panic:template-value", map[string]any{"template": tpl}, func() {
				v, _, verr = excellent.NewEvaluator().TemplateValue(envs.NewBuilder().Build(), ctx, tpl)
			}) {
				got := "<not a text>"
				if t, isText := v.(*types.XText); isText {
					got = t.Native()
				}
				ok := verr == nil && got == strings.TrimSpace(s)
				check("M1-template-value", cls, ok)
				if !ok {
					c.Fail("monitor", "M1-template-value", "body-escape:template-value", "text with every @ doubled, evaluated as a template value after other scans, is not that text",
						map[string]any{"template": tpl, "expected": strings.TrimSpace(s), "got": got, "err": fmt.Sprint(verr)})
				}
			}
		}
		// K: scanner correspondence on the raw string and its variants, both unescape modes
		if i%2 == 0 {
			for _, t := range []string{s, tpl, lit, mail} {
				u := r.Bool()
				var tp []string // nil: every identifier is allowed
				if x := r.Intn(100); x < 70 {
					tp = tops
				} else if x < 85 {
					tp = []string{} // empty, not nil: none is (a context without properties)
				}
				us := "0"
				if u {
					us = "1"
				}
				c.Model("scan", "scan "+topsArg(tp)+" "+us+" "+hx(t), tokLine(scanTokens(t, tp, u)), t)
			}
		}
	}

	// ---- M2: every string can be written as a literal -------------------------------------
	n = c.N(6000, 300000)
	for i := 0; i < n; i++ {
		s := genStringBS(r, 16)
		t := genStringBS(r, 8)
		cls := classifyString(s)
		forms := []struct {
			name string
			q    func(string) string
			safe bool
		}{{"safe", quoteSafe, true}, {"go", strconv.Quote, false}}
		for _, f := range forms {
			positions := []struct {
				name, tpl, want string
				quoteFollows    bool
			}{
				{"alone", "@(" + f.q(s) + ")", s, false},
				{"concat-left", "@(" + f.q(s) + " & " + f.q(t) + ")", s + t, true},
				{"concat-right", "x@(" + f.q(t) + " & " + f.q(s) + ")y", "x" + t + s + "y", false},
				{"arg", "@(if(true, " + f.q(s) + ", " + f.q(t) + "))", s, true},
				{"paren-eq", "@((" + f.q(s) + ") = " + f.q(s) + ")", "true", true},
				{"body-after", "@(" + f.q(s) + ") \"q\" (", s + " \"q\" (", false},
			}
			for _, p := range positions {
				if !f.safe {
					// partial domain of the strconv.Quote form (theorem lex_quote_go_partial and the
					// scanner's literal reader): skip when a literal ends in a backslash
					if strings.HasSuffix(s, "\\") || strings.HasSuffix(t, "\\") {
						c.Count("M2-go-outside-partial-domain")
						continue
					}
				}
				var out string
				var err error
				if c.Guard("M2-"+f.name+"-"+p.name, "panic:template", map[string]any{"template": p.tpl}, func() { out, err = evalTpl(p.tpl, ctx) }) {
					continue
				}
				ok := err == nil && out == p.want
				check("M2-"+f.name+"-"+p.name, cls, ok)
				if !ok {
					c.Fail("monitor", "M2-"+f.name+"-"+p.name, "literal-roundtrip-"+f.name,
						"a quoted, escaped literal did not evaluate to the string it denotes",
						map[string]any{"template": p.tpl, "expected": p.want, "got": out, "err": fmt.Sprint(err)})
				}
			}
		}
		if i < 2 {
			c.Sample(map[string]any{"check": "M2", "s": s, "safe": quoteSafe(s), "go": strconv.Quote(s)})
		}
		// K: quote / unquote / lexer TEXT / literal template
		c.Model("quote", "quote "+hx(s), "ok "+hx(strconv.Quote(s)), s)
		for _, q := range []string{strconv.Quote(s), quoteSafe(s), "\"" + s + "\"", "\"" + s} {
			exp := "err"
			if v, err := strconv.Unquote(q); err == nil {
				exp = "ok " + hx(v)
				if !utf8.ValidString(v) {
					exp = "skip"
				}
			}
			c.Model("unquote", "unquote "+hx(q), exp, q)
			rest := Pick(r, []string{"", " & \"z\"", ")", "\"", " \\\" x"})
			in := q + rest
			le := "none"
			if l := lexTextLen(in); l >= 0 {
				le = "tok " + strconv.Itoa(l)
			}
			c.Model("lextext", "lextext "+hx(in), le, in)
		}
		tl := "@(" + quoteSafe(s) + ")"
		if out, err := evalTpl(tl, ctx); err == nil {
			c.Model("tpllit", "tpllit "+topsArg(tops)+" "+hx(tl), "ok "+hx(out), tl)
		}
	}

	// ---- M4: the literal the code base itself writes for a string denotes that string ----
	n = c.N(3000, 100000)
	for i := 0; i < n; i++ {
		s := genStringBS(r, 12)
		if r.Chance(30) { // long values
			s = strings.Repeat(genString(r, 9)+"x", r.Range(10, 80)) + s
		}
		parsed, err := excellent.Parse(quoteSafe(s), nil)
		if err != nil {
			c.Fail("monitor", "M4-printed-literal", "safe-literal-unparseable", "the safe literal form does not parse", map[string]any{"s": s})
			continue
		}
		printed := parsed.String()
		env := envs.NewBuilder().Build()
		v1, _ := excellent.NewEvaluator().Expression(env, ctx, printed)
		got, _ := types.ToXText(env, v1)
		ok := !types.IsXError(v1) && got.Native() == s
		check("M4-printed-literal", classifyString(s)+fmt.Sprint(len(s) > 128), ok)
		if !ok {
			c.Fail("monitor", "M4-printed-literal", "printed-literal-differs", "printing a text literal gives an expression that does not evaluate to the same string",
				map[string]any{"s": s, "printed": printed, "got": got.Native(), "runes": utf8.RuneCountInString(s)})
		}
	}

	// ---- M3: scanner and parser agree on where an expression ends -------------------------
	n = c.N(6000, 300000)
	for i := 0; i < n; i++ {
		e := genExprText(r, 3)
		if _, err := excellent.Parse(e, nil); err != nil {
			c.Count("M3-unparseable-skipped")
			continue
		}
		pre, post := genPlain(r, 5), genPlain(r, 5)
		post = strings.TrimLeft(post, "") // keep as is
		tpl := pre + "@(" + e + ")" + post
		got := scanTokens(tpl, tops, true)
		var want []tok
		if pre != "" {
			want = append(want, tok{"B", pre})
		}
		want = append(want, tok{"E", e})
		if post != "" {
			want = append(want, tok{"B", post})
		}
		ok := fmt.Sprint(got) == fmt.Sprint(want)
		cls := classifyString(e)
		check("M3-agree", cls, ok)
		if !ok {
			sig := "scanner-parser-disagree"
			// the known defect: a closing quote after a backslash does not close the literal for the scanner, which therefore
			// runs on - no expression is found at all, or one that extends beyond the parser's. Ending an expression early is
			// something else.
			runsOn := true
			for _, t := range got {
				if t.K != "B" {
					runsOn = strings.HasPrefix(t.T, e) && len(t.T) > len(e)
					break
				}
			}
			if hasBackslashClosedLiteral(e) && runsOn {
				sig = "scanner-text-literal-closing-quote-after-backslash"
			}
			c.Fail("monitor", "M3-agree", sig, "the scanner does not end the expression where the parser's expression ends",
				map[string]any{"template": tpl, "expression": e, "tokens": got})
		}
		if i < 2 {
			c.Sample(map[string]any{"check": "M3", "template": tpl})
		}
		c.Model("scan", "scan "+topsArg(tops)+" 1 "+hx(tpl), tokLine(got), tpl)
	}
}

// small grammar-directed generator of expression *texts* whose literals use every quoting form
func genExprText(r *Rng, depth int) string {
	lit := func() string {
		s := genStringBS(r, 6)
		if r.Chance(6) {
			// a quote after a run of backslashes inside a literal, followed by what would matter if the literal ended there
			return Pick(r, []string{`"\\")("`, `"\\\\")"`, `"x\\"(y)"`, `"\\" & ")"`, `"(\\")"`, `"a\\\")"`})
		}
		switch r.Intn(4) {
		case 0:
			return strconv.Quote(s)
		case 1:
			return quoteSafe(s)
		case 2:
			return "\"" + strings.ReplaceAll(strings.ReplaceAll(s, "\"", ""), "\\", "") + "\""
		default:
			return strconv.Quote(s)
		}
	}
	if depth == 0 || r.Chance(30) {
		switch r.Intn(6) {
		case 0:
			return strconv.Itoa(r.Intn(100))
		case 1:
			return "contact.name"
		case 2:
			return "fields.age"
		default:
			return lit()
		}
	}
	a, b := genExprText(r, depth-1), genExprText(r, depth-1)
	switch r.Intn(8) {
	case 0:
		return "(" + a + ")"
	case 1:
		return a + " & " + b
	case 2:
		return "upper(" + a + ")"
	case 3:
		return "if(" + a + " = " + b + ", " + a + ", " + b + ")"
	case 4:
		return a + "&" + b
	case 5:
		return "text_length(" + a + ") + 1"
	case 6:
		return "array(" + a + ", " + b + ")[0]"
	default:
		return "(" + a + " & (" + b + "))"
	}
}
