package main

import (
	"encoding/json"
	"fmt"
	"strings"

	"github.com/nyaruka/goflow/envs"
	"github.com/nyaruka/goflow/flows"
	"github.com/nyaruka/goflow/flows/engine"
	"github.com/nyaruka/goflow/flows/modifiers"
)

func init() {
	register("C06", "query-based groups over every queryable property (name, language, URN presence and scheme value, created_on, last_seen_on present/absent, tickets, text/number/datetime "+
		"fields, AND/OR combinations) x random contacts whose stored membership is arbitrary (often wrong) x every modifier type, and flows of contact-changing actions under msg and manual "+
		"triggers and msg resumes; after every modifier and every sprint membership is compared with Group.CheckQueryBasedMembership; non-trivial = distinct (modifier kind, status, membership changes)", runC06)
}

func runC06(c *Ctx) {
	r := c.Rng
	env := envs.NewBuilder().WithAllowedLanguages("eng", "fra").WithDefaultCountry("US").Build()
	sa, err := contactAssets(env, "")
	if err != nil {
		c.Fail("monitor", "harness", "assets", "contact assets rejected: "+err.Error(), nil)
		return
	}
	// as in a session: locations are resolved against the assets
	env = flows.NewAssetsEnvironment(env, sa.Locations())
	var qids []string
	// corpus first: an active contact that is in static groups and, as stored, in no query-based group, and stops being active
	// (the only membership change is the loss of the static groups, which must be reported all the same); location values
	type c06Case struct {
		cj  string
		mod func() modCase
	}
	var corpus []c06Case
	for _, st := range []string{"blocked", "stopped", "archived"} {
		for _, gs := range [][]string{staticGroupUUIDs[:1], staticGroupUUIDs} {
			var gj []string
			for _, g := range gs {
				gj = append(gj, fmt.Sprintf(`{"uuid": %q, "name": "g"}`, g))
			}
			st := st
			corpus = append(corpus, c06Case{fmt.Sprintf(`{"uuid": "5d76d86b-3bb9-4d5a-b822-c9d86f5d8e4f", "id": 1234, "name": "Cy", "status": "active", "created_on": "2023-01-02T03:04:05Z", "groups": [%s]}`, strings.Join(gj, ", ")),
				func() modCase { return modCase{"status", modifiers.NewStatus(flows.ContactStatus(st)), "", "status " + st} }})
		}
	}
	for _, fk := range []string{"state", "district", "ward"} {
		for _, val := range []string{"Rwanda > Kigali City > Gasabo", "Rwanda > Kigali City > Gasabo > Gisozi", "Kigali City", "Rwanda > Eastern Province > Rwamagana"} {
			fk, val := fk, val
			corpus = append(corpus, c06Case{`{"uuid": "5d76d86b-3bb9-4d5a-b822-c9d86f5d8e4f", "id": 1234, "name": "Cy", "status": "active", "created_on": "2023-01-02T03:04:05Z"}`,
				func() modCase { return modCase{"field", modifiers.NewField(sa.Fields().Get(fk), val), "", "field " + fk + "=" + val} }})
		}
	}
	n := c.N(6000, 300000)
	for i := 0; i < n+len(corpus); i++ {
		eng := engine.NewBuilder().Build()
		correct := r.Chance(50)
		cj := genContactJSON(r, false)
		if i < len(corpus) {
			cj, correct = []byte(corpus[i].cj), false
		}
		contact, err := readContact(sa, cj, env, correct)
		if err != nil {
			continue
		}
		it := &internTable{}
		qids = qids[:0]
		for _, q := range queryGroupUUIDs {
			qids = append(qids, fmt.Sprint(it.id("g:"+q)))
		}
		desc := map[string]any{"contact": json.RawMessage(cj), "membership_corrected_first": correct}

		// K: ReevaluateGroups against the model, with the real CheckQueryBasedMembership as the matches oracle
		{
			k := contact.Clone()
			pre := encContact(k, it)
			var matches []string
			for _, g := range sa.Groups().All() {
				if g.UsesQuery() && g.CheckQueryBasedMembership(env, k) {
					matches = append(matches, fmt.Sprint(it.id("g:"+string(g.UUID()))))
				}
			}
			var order []string
			for _, g := range sa.Groups().All() {
				if g.UsesQuery() {
					order = append(order, fmt.Sprint(it.id("g:"+string(g.UUID()))))
				}
			}
			var kevs []flows.Event
			if !c.Guard("C06-K", "panic:reevaluate", desc, func() { modifiers.ReevaluateGroups(env, k, func(e flows.Event) { kevs = append(kevs, e) }) }) {
				c.Model("reeval", fmt.Sprintf("cmod %s reeval %s %s %s", pre, strings.Join(qids, ","), encList(matches, ","), strings.Join(order, ",")),
					fmt.Sprintf("%s %s %v", encContact(k, it), encEvents(kevs, it), len(kevs) > 0), desc)
				// M: re-evaluation establishes the invariant from any starting membership
				if f := groupInvFailures(sa, env, k); len(f) > 0 {
					c.Fail("monitor", "M-reevaluate", "reevaluate-leaves-wrong-membership", "after ReevaluateGroups: "+strings.Join(f, "; "), desc)
				}
			}
		}

		mc := genModifier(r, sa, env, contact, it, 640)
		if i < len(corpus) {
			mc = corpus[i].mod()
		}
		desc["modifier"] = mc.desc
		wasCorrect := len(groupInvFailures(sa, env, contact)) == 0
		before, _ := viewOf(contact)
		var evs []flows.Event
		var modified bool
		if c.Guard("C06-M", "panic:modifier", desc, func() { modified = modifiers.Apply(eng, env, sa, contact, mc.mod, func(e flows.Event) { evs = append(evs, e) }) }) {
			continue
		}
		after, _ := viewOf(contact)
		c.Eval(fmt.Sprintf("%s|%s|%v|%v|%d", mc.kind, contact.Status(), modified, wasCorrect, len(after.Groups)-len(before.Groups)))
		c.Count("check:M-modifier-groups:" + mc.kind)
		// the invariant is owed after a modifier that changed the contact, or when it held before
		if modified || wasCorrect {
			if f := groupInvFailures(sa, env, contact); len(f) > 0 {
				d := map[string]any{"before": before.canon(), "after": after.canon(), "modified": modified}
				for k, v := range desc {
					d[k] = v
				}
				c.Fail("monitor", "M-modifier-groups", "modifier-group-membership:"+mc.kind, "after the modifier: "+strings.Join(f, "; "), d)
			}
		}
		// every membership change is reported
		replayed := replayEvents(before, evs, "")
		gs := func(v *contactView) string {
			var x []string
			for _, g := range v.Groups {
				x = append(x, g.UUID)
			}
			return canonSet(x)
		}
		if gs(replayed) != gs(after) {
			d := map[string]any{"before": before.canon(), "after": after.canon(), "replayed_groups": gs(replayed)}
			for k, v := range desc {
				d[k] = v
			}
			c.Fail("monitor", "M-groups-reported", "membership-change-not-reported:"+mc.kind, "a group membership change was not reported in a contact_groups_changed event", d)
		}
		if i < 3 {
			c.Sample(map[string]any{"modifier": mc.desc, "before": before.canon(), "after": after.canon()})
		}
	}
	n = c.N(500, 25000)
	for i := 0; i < n; i++ {
		runContactSprintCase(c, r, i, "C06")
	}
}

func canonSet(xs []string) string {
	m := map[string]bool{}
	for _, x := range xs {
		m[x] = true
	}
	var out []string
	for x := range m {
		out = append(out, x)
	}
	sortStrings(out)
	return strings.Join(out, ",")
}

func sortStrings(xs []string) {
	for i := 1; i < len(xs); i++ {
		for j := i; j > 0 && xs[j] < xs[j-1]; j-- {
			xs[j], xs[j-1] = xs[j-1], xs[j]
		}
	}
}
