package main

import (
	"flag"
	"fmt"
	"os"
)

type propRunner struct {
	run  func(c *Ctx)
	rule string
}

var runners = map[string]propRunner{}

func register(id string, rule string, f func(c *Ctx)) { runners[id] = propRunner{f, rule} }

func main() {
	prop := flag.String("prop", "", "property id")
	seed := flag.Uint64("seed", 1, "seed")
	tier := flag.String("tier", "quick", "quick|thorough")
	out := flag.String("out", "", "result json path")
	driver := flag.String("driver", "/verif/lean/.lake/build/bin/gfdriver", "path of gfdriver")
	known := flag.String("known", "/verif/known_findings.jsonl", "known findings file")
	replay := flag.String("replay", "", "replay file (re-executes the recorded case)")
	flag.Parse()
	r, ok := runners[*prop]
	if !ok {
		fmt.Fprintln(os.Stderr, "unknown property", *prop)
		os.Exit(2)
	}
	c := NewCtx(*prop, *seed, *tier, *driver, *known)
	if *replay != "" {
		c.Notes = append(c.Notes, "replay of "+*replay)
		os.Setenv("VERIF_REPLAY", *replay)
	}
	r.run(c)
	c.Finish(r.rule, *out)
}
