package main

import (
	"encoding/json"
	"fmt"
	"strings"

	"github.com/nyaruka/gocommon/i18n"
	"github.com/nyaruka/gocommon/urns"
	"github.com/nyaruka/goflow/assets"
	"github.com/nyaruka/goflow/assets/static"
	"github.com/nyaruka/goflow/envs"
	"github.com/nyaruka/goflow/flows"
	"github.com/nyaruka/goflow/flows/engine"
	"github.com/nyaruka/goflow/flows/events"
	"github.com/nyaruka/goflow/flows/resumes"
	"github.com/nyaruka/goflow/flows/triggers"
)

func init() {
	register("C18", "exhaustive grid: contact language {unset, eng, fra, spa, kin} x allowed lists {[], [eng], [fra], [eng,fra], [fra,eng], [fra,kin], [kin,spa]} x base language {eng, fra, spa} "+
		"x per-language translation of the message text {absent, [], [\"\"], translated} in fra, eng, kin; plus sampled attachments / quick replies / category-name translations "+
		"(absent, empty, same length, longer, shorter); non-trivial = distinct (configuration class, language used, fallback depth)", runC18)
}

var langNum = map[string]int{"eng": 1, "fra": 2, "spa": 3, "kin": 4}

func texts(xs []string) string {
	if len(xs) == 0 {
		return "_"
	}
	h := make([]string, len(xs))
	for i, x := range xs {
		h[i] = hx(x)
	}
	return strings.Join(h, ",")
}

type c18Tr map[string]map[string][]string // lang -> property -> texts

func runC18(c *Ctx) {
	r := c.Rng
	contactLangs := []string{"", "eng", "fra", "spa", "kin"}
	allowedLists := [][]string{{}, {"eng"}, {"fra"}, {"eng", "fra"}, {"fra", "eng"}, {"fra", "kin"}, {"kin", "spa"}}
	baseLangs := []string{"eng", "fra", "spa"}
	trOpts := []string{"absent", "empty", "blank", "translated"}
	actionUUID := "e97cd6d5-3354-4dbd-85bc-6c1f87849eec"
	catUUID := "37d8813f-1402-4ad2-9cc2-e9054a96525b"

	runOne := func(cl string, allowed []string, base string, tr c18Tr, baseAtts, baseQRs []string, label string) {
		// definition: one node, a send_msg and a router saving a result with a (localizable) category
		loc := map[string]any{}
		for lang, props := range tr {
			item := map[string]any{}
			cat := map[string]any{}
			for p, v := range props {
				if p == "name" {
					cat["name"] = v
				} else {
					item[p] = v
				}
			}
			entry := map[string]any{}
			if len(item) > 0 {
				entry[actionUUID] = item
			}
			if len(cat) > 0 {
				entry[catUUID] = cat
			}
			loc[lang] = entry
		}
		action := map[string]any{"uuid": actionUUID, "type": "send_msg", "text": "base text"}
		if baseAtts != nil {
			action["attachments"] = baseAtts
		}
		if baseQRs != nil {
			action["quick_replies"] = baseQRs
		}
		def := map[string]any{"uuid": "50c3706e-fedb-42c0-8eab-dda3335714b7", "name": "L", "spec_version": "13.6.0", "language": base, "type": "messaging", "revision": 1,
			"expire_after_minutes": 60, "localization": loc, "nodes": []map[string]any{{"uuid": "72a1f5df-49f9-45df-94c9-d86f7ea064e5", "actions": []any{action},
				"router": map[string]any{"type": "switch", "operand": "x", "cases": []any{}, "result_name": "Res", "default_category_uuid": catUUID,
					"categories": []map[string]any{{"uuid": catUUID, "name": "Base Cat", "exit_uuid": "d7a36118-0a38-4b35-a7e4-ae89042f0d3c"}}},
				"exits": []map[string]any{{"uuid": "d7a36118-0a38-4b35-a7e4-ae89042f0d3c"}}}}}
		aj, _ := json.Marshal(map[string]any{"flows": []any{def}})
		desc := map[string]any{"assets": json.RawMessage(aj), "contact_language": cl, "allowed_languages": allowed, "base_language": base, "label": label}
		src, err := static.NewSource(aj)
		if err != nil {
			c.Count("C18-assets-rejected")
			return
		}
		var al []i18n.Language
		for _, a := range allowed {
			al = append(al, i18n.Language(a))
		}
		env := envs.NewBuilder().WithAllowedLanguages(al...).Build()
		sa, err := engine.NewSessionAssets(env, src, nil)
		if err != nil {
			c.Count("C18-assets-rejected")
			return
		}
		var msg *events.MsgCreatedEvent
		var result *flows.Result
		ok := !c.Guard("C18-run", "panic:localize", desc, func() {
			restore := setDeterministic(1)
			defer restore()
			contact := flows.NewEmptyContact(sa, "Ann", i18n.Language(cl), nil)
			trig := triggers.NewBuilder(env, assets.NewFlowReference("50c3706e-fedb-42c0-8eab-dda3335714b7", "L"), contact).Manual().Build()
			s, sp, err := engine.NewBuilder().Build().NewSession(sa, trig)
			if err != nil {
				c.Count("C18-go-error")
				c.Notes = appendNote(c.Notes, err.Error())
				return
			}
			for _, e := range sp.Events() {
				if m, ok := e.(*events.MsgCreatedEvent); ok {
					msg = m
				}
			}
			result = s.Runs()[0].Results().Get("res")
		})
		if !ok || msg == nil {
			return
		}
		// ---- model ops ---------------------------------------------------------------------
		clArg := "-"
		if cl != "" {
			clArg = fmt.Sprint(langNum[cl])
		}
		var alNums []string
		for _, a := range allowed {
			alNums = append(alNums, fmt.Sprint(langNum[a]))
		}
		trsFor := func(prop string) string {
			var es []string
			for _, lang := range []string{"eng", "fra", "spa", "kin"} {
				if v, ok := tr[lang][prop]; ok {
					es = append(es, fmt.Sprintf("%d=%s", langNum[lang], texts(v)))
				}
			}
			return encList(es, ";")
		}
		cfg := fmt.Sprintf("%s %s %d", clArg, encList(alNums, ","), langNum[base])
		// the language of each part is not observable separately; the text's is, through the locale, when there is text
		gotText := msg.Msg.Text()
		// expected per the documented fallback, computed independently (M): walk the preference list
		prefs := []string{}
		merged := ""
		if cl != "" && contains(allowed, cl) {
			merged = cl
		} else if len(allowed) > 0 {
			merged = allowed[0]
		}
		if merged != "" {
			prefs = append(prefs, merged)
		}
		if len(allowed) > 0 && allowed[0] != merged {
			prefs = append(prefs, allowed[0])
		}
		prefs = append(prefs, base)
		resolve := func(prop string, native []string) ([]string, string) {
			for _, l := range prefs {
				if l == base {
					return native, base
				}
				v := tr[l][prop]
				if len(v) == 0 || (len(v) == 1 && v[0] == "") {
					continue
				}
				return v, l
			}
			return native, base
		}
		wantText, wantTextLang := resolve("text", []string{"base text"})
		wantQRs, _ := resolve("quick_replies", baseQRs)
		wantAtts, _ := resolve("attachments", baseAtts)
		okText := gotText == wantText[0]
		okQR := fmt.Sprint(msg.Msg.QuickReplies()) == fmt.Sprint(nonEmpty(wantQRs)) || (len(msg.Msg.QuickReplies()) == 0 && len(nonEmpty(wantQRs)) == 0)
		var gotAtts []string
		for _, a := range msg.Msg.Attachments() {
			gotAtts = append(gotAtts, string(a))
		}
		okAtt := fmt.Sprint(gotAtts) == fmt.Sprint(wantAtts) || (len(gotAtts) == 0 && len(wantAtts) == 0)
		gotLang := ""
		if msg.Msg.Locale() != i18n.NilLocale {
			l, _ := msg.Msg.Locale().Split()
			gotLang = string(l)
		} else {
			gotLang = ""
		}
		okLocale := gotLang == wantTextLang // text is never empty in this harness
		wantCat, _ := resolve("name", []string{""})
		okCat := result != nil && result.CategoryLocalized == wantCat[0] && result.Category == "Base Cat"
		depth := 0
		for i, l := range prefs {
			if l == wantTextLang {
				depth = i
				break
			}
		}
		c.Eval(fmt.Sprintf("%s|%v|%s|%s|%d|%v%v%v%v%v", cl, allowed, base, wantTextLang, depth, okText, okQR, okAtt, okLocale, okCat))
		c.Count("check:M-fallback")
		for _, chk := range []struct {
			ok        bool
			sig, what string
		}{
			{okText, "text-language", fmt.Sprintf("message text is %q, the fallback prescribes %q (%s)", gotText, wantText[0], wantTextLang)},
			{okQR, "quick-replies-language", fmt.Sprintf("quick replies are %v, the fallback prescribes %v", msg.Msg.QuickReplies(), wantQRs)},
			{okAtt, "attachments-language", fmt.Sprintf("attachments are %v, the fallback prescribes %v", gotAtts, wantAtts)},
			{okLocale, "msg-locale", fmt.Sprintf("locale language is %q, the text was taken from %q", gotLang, wantTextLang)},
			{okCat, "category-localized", fmt.Sprintf("localized category is %q, the fallback prescribes %q", func() string {
				if result == nil {
					return "<no result>"
				}
				return result.CategoryLocalized
			}(), wantCat[0])},
		} {
			if !chk.ok {
				c.Fail("monitor", "M-fallback", chk.sig, chk.what, desc)
			}
		}
		// K: the model's getText for the text and the category name
		c.Model("gettext", fmt.Sprintf("gettext %s %s %s", cfg, texts([]string{"base text"}), trsFor("text")),
			fmt.Sprintf("lang %d texts %s", langNum[gotLang], texts([]string{gotText})), desc)
		if result != nil {
			c.Model("gettext-cat", fmt.Sprintf("gettextonly %s %s %s", cfg, texts([]string{""}), trsFor("name")),
				"texts "+texts([]string{result.CategoryLocalized}), desc)
		}
	}

	variant := func(opt string, translated []string) ([]string, bool) {
		switch opt {
		case "absent":
			return nil, false
		case "empty":
			return []string{}, true
		case "blank":
			return []string{""}, true
		default:
			return translated, true
		}
	}

	// ---- exhaustive grid over the text -------------------------------------------------------
	count := 0
	for _, cl := range contactLangs {
		for _, allowed := range allowedLists {
			for _, base := range baseLangs {
				for _, tf := range trOpts {
					for _, te := range trOpts {
						for _, tk := range trOpts {
							tr := c18Tr{}
							// a section for the flow's own language is legal (left behind by a change of base language) and must be ignored
							for lang, opt := range map[string]string{"fra": tf, "eng": te, "kin": tk} {
								if v, ok := variant(opt, []string{"text in " + lang}); ok {
									tr[lang] = map[string][]string{"text": v}
								}
							}
							count++
							runOne(cl, allowed, base, tr, nil, nil, "grid")
						}
					}
				}
			}
		}
	}
	c.Dist["grid-size"] = count
	c.Exhaustive = true
	c.Notes = append(c.Notes, "exhaustive over the finite text grid (contact language x allowed list x base language x translation state per language); the theorems cover arbitrary language lists")

	runC18Voice(c, contactLangs, allowedLists, baseLangs)
	runC18Scenarios(c)

	// ---- sampled: attachments, quick replies, category names of different lengths ----------
	n := c.N(1500, 60000)
	lens := []string{"absent", "empty", "blank", "same", "longer", "shorter"}
	for i := 0; i < n; i++ {
		cl, allowed, base := Pick(r, contactLangs), Pick(r, allowedLists), Pick(r, baseLangs)
		baseQRs := []string{"yes", "no"}
		baseAtts := []string{"image/jpeg:http://x.com/a.jpg", "image/jpeg:http://x.com/b.jpg"}
		tr := c18Tr{}
		for _, lang := range []string{"eng", "fra", "kin"} {
			if lang == base && r.Chance(50) {
				continue
			}
			props := map[string][]string{}
			for _, p := range []string{"text", "quick_replies", "attachments", "name"} {
				opt := Pick(r, lens)
				var v []string
				switch opt {
				case "absent":
					continue
				case "empty":
					v = []string{}
				case "blank":
					v = []string{""}
				case "same":
					v = []string{p + "1 " + lang, p + "2 " + lang}
				case "longer":
					v = []string{p + "1 " + lang, p + "2 " + lang, p + "3 " + lang}
				default:
					v = []string{p + "1 " + lang}
				}
				if p == "attachments" {
					for k := range v {
						if v[k] != "" {
							v[k] = fmt.Sprintf("image/png:http://x.com/%s%d.png", lang, k)
						}
					}
				}
				if (p == "text" || p == "name") && len(v) > 1 {
					v = v[:1]
				}
				props[p] = v
			}
			if len(props) > 0 {
				tr[lang] = props
			}
		}
		runOne(cl, allowed, base, tr, baseAtts, baseQRs, "sampled")
	}
}

// runC18Voice: say_msg in a voice flow resolves its text and its recording independently; the locale of the created
// IVR message names the language of the text.
func runC18Voice(c *Ctx, contactLangs []string, allowedLists [][]string, baseLangs []string) {
	actionUUID := "ad154980-7bf7-4ab8-8728-545fd6378912"
	opts := []string{"absent", "empty", "blank", "translated"}
	count := 0
	for _, cl := range contactLangs {
		for _, allowed := range allowedLists {
			for _, base := range baseLangs {
				for _, tt := range opts {
					for _, ta := range opts {
						for _, other := range []string{"fra", "eng"} {
							if other == base {
								continue
							}
							count++
							item := map[string]any{}
							tr := map[string][]string{}
							for p, o := range map[string]string{"text": tt, "audio_url": ta} {
								switch o {
								case "empty":
									tr[p] = []string{}
								case "blank":
									tr[p] = []string{""}
								case "translated":
									if p == "text" {
										tr[p] = []string{"text in " + other}
									} else {
										tr[p] = []string{"http://x.com/" + other + ".m4a"}
									}
								default:
									continue
								}
								item[p] = tr[p]
							}
							loc := map[string]any{other: map[string]any{actionUUID: item}}
							def := map[string]any{"uuid": "7a84463d-d209-4d3e-a0ff-79f977cd7bd0", "name": "V", "spec_version": "13.6.0", "language": base, "type": "voice", "revision": 1,
								"expire_after_minutes": 60, "localization": loc, "nodes": []map[string]any{{"uuid": "72a1f5df-49f9-45df-94c9-d86f7ea064e5",
									"actions": []any{map[string]any{"uuid": actionUUID, "type": "say_msg", "text": "base text", "audio_url": "http://x.com/base.m4a"}},
									"exits": []map[string]any{{"uuid": "d7a36118-0a38-4b35-a7e4-ae89042f0d3c"}}}}}
							aj, _ := json.Marshal(map[string]any{"flows": []any{def}, "channels": []any{map[string]any{"uuid": "57f1078f-88aa-46f4-a59a-948a5739c03d",
								"name": "Voice", "address": "+12345671111", "schemes": []string{"tel"}, "roles": []string{"send", "receive", "call", "answer"}}}})
							desc := map[string]any{"assets": json.RawMessage(aj), "contact_language": cl, "allowed_languages": allowed, "base_language": base, "label": "voice"}
							src, err := static.NewSource(aj)
							if err != nil {
								c.Count("C18-assets-rejected")
								continue
							}
							var al []i18n.Language
							for _, a := range allowed {
								al = append(al, i18n.Language(a))
							}
							env := envs.NewBuilder().WithAllowedLanguages(al...).Build()
							sa, err := engine.NewSessionAssets(env, src, nil)
							if err != nil {
								c.Count("C18-assets-rejected")
								continue
							}
							var msg *events.IVRCreatedEvent
							ok := !c.Guard("C18-run", "panic:localize", desc, func() {
								restore := setDeterministic(1)
								defer restore()
								contact := flows.NewEmptyContact(sa, "Ann", i18n.Language(cl), nil)
								trig := triggers.NewBuilder(env, assets.NewFlowReference("7a84463d-d209-4d3e-a0ff-79f977cd7bd0", "V"), contact).Manual().
									WithCall(assets.NewChannelReference("57f1078f-88aa-46f4-a59a-948a5739c03d", "Voice"), urns.URN("tel:+250788123123")).Build()
								_, sp, err := engine.NewBuilder().Build().NewSession(sa, trig)
								if err != nil {
									c.Count("C18-go-error")
									c.Notes = appendNote(c.Notes, err.Error())
									return
								}
								for _, e := range sp.Events() {
									if m, ok := e.(*events.IVRCreatedEvent); ok {
										msg = m
									}
								}
							})
							if !ok || msg == nil {
								c.Count("C18-voice-no-msg")
								continue
							}
							// the preference list of the statement
							prefs := []string{}
							merged := ""
							if cl != "" && contains(allowed, cl) {
								merged = cl
							} else if len(allowed) > 0 {
								merged = allowed[0]
							}
							if merged != "" {
								prefs = append(prefs, merged)
							}
							if len(allowed) > 0 && allowed[0] != merged {
								prefs = append(prefs, allowed[0])
							}
							prefs = append(prefs, base)
							resolve := func(prop, native string) (string, string) {
								for _, l := range prefs {
									if l == base {
										return native, base
									}
									if l != other {
										continue
									}
									v := tr[prop]
									if len(v) == 0 || (len(v) == 1 && v[0] == "") {
										continue
									}
									return v[0], l
								}
								return native, base
							}
							wantText, wantLang := resolve("text", "base text")
							wantAudio, _ := resolve("audio_url", "http://x.com/base.m4a")
							gotAudio := ""
							if len(msg.Msg.Attachments()) > 0 {
								gotAudio = msg.Msg.Attachments()[0].URL()
							}
							gotLang := ""
							if msg.Msg.Locale() != i18n.NilLocale {
								l, _ := msg.Msg.Locale().Split()
								gotLang = string(l)
							}
							c.Eval(fmt.Sprintf("voice|%s|%v|%s|%s|%s|%s", cl, allowed, base, other, tt, ta))
							c.Count("check:M-fallback-voice")
							if msg.Msg.Text() != wantText {
								c.Fail("monitor", "M-fallback", "voice-text-language", fmt.Sprintf("spoken text is %q, the fallback prescribes %q (%s)", msg.Msg.Text(), wantText, wantLang), desc)
							}
							if gotAudio != wantAudio {
								c.Fail("monitor", "M-fallback", "voice-audio-language", fmt.Sprintf("recording is %q, the fallback prescribes %q", gotAudio, wantAudio), desc)
							}
							if gotLang != wantLang {
								c.Fail("monitor", "M-fallback", "voice-msg-locale", fmt.Sprintf("locale language is %q, the text was taken from %q", gotLang, wantLang), desc)
							}
							// K: the model's sayMsg
							clArg := "-"
							if cl != "" {
								clArg = fmt.Sprint(langNum[cl])
							}
							var alNums []string
							for _, a := range allowed {
								alNums = append(alNums, fmt.Sprint(langNum[a]))
							}
							trArg := func(prop string) string {
								if v, ok := tr[prop]; ok {
									return encList([]string{fmt.Sprintf("%d=%s", langNum[other], texts(v))}, ";")
								}
								return encList(nil, ";")
							}
							c.Model("saymsg", fmt.Sprintf("saymsg %s %s %d %s %s %s %s", clArg, encList(alNums, ","), langNum[base], texts([]string{"base text"}), texts([]string{"http://x.com/base.m4a"}),
								trArg("text"), trArg("audio_url")),
								fmt.Sprintf("lang %d text %s audio %s", langNum[gotLang], texts([]string{msg.Msg.Text()}), texts([]string{gotAudio})), desc)
						}
					}
				}
			}
		}
	}
	c.Dist["voice-grid-size"] = count
}

// runC18Scenarios: (a) a send_msg with a template to all URNs - the messages that use a template translation carry the
// translation's locale, the others the language their text was taken from, in every order of the URNs and for every
// placement of the template translations; (b) a result saved again with the same value and category after the contact's
// language changed carries the category name in the language now in force.
func runC18Scenarios(c *Ctx) {
	wa, ph := "8b3fc10f-e6b9-4817-8dba-b1a17d92fb5d", "4dc54f4e-3673-4514-a945-74af0084baa2"
	actionUUID := "95e6ccaa-d655-4d91-86e0-9eafffacf740"
	for _, cl := range []string{"spa", "eng", "fra", ""} {
		for _, trOn := range [][]string{{wa}, {ph}, {wa, ph}, {}} {
			for _, urnOrder := range [][]string{{"whatsapp:12065551212", "tel:+12065551212"}, {"tel:+12065551212", "whatsapp:12065551212"}} {
				for _, tplLocale := range []string{"eng-US", "fra-FR"} {
					var trs []any
					for _, ch := range trOn {
						trs = append(trs, map[string]any{"channel": map[string]any{"uuid": ch, "name": "C"}, "locale": tplLocale,
							"components": []any{map[string]any{"name": "body", "type": "body/text", "content": "from the template", "variables": map[string]any{}}}, "variables": []any{}})
					}
					if trs == nil {
						trs = []any{}
					}
					def := map[string]any{"uuid": "50c3706e-fedb-42c0-8eab-dda3335714b7", "name": "T", "spec_version": "13.6.0", "language": "eng", "type": "messaging", "revision": 1, "expire_after_minutes": 60,
						"localization": map[string]any{"spa": map[string]any{actionUUID: map[string]any{"text": []string{"Hola"}}}},
						"nodes": []any{map[string]any{"uuid": "e15edcd9-d6be-45c3-9de6-ad4eff2bb184", "actions": []any{map[string]any{"uuid": actionUUID, "type": "send_msg", "text": "Hello", "all_urns": true,
							"template": map[string]any{"uuid": "21754637-52e6-401b-92c5-55359ca02174", "name": "greeting"}}}, "exits": []any{map[string]any{"uuid": "656d3b7b-5b33-4f27-855c-17faa6da9619"}}}}}
					aj, _ := json.Marshal(map[string]any{"flows": []any{def},
						"channels":  []any{map[string]any{"uuid": wa, "name": "WhatsApp", "address": "12065550001", "schemes": []string{"whatsapp"}, "roles": []string{"send", "receive"}}, map[string]any{"uuid": ph, "name": "Phone", "address": "+12065550002", "schemes": []string{"tel"}, "roles": []string{"send", "receive"}}},
						"templates": []any{map[string]any{"uuid": "21754637-52e6-401b-92c5-55359ca02174", "name": "greeting", "translations": trs}}})
					desc := map[string]any{"assets": json.RawMessage(aj), "contact_language": cl, "urns": urnOrder, "label": "template-destinations"}
					src, err := static.NewSource(aj)
					if err != nil {
						c.Count("C18-assets-rejected")
						continue
					}
					env := envs.NewBuilder().WithAllowedLanguages("eng", "spa").Build()
					sa, err := engine.NewSessionAssets(env, src, nil)
					if err != nil {
						c.Count("C18-assets-rejected")
						continue
					}
					var msgs []*events.MsgCreatedEvent
					if c.Guard("C18-run", "panic:localize", desc, func() {
						restore := setDeterministic(1)
						defer restore()
						contact := flows.NewEmptyContact(sa, "Ann", i18n.Language(cl), nil)
						for _, u := range urnOrder {
							contact.AddURN(urns.URN(u), nil)
						}
						trig := triggers.NewBuilder(env, assets.NewFlowReference("50c3706e-fedb-42c0-8eab-dda3335714b7", "T"), contact).Manual().Build()
						_, sp, err := engine.NewBuilder().Build().NewSession(sa, trig)
						if err != nil {
							c.Count("C18-go-error")
							return
						}
						for _, e := range sp.Events() {
							if m, ok := e.(*events.MsgCreatedEvent); ok {
								msgs = append(msgs, m)
							}
						}
					}) {
						continue
					}
					wantLang := "eng"
					wantText := "Hello"
					if cl == "spa" {
						wantLang, wantText = "spa", "Hola"
					}
					for _, m := range msgs {
						c.Count("check:M-fallback-template")
						c.Eval(fmt.Sprintf("tpl|%s|%d|%v|%s", cl, len(trOn), m.Msg.Templating() != nil, tplLocale))
						l, _ := m.Msg.Locale().Split()
						if m.Msg.Templating() != nil {
							if string(m.Msg.Locale()) != tplLocale {
								c.Fail("monitor", "M-fallback", "template-msg-locale", fmt.Sprintf("a message that uses a template translation in %s reports locale %q", tplLocale, m.Msg.Locale()), desc)
							}
						} else if m.Msg.Text() != wantText || string(l) != wantLang {
							c.Fail("monitor", "M-fallback", "msg-locale-beside-template", fmt.Sprintf("a message without a template translation has text %q and locale %q, the fallback prescribes %q in %s", m.Msg.Text(), m.Msg.Locale(), wantText, wantLang), desc)
						}
					}
				}
			}
		}
	}
	// (b)
	for _, first := range []string{"fra", "spa", "eng", "kin"} {
		for _, second := range []string{"fra", "spa", "eng", "kin"} {
			if first == second {
				continue
			}
			catUUID, otherUUID := "37d8813f-1402-4ad2-9cc2-e9054a96525b", "47d8813f-1402-4ad2-9cc2-e9054a96525c"
			def := map[string]any{"uuid": "50c3706e-fedb-42c0-8eab-dda3335714b7", "name": "L", "spec_version": "13.6.0", "language": "eng", "type": "messaging", "revision": 1, "expire_after_minutes": 60,
				"localization": map[string]any{"fra": map[string]any{catUUID: map[string]any{"name": []string{"Rouge"}}}, "spa": map[string]any{catUUID: map[string]any{"name": []string{"Rojo"}}}},
				"nodes": []any{
					map[string]any{"uuid": "72a1f5df-49f9-45df-94c9-d86f7ea064e5", "router": map[string]any{"type": "switch", "wait": map[string]any{"type": "msg"}, "operand": "@input.text", "result_name": "Color",
						"cases":      []any{map[string]any{"uuid": "a7d8813f-1402-4ad2-9cc2-e9054a96525d", "type": "has_any_word", "arguments": []string{"red"}, "category_uuid": catUUID}},
						"categories": []any{map[string]any{"uuid": catUUID, "name": "Red", "exit_uuid": "d7a36118-0a38-4b35-a7e4-ae89042f0d3c"}, map[string]any{"uuid": otherUUID, "name": "Other", "exit_uuid": "e7a36118-0a38-4b35-a7e4-ae89042f0d3d"}},
						"default_category_uuid": otherUUID}, "exits": []any{map[string]any{"uuid": "d7a36118-0a38-4b35-a7e4-ae89042f0d3c", "destination_uuid": "82a1f5df-49f9-45df-94c9-d86f7ea064e6"}, map[string]any{"uuid": "e7a36118-0a38-4b35-a7e4-ae89042f0d3d"}}},
					map[string]any{"uuid": "82a1f5df-49f9-45df-94c9-d86f7ea064e6", "actions": []any{map[string]any{"uuid": "f97cd6d5-3354-4dbd-85bc-6c1f87849eed", "type": "send_msg", "text": "You said @results.color.category_localized"},
						map[string]any{"uuid": "097cd6d5-3354-4dbd-85bc-6c1f87849eee", "type": "set_contact_language", "language": second}},
						"exits": []any{map[string]any{"uuid": "f7a36118-0a38-4b35-a7e4-ae89042f0d3e", "destination_uuid": "72a1f5df-49f9-45df-94c9-d86f7ea064e5"}}}}}
			aj, _ := json.Marshal(map[string]any{"flows": []any{def}})
			desc := map[string]any{"assets": json.RawMessage(aj), "contact_language": first, "then": second, "label": "result-saved-again"}
			src, err := static.NewSource(aj)
			if err != nil {
				continue
			}
			env := envs.NewBuilder().WithAllowedLanguages("eng", "fra", "spa").Build()
			sa, err := engine.NewSessionAssets(env, src, nil)
			if err != nil {
				continue
			}
			// in the flow's own language the result carries no localized name
			names := map[string]string{"fra": "Rouge", "spa": "Rojo", "eng": "", "kin": ""}
			c.Guard("C18-run", "panic:localize", desc, func() {
				restore := setDeterministic(1)
				defer restore()
				contact := flows.NewEmptyContact(sa, "Ann", i18n.Language(first), nil)
				trig := triggers.NewBuilder(env, assets.NewFlowReference("50c3706e-fedb-42c0-8eab-dda3335714b7", "L"), contact).Manual().Build()
				s, _, err := engine.NewBuilder().Build().NewSession(sa, trig)
				if err != nil {
					return
				}
				for k, want := range []string{names[first], names[second]} {
					if _, err := s.Resume(resumes.NewMsg(nil, nil, flows.NewMsgIn(flows.MsgUUID(fmt.Sprintf("0d1c5a36-fff5-4a0f-a2c7-02f7c7f3c4a%d", k)), "tel:+12065550100", nil, "red", nil))); err != nil {
						return
					}
					res := s.Runs()[0].Results().Get("color")
					c.Count("check:M-fallback-resave")
					c.Eval(fmt.Sprintf("resave|%s|%s|%d", first, second, k))
					if res == nil || res.CategoryLocalized != want {
						got := "<no result>"
						if res != nil {
							got = res.CategoryLocalized
						}
						c.Fail("monitor", "M-fallback", "category-localized-after-language-change", fmt.Sprintf("visit %d: the result's localized category is %q, the language now in force prescribes %q", k+1, got, want), desc)
					}
				}
			})
		}
	}

	// (c) the environment is replaced by a resume: the allowed languages in force when a text is chosen are the new ones
	// (session kept in memory between the start and the resume)
	for _, cl := range []string{"spa", "eng", "fra", ""} {
		for _, before := range [][]string{{"eng", "spa"}, {"eng"}, {"spa", "eng"}, {"fra", "spa"}, {}} {
			for _, after := range [][]string{{"eng", "spa"}, {"eng"}, {"spa", "eng"}, {"fra", "spa"}, {"spa"}, {}} {
				a1, a2 := "95e6ccaa-d655-4d91-86e0-9eafffacf740", "a5e6ccaa-d655-4d91-86e0-9eafffacf741"
				def := map[string]any{"uuid": "50c3706e-fedb-42c0-8eab-dda3335714b7", "name": "E", "spec_version": "13.6.0", "language": "eng", "type": "messaging", "revision": 1, "expire_after_minutes": 60,
					"localization": map[string]any{"spa": map[string]any{a1: map[string]any{"text": []string{"Hola"}}, a2: map[string]any{"text": []string{"Gracias"}, "quick_replies": []string{"adios"}}}},
					"nodes": []any{
						map[string]any{"uuid": "72a1f5df-49f9-45df-94c9-d86f7ea064e5", "actions": []any{map[string]any{"uuid": a1, "type": "send_msg", "text": "Hello"}},
							"router": map[string]any{"type": "switch", "wait": map[string]any{"type": "msg"}, "operand": "@input.text", "cases": []any{},
								"categories": []any{map[string]any{"uuid": "37d8813f-1402-4ad2-9cc2-e9054a96525b", "name": "All", "exit_uuid": "d7a36118-0a38-4b35-a7e4-ae89042f0d3c"}}, "default_category_uuid": "37d8813f-1402-4ad2-9cc2-e9054a96525b"},
							"exits": []any{map[string]any{"uuid": "d7a36118-0a38-4b35-a7e4-ae89042f0d3c", "destination_uuid": "82a1f5df-49f9-45df-94c9-d86f7ea064e6"}}},
						map[string]any{"uuid": "82a1f5df-49f9-45df-94c9-d86f7ea064e6", "actions": []any{map[string]any{"uuid": a2, "type": "send_msg", "text": "Thanks", "quick_replies": []string{"bye"}}},
							"exits": []any{map[string]any{"uuid": "f7a36118-0a38-4b35-a7e4-ae89042f0d3e"}}}}}
				aj, _ := json.Marshal(map[string]any{"flows": []any{def}})
				desc := map[string]any{"assets": json.RawMessage(aj), "contact_language": cl, "allowed_at_start": before, "allowed_from_resume": after, "label": "environment-replaced-by-resume"}
				src, err := static.NewSource(aj)
				if err != nil {
					continue
				}
				mkEnv := func(ls []string) envs.Environment {
					var langs []i18n.Language
					for _, l := range ls {
						langs = append(langs, i18n.Language(l))
					}
					return envs.NewBuilder().WithAllowedLanguages(langs...).Build()
				}
				env1, env2 := mkEnv(before), mkEnv(after)
				sa, err := engine.NewSessionAssets(env1, src, nil)
				if err != nil {
					continue
				}
				// the fallback with the languages of the second environment: only spa has translations, eng is the flow's own
				wantText, wantQR, wantLang := "Thanks", "bye", "eng"
				var prefs []string
				if cl != "" && contains(after, cl) {
					prefs = append(prefs, cl)
				}
				if len(after) > 0 {
					prefs = append(prefs, after[0])
				}
				for _, l := range append(prefs, "eng") {
					if l == "eng" {
						break
					}
					if l == "spa" {
						wantText, wantQR, wantLang = "Gracias", "adios", "spa"
						break
					}
				}
				c.Guard("C18-run", "panic:localize", desc, func() {
					restore := setDeterministic(1)
					defer restore()
					contact := flows.NewEmptyContact(sa, "Ann", i18n.Language(cl), nil)
					contact.AddURN("tel:+12065550100", nil)
					trig := triggers.NewBuilder(env1, assets.NewFlowReference("50c3706e-fedb-42c0-8eab-dda3335714b7", "E"), contact).Manual().Build()
					s, _, err := engine.NewBuilder().Build().NewSession(sa, trig)
					if err != nil {
						return
					}
					sp, err := s.Resume(resumes.NewMsg(env2, nil, flows.NewMsgIn("0d1c5a36-fff5-4a0f-a2c7-02f7c7f3c4a8", "tel:+12065550100", nil, "ok", nil)))
					if err != nil {
						return
					}
					for _, e := range sp.Events() {
						if m, ok := e.(*events.MsgCreatedEvent); ok {
							c.Count("check:M-fallback-env-resume")
							c.Eval(fmt.Sprintf("envresume|%s|%v|%v", cl, before, after))
							l, _ := m.Msg.Locale().Split()
							qr := ""
							if len(m.Msg.QuickReplies()) > 0 {
								qr = m.Msg.QuickReplies()[0]
							}
							if m.Msg.Text() != wantText || qr != wantQR || string(l) != wantLang {
								c.Fail("monitor", "M-fallback", "fallback-after-environment-resume",
									fmt.Sprintf("after a resume that replaces the environment the message is %q / %q in %q, the languages now allowed prescribe %q / %q in %q", m.Msg.Text(), qr, l, wantText, wantQR, wantLang), desc)
							}
						}
					}
				})
			}
		}
	}
}
func contains(xs []string, x string) bool {
	for _, y := range xs {
		if y == x {
			return true
		}
	}
	return false
}

func nonEmpty(xs []string) []string {
	var out []string
	for _, x := range xs {
		if x != "" {
			out = append(out, x)
		}
	}
	return out
}
