package main

import (
	"encoding/json"
	"fmt"
	"regexp"
	"sort"
	"strings"
	"time"

	"github.com/nyaruka/gocommon/i18n"
	"github.com/nyaruka/gocommon/urns"
	"github.com/nyaruka/gocommon/uuids"
	"github.com/nyaruka/goflow/assets"
	"github.com/nyaruka/goflow/assets/static"
	"github.com/nyaruka/goflow/contactql"
	"github.com/nyaruka/goflow/envs"
	"github.com/nyaruka/goflow/excellent/types"
	"github.com/nyaruka/goflow/flows"
	"github.com/nyaruka/goflow/flows/engine"
	"github.com/nyaruka/goflow/flows/resumes"
	"github.com/nyaruka/goflow/flows/triggers"
	"github.com/nyaruka/goflow/test"
)

func init() {
	register("C19", "pairs of contacts that differ only in the path and display of their URNs (same schemes, same country, same channel affinity; 0-4 URNs over tel, twitter, facebook, whatsapp, telegram, mailto ...; with and without a name), "+
		"driven through a parent flow that enters a child flow that waits for a message, under msg and manual triggers and msg resumes; after every sprint the whole expression context of every run is walked "+
		"(every property incl. deprecated ones, every array item, defaults, text and JSON renderings, to depth 7) and a battery of templates over URN-bearing paths and functions is evaluated, under both redaction policies; "+
		"contact queries over URN attributes, schemes, urns.<scheme> paths and bare numbers under both policies; non-trivial = distinct (policy, URN shape, trigger, context path class, outcome)", runC19)
}

const c19Assets = `{
  "channels": [
    {"uuid": "57f1078f-88aa-46f4-a59a-948a5739c03d", "name": "Android", "address": "+17036975131", "schemes": ["tel"], "roles": ["send", "receive"], "country": "US"},
    {"uuid": "8e21f093-99aa-413b-b55b-758b54308fcb", "name": "Twitter", "address": "nyaruka", "schemes": ["twitter", "twitterid"], "roles": ["send", "receive"]},
    {"uuid": "4bb288a0-7fca-4da1-abe8-59a593aff648", "name": "Facebook", "address": "235326346322111", "schemes": ["facebook"], "roles": ["send", "receive"]},
    {"uuid": "3a05eaf5-cb1b-4246-bef1-f277419c83a7", "name": "Others", "address": "x", "schemes": ["whatsapp", "telegram", "mailto", "viber", "line"], "roles": ["send", "receive"]}
  ],
  "fields": [{"uuid": "d66a7823-eada-40e5-9a3a-57239d4690bf", "key": "gender", "name": "Gender", "type": "text"}],
  "groups": [{"uuid": "b7cf0d83-f1c9-411c-96fd-c511a4cfa86d", "name": "Testers"}],
  "flows": [
    {"uuid": "50c3706e-fedb-42c0-8eab-dda3335714b7", "name": "Parent", "spec_version": "13.6.0", "language": "eng", "type": "messaging", "revision": 1, "expire_after_minutes": 60, "localization": {},
     "nodes": [
       {"uuid": "72a1f5df-49f9-45df-94c9-d86f7ea064e5", "actions": [
          {"uuid": "ad154980-7bf7-4ab8-8728-545fd6378912", "type": "send_msg", "text": "P1 @contact @contact.urn @contact.urns @urns.tel @urns @input @input.urn @trigger @(json(contact)) @(format_urn(contact.urn))"},
          {"uuid": "5508e6a7-26ce-4b3b-b32e-bb4e2e614f5d", "type": "set_run_result", "name": "Who", "value": "@contact.urn"},
          {"uuid": "e97cd6d5-3354-4dbd-85bc-6c1f87849eec", "type": "enter_flow", "flow": {"uuid": "b7cf0d83-f1c9-411c-96fd-c511a4cfa86e", "name": "Child"}}],
        "router": {"type": "switch", "operand": "@child.status", "cases": [], "categories": [{"uuid": "d7a36118-0a38-4b35-a7e4-ae89042f0d3c", "name": "All", "exit_uuid": "37d8813f-1402-4ad2-9cc2-e9054a96525b"}], "default_category_uuid": "d7a36118-0a38-4b35-a7e4-ae89042f0d3c"},
        "exits": [{"uuid": "37d8813f-1402-4ad2-9cc2-e9054a96525b", "destination_uuid": "f5bb9b7a-7b5e-45c3-8f0e-61b4e95edf03"}]},
       {"uuid": "f5bb9b7a-7b5e-45c3-8f0e-61b4e95edf03", "actions": [
          {"uuid": "d2a4052a-3fa9-4608-ab3e-5b9631440447", "type": "send_msg", "text": "P2 @child @child.contact @child.contact.urn @child.urns.tel @child.results @results @run @(json(child)) @input.urn"}],
        "router": {"type": "switch", "operand": "@input.text", "wait": {"type": "msg"}, "cases": [], "categories": [{"uuid": "37d8813f-1402-4ad2-9cc2-e9054a96525c", "name": "All", "exit_uuid": "37d8813f-1402-4ad2-9cc2-e9054a96525d"}], "default_category_uuid": "37d8813f-1402-4ad2-9cc2-e9054a96525c"},
        "exits": [{"uuid": "37d8813f-1402-4ad2-9cc2-e9054a96525d"}]}
     ]},
    {"uuid": "b7cf0d83-f1c9-411c-96fd-c511a4cfa86e", "name": "Child", "spec_version": "13.6.0", "language": "eng", "type": "messaging", "revision": 1, "expire_after_minutes": 60, "localization": {},
     "nodes": [
       {"uuid": "c0781400-737f-4940-9a6c-1ec1c3df0325", "actions": [
          {"uuid": "ed7b50d4-3f8b-4b5e-8ac1-1f2f3c5d8a0d", "type": "send_msg", "text": "C1 @parent @parent.contact @parent.contact.urn @parent.urns.tel @parent.results @parent.results.who @(json(parent)) @contact.tel @contact.tel_e164"},
          {"uuid": "6cd2a4a5-5f6e-4b7a-9f4d-0b0f5c9e3d11", "type": "set_run_result", "name": "Urn", "value": "@(urn_parts(contact.urn).path) @(default(urns.twitter, \"-\"))"}],
        "router": {"type": "switch", "operand": "@input.text", "wait": {"type": "msg"}, "result_name": "Answer", "cases": [], "categories": [{"uuid": "0680b01f-ba0b-48f4-a688-d2f963130126", "name": "All", "exit_uuid": "959d6e4a-658d-4cc6-a1d3-d5b5e3a2b1d1"}], "default_category_uuid": "0680b01f-ba0b-48f4-a688-d2f963130126"},
        "exits": [{"uuid": "959d6e4a-658d-4cc6-a1d3-d5b5e3a2b1d1", "destination_uuid": "1b828e78-e478-4357-8472-7a9c4c1c6f0b"}]},
       {"uuid": "1b828e78-e478-4357-8472-7a9c4c1c6f0b", "actions": [
          {"uuid": "7b5b6e0e-3f5c-4e1a-8d0e-5a8f5b7c9d22", "type": "send_msg", "text": "C2 @input @input.urn @(json(input)) @resume @trigger @(json(trigger)) @run.contact @run.contact.urns"}],
        "exits": [{"uuid": "2f7c7b7e-4b4c-4e4c-9c9c-0a0b0c0d0e0f"}]}
     ]}
  ]
}`

type c19URN struct {
	scheme        string
	pathA, pathB  string
	dispA, dispB  string
	channel       string
}

func genC19URNs(r *Rng) []c19URN {
	n := r.Range(0, 4)
	var out []c19URN
	for i := 0; i < n; i++ {
		var u c19URN
		switch r.Intn(8) {
		case 7:
			u = c19URN{scheme: Pick(r, []string{"discord", "instagram", "vk"}), pathA: fmt.Sprint(31000+r.Intn(1000)), pathB: fmt.Sprint(92000+r.Intn(1000))}
		case 0, 1, 2:
			u = c19URN{scheme: "tel", pathA: fmt.Sprintf("+1206555%04d", r.Intn(10000)), pathB: fmt.Sprintf("+1206777%04d", r.Intn(10000))}
			if r.Chance(30) {
				u.channel = "57f1078f-88aa-46f4-a59a-948a5739c03d"
			}
		case 3:
			u = c19URN{scheme: "twitter", pathA: "alice" + fmt.Sprint(r.Intn(100)), pathB: "bob" + fmt.Sprint(r.Intn(100))}
		case 4:
			u = c19URN{scheme: "twitterid", pathA: fmt.Sprint(1000+r.Intn(9000)), pathB: fmt.Sprint(20000+r.Intn(9000)), dispA: "alice", dispB: "bobby"}
		case 5:
			u = c19URN{scheme: "facebook", pathA: fmt.Sprint(100000+r.Intn(900000)), pathB: fmt.Sprint(7000000+r.Intn(900000))}
		default:
			s := Pick(r, []string{"whatsapp", "telegram", "mailto", "viber", "line"})
			u = c19URN{scheme: s, pathA: fmt.Sprint(5550000+r.Intn(1000)), pathB: fmt.Sprint(8880000+r.Intn(1000))}
			if s == "mailto" {
				u.pathA, u.pathB = "ann"+fmt.Sprint(r.Intn(100))+"@example.com", "zed"+fmt.Sprint(r.Intn(100))+"@example.org"
			}
			if s == "telegram" && r.Bool() {
				u.dispA, u.dispB = "anndisplay", "zeddisplay"
			}
		}
		out = append(out, u)
	}
	return out
}

func (u c19URN) raw(b bool) urns.URN {
	path, disp := u.pathA, u.dispA
	if b {
		path, disp = u.pathB, u.dispB
	}
	s := u.scheme + ":" + path
	if u.channel != "" {
		s += "?channel=" + u.channel
	}
	if disp != "" {
		s += "#" + disp
	}
	return urns.URN(s)
}

var idxRe = regexp.MustCompile(`\[\d+\]`)

// walks a context value: every property (sorted), every item, the default, text and JSON renderings
func c19Walk(env envs.Environment, path string, v types.XValue, depth int, out map[string]string) {
	if depth > 7 {
		return
	}
	kind := ""
	switch v.(type) {
	case *types.XObject, *types.XArray:
		kind = "(container)"
	}
	out[path+"|text"+kind] = types.Render(v)
	if j, err := types.ToXJSON(v); err == nil {
		out[path+"|json"+kind] = j.Native()
	}
	if f, err := types.ToXText(env, v); err == nil {
		out[path+"|totext"+kind] = f.Native()
	}
	switch t := v.(type) {
	case *types.XObject:
		for _, p := range t.Properties() {
			pv, _ := t.Get(p)
			c19Walk(env, path+"."+p, pv, depth+1, out)
		}
		if d := t.Default(); d != types.XValue(t) {
			c19Walk(env, path+".__default__", d, depth+1, out)
		}
	case *types.XArray:
		for i := 0; i < t.Count(); i++ {
			c19Walk(env, fmt.Sprintf("%s[%d]", path, i), t.Get(i), depth+1, out)
		}
	}
}

var c19Templates = []string{
	"@contact", "@contact.urn", "@contact.urns", "@(contact.urns[0])", "@urns", "@urns.tel", "@urns.twitter", "@urns.twitterid", "@urns.facebook", "@urns.mailto", "@urns.telegram",
	"@(format_urn(contact.urn))", "@(format_urn(urns.tel))", "@(urn_parts(contact.urn))", "@(urn_parts(contact.urn).path)", "@(urn_parts(contact.urn).display)", "@(urn_parts(urns.tel).scheme)",
	"@(json(contact))", "@(json(urns))", "@(json(input))", "@input", "@input.urn", "@(json(run))", "@run", "@run.contact", "@run.contact.urn", "@parent.contact.urn", "@parent.urns", "@child.contact.urn",
	"@child.urns.tel", "@trigger", "@(json(trigger))", "@resume", "@(json(resume))", "@contact.tel", "@contact.tel_e164", "@contact.twitter", "@contact.mailto", "@(default(contact.urn, \"none\"))",
	"@(text_length(contact.urn))", "@(contact.urn = urns.tel)", "@(upper(contact.urns))", "@(foreach(contact.urns, (u) => urn_parts(u).path))", "@(text_slice(contact.urn, 4))",
	"@(split(contact.urn, \":\"))", "@(contact.urn & \"\")", "@(count(contact.urns))", "@legacy_extra", "@(json(legacy_extra))", "@results", "@(json(results))", "@parent.results", "@child.results", "@node",
	"@(has_phone(contact.urn))", "@(has_phone(contact.urn).match)", "@(replace(contact.urn, \"tel:\", \"\"))", "@(clean(contact.urn))", "@(title(input))", "@(extract(contact, \"urn\"))",
	"@(extract_object(contact, \"urn\", \"urns\"))", "@(object(\"u\", contact.urn))", "@(array(contact.urn)[0])", "@(sort(contact.urns))", "@(reverse(contact.urns))", "@(join(contact.urns, \"|\"))",
	"@(if(contact.urn = \"\", 1, 2))", "@(url_encode(contact.urn))", "@(html_decode(contact.urn))", "@(regex_match(contact.urn, \"\\d+\"))", "@(number(urn_parts(contact.urn).path))", "@(parse_json(json(contact)).urn)",
	"@(format(contact))", "@(format(contact.urns))", "@(format(input))", "@(format(urns))", "@fields", "@(contact.fields)", "@contact.channel", "@contact.channel.address", "@input.channel",
}

type c19Obs struct {
	paths    map[string]string
	messages []string
}

// switchTo: when not nil, the session starts under env and the first resume carries switchTo (the host turned redaction on)
func c19Run(env envs.Environment, us []c19URN, b bool, name string, trigger string, inputs []string, switchTo envs.Environment) (*c19Obs, error) {
	src, err := static.NewSource(c19AssetsJSON())
	if err != nil {
		return nil, err
	}
	sa, err := engine.NewSessionAssets(env, src, nil)
	if err != nil {
		return nil, err
	}
	restore := setDeterministic(19)
	defer restore()
	contact, err := c19Contact(sa, us, b, name)
	if err != nil {
		return nil, err
	}
	obs := &c19Obs{paths: map[string]string{}}
	msgURN := urns.URN("tel:+12065550000")
	if b {
		msgURN = urns.URN("tel:+12067770000")
	}
	if len(us) > 0 {
		msgURN = us[0].raw(b)
	}
	tb := triggers.NewBuilder(env, assets.NewFlowReference("50c3706e-fedb-42c0-8eab-dda3335714b7", "Parent"), contact)
	var trig flows.Trigger
	if trigger == "msg" {
		trig = tb.Msg(flows.NewMsgIn(flows.MsgUUID(uuids.NewV4()), msgURN, nil, "hello", nil)).Build()
	} else {
		trig = tb.Manual().Build()
	}
	eng := test.NewEngine()
	s, sp, err := eng.NewSession(sa, trig)
	if err != nil {
		return nil, err
	}
	collect := func(stage string, sp flows.Sprint) {
		for _, e := range sp.Events() {
			b, _ := json.Marshal(e)
			var m struct {
				Type string `json:"type"`
				Msg  struct {
					Text string `json:"text"`
				} `json:"msg"`
				Value string `json:"value"`
				Text  string `json:"text"`
			}
			json.Unmarshal(b, &m)
			switch m.Type {
			case "msg_created":
				obs.messages = append(obs.messages, stage+":"+m.Msg.Text)
			case "run_result_changed":
				obs.messages = append(obs.messages, stage+":result="+m.Value)
			case "error":
				obs.messages = append(obs.messages, stage+":error="+m.Text)
			}
		}
		for ri, rn := range s.Runs() {
			// what expressions see: the environment the session evaluates with
			env := s.MergedEnvironment()
			root := types.NewXObject(rn.RootContext(env))
			c19Walk(env, fmt.Sprintf("%s/run%d", stage, ri), root, 0, obs.paths)
			for _, tpl := range c19Templates {
				v, _ := rn.EvaluateTemplate(tpl, func(flows.Event) {})
				obs.paths[fmt.Sprintf("%s/run%d/tpl:%s", stage, ri, tpl)] = v
			}
		}
	}
	collect("start", sp)
	for k, in := range inputs {
		if s.Status() != flows.SessionStatusWaiting {
			break
		}
		var renv envs.Environment
		if k == 0 && switchTo != nil {
			renv = switchTo
		}
		sp, err := s.Resume(resumes.NewMsg(renv, nil, flows.NewMsgIn(flows.MsgUUID(uuids.NewV4()), msgURN, nil, in, nil)))
		if err != nil {
			return obs, nil
		}
		collect(fmt.Sprintf("resume%d", k), sp)
	}
	return obs, nil
}

var c19ContactID = 1234567

func c19Contact(sa flows.SessionAssets, us []c19URN, b bool, name string) (*flows.Contact, error) {
	var raws []urns.URN
	for _, u := range us {
		raws = append(raws, u.raw(b))
	}
	return flows.NewContact(sa, flows.ContactUUID("5d76d86b-3bb9-4d5a-b822-c9d86f5d8e4f"), flows.ContactID(c19ContactID), name, i18n.Language("eng"), flows.ContactStatusActive, nil,
		time.Date(2020, 1, 1, 0, 0, 0, 0, time.UTC), nil, raws, nil, nil, nil, assets.IgnoreMissing)
}

var c19Sendable = map[string]bool{"tel": true, "twitter": true, "twitterid": true, "facebook": true, "whatsapp": true, "telegram": true, "mailto": true, "viber": true, "line": true}

// the contact context of the implementation, in the model's vocabulary (schemes, paths and displays interned)
func c19ModelOp(c *Ctx, env envs.Environment, redact bool, us []c19URN, b bool, name string, desc map[string]any) {
	src, err := static.NewSource(c19AssetsJSON())
	if err != nil {
		return
	}
	sa, err := engine.NewSessionAssets(env, src, nil)
	if err != nil {
		return
	}
	contact, err := c19Contact(sa, us, b, name)
	if err != nil {
		return
	}
	intern := map[string]int{"": 0}
	id := func(s string) int {
		if n, ok := intern[s]; ok {
			return n
		}
		intern[s] = len(intern)
		return intern[s]
	}
	schemeIDs := map[string]int{}
	sid := func(s string) int {
		if n, ok := schemeIDs[s]; ok {
			return n
		}
		schemeIDs[s] = len(schemeIDs) + 1
		return schemeIDs[s]
	}
	var enc, sendable []string
	var order []string
	for _, u := range us {
		path, disp := u.pathA, u.dispA
		if b {
			path, disp = u.pathB, u.dispB
		}
		ch := "-"
		if u.channel != "" {
			ch = "1"
		}
		if _, seen := schemeIDs[u.scheme]; !seen {
			order = append(order, u.scheme)
		}
		enc = append(enc, fmt.Sprintf("%d~%d~%d~%s", sid(u.scheme), id(path), id(disp), ch))
	}
	for sc, n := range schemeIDs {
		if c19Sendable[sc] {
			sendable = append(sendable, fmt.Sprint(n))
		}
	}
	sort.Strings(sendable)
	showReal := func(v types.XValue) string {
		if v == nil {
			return "-"
		}
		t, ok := v.(*types.XText)
		if !ok {
			return "?"
		}
		scheme, path, _, disp := urns.URN(t.Native()).ToParts()
		if path == "********" {
			return fmt.Sprintf("%d:*", sid(scheme))
		}
		return fmt.Sprintf("%d:%d~%d", sid(scheme), id(path), id(disp))
	}
	cx := contact.Context(env)
	dflt := cx["__default__"].(*types.XText).Native()
	var d string
	switch {
	case name != "":
		d = "name:" + hx(dflt)
	case redact:
		d = "id:" + dflt
	case len(us) == 0:
		d = "nothing"
		if dflt != "" {
			d = "unexpected:" + dflt
		}
	default:
		d = "unexpected:" + dflt
		if dflt == us[0].raw(b).Format() {
			path := us[0].pathA
			if b {
				path = us[0].pathB
			}
			d = fmt.Sprintf("urn:%d", id(path))
		}
	}
	var all []string
	if arr, ok := cx["urns"].(*types.XArray); ok {
		for i := 0; i < arr.Count(); i++ {
			all = append(all, showReal(arr.Get(i)))
		}
	}
	mc := contact.URNs().MapContext(env)
	var by []string
	for _, sc := range order {
		by = append(by, showReal(mc[sc]))
	}
	r01 := "0"
	if redact {
		r01 = "1"
	}
	orU := func(xs []string) string {
		if len(xs) == 0 {
			return "_"
		}
		return strings.Join(xs, ",")
	}
	nm := hx(name)
	op := fmt.Sprintf("ctxview %s %s %d %s %s", r01, nm, c19ContactID, orU(enc), orU(sendable))
	exp := fmt.Sprintf("default=%s urn=%s urns=%s by=%s", d, showReal(cx["urn"]), strings.Join(all, ","), strings.Join(by, ","))
	c.Model("ctxview", op, exp, desc)
}

// the second stream's assets: two more tel channels, so that which channel a tel URN goes out on is picked by the number
var c19TwoTelChannels bool

func c19AssetsJSON() []byte {
	if !c19TwoTelChannels {
		return []byte(c19Assets)
	}
	return []byte(strings.Replace(c19Assets, `    {"uuid": "8e21f093-99aa-413b-b55b-758b54308fcb", "name": "Twitter",`,
		`    {"uuid": "6f5fb9b7-5b1c-4c0a-9d2e-0000000000a1", "name": "Seattle", "address": "+12065550000", "schemes": ["tel"], "roles": ["send", "receive"], "country": "US"},
    {"uuid": "6f5fb9b7-5b1c-4c0a-9d2e-0000000000a2", "name": "Tacoma", "address": "+12067770000", "schemes": ["tel"], "roles": ["send", "receive"], "country": "US"},
    {"uuid": "8e21f093-99aa-413b-b55b-758b54308fcb", "name": "Twitter",`, 1))
}

var c19ChannelLeaf = regexp.MustCompile(`(^|[./])contact\.channel\.(name|address|uuid|__default__)(\||$)`)

func runC19(c *Ctx) {
	r := c.Rng
	envOn := envs.NewBuilder().WithRedactionPolicy(envs.RedactionPolicyURNs).WithDefaultCountry("US").Build()
	envOff := envs.NewBuilder().WithDefaultCountry("US").Build()
	n := c.N(120, 6000)
	for i := 0; i < n; i++ {
		us := genC19URNs(r)
		name := Pick(r, []string{"", "", "Ann Lee", "Bob"})
		trigger := Pick(r, []string{"msg", "manual"})
		inputs := []string{"one", "two"}[:r.Range(0, 2)]
		c19ContactID = Pick(r, []int{0, 0, 1, 1234567, 42})
		var schemes []string
		for _, u := range us {
			schemes = append(schemes, u.scheme)
		}
		desc := map[string]any{"schemes": schemes, "name": name, "trigger": trigger, "inputs": inputs, "contact_id": c19ContactID}
		var ua, ub []string
		for _, u := range us {
			ua, ub = append(ua, string(u.raw(false))), append(ub, string(u.raw(true)))
		}
		desc["urns_a"], desc["urns_b"] = ua, ub
		for _, policy := range []string{"urns", "none"} {
			env := envOn
			if policy == "none" {
				env = envOff
			}
			c19ModelOp(c, env, policy == "urns", us, false, name, desc)
			c19ModelOp(c, env, policy == "urns", us, true, name, desc)
			var a, b *c19Obs
			var ea, eb error
			if c.Guard("M-noninterference", "panic:session", desc, func() {
				a, ea = c19Run(env, us, false, name, trigger, inputs, nil)
				b, eb = c19Run(env, us, true, name, trigger, inputs, nil)
			}) {
				continue
			}
			if ea != nil || eb != nil {
				c.Count("C19-session-error")
				c.Notes = appendNote(c.Notes, fmt.Sprintf("session error: %v %v", ea, eb))
				continue
			}
			// differences
			var diffs []string
			keys := make([]string, 0, len(a.paths))
			for k := range a.paths {
				keys = append(keys, k)
			}
			sort.Strings(keys)
			for _, k := range keys {
				if a.paths[k] != b.paths[k] {
					diffs = append(diffs, k)
				}
			}
			msgDiff := strings.Join(a.messages, "\n") != strings.Join(b.messages, "\n")
			c.Count("check:M-noninterference:" + policy)
			c.Dist["context-paths-walked"] += len(keys)
			if policy == "urns" {
				c.Eval(fmt.Sprintf("redacted|%d|%v|%s|%d|%v", len(us), name == "", trigger, len(inputs), len(diffs) == 0 && !msgDiff))
				seenSig := map[string]bool{}
				for _, k := range diffs {
					cls := idxRe.ReplaceAllString(k[strings.Index(k, "/")+1:], "[i]")
					cls = regexp.MustCompile(`^run\d+`).ReplaceAllString(cls, "run")
					cls = strings.TrimSuffix(cls, "(container)")
					cls = strings.TrimSuffix(strings.TrimSuffix(strings.TrimSuffix(cls, "|text"), "|json"), "|totext")
					sig := "redaction-leak:" + cls
					if seenSig[sig] {
						continue
					}
					seenSig[sig] = true
					d := map[string]any{}
					for kk, vv := range desc {
						d[kk] = vv
					}
					d["path"], d["value_a"], d["value_b"] = k, truncate(a.paths[k], 600), truncate(b.paths[k], 600)
					c.Fail("monitor", "M-noninterference", sig, "with URNs redacted, two sessions that differ only in URN paths and display names give different values for an expression", d)
				}
				if msgDiff && len(diffs) == 0 {
					d := map[string]any{"messages_a": a.messages, "messages_b": b.messages}
					for kk, vv := range desc {
						d[kk] = vv
					}
					c.Fail("monitor", "M-noninterference", "redaction-leak:message-text", "with URNs redacted, the two sessions send different message texts", d)
				}
				// contacts without a name are shown by id
				if name == "" {
					if v := a.paths["start/run0/tpl:@contact"]; v != fmt.Sprint(c19ContactID) {
						c.Fail("monitor", "M-nameless-by-id", "nameless-not-by-id", fmt.Sprintf("a contact without a name renders as %q instead of its id", v), desc)
					}
				}
			} else {
				c.Eval(fmt.Sprintf("clear|%d|%v|%s|%v", len(us), name == "", trigger, len(diffs) > 0))
				if len(us) > 0 && len(diffs) == 0 {
					c.Fail("monitor", "M-visible-without-policy", "urns-invisible-without-policy", "without the redaction policy no expression sees the contact's URNs", desc)
				}
			}
			if i < 1 && policy == "urns" {
				c.Sample(map[string]any{"urns_a": ua, "urns_b": ub, "paths_walked": len(keys), "differences": len(diffs), "first_message": firstOr(a.messages)})
			}
		}
	}

	// ---- several tel channels: the channel a tel URN goes out on is picked by the number ---------------------------
	// (only what the context says about the contact's channel is compared here: everything else is the first stream's, whose
	// assets have one tel channel so that this choice cannot hide or mimic another difference)
	c19TwoTelChannels = true
	for i := 0; i < c.N(25, 600); i++ {
		us := genC19URNs(r)
		hasTel := false
		for _, u := range us {
			hasTel = hasTel || u.scheme == "tel"
		}
		if !hasTel {
			continue
		}
		var ua, ub []string
		for _, u := range us {
			ua, ub = append(ua, string(u.raw(false))), append(ub, string(u.raw(true)))
		}
		desc := map[string]any{"urns_a": ua, "urns_b": ub, "tel_channels": []string{"Android +17036975131", "Seattle +12065550000", "Tacoma +12067770000"}}
		var a, b *c19Obs
		var ea, eb error
		if c.Guard("M-noninterference", "panic:session", desc, func() {
			a, ea = c19Run(envOn, us, false, "Ann Lee", "manual", nil, nil)
			b, eb = c19Run(envOn, us, true, "Ann Lee", "manual", nil, nil)
		}) || ea != nil || eb != nil {
			continue
		}
		c.Count("check:M-noninterference:two-tel-channels")
		differs := ""
		for k := range a.paths {
			if a.paths[k] != b.paths[k] && c19ChannelLeaf.MatchString(k) && (differs == "" || k < differs) {
				differs = k
			}
		}
		c.Eval(fmt.Sprintf("two-tel|%d|%v", len(us), differs != ""))
		if differs != "" {
			desc["path"], desc["value_a"], desc["value_b"] = differs, a.paths[differs], b.paths[differs]
			c.Fail("monitor", "M-noninterference", "redaction-leak:preferred-channel-by-number-prefix",
				"with URNs redacted and several tel channels, which channel the context shows for the contact depends on the digits of its number", desc)
		}
	}
	c19TwoTelChannels = false

	// ---- the host turns redaction on with a resume: everything evaluated from then on is redacted ---------------
	for i := 0; i < c.N(40, 1500); i++ {
		us := genC19URNs(r)
		if len(us) == 0 {
			continue
		}
		name := Pick(r, []string{"", "Ann Lee"})
		c19ContactID = Pick(r, []int{0, 7, 1234567})
		trigger := Pick(r, []string{"msg", "manual"})
		desc := map[string]any{"name": name, "trigger": trigger, "contact_id": c19ContactID, "scenario": "started without the policy, first resume carries an environment that differs only in redaction_policy=urns"}
		var ua, ub []string
		for _, u := range us {
			ua, ub = append(ua, string(u.raw(false))), append(ub, string(u.raw(true)))
		}
		desc["urns_a"], desc["urns_b"] = ua, ub
		var a, b *c19Obs
		var ea, eb error
		if c.Guard("M-policy-by-resume", "panic:session", desc, func() {
			a, ea = c19Run(envOff, us, false, name, trigger, []string{"one", "two"}, envOn)
			b, eb = c19Run(envOff, us, true, name, trigger, []string{"one", "two"}, envOn)
		}) || ea != nil || eb != nil {
			continue
		}
		c.Count("check:M-policy-by-resume")
		leak := ""
		for k, v := range a.paths {
			// leaves only: a container's rendering includes the results saved before the switch, which legitimately hold what was visible then
			if strings.HasPrefix(k, "resume") && b.paths[k] != v && !strings.Contains(k, "results") && !strings.Contains(k, "legacy_extra") && !strings.Contains(k, "(container)") && !strings.Contains(k, "/tpl:") {
				// results saved before the switch legitimately hold what was visible then
				if leak == "" || k < leak {
					leak = k
				}
			}
		}
		var ma, mb []string
		for _, m := range a.messages {
			if strings.HasPrefix(m, "resume") && !strings.Contains(m, "result=") {
				ma = append(ma, m)
			}
		}
		for _, m := range b.messages {
			if strings.HasPrefix(m, "resume") && !strings.Contains(m, "result=") {
				mb = append(mb, m)
			}
		}
		c.Eval(fmt.Sprintf("switch|%d|%v|%s|%v", len(us), name == "", trigger, leak == ""))
		if leak != "" {
			desc["path"], desc["value_a"], desc["value_b"] = leak, truncate(a.paths[leak], 500), truncate(b.paths[leak], 500)
			c.Fail("monitor", "M-policy-by-resume", "redaction-leak:after-policy-resume", "after a resume that turns URN redaction on, an expression still sees the URNs", desc)
		}
	}

	// ---- contact queries ---------------------------------------------------------------------------------------
	props := []string{"tel", "twitter", "urn", "whatsapp", "urns.tel", "urns.twitter", "urns.mailto", "name", "fields.gender", "gender", "id", "language", "uuid", "group"}
	ops := []string{"=", "!=", "~", ">", "<="}
	vals := []string{`"+12065550100"`, `""`, `"bob"`, "12065550100", `"0788"`, "x", `"tel:+1234"`}
	for i := 0; i < c.N(1500, 60000); i++ {
		var q string
		var isURNProp, emptyVal bool
		if r.Chance(15) {
			q = Pick(r, []string{"+12065550100", "0788123123", "12345", "bob", "tel:+12065550100", "twitter:bob", `"+1 206 555 0100"`, "206-555-0100"})
		} else {
			p, o, v := Pick(r, props), Pick(r, ops), Pick(r, vals)
			q = p + " " + o + " " + v
			isURNProp = p == "tel" || p == "twitter" || p == "urn" || p == "whatsapp" || strings.HasPrefix(p, "urns.")
			emptyVal = v == `""`
			if r.Chance(30) {
				q = q + Pick(r, []string{" AND ", " OR "}) + "name = \"x\""
			}
		}
		desc := map[string]any{"query": q}
		on, errOn := contactql.ParseQuery(envOn, q, nil)
		_, errOff := contactql.ParseQuery(envOff, q, nil)
		c.Count("check:M-query-redaction")
		// under the policy an accepted query must not compare a URN with a value
		leaks := false
		if errOn == nil {
			var walk func(n contactql.QueryNode)
			walk = func(n contactql.QueryNode) {
				switch t := n.(type) {
				case *contactql.Condition:
					if (t.PropertyType() == contactql.PropertyTypeURN || (t.PropertyType() == contactql.PropertyTypeAttribute && t.PropertyKey() == contactql.AttributeURN)) && t.Value() != "" {
						leaks = true
					}
				case *contactql.BoolCombination:
					for _, ch := range t.Children() {
						walk(ch)
					}
				}
			}
			walk(on.Root())
		}
		c.Eval(fmt.Sprintf("query|%v|%v|%v|%v|%v", isURNProp, emptyVal, errOn == nil, errOff == nil, leaks))
		if leaks {
			sig := "query-on-redacted-urns"
			if strings.Contains(q, "urns.") {
				sig = "query-on-redacted-urns:urns-prefix"
			}
			desc["parsed"] = on.String()
			c.Fail("monitor", "M-query-redaction", sig, "with URNs redacted, a contact query comparing a URN with a value is accepted", desc)
		}
		// model: the redaction decision for single conditions
		if !strings.Contains(q, " AND ") && !strings.Contains(q, " OR ") && strings.Contains(q, " ") && !strings.HasPrefix(q, `"`) {
			parts := strings.SplitN(q, " ", 3)
			exp := "accept"
			if errOn != nil {
				if strings.Contains(errOn.Error(), "redacted URNs") {
					exp = "reject-redacted"
				} else {
					exp = "reject-other"
				}
			}
			if exp != "reject-other" && errOff == nil {
				c.Model("cqlredact", fmt.Sprintf("cqlredact %s %s", hx(parts[0]), b01(strings.Trim(parts[2], `"`) == "")), exp, desc)
			}
		}
	}
}

func firstOr(xs []string) string {
	if len(xs) > 0 {
		return xs[0]
	}
	return ""
}
