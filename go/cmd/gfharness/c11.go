package main

import (
	"fmt"
	"strings"
	"time"

	"github.com/antlr4-go/antlr/v4"
	gen "github.com/nyaruka/goflow/antlr/gen/excellent3"
	"github.com/nyaruka/goflow/envs"
	"github.com/nyaruka/goflow/excellent"
	"github.com/nyaruka/goflow/excellent/refactor"
	"github.com/nyaruka/goflow/excellent/types"
)

func init() {
	register("C11", "generated expressions over the whole grammar (all operators with mixed precedence and associativity, unary minus chains, redundant and needed parentheses, dot lookups incl. numeric and "+
		"mixed-case keys, index lookups with text, number and expression keys, calls at every arity incl. calls of call results, anonymous functions at every operand position, all literal forms incl. escapes, "+
		"non-ASCII names and texts, irregular spacing), embedded in templates with surrounding text, evaluated in generated contexts (numbers, texts, nested objects with defaults, arrays, functions); "+
		"non-trivial = distinct (shape of the tree: operator set, depth, lambda/negation/lookup features, outcome)", runC11)
}

type exprGen struct {
	r     *Rng
	feats map[string]bool
}

var c11Names = []string{"foo", "bar", "a", "b", "n", "x", "Foo", "contact", "results", "webhook", "ünï", "_v1", "fields"}
var c11Props = []string{"name", "age", "x", "1", "0", "Name", "json", "baz", "k_1", "ñ"}

func (g *exprGen) sp() string { return Pick(g.r, []string{"", "", " ", "  ", "\t"}) }

func (g *exprGen) atom(depth int) string {
	r := g.r
	var s string
	switch {
	case depth <= 0 || r.Chance(55):
		s = Pick(r, c11Names)
	case r.Chance(50):
		g.feats["paren"] = true
		s = "(" + g.sp() + g.expr(depth-1) + g.sp() + ")"
	default:
		g.feats["func"] = true
		s = Pick(r, []string{"upper", "abs", "max", "array", "object", "default", "if", "text", "count", "json", "foreach", "round", "title", "UPPER", "nofunc"})
		s = g.call(s, depth)
	}
	for k := r.Intn(3); k > 0; k-- {
		switch r.Intn(6) {
		case 0, 1:
			g.feats["dot"] = true
			s = s + "." + Pick(r, c11Props)
		case 2:
			g.feats["index"] = true
			s = s + "[" + g.sp() + Pick(r, []string{`"name"`, `"x"`, "0", "1", `"a b"`, g.expr(depth - 1), "-1"}) + g.sp() + "]"
		case 3:
			g.feats["dot-int-chain"] = true
			s = s + "." + Pick(r, []string{"1", "0", "12"}) + Pick(r, []string{"", ".x", "." + Pick(r, []string{"5", "0"}), " .5"})
		case 4:
			g.feats["call-of-result"] = true
			s = g.call(s, depth)
		default:
		}
	}
	return s
}

func (g *exprGen) call(f string, depth int) string {
	n := Pick(g.r, []int{0, 1, 1, 2, 3})
	var ps []string
	for i := 0; i < n; i++ {
		ps = append(ps, g.expr(depth-1))
	}
	return f + "(" + strings.Join(ps, g.sp()+","+g.sp()) + ")"
}

func (g *exprGen) literal() string {
	r := g.r
	switch r.Intn(8) {
	case 0, 1:
		return Pick(r, []string{"1", "0", "007", "12.50", "1.0", "0.5", "12345678901", "3.14159", "10"})
	case 2, 3:
		g.feats["text"] = true
		if r.Chance(8) {
			// long texts: 99, 100, 101 and more characters
			n := Pick(r, []int{99, 100, 101, 160, 1000})
			return `"` + string([]rune(strings.Repeat(Pick(r, []string{"a", "é", "ab ", "xy"}), n))[:n]) + `"`
		}
		return Pick(r, []string{`"abc"`, `""`, `"a\"b"`, `"a\\b"`, `"\n\t"`, `"é😀"`, `"\w+"`, `"é"`, `"@foo"`, `"x y"`, `"it's"`, `"\x41"`, `"a\\"`, `"(1"`, `"1 + 2"`})
	case 4:
		return Pick(r, []string{"true", "TRUE", "false", "False"})
	case 5:
		return Pick(r, []string{"null", "NULL"})
	default:
		return Pick(r, []string{"2", "3", "5"})
	}
}

func (g *exprGen) expr(depth int) string {
	r := g.r
	if depth <= 0 {
		if r.Bool() {
			return g.literal()
		}
		return g.atom(0)
	}
	switch r.Intn(12) {
	case 0, 1, 2, 3, 4:
		op := Pick(r, []string{"+", "-", "*", "/", "^", "&", "=", "!=", "<", "<=", ">", ">="})
		g.feats["op"+op] = true
		return g.expr(depth-1) + g.sp() + op + g.sp() + g.expr(depth-1)
	case 5:
		g.feats["neg"] = true
		return "-" + g.sp() + g.expr(depth-1)
	case 6:
		g.feats["lambda"] = true
		args := Pick(r, [][]string{{"x"}, {"x", "y"}, {"a"}, {"X"}, {"foo"}, {"Foo"}, {"FOO", "y"}, {"bar", "fOO"}})
		body := g.expr(depth - 1)
		if r.Chance(60) {
			body = args[0] + g.sp() + Pick(r, []string{"+", "*", "&"}) + g.sp() + body
		}
		lam := "(" + strings.Join(args, ","+g.sp()) + ")" + g.sp() + "=>" + g.sp() + body
		if r.Chance(50) {
			g.feats["lambda-applied"] = true
			return "foreach(array(1, 2), " + lam + ")"
		}
		return lam
	case 7, 8:
		return g.atom(depth)
	case 9:
		return g.literal()
	default:
		g.feats["paren"] = true
		return "(" + g.expr(depth-1) + ")"
	}
}

func c11Lex(text string) (string, bool) {
	lexer := gen.NewExcellent3Lexer(antlr.NewInputStream(text))
	lexer.RemoveErrorListeners()
	var out []string
	for {
		t := lexer.NextToken()
		if t.GetTokenType() == antlr.TokenEOF {
			break
		}
		name := "ERROR"
		if tt := t.GetTokenType(); tt > 0 && tt < len(lexer.SymbolicNames) {
			name = lexer.SymbolicNames[tt]
		}
		switch name {
		case "TEXT", "INTEGER", "DECIMAL", "NAME":
			out = append(out, name+":"+hx(t.GetText()))
		case "WS":
		default:
			out = append(out, name)
		}
	}
	if len(out) == 0 {
		return "_", true
	}
	return strings.Join(out, ","), true
}

func c11Context(r *Rng) *types.XObject {
	num := func() types.XValue { return types.RequireXNumberFromString(Pick(r, []string{"0", "1", "2", "-3", "2.5", "10"})) }
	txt := func() types.XValue { return types.NewXText(Pick(r, []string{"", "hi", "Bob", "3", "a b"})) }
	leaf := func() types.XValue {
		if r.Bool() {
			return num()
		}
		return txt()
	}
	obj := func() types.XValue {
		m := map[string]types.XValue{}
		for _, p := range c11Props {
			if r.Chance(60) {
				m[p] = leaf()
			}
		}
		if r.Chance(30) {
			m["__default__"] = txt()
		}
		if r.Chance(30) {
			m["json"] = types.NewXObject(map[string]types.XValue{"x": num(), "name": txt(), "baz": num()})
		}
		return types.NewXObject(m)
	}
	arr := func() types.XValue { return types.NewXArray(leaf(), leaf(), obj()) }
	any := func() types.XValue {
		switch r.Intn(5) {
		case 0:
			return obj()
		case 1:
			return arr()
		case 2:
			return nil
		default:
			return leaf()
		}
	}
	m := map[string]types.XValue{}
	for _, n := range c11Names {
		if r.Chance(80) {
			m[strings.ToLower(n)] = any()
		}
	}
	return types.NewXObject(m)
}

func c11Show(v types.XValue) string {
	if types.IsNil(v) {
		return "nil"
	}
	if e, ok := v.(*types.XError); ok {
		// "fails alike": the same failure; messages quote names as written, which printing lower-cases
		return "error:" + strings.ToLower(e.Error())
	}
	if _, ok := v.(*types.XFunction); ok {
		return "function"
	}
	j, err := types.ToXJSON(v)
	if err != nil {
		return v.Describe()
	}
	return v.Describe() + "|" + j.Native()
}

// runs f within a budget; totality of evaluation is property C04's business, here a slow case is only skipped
func within(budget time.Duration, f func()) bool {
	done := make(chan struct{})
	go func() {
		defer close(done)
		defer func() { recover() }()
		f()
	}()
	select {
	case <-done:
		return true
	case <-time.After(budget):
		return false
	}
}

func runC11(c *Ctx) {
	r := c.Rng
	env := envs.NewBuilder().Build()
	n := c.N(6000, 300000)
	for i := 0; i < n; i++ {
		g := &exprGen{r: r, feats: map[string]bool{}}
		text := g.expr(r.Range(1, 4))
		desc := map[string]any{"expression": text}
		var parsed excellent.Expression
		var perr error
		if c.Guard("M-print-parse", "panic:parse", desc, func() { parsed, perr = excellent.Parse(text, nil) }) {
			continue
		}
		var fs []string
		for f := range g.feats {
			fs = append(fs, f)
		}
		shape := fmt.Sprintf("%d|%v|%v|%v|%v", len(fs), g.feats["lambda"], g.feats["neg"], g.feats["dot-int-chain"], g.feats["call-of-result"])
		// K: the parser and printer against the model, from the real lexer's tokens
		if toks, ok := c11Lex(text); ok {
			exp := "err"
			if perr == nil {
				pt, _ := c11Lex(parsed.String())
				exp = "ok " + hx(parsed.String()) + " " + pt
			}
			c.Model("exprpp", "exprpp "+toks, exp, desc)
		}
		if perr != nil {
			c.Eval("unparseable|" + shape)
			continue
		}
		printed := parsed.String()
		desc["printed"] = printed
		reparsed, rerr := excellent.Parse(printed, nil)
		c.Count("check:M-print-parse")
		if rerr != nil {
			sig := "printed-unparseable"
			if g.feats["dot-int-chain"] {
				sig = "printed-unparseable:dot-integer-chain"
			}
			desc["error"] = rerr.Error()
			c.Fail("monitor", "M-print-parse", sig, "the printed form of a parseable expression does not parse", desc)
			c.Eval("printed-unparseable|" + shape)
			continue
		}
		if again := reparsed.String(); again != printed {
			desc["printed_again"] = again
			c.Fail("monitor", "M-print-fixed-point", "print-not-fixed-point", "printing is not a fixed point after one round", desc)
		}
		// same value, or the same failure, in generated contexts
		same := true
		for k := 0; k < 3 && same; k++ {
			ctx := c11Context(r)
			var v1, v2 types.XValue
			finished := false
			if !within(3*time.Second, func() {
				v1 = parsed.Evaluate(env, excellent.NewScope(ctx, nil), &excellent.Warnings{})
				v2 = reparsed.Evaluate(env, excellent.NewScope(ctx, nil), &excellent.Warnings{})
				finished = true
			}) || !finished {
				c.Count("C11-evaluation-skipped(slow-or-panic)")
				same = false
				break
			}
			if a, b := c11Show(v1), c11Show(v2); a != b {
				same = false
				desc["value"], desc["value_of_printed"], desc["context"] = a, b, ctx.String()
				c.Fail("monitor", "M-print-eval", "printed-evaluates-differently", "the printed form of an expression evaluates to a different value", desc)
			}
		}
		c.Count("check:M-print-eval")
		c.Eval(fmt.Sprintf("ok|%s|%v", shape, same))

		// ---- templates: identity rewrite and renaming -------------------------------------------------------------
		if i%3 == 0 {
			// (escaped at-signs at the very start of the template and straight after an expression or a reference, where a body segment begins)
			tpl := Pick(r, []string{"", "Hi ", "x@@y ", "(", "cost: ", "@@foo is how to write @foo ", "@@(1 + 2) ", "@@@foo "}) + "@(" + text + ")" +
				Pick(r, []string{"", " and @foo.name", " @bar", ".", " @(1 + 2)!", "@@foo", "@@(2 * 3)", " @bar@@bar @@"})
			tdesc := map[string]any{"template": tpl}
			ctx := c11Context(r)
			if strings.Contains(text, "^") {
				continue // exponent towers are slow to evaluate; the expression-level check above has a budget
			}
			identity, ierr := refactor.Template(tpl, nil, func(excellent.Expression) bool { return true })
			if ierr == nil {
				v1, _, e1 := excellent.NewEvaluator().Template(env, ctx, tpl, nil)
				v2, _, e2 := excellent.NewEvaluator().Template(env, ctx, identity, nil)
				c.Count("check:M-identity-rewrite")
				if v1 != v2 || (e1 == nil) != (e2 == nil) {
					tdesc["rewritten"], tdesc["value"], tdesc["value_of_rewritten"] = identity, v1, v2
					sig := "identity-rewrite-changes-value"
					if g.feats["dot-int-chain"] {
						sig = "identity-rewrite-changes-value:dot-integer-chain"
					}
					c.Fail("monitor", "M-identity-rewrite", sig, "rewriting a template with the identity transformation changes what it evaluates to", tdesc)
				}
				// ... and rewriting the rewritten template changes nothing more
				if again, aerr := refactor.Template(identity, nil, func(excellent.Expression) bool { return true }); aerr == nil && again != identity {
					tdesc["rewritten"], tdesc["rewritten_again"] = identity, again
					c.Fail("monitor", "M-identity-rewrite", "identity-rewrite-not-fixed-point", "rewriting a rewritten template with the identity transformation changes it again", tdesc)
				}
			}
			// rename foo -> zed.json: the original with foo = V is the renamed one with zed.json = V (and no foo)
			if !strings.Contains(strings.ToLower(text), "zed") {
				renamed, rerr := refactor.Template(tpl, nil, refactor.ContextRefRename("foo", "zed.json"))
				if rerr == nil {
					props := map[string]types.XValue{}
					for _, p := range ctx.Properties() {
						props[p], _ = ctx.Get(p)
					}
					v := props["foo"]
					ctx2 := map[string]types.XValue{}
					for k, x := range props {
						if k != "foo" {
							ctx2[k] = x
						}
					}
					ctx2["zed"] = types.NewXObject(map[string]types.XValue{"json": v})
					_, hasFoo := props["foo"]
					if hasFoo {
						v1, _, e1 := excellent.NewEvaluator().Template(env, ctx, tpl, nil)
						v2, _, e2 := excellent.NewEvaluator().Template(env, types.NewXObject(ctx2), renamed, nil)
						c.Count("check:M-rename")
						if e1 == nil && (v1 != v2 || e2 != nil) {
							tdesc["renamed"], tdesc["value"], tdesc["value_of_renamed"] = renamed, v1, v2
							sig := "rename-changes-value"
							if g.feats["dot-int-chain"] {
								sig = "rename-changes-value:dot-integer-chain"
							}
							c.Fail("monitor", "M-rename", sig, "renaming a context reference (and moving its value) changes what the template evaluates to", tdesc)
						}
					}
					// K: the renaming against the model
					if toks, ok := c11Lex(text); ok && perr == nil {
						p2, _ := excellent.Parse(text, nil)
						changed := refactor.ContextRefRename("foo", "zed.json")(p2)
						c.Model("exprrename", fmt.Sprintf("exprrename %s %s %s", hx("foo"), hx("zed.json"), toks), fmt.Sprintf("ok %s %s", hx(p2.String()), b01(changed)), desc)
					}
				}
			}
		}
		if i < 3 {
			c.Sample(map[string]any{"expression": text, "printed": printed})
		}
	}

	// ---- renaming around anonymous functions whose parameters rebind (any spelling of) the renamed name ----------------
	for i := 0; i < c.N(400, 20000); i++ {
		p := Pick(r, []string{"foo", "Foo", "FOO", "fOo", "x", "bar", "food"})
		q := Pick(r, []string{"foo", "Foo", "y", "x"})
		body := Pick(r, []string{p, p + " & \"!\"", p + " * 2", "foo", "Foo & " + p, "upper(" + p + ")", p + " + " + q, "((" + q + ") => " + q + " + " + p + ")(1)", "foo.name", p + " = foo"})
		params := p
		if r.Chance(30) {
			params = p + ", " + q
		}
		var text string
		// the renamed name also free in the same expression, spelled like the parameter or otherwise: before, after and as an
		// argument of the function
		free := Pick(r, []string{"1", "1", "foo", "foo", "Foo", p})
		if strings.Contains(params, ",") {
			text = fmt.Sprintf("((%s) => %s)(%s, 7)", params, body, free)
		} else {
			text = fmt.Sprintf("foreach(array(%s, 2), (%s) => %s)", free, params, body)
		}
		if !strings.Contains(body, ".name") {
			switch r.Intn(4) {
			case 0:
				text = "foo & " + text
			case 1:
				text = text + " & foo"
			}
		}
		tpl := "r=@(" + text + ")" + Pick(r, []string{"", " @foo", " @(foo + 1)", " @(FOO)"})
		val := types.XValue(types.RequireXNumberFromString("40"))
		if strings.Contains(body, ".name") {
			val = types.NewXObject(map[string]types.XValue{"name": types.NewXText("Ann"), "__default__": types.NewXText("obj")})
		}
		ctx1 := types.NewXObject(map[string]types.XValue{"foo": val, "bar": types.NewXText("B"), "food": types.NewXText("F")})
		ctx2 := types.NewXObject(map[string]types.XValue{"zed": types.NewXObject(map[string]types.XValue{"json": val}), "bar": types.NewXText("B"), "food": types.NewXText("F")})
		renamed, rerr := refactor.Template(tpl, nil, refactor.ContextRefRename("foo", "zed.json"))
		tdesc := map[string]any{"template": tpl, "renamed": renamed}
		if rerr != nil {
			continue
		}
		v1, _, e1 := excellent.NewEvaluator().Template(env, ctx1, tpl, nil)
		v2, _, e2 := excellent.NewEvaluator().Template(env, ctx2, renamed, nil)
		c.Count("check:M-rename-lambda")
		c.Eval(fmt.Sprintf("rename-lambda|%v|%v|%v", strings.EqualFold(p, "foo"), strings.Contains(params, ","), e1 == nil))
		if e1 == nil && (e2 != nil || v1 != v2) {
			tdesc["value"], tdesc["value_of_renamed"] = v1, v2
			c.Fail("monitor", "M-rename", "rename-changes-value:parameter", "renaming a context reference changes a reference to an anonymous function's parameter (or misses a context reference)", tdesc)
		}
		if toks, ok := c11Lex(text); ok {
			if p2, err := excellent.Parse(text, nil); err == nil {
				changed := refactor.ContextRefRename("foo", "zed.json")(p2)
				c.Model("exprrename", fmt.Sprintf("exprrename %s %s %s", hx("foo"), hx("zed.json"), toks), fmt.Sprintf("ok %s %s", hx(p2.String()), b01(changed)), tdesc)
			}
		}
	}
}
