package main

import (
	"encoding/json"
	"fmt"
	"github.com/nyaruka/goflow/flows"
	"strconv"
	"strings"
	"time"

	"github.com/nyaruka/goflow/assets"
	"github.com/nyaruka/goflow/assets/static"
	"github.com/nyaruka/goflow/contactql"
	"github.com/nyaruka/goflow/envs"
	"github.com/shopspring/decimal"
)

func init() {
	register("C15", "validated queries (random boolean structure over stub conditions; single conditions over every admitted operator) against "+
		"stub queryables (missing values, several values, values on numeric and day boundaries, several timezones); "+
		"non-trivial = distinct (check, operator / structure shape, outcome vector)", runC15)
}

type stubQueryable struct {
	vals map[string][]any
}

func (s *stubQueryable) QueryProperty(env envs.Environment, key string, pt contactql.PropertyType) []any {
	return s.vals[key]
}

// values by key, those of fields apart where a field has the key of an attribute
type collisionStub struct {
	other, field map[string][]any
}

func (s *collisionStub) QueryProperty(env envs.Environment, key string, pt contactql.PropertyType) []any {
	if pt == contactql.PropertyTypeField {
		if v, ok := s.field[key]; ok {
			return v
		}
	}
	return s.other[key]
}

// values by property type and key
type typedStub struct {
	vals map[string][]any
}

func (s *typedStub) QueryProperty(env envs.Environment, key string, pt contactql.PropertyType) []any {
	return s.vals[string(pt)+":"+key]
}

type qtree struct {
	and      bool
	children []*qtree
	leaf     int // condition index when children == nil
}

func genQTree(r *Rng, depth int, next *int) *qtree {
	if depth == 0 || r.Chance(35) || *next > 12 {
		t := &qtree{leaf: *next % 8}
		*next++
		return t
	}
	n := r.Range(2, 4)
	t := &qtree{and: r.Bool()}
	for i := 0; i < n; i++ {
		t.children = append(t.children, genQTree(r, depth-1, next))
	}
	return t
}

func (t *qtree) text() string {
	if t.children == nil {
		return fmt.Sprintf("f%d = %d", t.leaf, t.leaf)
	}
	parts := make([]string, len(t.children))
	for i, c := range t.children {
		parts[i] = c.text()
		if c.children != nil {
			parts[i] = "(" + parts[i] + ")"
		}
	}
	op := " OR "
	if t.and {
		op = " AND "
	}
	return strings.Join(parts, op)
}

func (t *qtree) eval(bits uint) bool { // independent oracle: conjunction / disjunction of the children
	if t.children == nil {
		return bits&(1<<uint(t.leaf)) != 0
	}
	if t.and {
		for _, c := range t.children {
			if !c.eval(bits) {
				return false
			}
		}
		return true
	}
	for _, c := range t.children {
		if c.eval(bits) {
			return true
		}
	}
	return false
}

func runC15(c *Ctx) {
	r := c.Rng
	var fields []assets.Field
	for i := 0; i < 8; i++ {
		fields = append(fields, static.NewField(assets.FieldUUID(fmt.Sprintf("u%d", i)), fmt.Sprintf("f%d", i), fmt.Sprintf("F%d", i), assets.FieldTypeText))
	}
	fields = append(fields, static.NewField("n", "age", "Age", assets.FieldTypeNumber), static.NewField("d", "dob", "DOB", assets.FieldTypeDatetime),
		static.NewField("t", "nick", "Nick", assets.FieldTypeText),
		// fields whose keys are also names of attributes, of another type than the attribute
		static.NewField("c1", "id", "Id", assets.FieldTypeNumber), static.NewField("c2", "tickets", "Tickets", assets.FieldTypeText), static.NewField("c3", "name", "Name", assets.FieldTypeNumber),
		static.NewField("c4", "language", "Language", assets.FieldTypeDatetime), static.NewField("c5", "created_on", "Created On", assets.FieldTypeText), static.NewField("c6", "urn", "Urn", assets.FieldTypeNumber))
	resolver := contactql.NewMockResolver(fields, nil, nil)
	env := envs.NewBuilder().Build()

	evalQ := func(env envs.Environment, text string, q contactql.Queryable) (res bool, ok bool) {
		var query *contactql.ContactQuery
		var err error
		if c.Guard("eval", "panic:ParseQuery", map[string]any{"text": text}, func() { query, err = contactql.ParseQuery(env, text, resolver) }) {
			return false, false
		}
		if err != nil {
			return false, false
		}
		if c.Guard("eval", "panic:EvaluateQuery", map[string]any{"text": text, "vals": fmt.Sprint(q)}, func() { res = contactql.EvaluateQuery(env, query, q) }) {
			return false, false
		}
		return res, true
	}

	// ---- M1/K: AND / OR are conjunction / disjunction; simplification changes nothing -------
	n := c.N(4000, 200000)
	for i := 0; i < n; i++ {
		next := 0
		t := genQTree(r, 3, &next)
		text := t.text()
		bits := uint(r.Intn(256))
		q := &stubQueryable{vals: map[string][]any{}}
		bitstr := ""
		for k := 0; k < 8; k++ {
			if bits&(1<<uint(k)) != 0 {
				q.vals[fmt.Sprintf("f%d", k)] = []any{strconv.Itoa(k)}
				bitstr += "1"
			} else {
				q.vals[fmt.Sprintf("f%d", k)] = []any{"x"}
				bitstr += "0"
			}
		}
		got, ok := evalQ(env, text, q)
		if !ok {
			c.Fail("monitor", "M1-bool", "valid-query-rejected", "a generated valid query was rejected or panicked", map[string]any{"text": text})
			continue
		}
		want := t.eval(bits)
		c.Eval("M1|" + shapeOfText(text) + "|" + fmt.Sprint(got))
		c.Count("check:M1-bool")
		if got != want {
			c.Fail("monitor", "M1-bool", "bool-composition", "AND/OR did not combine their operands' results as conjunction/disjunction (or simplification changed the result)",
				map[string]any{"text": text, "bits": bitstr, "got": got, "want": want})
		}
		parsed, _ := contactql.ParseQuery(env, text, resolver)
		c.Model("qeval", "qeval "+bitstr+" "+encNode(parsed.Root()), fmt.Sprint(got), text)
		if i < 2 {
			c.Sample(map[string]any{"check": "M1", "query": text, "bits": bitstr, "result": got})
		}
	}

	// ---- M8: several conditions on one property with values that are the same up to case - or nearly: letters that Unicode
	// folds together but lower-casing does not (final sigma, long s, micro sign, Kelvin sign, title-case digraphs) - combined
	// with AND / OR, also nested: the combination is the conjunction / disjunction of what each condition gives alone
	{
		families := [][]string{{"Νίκος", "ΝΊΚΟΣ", "νίκοσ", "νίκος"}, {"ſ", "s", "S"}, {"µ", "μ", "Μ"}, {"K", "k", "K"}, {"ǅ", "ǆ", "Ǆ"}, {"bob", "BOB", "Bob"}, {"straße", "STRASSE", "strasse"}}
		for i := 0; i < c.N(1500, 40000); i++ {
			fam := Pick(r, families)
			prop := Pick(r, []string{"name", "nick", "f0"})
			op := Pick(r, []string{"=", "=", "!=", "~"})
			if op == "~" {
				prop = "name"
			}
			k := r.Range(2, 3)
			var conds []string
			for j := 0; j < k; j++ {
				conds = append(conds, fmt.Sprintf("%s %s %q", prop, op, Pick(r, fam)))
			}
			q := &stubQueryable{vals: map[string][]any{prop: {Pick(r, fam)}}}
			join := Pick(r, []string{" OR ", " AND "})
			text := strings.Join(conds, join)
			if k == 3 && r.Bool() {
				text = "(" + conds[0] + join + conds[1] + ")" + join + conds[2]
			}
			want := join == " AND "
			allOK := true
			for _, cd := range conds {
				one, ok := evalQ(env, cd, q)
				allOK = allOK && ok
				if join == " AND " {
					want = want && one
				} else {
					want = want || one
				}
			}
			got, ok := evalQ(env, text, q)
			if !ok || !allOK {
				continue
			}
			c.Count("check:M8-same-property")
			c.Eval(fmt.Sprintf("M8|%s|%s|%s|%v", prop, op, strings.TrimSpace(join), got))
			if got != want {
				c.Fail("monitor", "M8-same-property", "bool-composition:same-property", "conditions on one property combined with AND/OR do not give the conjunction/disjunction of what each gives alone",
					map[string]any{"query": text, "contact_value": q.vals[prop][0], "got": got, "want": want})
			}
		}
	}

	// ---- M9: numbers written with huge exponents: a query of twenty characters must not keep the evaluator busy for seconds
	// (and, a few digits more, for ever) - it is refused, or evaluated at once
	for _, tc := range []string{"age > 1e30000000", "age = 1e-30000000", "age <= -1e30000000"} {
		q := &stubQueryable{vals: map[string][]any{"age": {decimal.RequireFromString("36")}}}
		t0 := time.Now()
		_, ok := evalQ(env, tc, q)
		took := time.Since(t0)
		c.Count("check:M9-number-range")
		c.Eval(fmt.Sprintf("M9|%s|%v|%v", tc, ok, took > 2*time.Second))
		if took > 2*time.Second {
			c.Fail("monitor", "M9-number-range", "query-evaluation-does-not-return", fmt.Sprintf("evaluating the query took %s: the cost of a comparison grows with the exponent of the number written in the query", took.Round(time.Millisecond)),
				map[string]any{"query": tc, "contact_value": "36", "took": took.String()})
		}
	}

	// K: numbers written with an exponent in a query: refused beyond 10^+-1000, whatever the fraction does to the exponent
	for _, e := range []int{0, 1, -1, 5, 999, 1000, 1001, 1002, 1005, -999, -1000, -1001, 30000000, -30000000, 999999999} {
		for _, frac := range []int{0, 1, 2, 5} {
			text := "1"
			if frac > 0 {
				text += "." + strings.Repeat("5", frac)
			}
			text += fmt.Sprintf("e%d", e)
			exp := "refused"
			if _, err := contactql.ParseQuery(env, "age > "+text, resolver); err == nil {
				exp = "ok"
			}
			c.Model("numexpguard", fmt.Sprintf("numexpguard query %d %d", frac, e), exp, map[string]any{"query": "age > " + text})
		}
	}

	// ---- M5: totality over every admitted (property, operator) pair -----------------------
	{
		fs := append([]assets.Field{}, fields...)
		fs = append(fs, static.NewField("l", "loc", "Loc", assets.FieldTypeState))
		full := contactql.NewMockResolver(fs, []assets.Flow{static.NewFlow("fl1", "Registration", []byte(`{}`))},
			[]assets.Group{static.NewGroup("g2", "Testers", "")})
		c15Totality(c, full)
	}

	// ---- M2/K: numbers --------------------------------------------------------------------------
	nums := []string{"0", "1", "-1", "10", "10.0", "10.5", "9.999", "10.001", "-10.5", "1000000", "0.001", "-0.001", "123.45", "7"}
	ops := []struct{ sym, name string }{{"=", "eq"}, {"!=", "neq"}, {">", "gt"}, {">=", "gte"}, {"<", "lt"}, {"<=", "lte"}}
	scale := func(s string) string {
		d := decimal.RequireFromString(s).Mul(decimal.NewFromInt(1000))
		return d.Truncate(0).String()
	}
	n = c.N(3000, 150000)
	for i := 0; i < n; i++ {
		obj, qv := Pick(r, nums), Pick(r, nums)
		if r.Chance(30) {
			obj = fmt.Sprintf("%d.%03d", r.Intn(40)-20, r.Intn(1000))
		}
		if r.Chance(30) {
			qv = strings.TrimLeft(fmt.Sprintf("%d.%03d", r.Intn(40), r.Intn(1000)), "")
		}
		res := map[string]bool{}
		q := &stubQueryable{vals: map[string][]any{"age": {decimal.RequireFromString(obj)}}}
		bad := false
		for _, op := range ops {
			qtext := qv
			if strings.HasPrefix(qv, "-") {
				qtext = strconv.Quote(qv)
			}
			got, ok := evalQ(env, "age "+op.sym+" "+qtext, q)
			if !ok {
				bad = true
				break
			}
			res[op.name] = got
			c.Model("qnum", "qnum "+scale(obj)+" "+op.name+" "+scale(qv), fmt.Sprint(got), obj+op.sym+qv)
		}
		if bad {
			c.Fail("monitor", "M2-number", "valid-query-rejected", "a number comparison was rejected or panicked", map[string]any{"obj": obj, "qv": qv})
			continue
		}
		cnt := 0
		for _, k := range []string{"lt", "eq", "gt"} {
			if res[k] {
				cnt++
			}
		}
		ok := cnt == 1 && res["lte"] == (res["lt"] || res["eq"]) && res["gte"] == (res["gt"] || res["eq"]) && res["neq"] == !res["eq"]
		c.Eval(fmt.Sprintf("M2|%v%v%v", res["lt"], res["eq"], res["gt"]) + "|" + strconv.Itoa(len(obj)) + "|" + strconv.Itoa(len(qv)))
		c.Count("check:M2-number")
		if !ok {
			c.Fail("monitor", "M2-number", "number-operators-inconsistent", "the comparison operators are not mutually consistent on a number",
				map[string]any{"obj": obj, "qv": qv, "results": res})
		}
	}

	// ---- M3/K: dates, by calendar day in the environment's timezone -------------------------
	zones := []string{"UTC", "America/Bogota", "Asia/Kolkata", "Pacific/Auckland", "America/St_Johns", "Africa/Kigali", "Pacific/Kiritimati", "Asia/Kathmandu", "Europe/London", "America/New_York", "Australia/Lord_Howe", "America/Santiago"}
	n = c.N(3000, 150000)
	for i := 0; i < n; i++ {
		loc, err := time.LoadLocation(Pick(r, zones))
		if err != nil {
			c.Notes = append(c.Notes, "zone not available: "+err.Error())
			continue
		}
		envz := envs.NewBuilder().WithTimezone(loc).WithDateFormat(Pick(r, []envs.DateFormat{envs.DateFormatYearMonthDay, envs.DateFormatDayMonthYear, envs.DateFormatMonthDayYear})).Build()
		day := time.Date(2015+r.Intn(15), time.Month(1+r.Intn(12)), 1+r.Intn(28), 0, 0, 0, 0, loc)
		if r.Chance(25) {
			// a daylight savings transition day of this zone, if it has any in that year
			if td, ok := transitionDay(loc, 2015+r.Intn(15), r.Bool()); ok {
				day = td
				c.Count("M3-dst-transition-day")
			}
		}
		qvalue := day.Format("2006-01-02")
		qv, perr := envs.DateTimeFromString(envz, qvalue, false)
		if perr != nil {
			c.Count("M3-unparseable-date-skipped")
			continue
		}
		// the calendar day of the query value in its own zone, computed independently of the implementation
		s := firstInstantOfDay(qv.Year(), qv.Month(), qv.Day(), qv.Location())
		e := firstInstantOfDay(qv.Year(), qv.Month(), qv.Day()+1, qv.Location())
		// object instants around the boundaries, in a different zone than the query value
		var obj time.Time
		switch r.Intn(8) {
		case 0:
			obj = s
		case 1:
			obj = s.Add(-time.Nanosecond)
		case 2:
			obj = e
		case 3:
			obj = e.Add(-time.Nanosecond)
		case 4:
			obj = s.Add(time.Duration(r.Intn(86400)) * time.Second)
		case 5:
			obj = e.Add(time.Duration(r.Intn(86400)) * time.Second)
		case 6:
			obj = s.Add(-time.Duration(r.Intn(86400)) * time.Second)
		default:
			obj = s.Add(time.Duration(r.Intn(400*86400)-200*86400) * time.Second)
		}
		obj = obj.In(time.FixedZone("x", (r.Intn(27)-12)*1800))
		q := &stubQueryable{vals: map[string][]any{"dob": {obj}}}
		res := map[string]bool{}
		bad := false
		for _, op := range ops {
			got, ok := evalQ(envz, "dob "+op.sym+" "+qvalue, q)
			if !ok {
				bad = true
				break
			}
			res[op.name] = got
			c.Model("qdate", fmt.Sprintf("qdate %d %s %d %d", obj.UnixNano(), op.name, s.UnixNano(), e.UnixNano()), fmt.Sprint(got), qvalue)
			// the query parsed once under another environment (as group queries are: parsed with the assets' environment, evaluated
			// in the session's) is evaluated by the calendar day of the environment it is evaluated in
			var q2 *contactql.ContactQuery
			var perr2 error
			var got2 bool
			text2 := "dob " + op.sym + " " + qvalue
			if !c.Guard("M3-date", "panic:query", map[string]any{"text": text2}, func() {
				q2, perr2 = contactql.ParseQuery(env, text2, resolver)
				if perr2 == nil {
					got2 = contactql.EvaluateQuery(envz, q2, q)
				}
			}) && perr2 == nil {
				c.Count("check:M3-parse-env")
				if got2 != got {
					c.Fail("monitor", "M3-date", "parse-environment-leaks", "a date query parsed under one environment and evaluated in another does not evaluate as the same text parsed in the evaluating environment",
						map[string]any{"text": text2, "object": obj.String(), "evaluated_in": loc.String(), "parsed_in": "UTC", "result": got2, "same_text_parsed_in_evaluating_environment": got})
				}
			}
		}
		if bad {
			c.Fail("monitor", "M3-date", "valid-query-rejected", "a date comparison was rejected or panicked", map[string]any{"obj": obj.String(), "qv": qvalue, "zone": loc.String()})
			continue
		}
		// the day, independently: obj's calendar date in the environment's zone vs the query's
		od := obj.In(loc).Format("2006-01-02")
		wantEq := od == qvalue
		cnt := 0
		for _, k := range []string{"lt", "eq", "gt"} {
			if res[k] {
				cnt++
			}
		}
		ok := cnt == 1 && res["eq"] == wantEq && res["lt"] == (od < qvalue) && res["gt"] == (od > qvalue) &&
			res["lte"] == (res["lt"] || res["eq"]) && res["gte"] == (res["gt"] || res["eq"]) && res["neq"] == !res["eq"]
		c.Eval(fmt.Sprintf("M3|%v%v%v|%s|%d", res["lt"], res["eq"], res["gt"], loc, i%8))
		c.Count("check:M3-date")
		if !ok {
			c.Fail("monitor", "M3-date", "date-operators-inconsistent", "date comparison is not by calendar day in the environment's timezone, or the operators are inconsistent",
				map[string]any{"obj": obj.Format(time.RFC3339Nano), "obj_day_in_env_zone": od, "query_day": qvalue, "zone": loc.String(), "results": res})
		}
		if i < 2 {
			c.Sample(map[string]any{"check": "M3", "obj": obj.Format(time.RFC3339Nano), "query": "dob ? " + qvalue, "zone": loc.String(), "results": res})
		}
	}

	// ---- M4/K: presence / absence, several values ---------------------------------------------
	texts := []string{"bob", "Bob", " bob ", "jim", "", "x", "BOB"}
	n = c.N(3000, 150000)
	for i := 0; i < n; i++ {
		k := r.Intn(4)
		var vals []any
		for j := 0; j < k; j++ {
			vals = append(vals, Pick(r, texts[:4]))
		}
		qv := Pick(r, texts)
		opi := r.Intn(2)
		op := ops[opi]
		q := &stubQueryable{vals: map[string][]any{"nick": vals}}
		got, ok := evalQ(env, "nick "+op.sym+" "+strconv.Quote(qv), q)
		if !ok {
			c.Fail("monitor", "M4-multi", "valid-query-rejected", "a text condition was rejected or panicked", map[string]any{"qv": qv})
			continue
		}
		// per-value results from the implementation itself
		bits := ""
		anyT, allT := false, true
		for _, v := range vals {
			one, _ := evalQ(env, "nick = "+strconv.Quote(qv), &stubQueryable{vals: map[string][]any{"nick": {v}}})
			if qv == "" { // an empty value is an existence check; per-value equality is then by text
				one = strings.TrimSpace(strings.ToLower(v.(string))) == ""
			}
			if op.name == "neq" {
				one = !one
			}
			if one {
				bits += "1"
				anyT = true
			} else {
				bits += "0"
				allT = false
			}
		}
		var want bool
		switch {
		case qv == "" && op.name == "eq":
			want = len(vals) == 0
		case qv == "" && op.name == "neq":
			want = len(vals) > 0
		case op.name == "neq":
			want = allT
		default:
			want = anyT
		}
		c.Eval(fmt.Sprintf("M4|%s|%d|%v|%v", op.name, k, qv == "", got))
		c.Count("check:M4-multi")
		if got != want {
			c.Fail("monitor", "M4-multi", "presence-or-multi-value", "empty-valued =/!= does not test absence/presence, or != is not the negation of = over several values",
				map[string]any{"vals": fmt.Sprint(vals), "op": op.sym, "qv": qv, "got": got, "want": want})
		}
		if bits == "" {
			bits = "-"
		}
		e := "0"
		if qv == "" {
			e = "1"
		}
		c.Model("qcombine", "qcombine "+op.name+" "+e+" "+bits, fmt.Sprint(got), fmt.Sprint(vals, op.sym, qv))
	}
}

// M5: totality - every (property, operator, value) the validator admits evaluates without panicking,
// against queryables that do and do not hold values of the property's type
func c15Totality(c *Ctx, resolver contactql.Resolver) {
	r := c.Rng
	env := envs.NewBuilder().Build()
	now := time.Date(2024, 3, 5, 12, 30, 0, 0, time.UTC)
	typed := map[string][]any{}
	textProps := []string{"uuid", "id", "name", "status", "language", "urn", "group", "flow", "history", "tel", "twitter", "whatsapp", "urns.tel", "urns.mailto", "nick", "fields.nick", "f1", "loc"}
	numProps := []string{"tickets", "age", "fields.age"}
	dateProps := []string{"created_on", "last_seen_on", "dob", "fields.dob"}
	key := func(p string) string {
		if i := strings.Index(p, "."); i >= 0 {
			return p[i+1:]
		}
		return p
	}
	// fields named like attributes: the value is of the field's type under the field, of the attribute's under the attribute
	textFields, numFields, dateFields := []string{"fields.tickets", "fields.created_on"}, []string{"fields.id", "fields.name", "fields.urn"}, []string{"fields.language"}
	typedField := map[string][]any{}
	for _, p := range textProps {
		typed[key(p)] = []any{"Bob x", "+12065551212"}
	}
	for _, p := range numProps {
		typed[key(p)] = []any{decimal.RequireFromString("10.5")}
	}
	for _, p := range dateProps {
		typed[key(p)] = []any{now}
	}
	for _, p := range textFields {
		typedField[key(p)] = []any{"Bob x", "17"}
	}
	for _, p := range numFields {
		typedField[key(p)] = []any{decimal.RequireFromString("8801")}
	}
	for _, p := range dateFields {
		typedField[key(p)] = []any{now}
	}
	full := &collisionStub{other: typed, field: typedField}
	empty := &stubQueryable{vals: map[string][]any{}}
	textProps = append(textProps, textFields...)
	numProps = append(numProps, numFields...)
	dateProps = append(dateProps, dateFields...)
	opsAll := []string{"=", "!=", "~", ">", ">=", "<", "<=", "has", "is"}
	values := []string{`""`, `"bob"`, `bo`, `10`, `10.5`, `8801`, `17`, `"2024-03-05"`, `2024-03-05T10:00:00Z`, `active`, `eng`, `Testers`, `Registration`, `"+1206"`, `x`, `"a b c"`, `-1`}
	var props []string
	props = append(props, textProps...)
	props = append(props, numProps...)
	props = append(props, dateProps...)
	for _, p := range props {
		for _, op := range opsAll {
			for _, v := range values {
				text := p + " " + op + " " + v
				if r.Chance(30) {
					text = "(" + text + " AND name = x) OR " + text
				}
				var q *contactql.ContactQuery
				var err error
				if c.Guard("M5-total", "panic:ParseQuery", map[string]any{"text": text}, func() { q, err = contactql.ParseQuery(env, text, resolver) }) {
					continue
				}
				if err != nil {
					c.Eval("")
					c.Count("M5-rejected-by-validator")
					continue
				}
				for qi, qb := range []contactql.Queryable{full, empty} {
					panicked := c.Guard("M5-total", "panic:EvaluateQuery", map[string]any{"text": text, "contact_has_values": qi == 0}, func() { contactql.EvaluateQuery(env, q, qb) })
					c.Eval(fmt.Sprintf("M5|%s|%s|%d|%v", key(p), op, qi, panicked))
					c.Count("check:M5-total")
				}
			}
		}
	}
	// ---- M7: a field may have the key of an attribute or of a URN scheme; conditions on the two are different conditions ----
	{
		flds := []assets.Field{static.NewField("l", "language", "Language", assets.FieldTypeText), static.NewField("t", "tel", "Tel", assets.FieldTypeText),
			static.NewField("n", "name", "Name", assets.FieldTypeText)}
		res := contactql.NewMockResolver(flds, nil, nil)
		qb := &typedStub{vals: map[string][]any{"attr:language": {"fra"}, "field:language": {"eng"}, "attr:name": {"Ann"}, "field:name": {"Bob"},
			"urn:tel": {"+12065550100"}, "field:tel": {"none"}}}
		for _, tc := range []struct {
			text string
			want bool
		}{{`language = fra AND fields.language = fra`, false}, {`language = fra OR fields.language = fra`, true}, {`fields.language = eng OR language = eng`, true},
			{`fields.language = eng AND language = eng`, false}, {`language = fra AND language = fra`, true}, {`name = Ann AND fields.name = Ann`, false},
			{`fields.name = Bob OR name = Bob`, true}, {`tel = none OR fields.tel = none`, true}, {`urns.tel = none AND fields.tel = none`, false},
			{`(language = fra AND fields.language = fra) OR name = x`, false}, {`language != eng AND fields.language != eng`, false}} {
			desc := map[string]any{"query": tc.text, "attribute language": "fra", "field language": "eng", "attribute name": "Ann", "field name": "Bob", "urn tel": "+12065550100", "field tel": "none"}
			var q *contactql.ContactQuery
			var err error
			var got bool
			if c.Guard("M7-same-key", "panic:%site%", desc, func() {
				q, err = contactql.ParseQuery(env, tc.text, res)
				if err == nil {
					got = contactql.EvaluateQuery(env, q, qb)
				}
			}) || err != nil {
				continue
			}
			c.Count("check:M7-same-key")
			c.Eval("M7|" + tc.text)
			if got != tc.want {
				desc["result"], desc["expected"], desc["parsed_as"] = got, tc.want, q.String()
				c.Fail("monitor", "M7-same-key", "conditions-on-same-key-confused", "conditions on an attribute (or URN scheme) and on a field of the same key were not evaluated as the two conditions they are", desc)
			}
		}
	}
	// ---- M6: real contacts as the thing queried: a typed field whose stored value has only a text part has no value ----------
	if sa, err := contactAssets(env, ""); err == nil {
		type fv struct {
			json  string
			typed bool
		}
		ages := []fv{{"", false}, {`"age": {"text": "old"}`, false}, {`"age": {"text": "39", "number": 39}`, true}, {`"age": {"text": "about 39 or so"}`, false}}
		joins := []fv{{"", false}, {`"joined": {"text": "last week"}`, false}, {`"joined": {"text": "2021-06-07T00:00:00Z", "datetime": "2021-06-07T00:00:00Z"}`, true}}
		for _, a := range ages {
			for _, j := range joins {
				var fs []string
				for _, x := range []string{a.json, j.json, `"gender": {"text": "male"}`} {
					if x != "" {
						fs = append(fs, x)
					}
				}
				cj := `{"uuid": "5d76d86b-3bb9-4d5a-b822-c9d86f5d8e4f", "id": 1234, "name": "Ann", "status": "active", "created_on": "2018-06-20T11:40:30Z", "fields": {` + strings.Join(fs, ", ") + `}}`
				contact, err := flows.ReadContact(sa, []byte(cj), assets.IgnoreMissing)
				if err != nil {
					c.Count("M6-contact-rejected")
					continue
				}
				for _, qc := range []struct {
					text  string
					typed bool
					kind  string
				}{{`age = ""`, a.typed, "unset"}, {`age != ""`, a.typed, "set"}, {`age > 10`, a.typed, "cmp"}, {`age = 39`, a.typed, "cmp"}, {`age <= 39`, a.typed, "cmp"}, {`fields.age >= 39`, a.typed, "cmp"},
					{`joined = ""`, j.typed, "unset"}, {`joined != ""`, j.typed, "set"}, {`joined > 2020-01-01`, j.typed, "cmp"}, {`joined = 2021-06-07`, j.typed, "cmp"}, {`joined >= 2021-06-07`, j.typed, "cmp"},
					{`age > 10 OR joined > 2020-01-01 OR gender = male`, true, "other"}} {
					desc := map[string]any{"contact": json.RawMessage(cj), "query": qc.text}
					var q *contactql.ContactQuery
					var perr error
					var res bool
					if c.Guard("M6-contact", "panic:%site%", desc, func() {
						q, perr = contactql.ParseQuery(env, qc.text, sa)
						if perr == nil {
							res = contactql.EvaluateQuery(env, q, contact)
						}
					}) {
						continue
					}
					c.Count("check:M6-contact")
					c.Eval(fmt.Sprintf("M6|%s|%v|%v", qc.text, qc.typed, res))
					if perr != nil {
						continue
					}
					want, known := res, false
					switch qc.kind {
					case "unset":
						want, known = !qc.typed, true
					case "set":
						want, known = qc.typed, true
					case "cmp":
						if !qc.typed {
							want, known = false, true // nothing to compare
						}
					}
					if known && res != want {
						desc["result"], desc["expected"] = res, want
						c.Fail("monitor", "M6-contact", "typed-field-without-typed-value", "a number or datetime field whose stored value has only a text part was treated as having a value", desc)
					}
				}
			}
		}
	}
}

// the first instant whose calendar date in loc is the given day, by binary search on the definition
// (the local date is monotone in time); midnight may be skipped or repeated by a DST transition
func firstInstantOfDay(year int, month time.Month, day int, loc *time.Location) time.Time {
	noon := time.Date(year, month, day, 12, 0, 0, 0, loc)
	target := noon.Format("2006-01-02")
	lo, hi := noon.Add(-15*time.Hour), noon // lo is on an earlier day, hi on the target day
	for hi.Sub(lo) > time.Nanosecond {
		mid := lo.Add(hi.Sub(lo) / 2)
		if mid.In(loc).Format("2006-01-02") >= target {
			hi = mid
		} else {
			lo = mid
		}
	}
	return hi
}

// first (or last) calendar day of the year on which the zone's UTC offset changes
func transitionDay(loc *time.Location, year int, first bool) (time.Time, bool) {
	var found time.Time
	ok := false
	for d := 0; d < 366; d++ {
		a := time.Date(year, 1, 1+d, 0, 0, 0, 0, loc)
		b := time.Date(year, 1, 2+d, 0, 0, 0, 0, loc)
		_, oa := a.Zone()
		_, ob := b.Zone()
		if oa != ob {
			found, ok = a, true
			if first {
				break
			}
		}
	}
	return found, ok
}

func shapeOfText(text string) string {
	var b strings.Builder
	for _, ch := range text {
		if ch == '(' || ch == ')' || ch == 'A' || ch == 'O' {
			b.WriteRune(ch)
		}
	}
	s := b.String()
	if len(s) > 40 {
		s = s[:40]
	}
	return s
}
