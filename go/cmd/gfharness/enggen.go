package main

import (
	"encoding/json"
	"fmt"
	"strings"
)

// ---------------------------------------------------------------------------------------
// generator of assets (flows as definition JSON) for the engine properties
// ---------------------------------------------------------------------------------------

type genNode struct {
	UUID    string
	Actions []map[string]any
	Router  map[string]any
	Exits   []genExit
	HasWait string // "", "m0", "m1", "d"
}

type genExit struct {
	UUID    string
	Dest    int    // node index or -1
	BadDest string // fault injection: a destination that is not a node of the flow (the flow no longer validates)
}

type genFlow struct {
	UUID    string
	Name    string
	Type    string
	Nodes   []*genNode
	deleted bool // removed from the asset store (fault injection)
	invalid bool // still in the store but no longer validates: reading it fails, as if it were missing (fault injection)
}

type genAssets struct {
	Flows       []*genFlow
	MissingUUID string // a flow UUID referenced by enter_flow actions but not defined
}

type uuidSeq struct{ n int }

func (u *uuidSeq) next() string {
	u.n++
	return fmt.Sprintf("%08x-0000-4000-8000-%012x", 0xabc00000+u.n, u.n)
}

type engGenCfg struct {
	MaxFlows, MaxNodes int
	Voice              bool
	Adversarial        bool // bias towards loops and mutual enters
}

func genEngAssets(r *Rng, cfg engGenCfg) *genAssets {
	us := &uuidSeq{n: r.Intn(1000) * 1000}
	nf := r.Range(1, cfg.MaxFlows)
	ga := &genAssets{MissingUUID: us.next()}
	ftype := "messaging"
	if cfg.Voice {
		ftype = "voice"
	}
	for i := 0; i < nf; i++ {
		f := &genFlow{UUID: us.next(), Name: fmt.Sprintf("Flow %d", i), Type: ftype}
		if r.Chance(7) && i > 0 { // a flow of another type: entering it fails the run
			if ftype == "messaging" {
				f.Type = "voice"
			} else {
				f.Type = "messaging"
			}
		}
		ga.Flows = append(ga.Flows, f)
	}
	for _, f := range ga.Flows {
		nn := r.Intn(cfg.MaxNodes + 1)
		if r.Chance(85) && nn == 0 {
			nn = 1
		}
		for j := 0; j < nn; j++ {
			f.Nodes = append(f.Nodes, &genNode{UUID: us.next()})
		}
		for j, n := range f.Nodes {
			genNodeBody(r, us, ga, f, j, n, cfg)
		}
	}
	return ga
}

func pickDest(r *Rng, f *genFlow, self int, cfg engGenCfg) int {
	x := r.Intn(100)
	switch {
	case x < 25:
		return -1
	case cfg.Adversarial && x < 45:
		return self
	case cfg.Adversarial && x < 60 && self > 0:
		return self - 1
	case x < 75 && self+1 < len(f.Nodes):
		return self + 1
	default:
		return r.Intn(len(f.Nodes))
	}
}

func genNodeBody(r *Rng, us *uuidSeq, ga *genAssets, f *genFlow, idx int, n *genNode, cfg engGenCfg) {
	na := r.Intn(4)
	for k := 0; k < na; k++ {
		n.Actions = append(n.Actions, genAction(r, us, ga, f, cfg))
	}
	newExit := func() genExit { return genExit{UUID: us.next(), Dest: pickDest(r, f, idx, cfg)} }
	switch x := r.Intn(100); {
	case x < 35: // no router
		n.Exits = []genExit{newExit()}
		if r.Chance(10) {
			n.Exits = append(n.Exits, newExit())
		}
	case x < 45: // random router
		k := r.Range(1, 3)
		var cats []map[string]any
		for i := 0; i < k; i++ {
			e := newExit()
			n.Exits = append(n.Exits, e)
			cats = append(cats, map[string]any{"uuid": us.next(), "name": fmt.Sprintf("Bucket %d", i), "exit_uuid": e.UUID})
		}
		n.Router = map[string]any{"type": "random", "categories": cats}
		if r.Chance(40) {
			n.Router["result_name"] = "Bucket"
		}
	default: // switch router, with or without wait
		k := r.Range(1, 3)
		var cats, cases []map[string]any
		words := []string{"red", "blue", "yes"}
		for i := 0; i < k; i++ {
			e := newExit()
			n.Exits = append(n.Exits, e)
			cu := us.next()
			cats = append(cats, map[string]any{"uuid": cu, "name": strings.Title(words[i]), "exit_uuid": e.UUID})
			cases = append(cases, map[string]any{"uuid": us.next(), "type": "has_any_word", "arguments": []string{words[i]}, "category_uuid": cu})
		}
		router := map[string]any{"type": "switch", "cases": cases}
		hasDefault := !r.Chance(12)
		if hasDefault {
			e := newExit()
			n.Exits = append(n.Exits, e)
			cu := us.next()
			cats = append(cats, map[string]any{"uuid": cu, "name": "Other", "exit_uuid": e.UUID})
			router["default_category_uuid"] = cu
		}
		waitKind := ""
		if x < 80 {
			if cfg.Voice && r.Chance(40) {
				waitKind = "d"
			} else if r.Chance(45) {
				waitKind = "m1"
			} else {
				waitKind = "m0"
			}
		}
		switch waitKind {
		case "m0":
			router["wait"] = map[string]any{"type": "msg"}
			router["operand"] = "@input.text"
		case "m1":
			e := newExit()
			n.Exits = append(n.Exits, e)
			cu := us.next()
			cats = append(cats, map[string]any{"uuid": cu, "name": "No Response", "exit_uuid": e.UUID})
			router["wait"] = map[string]any{"type": "msg", "timeout": map[string]any{"seconds": 600, "category_uuid": cu}}
			router["operand"] = "@input.text"
		case "d":
			router["wait"] = map[string]any{"type": "dial", "phone": Pick(r, []string{"+12065551212", "@contact.name", "bad"})}
			router["operand"] = "@(default(resume.dial.status, \"\"))"
		default:
			router["operand"] = Pick(r, []string{"@contact.name", "@input.text", "@child.status", "@results.color", "@(1/0)", "@run.status", "red", "@fields.nope"})
		}
		if r.Chance(50) {
			router["result_name"] = Pick(r, []string{"Color", "Answer"})
		}
		router["categories"] = cats
		n.Router = router
		n.HasWait = waitKind
	}
}

func genAction(r *Rng, us *uuidSeq, ga *genAssets, f *genFlow, cfg engGenCfg) map[string]any {
	u := us.next()
	p := 30
	if cfg.Adversarial {
		p = 45
	}
	switch x := r.Intn(100); {
	case x < p:
		target := ga.Flows[r.Intn(len(ga.Flows))]
		ref := map[string]any{"uuid": target.UUID, "name": target.Name}
		if r.Chance(8) {
			ref = map[string]any{"uuid": ga.MissingUUID, "name": "Missing"}
		}
		return map[string]any{"uuid": u, "type": "enter_flow", "flow": ref, "terminal": r.Chance(25)}
	case x < 60:
		text := Pick(r, []string{"Hi @contact.name", "What color?", "@(1/0) oops", "You said @input.text", "@results.color.value"})
		if f.Type == "voice" && x%2 == 0 {
			// what a voice flow says or plays goes to the call's URN (no further random draw: the stream of the other generators is kept)
			if x%4 == 0 {
				return map[string]any{"uuid": u, "type": "say_msg", "text": text}
			}
			return map[string]any{"uuid": u, "type": "play_audio", "audio_url": "http://uploads.example.com/rec.mp3?for=@contact.name"}
		}
		return map[string]any{"uuid": u, "type": "send_msg", "text": text}
	case x < 75:
		return map[string]any{"uuid": u, "type": "set_run_result", "name": Pick(r, []string{"Color", "Answer", "N"}), "value": Pick(r, []string{"red", "@input.text", "1", "@(1/0)"}), "category": "Cat"}
	case x < 85:
		return map[string]any{"uuid": u, "type": "set_contact_name", "name": Pick(r, []string{"Bob", "@input.text", "", "Jim McJim"})}
	case x < 92:
		return map[string]any{"uuid": u, "type": "set_contact_language", "language": Pick(r, []string{"eng", "fra", "", "xxxx"})}
	default:
		return map[string]any{"uuid": u, "type": "call_webhook", "method": "GET", "url": "http://localhost:49999/?x=@contact.name", "result_name": "Hook"}
	}
}

func (ga *genAssets) JSON(voice bool) []byte {
	var flows []map[string]any
	for _, f := range ga.Flows {
		if f.deleted {
			continue
		}
		var nodes []map[string]any
		for _, n := range f.Nodes {
			var exits []map[string]any
			for _, e := range n.Exits {
				ex := map[string]any{"uuid": e.UUID}
				if e.Dest >= 0 {
					ex["destination_uuid"] = f.Nodes[e.Dest].UUID
				}
				if e.BadDest != "" {
					ex["destination_uuid"] = e.BadDest
				}
				exits = append(exits, ex)
			}
			nd := map[string]any{"uuid": n.UUID, "exits": exits}
			if len(n.Actions) > 0 {
				nd["actions"] = n.Actions
			}
			if n.Router != nil {
				nd["router"] = n.Router
			}
			nodes = append(nodes, nd)
		}
		if nodes == nil {
			nodes = []map[string]any{}
		}
		flows = append(flows, map[string]any{"uuid": f.UUID, "name": f.Name, "spec_version": "13.6.0", "language": "eng", "type": f.Type,
			"revision": 1, "expire_after_minutes": 60, "localization": map[string]any{}, "nodes": nodes})
	}
	a := map[string]any{
		"flows": flows,
		"channels": []map[string]any{{"uuid": "57f1078f-88aa-46f4-a59a-948a5739c03d", "name": "Android", "address": "+17036975131", "schemes": []string{"tel"},
			"roles": []string{"send", "receive", "call", "answer"}, "country": "US"}},
		"fields": []map[string]any{{"uuid": "d66a7823-eada-40e5-9a3a-57239d4690bf", "key": "gender", "name": "Gender", "type": "text"}},
		"groups": []map[string]any{{"uuid": "b7cf0d83-f1c9-411c-96fd-c511a4cfa86d", "name": "Testers"}, {"uuid": "4f1f98fc-27a7-4a69-bbdb-24744ba739a9", "name": "Bobs", "query": "name ~ Bob"}},
	}
	b, _ := json.Marshal(a)
	return b
}

// model-side encoding of the assets (see Driver/Engine.lean)
func (ga *genAssets) ModelSpec(missing map[int]bool) string {
	var fs []string
	for i, f := range ga.Flows {
		if missing[i] || f.deleted {
			fs = append(fs, "X")
			continue
		}
		if len(f.Nodes) == 0 {
			fs = append(fs, "E")
			continue
		}
		var ns []string
		for _, n := range f.Nodes {
			var es []string
			for _, e := range n.Exits {
				if e.Dest < 0 {
					es = append(es, "-")
				} else {
					es = append(es, fmt.Sprint(e.Dest))
				}
			}
			router := "0"
			if n.Router != nil {
				router = "1"
			}
			w := n.HasWait
			if w == "" {
				w = "n"
			}
			ns = append(ns, strings.Join(es, ".")+","+router+","+w)
		}
		fs = append(fs, strings.Join(ns, ";"))
	}
	return strings.Join(fs, "/")
}
