package main

import (
	"encoding/json"
	"fmt"
	"strings"
	"time"
	"unicode/utf8"

	"github.com/nyaruka/gocommon/stringsx"
	"github.com/nyaruka/goflow/assets"
	"github.com/nyaruka/goflow/assets/static"
	"github.com/nyaruka/goflow/envs"
	"github.com/nyaruka/goflow/flows"
	"github.com/nyaruka/goflow/flows/engine"
	"github.com/nyaruka/goflow/flows/events"
	"github.com/nyaruka/goflow/flows/resumes"
	"github.com/nyaruka/goflow/flows/triggers"
)

func init() {
	register("C05", "adversarial graphs (self loops, A enters B enters A, terminal loops, default-to-self routers) x option grid "+
		"(MaxStepsPerSprint in {-1,0,1,2,7,100}, MaxResumesPerSession in {0,1,2,3,500}, Max{Template,Field,Result}Chars in {-5,0,1,2,3,4,10,640}) x "+
		"inputs far longer than the limits with multi-byte characters at the cut; non-trivial = distinct (options, outcome, steps created, lengths observed)", runC05)
}

const sizeFlowAssets = `{
 "flows": [{"uuid": "50c3706e-fedb-42c0-8eab-dda3335714b7", "name": "Sizes", "spec_version": "13.6.0", "language": "eng", "type": "messaging", "revision": 1,
  "expire_after_minutes": 60, "localization": {}, "nodes": [
   {"uuid": "72a1f5df-49f9-45df-94c9-d86f7ea064e5", "router": {"type": "switch", "wait": {"type": "msg"}, "operand": "@input.text", "cases": [],
     "categories": [{"uuid": "37d8813f-1402-4ad2-9cc2-e9054a96525b", "name": "All", "exit_uuid": "d7a36118-0a38-4b35-a7e4-ae89042f0d3c"}],
     "default_category_uuid": "37d8813f-1402-4ad2-9cc2-e9054a96525b", "result_name": "Answer"},
    "exits": [{"uuid": "d7a36118-0a38-4b35-a7e4-ae89042f0d3c", "destination_uuid": "3dcccbb4-d29c-41dd-a01f-16d814c9ab82"}]},
   {"uuid": "3dcccbb4-d29c-41dd-a01f-16d814c9ab82", "actions": [
     {"uuid": "e97cd6d5-3354-4dbd-85bc-6c1f87849eec", "type": "send_msg", "text": "@input.text", "quick_replies": ["@input.text", "ok", "@(\"\")"],
      "attachments": ["image/jpeg:http://x.com/@(url_encode(input.text)).jpg"]},
     {"uuid": "f01d693b-2af2-49fb-9e38-146eb00937e9", "type": "send_msg", "text": "You said: @input.text!"},
     {"uuid": "0b7ad6c4-6f0c-4b56-9a4b-3f5a2b8a1c11", "type": "send_msg", "text": "@(1 / 0) and @contact.nope then @input.text",
      "quick_replies": ["@(1 / 0)@input.text", "@(upper(1, 2)) @input.text"],
      "attachments": ["image/jpeg:http://x.com/@(1 / 0)/@(url_encode(input.text)).jpg"]},
     {"uuid": "5d0a8f52-1a3c-4a3e-8f6d-7c9e2b4d6f22", "type": "set_contact_name", "name": "@(1 / 0)@input.text"},
     {"uuid": "6e1b9a63-2b4d-4b4f-9a7e-8d0f3c5e7a33", "type": "set_run_result", "name": "R", "value": "@(1 / 0)@input.text", "category": "C"},
     {"uuid": "9487a60e-a6ef-4a88-b35d-894bfe074144", "type": "set_contact_name", "name": "@input.text"},
     {"uuid": "3248a064-bc42-4dff-aa0f-93d85de2f600", "type": "set_contact_field", "field": {"key": "gender", "name": "Gender"}, "value": "@input.text"},
     {"uuid": "d2a4052a-3fa9-4608-ab3e-5b9631440447", "type": "set_run_result", "name": "R", "value": "@input.text", "category": "C"}],
    "exits": [{"uuid": "37d8813f-1402-4ad2-9cc2-e9054a96525c", "destination_uuid": "72a1f5df-49f9-45df-94c9-d86f7ea064e5"}]}
 ]}],
 "channels": [{"uuid": "57f1078f-88aa-46f4-a59a-948a5739c03d", "name": "Android", "address": "+17036975131", "schemes": ["tel"], "roles": ["send", "receive"], "country": "US"}],
 "fields": [{"uuid": "d66a7823-eada-40e5-9a3a-57239d4690bf", "key": "gender", "name": "Gender", "type": "text"}]
}`

// run f under a wall-clock budget; a call that does not return is reported as a hang
func (c *Ctx) withTimeout(check string, replay any, budget time.Duration, f func()) bool {
	done := make(chan struct{})
	go func() {
		defer close(done)
		f()
	}()
	select {
	case <-done:
		return true
	case <-time.After(budget):
		c.Fail("monitor", check, "hang", fmt.Sprintf("the call did not return within %s", budget), replay)
		return false
	}
}

func runeLen(s string) int { return utf8.RuneCountInString(s) }

func genLongInput(r *Rng) string {
	if r.Chance(25) {
		// over-long text that is also, or contains, a number or a date: a field value then has a typed part as well
		n := Pick(r, []int{5, 30, 641, 700, 2100})
		switch r.Intn(4) {
		case 0:
			return strings.Repeat("7", n)
		case 1:
			return "born on 2001-02-03 in " + strings.Repeat("Kigali ", n/7+1)
		case 2:
			return strings.Repeat("x", n) + " 12.5"
		default:
			return "15-03-2020 10:30 " + strings.Repeat("é", n)
		}
	}
	unit := Pick(r, []string{"a", "é", "中", "\U0001F600", "ab ", "x́", "A B"})
	n := Pick(r, []int{0, 1, 2, 3, 4, 5, 9, 10, 11, 63, 64, 65, 66, 639, 640, 641, 700, 2100, 10001})
	s := strings.Repeat(unit, n/runeLen(unit)+1)
	rs := []rune(s)
	if len(rs) > n {
		rs = rs[:n]
	}
	return string(rs)
}

func runC05(c *Ctx) {
	r := c.Rng

	// ---- K: the truncation functions ------------------------------------------------------
	n := c.N(4000, 200000)
	for i := 0; i < n; i++ {
		s := genString(r, 12)
		if r.Chance(30) {
			s = genLongInput(r)
			if len(s) > 400 {
				s = s[:0] + string([]rune(s)[:100])
			}
		}
		lim := Pick(r, []int{0, 1, 2, 3, 4, 5, 8, 10, 64, 640})
		func() {
			exp := ""
			func() {
				defer func() {
					if recover() != nil {
						exp = "panic"
					}
				}()
				exp = "ok " + hx(stringsx.Truncate(s, lim))
			}()
			c.Model("trunc", fmt.Sprintf("trunc %d %s", lim, hx(s)), exp, s)
			exp = ""
			func() {
				defer func() {
					if recover() != nil {
						exp = "panic"
					}
				}()
				exp = "ok " + hx(stringsx.TruncateEllipsis(s, lim))
			}()
			c.Model("trunce", fmt.Sprintf("trunce %d %s", lim, hx(s)), exp, s)
		}()
	}

	// ---- M-size: evaluated text, quick replies, attachments, name, field and result values --
	src, err := static.NewSource([]byte(sizeFlowAssets))
	if err != nil {
		c.Fail("monitor", "M-size", "harness-assets", "size flow assets rejected: "+err.Error(), nil)
		return
	}
	env := envs.NewBuilder().Build()
	sa, err := engine.NewSessionAssets(env, src, nil)
	if err != nil {
		c.Fail("monitor", "M-size", "harness-assets", "size flow assets rejected: "+err.Error(), nil)
		return
	}
	limits := []int{-5, 0, 1, 2, 3, 4, 10, 640}
	n = c.N(400, 20000)
	for i := 0; i < n; i++ {
		mt, mf, mr := Pick(r, limits), Pick(r, limits), Pick(r, limits)
		if r.Chance(20) {
			mt = 10000
		}
		input := genLongInput(r)
		desc := map[string]any{"max_template_chars": mt, "max_field_chars": mf, "max_result_chars": mr, "input_runes": runeLen(input), "input_prefix": truncate(input, 40)}
		eng := engine.NewBuilder().WithMaxTemplateChars(mt).WithMaxFieldChars(mf).WithMaxResultChars(mr).Build()
		var sprintEvents []flows.Event
		okRun := false
		returned := c.withTimeout("M-size", desc, 20*time.Second, func() {
			c.Guard("M-size", "panic:size-limits", desc, func() {
				restore := setDeterministic(int64(i))
				defer restore()
				contact := flows.NewEmptyContact(sa, "Ann", "eng", nil)
				contact.AddURN("tel:+12065550100", nil)
				trig := triggers.NewBuilder(env, assets.NewFlowReference("50c3706e-fedb-42c0-8eab-dda3335714b7", "Sizes"), contact).Manual().Build()
				s, _, err := eng.NewSession(sa, trig)
				if err != nil {
					c.Fail("monitor", "M-size", "go-error", "NewSession returned a Go error: "+err.Error(), desc)
					return
				}
				sp, err := s.Resume(resumes.NewMsg(nil, nil, flows.NewMsgIn("0d1c5a36-fff5-4a0f-a2c7-02f7c7f3c4a8", "tel:+12065550100", nil, input, nil)))
				if err != nil {
					c.Fail("monitor", "M-size", "go-error", "Resume returned a Go error: "+err.Error(), desc)
					return
				}
				sprintEvents = sp.Events()
				okRun = true
			})
		})
		if !returned {
			return
		}
		if !okRun {
			continue
		}
		lim := func(x int) int {
			if x < 0 {
				return 0
			}
			return x
		}
		obs := []string{}
		bad := func(what string, got, max int) {
			d := map[string]any{}
			for k, v := range desc {
				d[k] = v
			}
			d["observed"], d["limit"] = got, max
			c.Fail("monitor", "M-size", "limit-exceeded:"+what, fmt.Sprintf("%s has %d characters, the limit is %d", what, got, max), d)
		}
		for _, e := range sprintEvents {
			switch t := e.(type) {
			case *events.MsgCreatedEvent:
				if l := runeLen(t.Msg.Text()); l > lim(mt) {
					bad("message text", l, lim(mt))
				}
				for _, qr := range t.Msg.QuickReplies() {
					if l := runeLen(qr); l > 64 || l > lim(mt) && lim(mt) < 64 {
						bad("quick reply", l, min(64, lim(mt)))
					}
				}
				for _, a := range t.Msg.Attachments() {
					if len(a) > 2048 {
						bad("attachment", len(a), 2048)
					}
				}
				obs = append(obs, fmt.Sprintf("t%d", runeLen(t.Msg.Text())))
			case *events.ContactNameChangedEvent:
				if l := runeLen(t.Name); l > lim(mf) {
					bad("contact name", l, lim(mf))
				}
				obs = append(obs, fmt.Sprintf("n%d", runeLen(t.Name)))
			case *events.ContactFieldChangedEvent:
				if t.Value != nil {
					if l := runeLen(t.Value.Text.Native()); l > lim(mf) {
						bad("field value", l, lim(mf))
					}
					obs = append(obs, fmt.Sprintf("f%d", runeLen(t.Value.Text.Native())))
				}
			case *events.RunResultChangedEvent:
				if t.Name == "R" {
					if l := runeLen(t.Value); l > lim(mr) {
						bad("result value", l, lim(mr))
					}
					obs = append(obs, fmt.Sprintf("r%d", runeLen(t.Value)))
				}
			}
		}
		c.Eval(fmt.Sprintf("size|%d|%d|%d|%s", mt, mf, mr, strings.Join(obs, ",")))
		c.Count("check:M-size")
		if i < 2 {
			c.Sample(map[string]any{"check": "M-size", "options": desc, "observed": obs})
		}
	}

	// ---- M-steps / M-resumes / K: adversarial graphs under the option grid -------------------
	corpus := adversarialCorpus()
	n = c.N(1200, 50000)
	for i := 0; i < n+len(corpus); i++ {
		var ec *engCase
		if i < len(corpus) {
			ec = corpus[i] // hand-built adversarial shapes run first
		} else {
			ec = genEngCase(r, true)
			ec.MaxSteps = Pick(r, []int{-1, 0, 1, 2, 7, 100})
			ec.MaxResumes = Pick(r, []int{0, 1, 2, 3, 500})
		}
		accepted := 0
		ncall := 0
		finished := c.withTimeout("M-terminates", ec.describe(), 30*time.Second, func() {
			runEngCase(c, ec, "C05", func(er *engRun, call *engCall) {
				ncall++
				if call.Post == nil {
					return
				}
				d := func() map[string]any {
					x := ec.describe()
					x["at_call"], x["call"], x["class"] = ncall, call.Call, call.Class
					return x
				}
				// steps created by this call
				created := 0
				for ri, run := range call.Post.Runs {
					pl := 0
					if call.Pre != nil && ri < len(call.Pre.Runs) {
						pl = len(call.Pre.Runs[ri].Path)
					}
					created += len(run.Path) - pl
				}
				budget := max(0, ec.MaxSteps)
				c.Eval(fmt.Sprintf("steps|%d|%d|%s|%s", ec.MaxSteps, created, call.Class, call.Post.Status))
				c.Count("check:M-steps")
				if created > budget {
					c.Fail("monitor", "M-steps", "step-limit-exceeded", fmt.Sprintf("the call created %d steps, MaxStepsPerSprint is %d", created, ec.MaxSteps), d())
				}
				if call.Class == "goerr" && call.Call != "start" {
					c.Fail("monitor", "M-no-go-error", "go-error", "an engine call returned a Go error: "+call.Err.Error(), d())
				}
				if call.Sprint != nil && call.Class == "ok" {
					for _, e := range call.Sprint.Events() {
						if f, ok := e.(*events.FailureEvent); ok && strings.Contains(f.Text, "maximum number of steps") {
							c.Count("step-limit-hit")
							if call.Post.Status != "f" {
								c.Fail("monitor", "M-limit-fails", "step-limit-did-not-fail-session", "the step limit was hit but the session did not end as failed", d())
							}
						}
					}
					if evs := call.Sprint.Events(); call.Call != "start" && len(evs) > 0 {
						switch evs[0].Type() {
						case events.TypeMsgReceived, events.TypeWaitTimedOut, events.TypeRunExpired, events.TypeDialEnded:
							accepted++
						}
					}
				}
				if accepted > max(0, ec.MaxResumes) {
					c.Fail("monitor", "M-resumes", "resume-limit-exceeded", fmt.Sprintf("%d resumes were carried out, MaxResumesPerSession is %d", accepted, ec.MaxResumes), d())
				}
				if call.Class != "goerr" {
					op, expect := er.modelOp(call, nil)
					c.Model("eng", op, expect, map[string]any{"case": ec.describe(), "call_index": ncall})
				}
			})
		})
		if !finished {
			c.Flush()
			return // a goroutine is stuck; stop here with the hang recorded
		}
		if i < 2 {
			c.Sample(map[string]any{"check": "M-steps", "model_assets": ec.GA.ModelSpec(nil), "max_steps": ec.MaxSteps, "max_resumes": ec.MaxResumes, "resumes": ec.Resumes})
		}
	}
	_ = json.Marshal
}

// hand-built adversarial shapes: waits spread over child runs that exit, flows whose first node enters the
// next flow (chains, self-entering, A<->B), terminal loops
func adversarialCorpus() []*engCase {
	us := &uuidSeq{n: 900000}
	mk := func(flows ...*genFlow) *genAssets { return &genAssets{Flows: flows, MissingUUID: us.next()} }
	enter := func(f *genFlow, terminal bool) map[string]any {
		return map[string]any{"uuid": us.next(), "type": "enter_flow", "flow": map[string]any{"uuid": f.UUID, "name": f.Name}, "terminal": terminal}
	}
	plain := func(dest int, actions ...map[string]any) *genNode {
		return &genNode{UUID: us.next(), Actions: actions, Exits: []genExit{{UUID: us.next(), Dest: dest}}}
	}
	waitNode := func(dest int) *genNode {
		e := genExit{UUID: us.next(), Dest: dest}
		cu := us.next()
		return &genNode{UUID: us.next(), Exits: []genExit{e}, HasWait: "m0", Router: map[string]any{"type": "switch", "wait": map[string]any{"type": "msg"},
			"operand": "@input.text", "cases": []any{}, "default_category_uuid": cu, "categories": []map[string]any{{"uuid": cu, "name": "All", "exit_uuid": e.UUID}}}}
	}
	newFlow := func(name string) *genFlow { return &genFlow{UUID: us.next(), Name: name, Type: "messaging"} }
	var out []*engCase
	msgs := func(k int) []string {
		var r []string
		for i := 0; i < k; i++ {
			r = append(r, "msg:red")
		}
		return r
	}
	// (1) parent loops entering a child that waits and completes
	{
		parent, child := newFlow("Parent"), newFlow("Child")
		child.Nodes = []*genNode{waitNode(-1)}
		parent.Nodes = []*genNode{plain(0, enter(child, false))}
		for _, mr := range []int{2, 3, 5} {
			out = append(out, &engCase{GA: mk(parent, child), MaxSteps: 100, MaxResumes: mr, Trigger: "manual", StartFlow: 0, Resumes: msgs(mr + 6), Seed: 11})
		}
	}
	// (2) a chain of flows, each first node entering the next
	{
		var fl []*genFlow
		for i := 0; i < 12; i++ {
			fl = append(fl, newFlow(fmt.Sprintf("Chain %d", i)))
		}
		for i, f := range fl {
			if i+1 < len(fl) {
				f.Nodes = []*genNode{plain(-1, enter(fl[i+1], false))}
			} else {
				f.Nodes = []*genNode{plain(-1)}
			}
		}
		for _, ms := range []int{1, 2, 3, 7} {
			out = append(out, &engCase{GA: mk(fl...), MaxSteps: ms, MaxResumes: 500, Trigger: "manual", StartFlow: 0, Seed: 12})
		}
	}
	// (3) a flow whose first node enters itself; (4) A <-> B; (5) terminal self-enter
	for _, terminal := range []bool{false, true} {
		self := newFlow("Self")
		self.Nodes = []*genNode{plain(-1, enter(self, terminal))}
		a, b := newFlow("A"), newFlow("B")
		a.Nodes = []*genNode{plain(-1, enter(b, terminal))}
		b.Nodes = []*genNode{plain(-1, enter(a, terminal))}
		for _, ms := range []int{1, 2, 10} {
			out = append(out, &engCase{GA: mk(self), MaxSteps: ms, MaxResumes: 500, Trigger: "manual", StartFlow: 0, Seed: 13})
			out = append(out, &engCase{GA: mk(a, b), MaxSteps: ms, MaxResumes: 500, Trigger: "manual", StartFlow: 0, Seed: 14})
		}
	}
	// (7) a voice flow whose dial wait leads back to itself (redial), alone and after a msg wait: every kind of wait counts
	// towards MaxResumesPerSession
	{
		dialNode := func(dest int) *genNode {
			e := genExit{UUID: us.next(), Dest: dest}
			cu := us.next()
			return &genNode{UUID: us.next(), Exits: []genExit{e}, HasWait: "d", Router: map[string]any{"type": "switch",
				"wait": map[string]any{"type": "dial", "phone": "+12065551212"}, "operand": "@(default(resume.dial.status, \"\"))", "cases": []any{},
				"default_category_uuid": cu, "categories": []map[string]any{{"uuid": cu, "name": "All", "exit_uuid": e.UUID}}}}
		}
		dials := func(k int) []string {
			var r []string
			for i := 0; i < k; i++ {
				r = append(r, "dial:busy")
			}
			return r
		}
		for _, mr := range []int{1, 2, 3, 5} {
			redial := &genFlow{UUID: us.next(), Name: "Redial", Type: "voice"}
			redial.Nodes = []*genNode{dialNode(0)}
			out = append(out, &engCase{GA: mk(redial), Voice: true, MaxSteps: 100, MaxResumes: mr, Trigger: "manual", StartFlow: 0, Resumes: dials(mr + 5), Seed: 16})
			mixed := &genFlow{UUID: us.next(), Name: "Ask then dial", Type: "voice"}
			mixed.Nodes = []*genNode{waitNode(1), dialNode(1)}
			out = append(out, &engCase{GA: mk(mixed), Voice: true, MaxSteps: 100, MaxResumes: mr, Trigger: "manual", StartFlow: 0, Resumes: append([]string{"msg:red"}, dials(mr+5)...), Seed: 17})
		}
	}
	// (6) the step budget runs out exactly at a flow entry, after a wait
	{
		parent, child := newFlow("P"), newFlow("C")
		child.Nodes = []*genNode{plain(1), plain(-1)}
		parent.Nodes = []*genNode{waitNode(1), plain(2), plain(-1, enter(child, false))}
		for _, ms := range []int{1, 2, 3, 4} {
			out = append(out, &engCase{GA: mk(parent, child), MaxSteps: ms, MaxResumes: 500, Trigger: "manual", StartFlow: 0, Resumes: msgs(2), Seed: 15})
		}
	}
	return out
}
