package main

import (
	"encoding/json"
	"fmt"
	"os"
)

// rebuilds the generator's view of the assets from their JSON (for replays)
func genAssetsFromJSON(data []byte) (*genAssets, error) {
	var a struct {
		Flows []struct {
			UUID  string `json:"uuid"`
			Name  string `json:"name"`
			Type  string `json:"type"`
			Nodes []struct {
				UUID    string           `json:"uuid"`
				Actions []map[string]any `json:"actions"`
				Router  map[string]any   `json:"router"`
				Exits   []struct {
					UUID string `json:"uuid"`
					Dest string `json:"destination_uuid"`
				} `json:"exits"`
			} `json:"nodes"`
		} `json:"flows"`
	}
	if err := json.Unmarshal(data, &a); err != nil {
		return nil, err
	}
	ga := &genAssets{}
	for _, f := range a.Flows {
		gf := &genFlow{UUID: f.UUID, Name: f.Name, Type: f.Type}
		idx := map[string]int{}
		for i, n := range f.Nodes {
			idx[n.UUID] = i
		}
		for _, n := range f.Nodes {
			gn := &genNode{UUID: n.UUID, Actions: n.Actions, Router: n.Router}
			for _, e := range n.Exits {
				d := -1
				if e.Dest != "" {
					d = idx[e.Dest]
				}
				gn.Exits = append(gn.Exits, genExit{UUID: e.UUID, Dest: d})
			}
			if n.Router != nil {
				if w, ok := n.Router["wait"].(map[string]any); ok {
					switch w["type"] {
					case "msg":
						gn.HasWait = "m0"
						if _, ok := w["timeout"]; ok {
							gn.HasWait = "m1"
						}
					case "dial":
						gn.HasWait = "d"
					}
				}
			}
			gf.Nodes = append(gf.Nodes, gn)
		}
		ga.Flows = append(ga.Flows, gf)
	}
	return ga, nil
}

func engCaseFromReplay(path string) (*engCase, map[string]any, error) {
	b, err := os.ReadFile(path)
	if err != nil {
		return nil, nil, err
	}
	var top map[string]any
	if err := json.Unmarshal(b, &top); err != nil {
		return nil, nil, err
	}
	// accept the replay file written by bin/check ({"violation": {"replay": {...}}}) or the bare case
	d := top
	if v, ok := top["violation"].(map[string]any); ok {
		d, _ = v["replay"].(map[string]any)
	}
	if m, ok := top["mismatches"].([]any); ok && len(m) > 0 {
		if r, ok := m[0].(map[string]any)["replay"].(map[string]any); ok {
			if in, ok := r["input"].(map[string]any); ok {
				d, _ = in["case"].(map[string]any)
			}
		}
	}
	if d == nil || d["assets"] == nil {
		return nil, nil, fmt.Errorf("no engine case in %s", path)
	}
	aj, _ := json.Marshal(d["assets"])
	ga, err := genAssetsFromJSON(aj)
	if err != nil {
		return nil, nil, err
	}
	ec := &engCase{GA: ga}
	num := func(k string) int { f, _ := d[k].(float64); return int(f) }
	ec.MaxSteps, ec.MaxResumes, ec.StartFlow, ec.Seed = num("max_steps"), num("max_resumes"), num("start_flow"), int64(num("seed"))
	ec.Trigger, _ = d["trigger"].(string)
	if rs, ok := d["resumes"].([]any); ok {
		for _, x := range rs {
			ec.Resumes = append(ec.Resumes, x.(string))
		}
	}
	if rs, ok := d["refresh"].([]any); ok {
		for _, x := range rs {
			ec.Refresh = append(ec.Refresh, x.(string))
		}
	}
	for _, f := range ga.Flows {
		if f.Type == "voice" && f == ga.Flows[ec.StartFlow] {
			ec.Voice = true
		}
	}
	if v, ok := d["voice"].(bool); ok {
		ec.Voice = v
	}
	return ec, d, nil
}
