package main

import (
	"fmt"
	"regexp"
	"strconv"
	"strings"
	"time"

	"github.com/nyaruka/gocommon/dates"
	"github.com/nyaruka/goflow/envs"
	"github.com/nyaruka/goflow/excellent"
	"github.com/nyaruka/goflow/excellent/types"
	"github.com/nyaruka/goflow/flows/definition/legacy/expressions"
)

func init() {
	register("C17", "generated legacy expression trees over the legacy grammar: every migratable function at every arity it accepts, nested as operand of every operator and as argument of every other function, "+
		"all operators with every grouping, negation, parentheses, decimal/text/boolean literals incl. doubled quotes, backslashes and non-ASCII, context references of every mapped family, date arithmetic, "+
		"embedded in templates with surrounding text; each is compared, on generated operand values, with the fully parenthesised translation built from the same tree; "+
		"non-trivial = distinct (node kind, child kinds, outcome)", runC17)
}

// ---- legacy syntax trees ---------------------------------------------------------------------------------------

type lx struct {
	kind string // ref dec str bool neg paren bin call
	text string // ref name / decimal / string chars / "true" / operator / function name
	kids []*lx
}

var legacyPrec = map[string]int{"^": 12, "*": 11, "/": 11, "+": 10, "-": 10, "<": 9, "<=": 9, ">": 9, ">=": 9, "=": 8, "<>": 8, "&": 7}

func (e *lx) level() int {
	switch e.kind {
	case "bin":
		return legacyPrec[e.text]
	case "neg":
		return 13
	}
	return 14
}

// legacy text, with the parentheses the grammar needs and nothing else (explicit paren nodes add more)
func (e *lx) legacy() string {
	wrapIf := func(k *lx, min int) string {
		if k.level() < min {
			return "(" + k.legacy() + ")"
		}
		return k.legacy()
	}
	switch e.kind {
	case "ref", "dec":
		return e.text
	case "bool":
		return strings.ToUpper(e.text)
	case "str":
		return `"` + strings.ReplaceAll(e.text, `"`, `""`) + `"`
	case "neg":
		return "-" + wrapIf(e.kids[0], 13)
	case "paren":
		return "(" + e.kids[0].legacy() + ")"
	case "bin":
		p := legacyPrec[e.text]
		return wrapIf(e.kids[0], p) + " " + e.text + " " + wrapIf(e.kids[1], p+1)
	default:
		var ps []string
		for _, k := range e.kids {
			ps = append(ps, k.legacy())
		}
		return strings.ToUpper(e.text) + "(" + strings.Join(ps, ", ") + ")"
	}
}

func (e *lx) shape() string {
	if e.kind == "bin" || e.kind == "call" {
		return e.text
	}
	return e.kind
}

// what the legacy expression denotes, written in the new language with every operand in parentheses, so that no
// precedence rule is involved; function calls use the implementation's own migration of the call on atomic arguments
func (e *lx) intended(learn func(fn string, args []string) (string, bool)) (string, bool) {
	switch e.kind {
	case "ref":
		return expressions.MigrateContextReference(e.text, false), true
	case "dec":
		return e.text, true
	case "bool":
		return e.text, true
	case "str":
		// the authors' reading of legacy literals (pinned by their tests): escape sequences pass through - a literal whose
		// content is a valid escaped string denotes what the escapes denote, any other denotes its characters
		chars := e.text
		if u, err := strconv.Unquote(`"` + strings.ReplaceAll(e.text, `"`, `\"`) + `"`); err == nil {
			chars = u
		}
		return strconv.Quote(chars), true
	case "neg":
		k, ok := e.kids[0].intended(learn)
		return "-(" + k + ")", ok
	case "paren":
		k, ok := e.kids[0].intended(learn)
		return "(" + k + ")", ok
	case "bin":
		l, ok1 := e.kids[0].intended(learn)
		r, ok2 := e.kids[1].intended(learn)
		op := e.text
		if op == "<>" {
			op = "!="
		}
		if op == "+" || op == "-" {
			// the legacy engine added dates and numbers of days, and numbers
			// the migration writes date arithmetic only where it can see that the right operand is a number (an integer literal
			// or a call of a function known to return one); elsewhere legacy_add decides at run time - what is checked here
			// is grouping and argument order, not that inference
			// which of its forms the migration writes is decided by what it can infer about the operands from their migrated
			// text (c17InferType follows it); within each form the operands must keep their grouping and order
			lt, rt := c17InferType(e.kids[0]), c17InferType(e.kids[1])
			switch {
			case lt == "date" && rt == "number":
				if op == "-" {
					r = "-(" + r + ")"
				}
				return fmt.Sprintf(`format_date(datetime_add((%s), (%s), "D"))`, l, r), ok1 && ok2
			case lt == "datetime" && rt == "number":
				if op == "-" {
					r = "-(" + r + ")"
				}
				return fmt.Sprintf(`datetime_add((%s), (%s), "D")`, l, r), ok1 && ok2
			case lt == "datetime" && rt == "time":
				minutes := fmt.Sprintf(`format_time((%[1]s), "tt") * 60 + format_time((%[1]s), "m")`, r)
				if op == "-" {
					return fmt.Sprintf(`datetime_add((%s), -(%s), "m")`, l, minutes), ok1 && ok2
				}
				return fmt.Sprintf(`datetime_add((%s), (%s), "m")`, l, minutes), ok1 && ok2
			case rt == "time" && op == "+":
				return fmt.Sprintf(`replace_time((%s), (%s))`, l, r), ok1 && ok2
			}
			if op == "-" {
				return fmt.Sprintf("legacy_add((%s), -(%s))", l, r), ok1 && ok2
			}
			return fmt.Sprintf("legacy_add((%s), (%s))", l, r), ok1 && ok2
		}
		return "(" + l + ") " + op + " (" + r + ")", ok1 && ok2
	default:
		// literal arguments steer the migration of some parameters (decrementing, by_spaces), so they stay as they are;
		// every other argument is replaced by a placeholder reference and substituted afterwards
		var args []string
		subst := map[string]string{}
		ok := true
		for i, k := range e.kids {
			// a negative literal position counts from the end and is kept by the migration, so it is a literal too
			if k.kind == "dec" || k.kind == "bool" || (k.kind == "neg" && k.kids[0].kind == "dec") {
				args = append(args, k.legacy())
				continue
			}
			ph := fmt.Sprintf("zzq%c", 'a'+i)
			ki, kok := k.intended(learn)
			ok = ok && kok
			subst[ph] = "(" + ki + ")"
			args = append(args, ph)
		}
		tpl, lok := learn(e.text, args)
		if !lok {
			return "", false
		}
		for ph, v := range subst {
			tpl = strings.ReplaceAll(tpl, ph, v)
		}
		return "(" + tpl + ")", ok
	}
}

var c17NumericFns = map[string]bool{"abs": true, "max": true, "mean": true, "min": true, "mod": true, "sum": true, "rand": true, "round": true, "round_down": true, "round_up": true}
var c17CallRe = regexp.MustCompile(`^(\w+)\(`)

func c17LooksNumeric(e *lx) bool {
	m, err := expressions.MigrateTemplate("@("+e.legacy()+")", nil)
	if err != nil || !strings.HasPrefix(m, "@(") {
		return false
	}
	t := m[2 : len(m)-1]
	if _, err := strconv.Atoi(t); err == nil {
		return true
	}
	if mm := c17CallRe.FindStringSubmatch(t); mm != nil {
		return c17NumericFns[mm[1]]
	}
	return false
}

// what the migration infers about an operand: from its migrated text, an integer literal or a call of a function with a
// known return type (the table follows functionReturnTypes; a formatted date part is not a date)
var c17ReturnTypes = map[string]string{"abs": "number", "datetime_add": "datetime", "datetime_from_parts": "datetime", "datetime": "datetime", "date": "date",
	"format_date": "date", "max": "number", "mean": "number", "min": "number", "mod": "number", "now": "datetime", "sum": "number", "rand": "number", "round": "number",
	"round_down": "number", "round_up": "number", "time": "time", "time_from_parts": "time", "today": "date"}
var c17DatePartRe = regexp.MustCompile(`^format_date\(.*, "(D|M|YYYY)"\)$`)

func c17InferType(e *lx) string {
	m, err := expressions.MigrateTemplate("@("+e.legacy()+")", nil)
	if err != nil || !strings.HasPrefix(m, "@(") {
		return ""
	}
	t := m[2 : len(m)-1]
	if _, err := strconv.Atoi(t); err == nil {
		return "number"
	}
	if mm := c17CallRe.FindStringSubmatch(t); mm != nil && c17WholeCall(t) {
		if c17DatePartRe.MatchString(t) {
			return ""
		}
		return c17ReturnTypes[mm[1]]
	}
	return ""
}

// the text is one call: the parenthesis its name opens is closed by the last character (abs(1) but not abs(1) + 2)
func c17WholeCall(t string) bool {
	depth := 0
	inStr := false
	rs := []rune(t)
	for i := 0; i < len(rs); i++ {
		ch := rs[i]
		if inStr {
			if ch == '\\' {
				i++
			} else if ch == '"' {
				inStr = false
			}
			continue
		}
		switch ch {
		case '"':
			inStr = true
		case '(':
			depth++
		case ')':
			depth--
			if depth == 0 {
				return i == len(rs)-1
			}
		}
	}
	return false
}

func (e *lx) dateType() string {
	if e.kind == "paren" {
		return e.kids[0].dateType()
	}
	if e.kind == "call" {
		switch e.text {
		case "today", "date", "datevalue":
			return "date"
		case "now":
			return "datetime"
		}
	}
	return ""
}

// ---- generator ---------------------------------------------------------------------------------------------------

type legacyFn struct {
	name  string
	arity []int
	kinds string // argument kinds: n number, t text, d date, b by_spaces literal, * anything
}

var legacyFns = []legacyFn{
	{"sum", []int{1, 2, 3}, "nnn"}, {"power", []int{2}, "nn"}, {"exp", []int{1}, "n"}, {"abs", []int{1}, "n"}, {"max", []int{2, 3}, "nnn"}, {"min", []int{2}, "nn"},
	{"average", []int{2, 3}, "nnn"}, {"mod", []int{2}, "nn"}, {"round", []int{1, 2}, "nn"}, {"rounddown", []int{1, 2}, "nn"}, {"roundup", []int{1}, "n"}, {"int", []int{1}, "n"}, {"trunc", []int{1}, "n"},
	{"concatenate", []int{1, 2, 3}, "***"}, {"left", []int{2}, "tn"}, {"right", []int{2}, "tn"}, {"len", []int{1}, "t"}, {"lower", []int{1}, "t"}, {"upper", []int{1}, "t"}, {"proper", []int{1}, "t"},
	{"rept", []int{2}, "tn"}, {"substitute", []int{3}, "ttt"}, {"word", []int{2, 3}, "tnb"}, {"word_count", []int{1, 2}, "tb"}, {"word_slice", []int{2, 3, 4}, "tnnb"}, {"first_word", []int{1}, "t"},
	{"remove_first_word", []int{1}, "t"}, {"field", []int{3}, "tnt"}, {"clean", []int{1}, "t"}, {"code", []int{1}, "t"}, {"char", []int{1}, "n"}, {"unichar", []int{1}, "n"}, {"unicode", []int{1}, "t"},
	{"fixed", []int{1, 2}, "nn"}, {"percent", []int{1}, "n"}, {"if", []int{3}, "***"}, {"and", []int{2}, "**"}, {"or", []int{2, 3}, "***"}, {"true", []int{0}, ""}, {"false", []int{0}, ""},
	{"today", []int{0}, ""}, {"date", []int{3}, "nnn"}, {"datevalue", []int{1}, "t"}, {"day", []int{1}, "d"}, {"month", []int{1}, "d"}, {"year", []int{1}, "d"}, {"weekday", []int{1}, "d"},
	{"days", []int{2}, "dd"}, {"edate", []int{2}, "dn"}, {"datedif", []int{3}, "ddt"}, {"epoch", []int{1}, "d"}, {"time", []int{3}, "nnn"}, {"timevalue", []int{1}, "t"},
	{"hour", []int{1}, "d"}, {"minute", []int{1}, "d"}, {"second", []int{1}, "d"}, {"format_date", []int{1}, "d"},
}

var legacyRefs = []string{"contact.age", "contact.score", "contact.n", "flow.x", "flow.x.value", "step.value", "extra.k", "contact.name", "contact.first_name", "flow.x.category", "contact", "contact.joined"}

type legacyGen struct{ r *Rng }

func (g *legacyGen) lit(kind byte) *lx {
	r := g.r
	switch kind {
	case 't':
		if r.Chance(60) {
			return &lx{kind: "str", text: Pick(r, []string{"hello world foo", "abc", "", "one two three four five six seven eight nine ten eleven twelve thirteen", "a,b,c,d,e,f,g,h,i,j,k,l,m,n", `say "hi"`, `C:\new\table`, `a\b`, "é😀", "x y z", "one,two,three", "it's", `\\w+`, `\w+`, `a\tb`})}
		}
		return &lx{kind: "ref", text: Pick(r, []string{"contact.name", "step.value", "contact.first_name", "flow.x.category"})}
	case 'd':
		return Pick(r, []*lx{{kind: "call", text: "today"}, {kind: "call", text: "date", kids: []*lx{{kind: "dec", text: "2020"}, {kind: "dec", text: "3"}, {kind: "dec", text: "15"}}},
			{kind: "ref", text: "contact.joined"}, {kind: "call", text: "datevalue", kids: []*lx{{kind: "str", text: "2021-06-07"}}}})
	case 'b':
		return &lx{kind: "bool", text: Pick(r, []string{"true", "false"})}
	default:
		if r.Chance(60) {
			return &lx{kind: "dec", text: Pick(r, []string{"0", "1", "2", "3", "5", "10", "1.5", "2.50", "100", "010", "0012", "007", "08"})}
		}
		return &lx{kind: "ref", text: Pick(r, []string{"contact.age", "contact.score", "contact.n", "flow.x", "extra.k", "step.value"})}
	}
}

func (g *legacyGen) expr(depth int, kind byte) *lx {
	r := g.r
	if depth <= 0 {
		return g.lit(kind)
	}
	switch r.Intn(10) {
	case 0, 1, 2:
		op := Pick(r, []string{"+", "-", "*", "/", "^", "&", "=", "<>", "<", "<=", ">", ">="})
		k := byte('n')
		if op == "&" {
			k = '*'
		}
		if (op == "+" || op == "-") && r.Chance(15) {
			return &lx{kind: "bin", text: op, kids: []*lx{g.lit('d'), g.expr(depth-1, 'n')}}
		}
		if (op == "+" || op == "-") && r.Chance(30) {
			// both operands look like numbers to the migration's type inference (an integer literal, or text that starts with a
			// call of a numeric function) - including SUM/CONCATENATE whose first parameter is such a call
			numeric := func() *lx {
				fn := &lx{kind: "call", text: Pick(r, []string{"abs", "max", "min", "mod", "round"}), kids: []*lx{g.lit('n'), g.lit('n')}}
				if fn.text == "abs" || fn.text == "round" {
					fn.kids = fn.kids[:1]
				}
				switch r.Intn(4) {
				case 0:
					return &lx{kind: "dec", text: Pick(r, []string{"10", "20", "3"})}
				case 1:
					return fn
				case 2:
					return &lx{kind: "call", text: "sum", kids: []*lx{fn, g.lit('n')}}
				default:
					return &lx{kind: "call", text: "concatenate", kids: []*lx{fn, g.lit('n')}}
				}
			}
			return &lx{kind: "bin", text: op, kids: []*lx{numeric(), numeric()}}
		}
		return &lx{kind: "bin", text: op, kids: []*lx{g.expr(depth-1, k), g.expr(depth-1, k)}}
	case 3:
		return &lx{kind: "neg", kids: []*lx{g.expr(depth-1, 'n')}}
	case 4:
		return &lx{kind: "paren", kids: []*lx{g.expr(depth-1, kind)}}
	case 5, 6, 7, 8:
		f := Pick(r, legacyFns)
		n := Pick(r, f.arity)
		e := &lx{kind: "call", text: f.name}
		for i := 0; i < n; i++ {
			k := f.kinds[i]
			if k == 'b' {
				e.kids = append(e.kids, g.lit('b'))
			} else if k == '*' {
				e.kids = append(e.kids, g.expr(depth-1, Pick(r, []byte{'n', 't'})))
			} else {
				e.kids = append(e.kids, g.expr(depth-1, k))
			}
		}
		return e
	default:
		return g.lit(kind)
	}
}

// ---- the operator core, for the correspondence with the model ---------------------------------------------------

var c17OpNames = map[string]string{"^": "EXPONENT", "*": "TIMES", "/": "DIVIDE", "<": "LT", "<=": "LTE", ">": "GT", ">=": "GTE", "=": "EQ", "<>": "NEQ", "&": "AMPERSAND"}

func (g *legacyGen) core(depth int) *lx {
	r := g.r
	if depth <= 0 || r.Chance(25) {
		switch r.Intn(4) {
		case 0:
			return &lx{kind: "bool", text: Pick(r, []string{"true", "false"})}
		case 1:
			return &lx{kind: "dec", text: Pick(r, []string{"0", "1", "2", "3", "10", "1.5", "2.50", "010", "0012", "02"})}
		default:
			return &lx{kind: "ref", text: Pick(r, []string{"contact.age", "contact.score", "flow.x", "extra.k", "contact.name", "step.value"})}
		}
	}
	switch r.Intn(9) {
	case 0, 1, 2:
		return &lx{kind: "bin", text: Pick(r, []string{"*", "/", "^", "&", "=", "<>", "<", "<=", ">", ">="}), kids: []*lx{g.core(depth - 1), g.core(depth - 1)}}
	case 3:
		return &lx{kind: "neg", kids: []*lx{g.core(depth - 1)}}
	case 4:
		return &lx{kind: "paren", kids: []*lx{g.core(depth - 1)}}
	case 5, 6:
		e := &lx{kind: "call", text: Pick(r, []string{"sum", "concatenate"})}
		for k := r.Range(1, 4); k > 0; k-- {
			e.kids = append(e.kids, g.core(depth-1))
		}
		return e
	case 7:
		return &lx{kind: "call", text: "power", kids: []*lx{g.core(depth - 1), g.core(depth - 1)}}
	default:
		return &lx{kind: "call", text: "exp", kids: []*lx{g.core(depth - 1)}}
	}
}

func (e *lx) prefix(out *[]string) {
	switch e.kind {
	case "ref":
		*out = append(*out, "ref:"+hx(expressions.MigrateContextReference(e.text, false)))
	case "dec":
		*out = append(*out, "num:"+hx(e.text))
	case "bool":
		*out = append(*out, map[string]string{"true": "T", "false": "F"}[e.text])
	case "neg":
		*out = append(*out, "neg")
	case "paren":
		*out = append(*out, "par")
	case "bin":
		*out = append(*out, "bin:"+c17OpNames[e.text])
	default:
		switch e.text {
		case "sum":
			*out = append(*out, fmt.Sprintf("sum:%d", len(e.kids)))
		case "concatenate":
			*out = append(*out, fmt.Sprintf("cat:%d", len(e.kids)))
		case "power":
			*out = append(*out, "pow")
		default:
			*out = append(*out, "exp")
		}
	}
	for _, k := range e.kids {
		k.prefix(out)
	}
}

var c17TwoNumericRe = regexp.MustCompile(`\.\d+\.\d+(\.|$)`)
var c17PathRe = regexp.MustCompile(`^[a-z_][a-z0-9_]*(\.[a-z0-9_]+)*$`)
var c17CanonNumRe = regexp.MustCompile(`^(0|[1-9][0-9]*)(\.[0-9]*[1-9])?$`)

// prefixFull writes the expression in the form the whole-visitor model reads (legmigf); false when the expression is
// outside what that model covers (a reference that does not migrate to a dotted path, a number not written the way it
// renders, a text literal with characters the two quotings write differently)
func (e *lx) prefixFull(out *[]string) bool {
	switch e.kind {
	case "ref":
		m := expressions.MigrateContextReference(e.text, false)
		if !c17PathRe.MatchString(m) {
			return false
		}
		parts := strings.Split(m, ".")
		hs := make([]string, len(parts))
		for i, p := range parts {
			hs[i] = hx(p)
		}
		*out = append(*out, "path:"+strings.Join(hs, ":"))
	case "dec":
		if !c17CanonNumRe.MatchString(e.text) {
			return false
		}
		*out = append(*out, "num:"+hx(e.text))
	case "str":
		for _, ch := range e.text {
			if ch < 0x20 || ch > 0x7e || ch == '\\' {
				return false
			}
		}
		if strings.Contains(e.text, "NULL") {
			return false
		}
		*out = append(*out, "str:"+hx(e.text))
	case "bool":
		*out = append(*out, map[string]string{"true": "T", "false": "F"}[e.text])
	case "neg":
		*out = append(*out, "neg")
	case "paren":
		*out = append(*out, "par")
	case "bin":
		if e.text == "+" || e.text == "-" {
			lt, rt := c17InferType(e.kids[0]), c17InferType(e.kids[1])
			sign := map[string]string{"+": "p", "-": "m"}[e.text]
			switch {
			case lt == "number" && rt == "number":
				*out = append(*out, "bin:"+map[string]string{"+": "PLUS", "-": "MINUS"}[e.text])
			case lt == "datetime" && rt == "number":
				*out = append(*out, "ar:dtn:"+sign)
			case lt == "date" && rt == "number":
				*out = append(*out, "ar:dn1:"+sign)
			case lt == "datetime" && rt == "time":
				*out = append(*out, "ar:dtt:"+sign)
			case rt == "time":
				*out = append(*out, "ar:rt:"+sign)
			default:
				*out = append(*out, "ar:fb:"+sign)
			}
		} else {
			*out = append(*out, "bin:"+c17OpNames[e.text])
		}
	default:
		*out = append(*out, fmt.Sprintf("fn:%s:%d", hx(strings.ToLower(e.text)), len(e.kids)))
	}
	for i, k := range e.kids {
		// legacy() writes the parentheses the grammar needs; they are parenthesis nodes of the legacy parse
		min := 0
		switch e.kind {
		case "neg":
			min = 13
		case "bin":
			min = legacyPrec[e.text] + i
		}
		if k.level() < min {
			*out = append(*out, "par")
		}
		if !k.prefixFull(out) {
			return false
		}
	}
	return true
}

func c17Context() *types.XObject {
	num := func(s string) types.XValue { return types.RequireXNumberFromString(s) }
	txt := func(s string) types.XValue { return types.NewXText(s) }
	res := types.NewXObject(map[string]types.XValue{"__default__": num("4"), "value": num("4"), "category_localized": txt("Big"), "input": txt("four"), "created_on": types.NewXDateTime(time.Date(2020, 5, 4, 3, 2, 1, 0, time.UTC))})
	return types.NewXObject(map[string]types.XValue{
		"contact": types.NewXObject(map[string]types.XValue{"__default__": txt("Bob Smith"), "name": txt("Bob Smith"), "first_name": txt("Bob"), "language": txt("eng")}),
		"fields": types.NewXObject(map[string]types.XValue{"age": num("23"), "score": num("5"), "n": num("2"), "joined": types.NewXDateTime(time.Date(2019, 2, 3, 10, 30, 0, 0, time.UTC))}),
		"results":      types.NewXObject(map[string]types.XValue{"x": res}),
		"input":        types.NewXObject(map[string]types.XValue{"__default__": txt("3"), "text": txt("3")}),
		"legacy_extra": types.NewXObject(map[string]types.XValue{"k": num("7")}),
	})
}

var isoMidnightRe = regexp.MustCompile(`(?i)(\d{4}-\d{2}-\d{2})T00:00:00(\.0+)?(Z|\+00:00)`)

func c17Eval(env envs.Environment, ctx *types.XObject, tpl string) (string, bool) {
	var out string
	var err error
	ok := within(3*time.Second, func() { out, _, err = excellent.NewEvaluator().Template(env, ctx, tpl, nil) })
	if !ok {
		return "slow", false
	}
	if err != nil {
		return "error", true
	}
	// a date plus days is migrated to a date or to a datetime at midnight depending on what the migration can infer about
	// the operand; both name the same day
	return isoMidnightRe.ReplaceAllString(out, "$1"), true
}

func runC17(c *Ctx) {
	r := c.Rng
	env := envs.NewBuilder().Build()
	dates.SetNowFunc(dates.NewFixedNow(time.Date(2024, 5, 1, 12, 30, 45, 0, time.UTC)))
	defer dates.SetNowFunc(time.Now)
	ctx := c17Context()
	learned := map[string]string{}
	learn := func(fn string, args []string) (string, bool) {
		key := fn + "(" + strings.Join(args, ",") + ")"
		if t, ok := learned[key]; ok {
			return t, t != ""
		}
		m, err := expressions.MigrateTemplate("@("+strings.ToUpper(fn)+"("+strings.Join(args, ", ")+"))", nil)
		if err != nil || !strings.HasPrefix(m, "@(") {
			learned[key] = ""
			return "", false
		}
		learned[key] = m[2 : len(m)-1]
		return learned[key], true
	}
	fails := func(e *lx) (bool, string, string, string, string) {
		legacy := "@(" + e.legacy() + ")"
		migrated, merr := expressions.MigrateTemplate(legacy, nil)
		if merr != nil {
			return false, legacy, migrated, "", "not-migrated"
		}
		in, ok := e.intended(learn)
		if !ok {
			return false, legacy, migrated, "", "no-oracle"
		}
		want, ok1 := c17Eval(env, ctx, "@("+in+")")
		got, ok2 := c17Eval(env, ctx, migrated)
		if !ok1 || !ok2 {
			return false, legacy, migrated, in, "slow"
		}
		if want != got {
			return true, legacy, migrated, in, fmt.Sprintf("%q vs %q", got, want)
		}
		return false, legacy, migrated, in, "same"
	}
	// ---- M-golden: what a few legacy templates denote, from the legacy documentation rather than from the implementation ----
	{
		golden := [][2]string{
			{`@(WORD("bee cat dog", 2))`, "cat"}, {`@(WORD("bee cat dog", -1))`, "dog"}, {`@(WORD("bee cat dog", -2))`, "cat"}, {`@(WORD("bee cat dog", 1))`, "bee"},
			{`@(FIELD("a,b,c", 2, ","))`, "b"}, {`@(FIELD("a,b,c", 1, ","))`, "a"}, {`@(LEFT("abcdef", 2))`, "ab"}, {`@(RIGHT("abcdef", 2))`, "ef"}, {`@(RIGHT("abcdefghijkl", 2 ^ 2))`, "ijkl"},
			{`@(WORD_SLICE("bee cat dog", 2))`, "cat dog"}, {`@(WORD_SLICE("bee cat dog", 1, 3))`, "bee cat"}, {`@(WORD_COUNT("bee cat dog"))`, "3"}, {`@(FIRST_WORD("bee cat"))`, "bee"},
			{`@(SUM(1, 2) * 3)`, "9"}, {`@(POWER(1 + 1, 3))`, "8"}, {`@(SUM(DAY(DATE(2020, 3, 15)), 1) + 1)`, "17"}, {`@(DAY(DATE(2020, 3, 15)) + 1)`, "16"}, {`@(MONTH(DATE(2020, 3, 15)) * 2)`, "6"},
			{`@(LEN("hello"))`, "5"}, {`@(UPPER("a") & LOWER("B"))`, "Ab"}, {`@(CONCATENATE("a", "b") = "ab")`, "TRUE"}, {`@(ABS(-3) + 1)`, "4"}, {`@(MAX(1, 5) - MIN(2, 3))`, "3"},
			{`@(REPT("ab", 2))`, "abab"}, {`@(SUBSTITUTE("hello", "l", "L"))`, "heLLo"}, {`@(PROPER("hello world"))`, "Hello World"}, {`@(IF(1 > 2, "a", "b"))`, "b"},
			{`@(1 + 2 * 3)`, "7"}, {`@(-2 ^ 2)`, "4"}, {`@((1 + 2) & "x")`, "3x"}, {`@(10 / 4)`, "2.5"},
		}
		for _, gc := range golden {
			m, err := expressions.MigrateTemplate(gc[0], nil)
			c.Count("check:M-golden")
			desc := map[string]any{"legacy": gc[0], "migrated": m, "denotes": gc[1]}
			if err != nil {
				desc["error"] = err.Error()
				c.Fail("monitor", "M-golden", "golden-not-migrated", "a documented legacy template does not migrate", desc)
				continue
			}
			got, ok := c17Eval(env, ctx, m)
			c.Eval("golden|" + gc[0])
			if ok && !strings.EqualFold(got, gc[1]) {
				desc["value"] = got
				c.Fail("monitor", "M-golden", "golden-meaning-changed:"+strings.ToLower(strings.TrimFunc(strings.SplitN(gc[0], "(", 3)[1], func(r rune) bool { return r == '@' || r == '-' })), "a legacy template migrates to something that does not evaluate to what the legacy documentation says it denotes", desc)
			}
		}
	}
	// ---- M-text: the text around an expression is unchanged, whatever it starts with -------------------------------------
	{
		exprs := []string{"contact.gender", "flow.x", "contact", "contact.name", "step.value", "SUM(1, 2)", "contact.age + 1", "\"x\"", "flow.x.category", "date.now"}
		afters := []string{"s there", "_x", "1", ".b", ". Hi", " x", "", ".", "é", "٣", "(", "@", "..", ".-", "-", "'s", ".5"}
		for _, ex := range exprs {
			for _, after := range afters {
				for _, before := range []string{"", "a", "Hi "} {
					legacy := before + "@(" + ex + ")" + after
					m, err := expressions.MigrateTemplate(legacy, nil)
					c.Count("check:M-text")
					if err != nil {
						continue
					}
					// the migrated template must consist of the same text before, one expression, and the same text after: read it
					// back with the new scanner
					var bodies []string
					nexpr := 0
					excellent.VisitTemplate(m, nil, false, func(tt excellent.XTokenType, tok string) error {
						if tt == excellent.BODY {
							bodies = append(bodies, tok)
						} else {
							nexpr++
							bodies = append(bodies, "\x00")
						}
						return nil
					})
					got := strings.Join(bodies, "")
					want := before + "\x00" + after
					c.Eval("text|" + ex + "|" + after)
					if nexpr != 1 || got != want {
						c.Fail("monitor", "M-text", "surrounding-text-changed", "the text around a migrated expression is not the text around the legacy expression (it was taken into the expression, or lost)",
							map[string]any{"legacy": legacy, "migrated": m, "read_back": strings.ReplaceAll(got, "\x00", "<expr>"), "expected": strings.ReplaceAll(want, "\x00", "<expr>")})
					}
				}
			}
		}
	}
	// ---- M-text, two expressions: what the migration remembers about the first (it lost its parentheses) must not reach
	// beyond the text that follows it - text, a second expression, and text that starts like a continuation of a reference
	{
		firsts := []string{"contact.gender", "flow.x", "contact", "SUM(1, 2)", "contact.age + 1", "\"x\"", "flow.x.category"}
		seconds := []string{"1 + 2", "UPPER(contact.name)", "contact.gender", "flow.x", "\"y\""}
		mids := []string{" is ", ", ", ": ", " ", "", " and then ", "."}
		afters := []string{"px wide", "_x", "1", ".b", ". Hi", " x", "", ".", "(", ".5", "s"}
		for _, e1 := range firsts {
			for _, mid := range mids {
				for _, e2 := range seconds {
					for _, after := range afters {
						legacy := "@(" + e1 + ")" + mid + "@(" + e2 + ")" + after
						m, err := expressions.MigrateTemplate(legacy, nil)
						c.Count("check:M-text-two")
						if err != nil {
							continue
						}
						var bodies []string
						nexpr := 0
						excellent.VisitTemplate(m, nil, false, func(tt excellent.XTokenType, tok string) error {
							if tt == excellent.BODY {
								bodies = append(bodies, tok)
							} else {
								nexpr++
								bodies = append(bodies, "\x00")
							}
							return nil
						})
						got := strings.Join(bodies, "")
						want := "\x00" + mid + "\x00" + after
						c.Eval("text2|" + e1 + "|" + mid + "|" + e2 + "|" + after)
						if nexpr != 2 || got != want {
							c.Fail("monitor", "M-text", "surrounding-text-changed", "the text around two migrated expressions is not the text around the legacy expressions (text or an expression was taken into another expression, or lost)",
								map[string]any{"legacy": legacy, "migrated": m, "read_back": strings.ReplaceAll(got, "\x00", "<expr>"), "expected": strings.ReplaceAll(want, "\x00", "<expr>")})
						}
					}
				}
			}
		}
	}
	g := &legacyGen{r: r}
	// K: the operator core against the model
	for i := 0; i < c.N(3000, 150000); i++ {
		e := g.core(r.Range(1, 5))
		legacy := "@(" + e.legacy() + ")"
		migrated, err := expressions.MigrateTemplate(legacy, nil)
		var form []string
		e.prefix(&form)
		exp := "err"
		if err == nil && strings.HasPrefix(migrated, "@(") {
			exp = "ok " + hx(migrated[2:len(migrated)-1])
		} else if err == nil && strings.HasPrefix(migrated, "@") {
			exp = "ok " + hx(migrated[1:])
		}
		c.Model("legmig", "legmig "+strings.Join(form, ","), exp, map[string]any{"legacy": legacy, "migrated": migrated})
	}
	// K: the mapping of context references against the model, rule by rule and at random
	{
		words := []string{"contact", "flow", "step", "parent", "child", "extra", "channel", "date", "uuid", "id", "name", "first_name", "created_on", "language", "groups", "tel_e164", "tel",
			"twitter", "twitterid", "mailto", "whatsapp", "ext", "display", "path", "scheme", "urn", "value", "category", "text", "time", "attachments", "0", "12", "007", "address", "now", "today",
			"tomorrow", "yesterday", "color", "age", "1abc", "a_b", "x", "results", "fields", "urns", "input", "webhook", "9"}
		var refs []string
		// every rule head with every continuation of up to two words, then random walks
		for _, a := range words {
			refs = append(refs, a)
			for _, b := range words {
				refs = append(refs, a+"."+b)
			}
		}
		for i := 0; i < c.N(6000, 200000); i++ {
			k := r.Range(1, 6)
			var parts []string
			for j := 0; j < k; j++ {
				parts = append(parts, Pick(r, words))
			}
			if r.Chance(40) {
				parts = append([]string{Pick(r, []string{"contact", "flow.contact", "step.parent.contact", "child.contact", "flow", "extra.flow", "step", "parent"})}, parts...)
			}
			refs = append(refs, strings.Join(parts, "."))
		}
		for i, ref := range refs {
			if ref[0] >= '0' && ref[0] <= '9' {
				continue // a reference starts with a letter
			}
			raw := i%3 == 0
			var got string
			desc := map[string]any{"reference": ref, "raw_dates": raw}
			if c.Guard("K-legref", "panic:migrate-reference", desc, func() { got = expressions.MigrateContextReference(ref, raw) }) {
				continue
			}
			if got == ref && c17TwoNumericRe.MatchString(ref) {
				// left as it is, and two numeric lookups in a row: the model prints the tree (with the space that keeps them from
				// reading as one decimal), the implementation returns the text it was given
				c.Count("legref-unchanged-numeric-pair")
				continue
			}
			c.Eval("legref|" + strings.SplitN(got, ".", 2)[0] + "|" + fmt.Sprint(strings.Count(ref, ".")))
			c.Model("legref", fmt.Sprintf("legref %s %s", map[bool]string{true: "1", false: "0"}[raw], hx(ref)), "ok "+hx(got), desc)
		}
	}
	// K: the whole visitor against the model (references, literals, every form of + and -, calls through the table)
	{
		covered, outside := 0, 0
		kn := c.N(4000, 200000)
		for i := 0; i < kn; i++ {
			var e *lx
			if i%5 == 0 {
				// a call of a function the table does not know, or a table function around generated parameters
				e = &lx{kind: "call", text: Pick(r, []string{"foo", "my_func", "regex_group", "percent", "rand"}), kids: []*lx{g.expr(r.Range(0, 2), '*')}}
			} else {
				e = g.expr(r.Range(1, 4), Pick(r, []byte{'*', 'n', 't', 'd'}))
			}
			var form []string
			// a template that is one text literal is written out as that text, not as an expression
			if e.kind == "str" || !e.prefixFull(&form) {
				outside++
				continue
			}
			covered++
			legacy := "@(" + e.legacy() + ")"
			migrated, err := expressions.MigrateTemplate(legacy, nil)
			exp := "err"
			body := ""
			if err == nil && strings.HasPrefix(migrated, "@(") && strings.HasSuffix(migrated, ")") {
				body = migrated[2 : len(migrated)-1]
			} else if err == nil && strings.HasPrefix(migrated, "@") {
				body = migrated[1:]
			}
			if body != "" {
				// the by_spaces migrator writes the keyword in capitals; the model prints keywords in lower case
				exp = "ok " + hx(strings.ReplaceAll(body, "NULL", "null"))
			}
			c.Eval("full|" + e.shape())
			c.Model("legmigf", "legmigf "+strings.Join(form, ","), exp, map[string]any{"legacy": legacy, "migrated": migrated})
		}
		c.Dist["legmigf-covered"] = covered
		c.Dist["legmigf-outside-model"] = outside
	}
	// date arithmetic in several steps first: the second step sees the migrated text of the first
	dec := func(t string) *lx { return &lx{kind: "dec", text: t} }
	call := func(f string, kids ...*lx) *lx { return &lx{kind: "call", text: f, kids: kids} }
	bin := func(op string, l, r2 *lx) *lx { return &lx{kind: "bin", text: op, kids: []*lx{l, r2}} }
	explicit := []*lx{
		bin("+", bin("+", call("now"), dec("5")), dec("3")), bin("+", bin("-", call("now"), dec("2")), dec("10")), bin("-", bin("+", call("now"), dec("1")), dec("1")),
		bin("+", bin("+", call("now"), dec("1")), call("time", dec("2"), dec("30"), dec("0"))), bin("+", bin("+", call("today"), dec("5")), dec("3")),
		bin("+", bin("+", call("date", dec("2020"), dec("3"), dec("15")), dec("1")), dec("2")), bin("+", call("edate", call("now"), dec("1")), dec("2")),
		bin("-", bin("-", call("today"), dec("1")), dec("1")), call("proper", bin("+", bin("+", call("now"), dec("5")), dec("3"))),
	}
	// operands that begin and end with a parenthesised group but have an operator between them, in every position that binds
	// more tightly than that operator
	{
		par := func(e *lx) *lx { return &lx{kind: "paren", kids: []*lx{e}} }
		neg := func(e *lx) *lx { return &lx{kind: "neg", kids: []*lx{e}} }
		ref := func(t string) *lx { return &lx{kind: "ref", text: t} }
		for _, op := range []string{"+", "*", "^", "&", "-", "/"} {
			shaped := func() *lx { return bin(op, par(bin("+", dec("1"), dec("2"))), par(bin("+", ref("contact.n"), dec("1")))) }
			explicit = append(explicit, call("power", dec("2"), shaped()), call("exp", shaped()), bin("*", call("sum", shaped(), dec("3")), dec("2")), neg(call("sum", par(dec("1")), par(dec("2")))),
				bin("-", dec("10"), shaped()), bin("-", ref("contact.age"), shaped()), call("right", &lx{kind: "str", text: "abcdefghijklmnop"}, shaped()), bin("^", dec("2"), shaped()), bin("*", dec("2"), shaped()),
				bin("*", call("concatenate", par(dec("1")), par(dec("2"))), dec("3")), call("word", &lx{kind: "str", text: "w1 w2 w3 w4 w5 w6 w7 w8 w9 w10 w11 w12 w13 w14"}, shaped()), neg(shaped()))
		}
	}
	// typed calls in date arithmetic whose string arguments contain a (legacy: doubled) quote - the type inference reads text
	{
		str := func(t string) *lx { return &lx{kind: "str", text: t} }
		explicit = append(explicit,
			bin("+", call("datevalue", call("substitute", str(`2020-03-15`), str(`"`), str(""))), dec("7")),
			bin("-", call("datevalue", call("substitute", str(`2020-03-15`), str(`"`), str(""))), dec("2")),
			bin("+", call("today"), call("timevalue", call("substitute", str(`10:30`), str(`"`), str("")))),
			bin("+", call("now"), call("timevalue", call("substitute", str(`10:30`), str(`a"b"c"`), str("")))),
			bin("+", call("datevalue", call("substitute", str(`2020-03-15"`), str(`"`), str(""))), dec("7")),
			bin("-", call("datevalue", call("substitute", str(`2020-03-15"`), str(`"`), str(""))), dec("2")),
			bin("+", call("today"), call("timevalue", call("substitute", str(`10:30"`), str(`"`), str("")))),
			bin("+", call("now"), call("timevalue", call("substitute", str(`"10:30`), str(`"`), str("")))),
			bin("-", call("date", dec("2020"), dec("3"), call("len", str(`ab"cd"ef`))), dec("1")),
			bin("+", call("abs", call("len", str(`a"b`))), dec("1")),
			bin("+", call("date", dec("2020"), dec("3"), call("len", str(`a)b"(c`))), dec("3")))
	}
	// literal positions in every written form (leading zeros, eight and nine, negative), over texts long enough to tell them apart
	{
		str := func(t string) *lx { return &lx{kind: "str", text: t} }
		words := "w1 w2 w3 w4 w5 w6 w7 w8 w9 w10 w11 w12 w13 w14"
		fields := "f1,f2,f3,f4,f5,f6,f7,f8,f9,f10,f11,f12,f13,f14"
		for _, lit := range []string{"1", "2", "7", "8", "9", "10", "12", "010", "0012", "007", "08", "09", "011", "0010"} {
			explicit = append(explicit, call("word", str(words), dec(lit)), call("field", str(fields), dec(lit), str(",")),
				call("word_slice", str(words), dec(lit)), call("word_slice", str(words), dec("2"), dec(lit)), call("word", str(words), dec(lit), &lx{kind: "bool", text: "true"}))
		}
		for _, lit := range []string{"1", "2", "10"} {
			explicit = append(explicit, call("word", str(words), &lx{kind: "neg", kids: []*lx{dec(lit)}}), call("field", str(fields), &lx{kind: "neg", kids: []*lx{dec(lit)}}, str(",")))
		}
	}
	// the explicit trees against the whole-visitor model too
	for _, e := range explicit {
		var form []string
		if e.kind == "str" || !e.prefixFull(&form) {
			continue
		}
		legacy := "@(" + e.legacy() + ")"
		migrated, err := expressions.MigrateTemplate(legacy, nil)
		exp := "err"
		if err == nil && strings.HasPrefix(migrated, "@(") && strings.HasSuffix(migrated, ")") {
			exp = "ok " + hx(strings.ReplaceAll(migrated[2:len(migrated)-1], "NULL", "null"))
		} else if err == nil && strings.HasPrefix(migrated, "@") && len(migrated) > 1 {
			exp = "ok " + hx(migrated[1:])
		}
		c.Model("legmigf", "legmigf "+strings.Join(form, ","), exp, map[string]any{"legacy": legacy, "migrated": migrated})
	}
	// M-rawdates: a reference migrates under each setting of RawDates to what that setting prescribes, whatever was migrated
	// before in the same process (a flow migrates date tests with raw dates and messages without)
	for round := 0; round < 2; round++ {
		for _, ref := range []string{"date.today", "date.tomorrow", "date.yesterday", "date.now", "date", "contact.name", "flow.x", "step.value"} {
			order := []bool{true, false}
			if round == 1 {
				order = []bool{false, true}
			}
			for _, raw := range order {
				for _, tpl := range []string{"@" + ref, "Today is @" + ref + " ok", "@(" + ref + ")"} {
					got, err := expressions.MigrateTemplate(tpl, &expressions.MigrateOptions{RawDates: raw})
					c.Count("check:M-rawdates")
					if err != nil {
						continue
					}
					want := expressions.MigrateContextReference(ref, raw)
					c.Eval(fmt.Sprintf("rawdates|%s|%v", ref, raw))
					if !strings.Contains(got, want) || (!raw && strings.HasPrefix(ref, "date.t") && !strings.Contains(got, "format_date(")) || (raw && strings.Contains(got, "format_date(")) {
						c.Fail("monitor", "M-rawdates", "reference-ignores-raw-dates", "a date reference is not migrated as the RawDates setting of this call prescribes",
							map[string]any{"template": tpl, "raw_dates": raw, "migrated": got, "reference_alone_migrates_to": want})
					}
				}
			}
		}
	}
	n := c.N(5000, 250000)
	for i := 0; i < n+len(explicit); i++ {
		var e *lx
		if i < len(explicit) {
			e = explicit[i]
		} else {
			e = g.expr(r.Range(1, 3), Pick(r, []byte{'n', 't', '*'}))
		}
		legacy := "@(" + e.legacy() + ")"
		desc := map[string]any{"legacy": legacy}
		var migrated string
		var merr error
		if c.Guard("M-meaning", "panic:migrate", desc, func() { migrated, merr = expressions.MigrateTemplate(legacy, nil) }) {
			continue
		}
		desc["migrated"] = migrated
		kinds := e.shape()
		for _, k := range e.kids {
			kinds += "," + k.shape()
		}
		if merr != nil {
			c.Eval("not-migrated|" + kinds)
			c.Count("C17-not-migrated")
			continue
		}
		// every expression in the result parses
		c.Count("check:M-parses")
		perr := excellent.VisitTemplate(migrated, nil, false, func(tt excellent.XTokenType, tok string) error {
			if tt == excellent.EXPRESSION || tt == excellent.IDENTIFIER {
				_, err := excellent.Parse(tok, nil)
				return err
			}
			return nil
		})
		if perr != nil {
			desc["error"] = perr.Error()
			c.Fail("monitor", "M-parses", "migrated-unparseable:"+e.shape(), "an expression in the migrated template does not parse", desc)
			continue
		}
		// a literal parameter and the same number computed denote the same: where the migration pre-computes something from a
		// literal (positions are decremented, counts negated) the result must agree with what it writes for a non-literal
		var calls []*lx
		var collect func(x *lx)
		collect = func(x *lx) {
			if x.kind == "call" {
				calls = append(calls, x)
			}
			for _, k := range x.kids {
				collect(k)
			}
		}
		collect(e)
		for _, ce := range calls {
			e2 := &lx{kind: ce.kind, text: ce.text}
			changed := false
			for _, k := range ce.kids {
				if k.kind == "dec" {
					e2.kids = append(e2.kids, &lx{kind: "paren", kids: []*lx{k}})
					changed = true
				} else {
					e2.kids = append(e2.kids, k)
				}
			}
			if !changed {
				continue
			}
			m1, err1 := expressions.MigrateTemplate("@("+ce.legacy()+")", nil)
			m2, err2 := expressions.MigrateTemplate("@("+e2.legacy()+")", nil)
			if err1 != nil || err2 != nil {
				continue
			}
			v1, ok1 := c17Eval(env, ctx, m1)
			v2, ok2 := c17Eval(env, ctx, m2)
			c.Count("check:M-literal-param")
			if ok1 && ok2 && v1 != v2 {
				c.Fail("monitor", "M-literal-param", "literal-parameter-differs:"+ce.text, "a literal parameter is migrated to something else than the same number in parentheses",
					map[string]any{"legacy": "@(" + ce.legacy() + ")", "migrated": m1, "legacy_parenthesised": "@(" + e2.legacy() + ")", "migrated_parenthesised": m2, "values": fmt.Sprintf("%q vs %q", v1, v2)})
			}
		}
		bad, _, _, in, why := fails(e)
		c.Count("check:M-meaning")
		c.Eval(fmt.Sprintf("%s|%v", kinds, bad))
		if why == "no-oracle" || why == "slow" {
			c.Count("C17-" + why)
			continue
		}
		if bad {
			// the smallest subtree that is migrated wrongly names the construct
			cur := e
			for {
				next := (*lx)(nil)
				for _, k := range cur.kids {
					if kb, _, _, _, _ := fails(k); kb {
						next = k
						break
					}
				}
				if next == nil {
					break
				}
				cur = next
			}
			sig := cur.shape()
			var ks []string
			for _, k := range cur.kids {
				inner := k
				for inner.kind == "paren" && false {
					inner = inner.kids[0]
				}
				ks = append(ks, inner.shape())
			}
			if len(ks) > 0 {
				sig += "(" + strings.Join(ks, ",") + ")"
			}
			if cur.kind == "bin" && (cur.text == "+" || cur.text == "-") && len(cur.kids) == 2 && cur.kids[0].kind == "call" &&
				(cur.kids[0].text == "day" || cur.kids[0].text == "month" || cur.kids[0].text == "year") {
				sig = "date-part-arithmetic"
			}
			if cur.kind == "str" {
				sig = "literal:" + map[bool]string{true: "backslash", false: "other"}[strings.Contains(cur.text, `\`)]
			}
			_, cl, cm, ci, cwhy := fails(cur)
			desc["smallest_failing_legacy"], desc["smallest_failing_migrated"], desc["smallest_failing_intended"], desc["values"] = cl, cm, ci, cwhy
			desc["intended"] = in
			c.Fail("monitor", "M-meaning", "meaning-changed:"+sig, "the migrated template evaluates to something else than the legacy template denoted", desc)
		}
		// surrounding text is unchanged
		if i%5 == 0 {
			pre, post := Pick(r, []string{"Hi ", "a@@b ", "(", "x="}), Pick(r, []string{"", ".", " bye", " @contact.name"})
			whole, err := expressions.MigrateTemplate(pre+legacy+post, nil)
			c.Count("check:M-surrounding-text")
			if err == nil && !(strings.HasPrefix(whole, pre) && strings.Contains(whole, migrated)) {
				c.Fail("monitor", "M-surrounding-text", "surrounding-text-changed", "text outside expressions is changed by the migration", map[string]any{"legacy": pre + legacy + post, "migrated": whole})
			}
		}
		if i < 3 {
			c.Sample(map[string]any{"legacy": legacy, "migrated": migrated, "intended": in})
		}
	}
}
