package main

import (
	"bytes"
	"encoding/json"
	"fmt"
	"math/big"
	"sort"
	"strings"
	"time"
	"unicode/utf8"

	"github.com/nyaruka/gocommon/dates"
	"github.com/nyaruka/goflow/envs"
	"github.com/nyaruka/goflow/excellent"
	"github.com/nyaruka/goflow/excellent/types"
	"github.com/shopspring/decimal"
)

func init() {
	register("C13", "decimals of every sign, scale (-20..+25) and magnitude (1-40 digits, trailing and leading zeros); instants with years 1-9999 incl. two- and three-digit years, "+
		"12 am/pm, end of month, leap days, in zones with whole, half- and quarter-hour offsets and DST, under all 3x4 date/time format environments and in ISO form; dates and times of day; "+
		"JSON documents (nesting, unicode escapes, big and exponent numbers, duplicate and case-variant keys); non-trivial = distinct (kind, format pair, value class, outcome)", runC13)
}

func genDecimal(r *Rng) decimal.Decimal {
	nd := Pick(r, []int{1, 1, 2, 3, 5, 9, 17, 30, 40})
	var b strings.Builder
	for i := 0; i < nd; i++ {
		b.WriteByte(byte('0' + r.Intn(10)))
	}
	if r.Chance(30) {
		b.WriteString(strings.Repeat("0", r.Intn(5)))
	}
	coeff, _ := new(big.Int).SetString(b.String(), 10)
	if r.Chance(40) {
		coeff.Neg(coeff)
	}
	exp := int32(r.Intn(46) - 20)
	if r.Chance(30) {
		exp = int32(-r.Intn(4))
	}
	return decimal.NewFromBigInt(coeff, exp)
}

func evalExpr(env envs.Environment, ctx *types.XObject, expr string) types.XValue {
	v, _ := excellent.NewEvaluator().Expression(env, ctx, expr)
	return v
}

var c13Zones = []string{"UTC", "America/Bogota", "Asia/Kolkata", "Asia/Kathmandu", "Australia/Lord_Howe", "Pacific/Auckland", "America/New_York", "Africa/Kigali", "Pacific/Kiritimati", "America/St_Johns"}

func genInstant(r *Rng, loc *time.Location) time.Time {
	year := Pick(r, []int{1, 5, 12, 99, 100, 476, 999, 1000, 1582, 1900, 1969, 1970, 1999, 2000, 2024, 2038, 2100, 9999})
	if r.Chance(40) {
		year = 1 + r.Intn(9999)
	}
	month := 1 + r.Intn(12)
	day := 1 + r.Intn(28)
	if r.Chance(25) {
		day = Pick(r, []int{29, 30, 31})
	}
	if r.Chance(10) {
		month, day = 2, 29
	}
	hour := Pick(r, []int{0, 1, 11, 12, 13, 23, r.Intn(24)})
	min := Pick(r, []int{0, 1, 30, 59, r.Intn(60)})
	sec := Pick(r, []int{0, 1, 59, r.Intn(60)})
	ns := Pick(r, []int{0, 0, 1, 999, 1000, 123456789, 999999999, r.Intn(1000000000)})
	return time.Date(year, time.Month(month), day, hour, min, sec, ns, loc) // normalises overflowing days
}

func runC13(c *Ctx) {
	r := c.Rng
	envDefault := envs.NewBuilder().Build()

	// ---- numbers ------------------------------------------------------------------------------
	n := c.N(8000, 400000)
	for i := 0; i < n; i++ {
		d := genDecimal(r)
		x := types.NewXNumber(d)
		desc := map[string]any{"coefficient": d.Coefficient().String(), "exponent": d.Exponent()}
		var rendered string
		var back *types.XNumber
		var xerr *types.XError
		if c.Guard("M-number", "panic:number", desc, func() {
			rendered = x.Render()
			back, xerr = types.ToXNumber(envDefault, types.NewXText(rendered))
		}) {
			continue
		}
		desc["rendered"] = rendered
		ok := xerr == nil && back.Native().Equal(d)
		cls := fmt.Sprintf("num|%d|%v|%v", len(d.Coefficient().String())/8, d.Exponent() < 0, d.Sign())
		c.Eval(cls + fmt.Sprint(ok))
		c.Count("check:M-number")
		if !ok {
			c.Fail("monitor", "M-number", "number-roundtrip", "a number rendered to text does not convert back to the same number", desc)
		}
		// '=' agrees with the canonical rendering: a numerically equal number of another scale renders the same and is '=' to it
		d2 := decimal.NewFromBigInt(new(big.Int).Mul(d.Coefficient(), big.NewInt(1000)), d.Exponent()-3)
		if r.Chance(50) {
			d2 = d.Add(decimal.New(1, d.Exponent()-int32(r.Intn(3))))
		}
		ctx := types.NewXObject(map[string]types.XValue{"a": x, "b": types.NewXNumber(d2)})
		eq := evalExpr(envDefault, ctx, "a = b")
		same := types.NewXNumber(d2).Render() == rendered
		eqb, isBool := eq.(*types.XBoolean)
		c.Count("check:M-eq-render")
		if !isBool || eqb.Native() != same || same != d.Equal(d2) {
			desc["other_coefficient"], desc["other_exponent"] = d2.Coefficient().String(), d2.Exponent()
			c.Fail("monitor", "M-eq-render", "eq-vs-rendering", fmt.Sprintf("the = operator (%v), equality of renderings (%v) and numeric equality (%v) disagree", eq, same, d.Equal(d2)), desc)
		}
		// K
		c.Model("numrender", fmt.Sprintf("numrender %s %d", d.Coefficient().String(), d.Exponent()), "ok "+hx(rendered), desc)
		for _, txt := range []string{rendered, "0" + rendered, rendered + "0", "-" + rendered, "." + strings.TrimLeft(rendered, "-0."), rendered + ".", " " + rendered} {
			exp := "err"
			if v, e := types.ToXNumber(envDefault, types.NewXText(txt)); e == nil {
				exp = fmt.Sprintf("ok %s %d", v.Native().Coefficient().String(), v.Native().Exponent())
			}
			c.Model("numparse", "numparse "+hx(txt), exp, txt)
		}
		if i < 2 {
			c.Sample(map[string]any{"kind": "number", "value": desc, "rendered": rendered})
		}
	}

	// ---- datetimes ----------------------------------------------------------------------------
	dfs := []envs.DateFormat{envs.DateFormatYearMonthDay, envs.DateFormatMonthDayYear, envs.DateFormatDayMonthYear}
	tfs := []envs.TimeFormat{envs.TimeFormatHourMinute, envs.TimeFormatHourMinuteAmPm, envs.TimeFormatHourMinuteSecond, envs.TimeFormatHourMinuteSecondAmPm}
	n = c.N(2500, 120000)
	for i := 0; i < n; i++ {
		loc, err := time.LoadLocation(Pick(r, c13Zones))
		if err != nil {
			continue
		}
		valueLoc := loc
		if r.Chance(40) {
			valueLoc, _ = time.LoadLocation(Pick(r, c13Zones))
		}
		t := genInstant(r, valueLoc)
		if t.Year() < 1 || t.Year() > 9999 {
			continue
		}
		// ISO 8601 offsets are whole minutes: local mean time offsets with seconds (before standard time) cannot be written
		if _, off := t.Zone(); off%60 != 0 {
			c.Count("C13-lmt-offset-skipped")
			continue
		}
		if _, off := t.In(loc).Zone(); off%60 != 0 {
			c.Count("C13-lmt-offset-skipped")
			continue
		}
		x := types.NewXDateTime(t)
		// ISO form: microsecond precision, any offset
		{
			env := envs.NewBuilder().WithTimezone(loc).Build()
			desc := map[string]any{"instant": t.Format(time.RFC3339Nano), "env_timezone": loc.String()}
			var iso string
			var back *types.XDateTime
			var xerr *types.XError
			if !c.Guard("M-iso", "panic:datetime", desc, func() {
				iso = x.Render()
				back, xerr = types.ToXDateTime(env, types.NewXText(iso))
			}) {
				desc["rendered"] = iso
				ok := xerr == nil && back.Native().Equal(t.Truncate(time.Microsecond))
				c.Eval(fmt.Sprintf("iso|%s|%d|%v", valueLoc, t.Year()/1000, ok))
				c.Count("check:M-iso")
				if !ok {
					c.Fail("monitor", "M-iso", "iso-roundtrip", "a datetime rendered in ISO form does not parse back to the same instant at microsecond precision", desc)
				}
				_, off := t.Zone()
				c.Model("dtiso", fmt.Sprintf("dtiso %d %d %d %d %d %d %d %d", t.Year(), int(t.Month()), t.Day(), t.Hour(), t.Minute(), t.Second(), t.Nanosecond(), off/60), "ok "+hx(iso), desc)
				modelParse(c, r, Pick(r, dfs), iso)
				if r.Chance(50) {
					modelParse(c, r, Pick(r, dfs), damageDateText(r, iso))
				}
			}
		}
		for _, df := range dfs {
			for _, tf := range tfs {
				env := envs.NewBuilder().WithTimezone(loc).WithDateFormat(df).WithTimeFormat(tf).Build()
				desc := map[string]any{"instant": t.Format(time.RFC3339Nano), "env_timezone": loc.String(), "date_format": string(df), "time_format": string(tf)}
				var s, s2 string
				var back, filled *types.XDateTime
				var xerr, ferr *types.XError
				if c.Guard("M-datetime", "panic:datetime", desc, func() {
					s = x.Format(env)
					back, xerr = types.ToXDateTime(env, types.NewXText(s))
					if xerr == nil {
						s2 = back.Format(env)
					}
					// the way contact fields and the date tests read it: a missing time of day is filled in with the current one,
					// a time that is written (midnight included) is not
					filled, ferr = types.ToXDateTimeWithTimeFill(env, types.NewXText(s))
				}) {
					continue
				}
				desc["rendered"] = s
				c.Count("check:M-datetime-timefill")
				if xerr == nil && (ferr != nil || !filled.Native().Equal(back.Native())) {
					desc["read_with_time_fill"] = fmt.Sprint(filled)
					c.Fail("monitor", "M-datetime", "datetime-timefill-differs", "a rendered datetime read with time fill is not the datetime it was rendered from (its own time of day was replaced)", desc)
					delete(desc, "read_with_time_fill")
				}
				prec := time.Minute
				if strings.Contains(string(tf), "ss") {
					prec = time.Second
				}
				local := t.In(loc)
				want := time.Date(local.Year(), local.Month(), local.Day(), local.Hour(), local.Minute(), 0, 0, loc)
				if prec == time.Second {
					want = want.Add(time.Duration(local.Second()) * time.Second)
				}
				// an ambiguous local time (DST fall back) cannot name its instant: the rendering must still be a fixed point
				ambiguous := want.Format("2006-01-02 15:04:05") != local.Truncate(prec).Format("2006-01-02 15:04:05") || !want.Equal(t.Truncate(prec)) && want.Format("15:04") == local.Format("15:04")
				ok := xerr == nil && s2 == s && (back.Native().Equal(t.Truncate(prec)) || ambiguous)
				c.Eval(fmt.Sprintf("dt|%s|%s|%d|%v|%v", df, tf, len(fmt.Sprint(t.Year())), local.Hour() >= 12, ok))
				c.Count("check:M-datetime")
				if !ok {
					sig := "datetime-roundtrip"
					if local.Year() < 1000 && df != envs.DateFormatYearMonthDay {
						sig = "datetime-roundtrip:year-below-1000"
					}
					got := "error"
					if xerr == nil {
						got = back.Native().Format(time.RFC3339Nano)
					}
					desc["parsed_back"], desc["rendered_again"] = got, s2
					c.Fail("monitor", "M-datetime", sig, "a datetime rendered in the environment's format does not parse back to the same value at the rendered precision", desc)
				}
				// K: formatting, and parsing of the formatted and of damaged texts, function against model
				if df == envs.DateFormatDayMonthYear || r.Chance(30) {
					fields := fmt.Sprintf("%d %d %d %d %d %d", local.Year(), int(local.Month()), local.Day(), local.Hour(), local.Minute(), local.Second())
					c.Model("dtfmt", fmt.Sprintf("dtfmt %s %s %s", dfCode(df), tfCode(tf), fields), "ok "+hx(s), desc)
					modelParse(c, r, df, s)
					if r.Chance(50) {
						modelParse(c, r, df, damageDateText(r, s))
					}
				}
			}
		}
		// date-only and time-only
		{
			df := Pick(r, dfs)
			env := envs.NewBuilder().WithTimezone(loc).WithDateFormat(df).Build()
			d := types.NewXDate(dates.ExtractDate(t))
			desc := map[string]any{"date": d.Render(), "date_format": string(df)}
			for _, form := range []string{d.Render(), d.Format(env)} {
				back, xerr := types.ToXDate(env, types.NewXText(form))
				ok := xerr == nil && back.Native().Equal(d.Native())
				c.Eval(fmt.Sprintf("date|%s|%d|%v", df, len(fmt.Sprint(t.Year())), ok))
				c.Count("check:M-date")
				if !ok {
					sig := "date-roundtrip"
					if t.Year() < 1000 && df != envs.DateFormatYearMonthDay && form != d.Render() {
						sig = "datetime-roundtrip:year-below-1000"
					}
					desc["rendered"] = form
					c.Fail("monitor", "M-date", sig, "a date rendered to text does not parse back to the same date", desc)
				}
			}
			tod := types.NewXTime(dates.ExtractTimeOfDay(t.Truncate(time.Microsecond)))
			for _, form := range []string{tod.Render()} {
				back, xerr := types.ToXTime(env, types.NewXText(form))
				ok := xerr == nil && back.Native().Equal(tod.Native())
				c.Eval(fmt.Sprintf("time|%v|%v", t.Hour() >= 12, ok))
				c.Count("check:M-time")
				if !ok {
					c.Fail("monitor", "M-time", "time-roundtrip", "a time of day rendered to text does not parse back to the same time", map[string]any{"time": form})
				}
			}
		}
		if i < 2 {
			c.Sample(map[string]any{"kind": "datetime", "instant": t.Format(time.RFC3339Nano), "env_timezone": loc.String(), "iso": x.Render()})
		}
	}

	// ---- JSON strings: the literal written for a text, and the value read from a literal, against the model ----------
	{
		alphabet := []rune{'a', 'Z', '0', ' ', '"', '\\', '/', '\n', '\r', '\t', '\b', '\f', 0x01, 0x1f, 0x7f, '<', '>', '&', '\'', 'é', 'ß', '中', 0x2028, 0x2029, 0x1F600, 0x10FFFF, 0xFFFD, 0xFEFF, 0x00A0, 'u', 'n'}
		pieces := []string{`\u00e9`, `\ud83d\ude00`, `\ud83d`, `\ude00`, `\ud83d\u0041`, `\/`, `\x41`, `\u12`, `\uD83D\uDE00`, `\u0000`, "\x01", `\"`, `\\`, `\b`, `\f`, `\n`, `\a`, `\u2028`, "é", "x", `\ud83d\ud83d\ude00`, `\udbff\udfff`}
		kn := c.N(3000, 120000)
		for i := 0; i < kn; i++ {
			var sb strings.Builder
			for k, m := 0, r.Range(0, 8); k < m; k++ {
				sb.WriteRune(Pick(r, alphabet))
			}
			text := sb.String()
			desc := map[string]any{"text": text}
			var written string
			okW := !c.Guard("K-jsonstr", "panic:json-string", desc, func() {
				t, e := types.ToXJSON(types.NewXText(text))
				if e == nil {
					written = t.Native()
				}
			})
			if okW {
				c.Model("jsonstr-enc", "jsonstr enc "+hx(text), "ok "+hx(written), desc)
			}
			// a literal: the written one, or one assembled from escapes of every kind (valid and not)
			lit := written
			if i%2 == 1 {
				var lb strings.Builder
				lb.WriteByte('"')
				for k, m := 0, r.Range(0, 5); k < m; k++ {
					lb.WriteString(Pick(r, pieces))
				}
				if !r.Chance(5) {
					lb.WriteByte('"')
				}
				lit = lb.String()
			}
			d2 := map[string]any{"literal": lit}
			exp := "err"
			if !c.Guard("K-jsonstr", "panic:json-string", d2, func() {
				v := types.JSONToXValue([]byte(lit))
				if t, ok := v.(*types.XText); ok {
					exp = "ok " + hx(t.Native())
				}
			}) {
				c.Eval(fmt.Sprintf("jsonstr|%v|%d", exp == "err", len(lit)/8))
				c.Model("jsonstr-dec", "jsonstr dec "+hx(lit), exp, d2)
			}
			// the same literal as the *name of a member*: read by the object reader (jsonparser.ObjectEach, with the standard
			// library as fallback since F-C13-d), it must be the text the model's reader gives for the literal
			d3 := map[string]any{"document": "{" + lit + ":1}"}
			exp3 := "err"
			if !c.Guard("K-jsonstr", "panic:json-member-name", d3, func() {
				if o, ok := types.JSONToXValue([]byte("{" + lit + ":1}")).(*types.XObject); ok {
					if ps := o.Properties(); len(ps) == 1 {
						exp3 = "ok " + hx(ps[0])
					} else if len(ps) == 0 {
						exp3 = "dropped"
					}
				}
			}) && !strings.Contains(lit, "__default__") {
				c.Model("jsonkey-dec", "jsonstr dec "+hx(lit), exp3, d3)
			}
		}
	}

	// ---- JSON -----------------------------------------------------------------------------------
	n = c.N(4000, 200000)
	for i := 0; i < n; i++ {
		doc := genJSONDoc(r, 3)
		desc := map[string]any{"document": doc}
		var out string
		var xerr *types.XError
		if c.Guard("M-json", "panic:json", desc, func() {
			v := types.JSONToXValue([]byte(doc))
			t, e := types.ToXJSON(v)
			xerr = e
			if e == nil {
				out = t.Native()
			}
		}) {
			continue
		}
		desc["written_back"] = out
		ok := xerr == nil && jsonEquivalent(doc, out)
		c.Eval(fmt.Sprintf("json|%s|%v", jsonClass(doc), ok))
		c.Count("check:M-json")
		if !ok {
			sig := "json-roundtrip"
			if strings.Contains(doc, "__default__") {
				sig = "json-roundtrip:default-key"
			} else if strings.Contains(doc, `\ud8`) || strings.Contains(doc, `\udc`) {
				sig = "json-roundtrip:lone-surrogate"
			}
			c.Fail("monitor", "M-json", sig, "a JSON document read with parse_json and written back with json() is not JSON-equivalent to the original", desc)
		}
		if i < 2 {
			c.Sample(map[string]any{"kind": "json", "document": doc, "written_back": out})
		}
		// K: the same document through the model, member by member (order, duplicates, how numbers are written)
		if in, ok1 := jsonTokens(doc, false); ok1 && len(in) < 400 {
			exp := "err"
			if xerr == nil {
				if o, ok2 := jsonTokens(out, true); ok2 {
					exp = "ok " + strings.Join(o, " ")
				} else {
					exp = "unreadable-output"
				}
			}
			c.Model("jsonrt", "jsonrt "+strings.Join(in, " "), exp, desc)
		}
	}
}

// a JSON document as prefix tokens, members in the order written and duplicates kept (see Driver/Json.lean); numbers as
// coefficient and exponent (asWritten=false) or as their text (asWritten=true)
func jsonTokens(doc string, asWritten bool) ([]string, bool) {
	dec := json.NewDecoder(strings.NewReader(doc))
	dec.UseNumber()
	var out []string
	var value func() bool
	value = func() bool {
		t, err := dec.Token()
		if err != nil {
			return false
		}
		switch x := t.(type) {
		case nil:
			out = append(out, "N")
		case bool:
			out = append(out, map[bool]string{true: "T", false: "F"}[x])
		case json.Number:
			if asWritten {
				out = append(out, "#"+string(x))
				return true
			}
			s := string(x)
			neg := strings.HasPrefix(s, "-")
			s = strings.TrimPrefix(s, "-")
			exp := 0
			if i := strings.IndexAny(s, "eE"); i >= 0 {
				if _, err := fmt.Sscanf(s[i+1:], "%d", &exp); err != nil {
					return false
				}
				s = s[:i]
			}
			if i := strings.IndexByte(s, '.'); i >= 0 {
				exp -= len(s) - i - 1
				s = s[:i] + s[i+1:]
			}
			out = append(out, fmt.Sprintf("#%s%s:%d", map[bool]string{true: "-", false: ""}[neg], s, exp))
		case string:
			out = append(out, "S"+hx(x))
		case json.Delim:
			at := len(out)
			out = append(out, "")
			n := 0
			if x == '[' {
				for dec.More() {
					if !value() {
						return false
					}
					n++
				}
				out[at] = fmt.Sprintf("[%d", n)
			} else if x == '{' {
				for dec.More() {
					k, err := dec.Token()
					ks, isStr := k.(string)
					if err != nil || !isStr {
						return false
					}
					out = append(out, "K"+hx(ks))
					if !value() {
						return false
					}
					n++
				}
				out[at] = fmt.Sprintf("{%d", n)
			} else {
				return false
			}
			if _, err := dec.Token(); err != nil { // the closing delimiter
				return false
			}
		default:
			return false
		}
		return true
	}
	if !value() {
		return nil, false
	}
	return out, true
}

// modelParse compares envs.DateTimeFromString in a UTC environment (no DST, so the parsed fields are the
// fields of the result) with the model's parseDateTime on the same text.
func modelParse(c *Ctx, r *Rng, df envs.DateFormat, text string) {
	if !utf8.ValidString(text) || text == "" {
		return
	}
	env := envs.NewBuilder().WithDateFormat(df).Build()
	exp := "err"
	var got time.Time
	var err error
	if c.Guard("K-dtparse", "panic:datetime-parse", map[string]any{"text": text, "date_format": string(df)}, func() {
		got, err = envs.DateTimeFromString(env, text, false)
	}) {
		return
	}
	if err == nil {
		_, off := got.Zone()
		if got.Location() == time.UTC && !looksISO(text) {
			exp = fmt.Sprintf("ok %d %d %d %d %d %d %d", got.Year(), int(got.Month()), got.Day(), got.Hour(), got.Minute(), got.Second(), got.Nanosecond())
		} else {
			exp = fmt.Sprintf("iso %d %d %d %d %d %d %d %d", got.Year(), int(got.Month()), got.Day(), got.Hour(), got.Minute(), got.Second(), got.Nanosecond(), off/60)
		}
	}
	c.Model("dtparse", fmt.Sprintf("dtparse %s %d %s", dfCode(df), dates.Now().Year(), hx(text)), exp, map[string]any{"text": text, "date_format": string(df)})
	// the time of day on its own
	texp := "err"
	if tod, err := envs.TimeFromString(text); err == nil {
		texp = fmt.Sprintf("ok %d %d %d %d", tod.Hour, tod.Minute, tod.Second, tod.Nanos)
	}
	c.Model("timeparse", "timeparse "+hx(text), texp, map[string]any{"text": text})
}

// looksISO: the text is accepted by one of the two full ISO layouts (the model reports those separately)
func looksISO(text string) bool {
	text = strings.Trim(text, " \n\r\t")
	for _, f := range []string{"2006-01-02T15:04:05Z07:00", "2006-01-02T15:04Z07:00"} {
		if _, err := time.Parse(f, text); err == nil {
			return true
		}
	}
	return false
}

// damageDateText applies a few small edits that keep the text date-like
func damageDateText(r *Rng, s string) string {
	rs := []rune(s)
	for k := 1 + r.Intn(3); k > 0 && len(rs) > 0; k-- {
		i := r.Intn(len(rs))
		switch r.Intn(8) {
		case 0:
			rs = append(rs[:i], rs[i+1:]...)
		case 1:
			rs[i] = rune('0' + r.Intn(10))
		case 2:
			rs[i] = Pick(r, []rune{'-', '.', '/', '\\', '_', ' ', ':', ',', 'T', 'Z', '+', 'a', 'p', 'M', 'x', 'é', '\n'})
		case 3:
			rs = append(rs[:i], append([]rune{rune('0' + r.Intn(10))}, rs[i:]...)...)
		case 4:
			rs = append(rs[:i], append([]rune(Pick(r, []string{" ", "  ", " at ", "pm", " AM", ".5", ":61", "24:00", "99", "x"})), rs[i:]...)...)
		case 5:
			rs = append([]rune(Pick(r, []string{" ", "on ", "12 ", "x", "1-2-3 "})), rs...)
		case 6:
			rs = rs[:i]
		case 7:
			rs = append(rs, []rune(Pick(r, []string{" ", "1", " pm", ".123456789012", "Z", "+05:30", "-24:60", "+25:00"}))...)
		}
	}
	return string(rs)
}

func dfCode(df envs.DateFormat) string {
	return map[envs.DateFormat]string{envs.DateFormatYearMonthDay: "ymd", envs.DateFormatMonthDayYear: "mdy", envs.DateFormatDayMonthYear: "dmy"}[df]
}

func tfCode(tf envs.TimeFormat) string {
	return map[envs.TimeFormat]string{envs.TimeFormatHourMinute: "hm", envs.TimeFormatHourMinuteAmPm: "hma", envs.TimeFormatHourMinuteSecond: "hms", envs.TimeFormatHourMinuteSecondAmPm: "hmsa"}[tf]
}

func genJSONDoc(r *Rng, depth int) string {
	scalar := func() string {
		switch r.Intn(9) {
		case 0:
			return "null"
		case 1:
			return Pick(r, []string{"true", "false"})
		case 2:
			if r.Chance(60) {
				// random numbers of every length: integers well beyond 64 bits, long fractions, exponents
				var b strings.Builder
				if r.Chance(30) {
					b.WriteByte('-')
				}
				nd := Pick(r, []int{1, 2, 5, 9, 15, 18, 19, 20, 20, 20, 21, 22, 25, 30, 40})
				b.WriteByte(byte('1' + r.Intn(9)))
				for k := 1; k < nd; k++ {
					b.WriteByte(byte('0' + r.Intn(10)))
				}
				if r.Chance(30) {
					b.WriteByte('.')
					for k := r.Range(1, 20); k > 0; k-- {
						b.WriteByte(byte('0' + r.Intn(10)))
					}
				}
				if r.Chance(15) {
					fmt.Fprintf(&b, "%s%d", Pick(r, []string{"e", "E", "e+", "e-"}), r.Intn(30))
				}
				return b.String()
			}
			return Pick(r, []string{"0", "-0", "1", "-12", "1.50", "0.000001", "1e5", "1E-7", "-2.5e+10", "123456789012345678901234567890", "1.0e400", "0.1e-30", "100", "1.000"})
		case 3:
			b, _ := json.Marshal(genString(r, 6))
			return string(b)
		case 4:
			return Pick(r, []string{`"é"`, `"😀"`, `"a\nb\t\"c\\"`, `"\u0000x"`, `"\/"`, `""`, `"__default__"`, `"\ud83d\ude00"`, `"\ud800"`, `"x\udc00y"`, `"e\u0301"`, `" "`})
		default:
			return fmt.Sprintf("%q", Pick(r, []string{"a", "Foo", "foo", "x y", "1", ""}))
		}
	}
	if depth == 0 || r.Chance(35) {
		return scalar()
	}
	if r.Bool() {
		k := r.Intn(4)
		var items []string
		for i := 0; i < k; i++ {
			items = append(items, genJSONDoc(r, depth-1))
		}
		return "[" + strings.Join(items, Pick(r, []string{",", ", ", " ,\n"})) + "]"
	}
	k := r.Intn(4)
	var items []string
	keys := []string{"a", "b", "foo", "Foo", "FOO", "a", "x y", "", "1", "é", "results"}
	if r.Chance(4) {
		keys = append(keys, "__default__")
	}
	for i := 0; i < k; i++ {
		key := fmt.Sprintf("%q", Pick(r, keys))
		if r.Chance(8) {
			// names written with escapes, unpaired surrogates among them (valid JSON: a reader replaces them)
			key = Pick(r, []string{`"\ud800x"`, `"k\udc00"`, `"\u00e9"`, `"a\nb"`, `"\ud83d\ude00"`, `"\ud800"`, `"\/"`})
		}
		items = append(items, fmt.Sprintf("%s:%s%s", key, Pick(r, []string{"", " "}), genJSONDoc(r, depth-1)))
	}
	return "{" + strings.Join(items, ",") + "}"
}

func jsonClass(doc string) string {
	var k []string
	for name, sub := range map[string]string{"obj": "{", "arr": "[", "exp": "e", "esc": `\`, "big": "1234567890123", "dupcase": "Foo"} {
		if strings.Contains(doc, sub) {
			k = append(k, name)
		}
	}
	sort.Strings(k)
	return strings.Join(k, "+")
}

// JSON equivalence: objects as last-wins maps (case-variant keys distinct), arrays in order, numbers numerically, strings by value
func jsonEquivalent(a, b string) bool {
	ca, ok1 := canonJSON(a)
	cb, ok2 := canonJSON(b)
	return ok1 && ok2 && ca == cb
}

func canonJSON(s string) (string, bool) {
	dec := json.NewDecoder(bytes.NewReader([]byte(s)))
	dec.UseNumber()
	var v any
	if err := dec.Decode(&v); err != nil {
		return "", false
	}
	var b strings.Builder
	var walk func(x any)
	walk = func(x any) {
		switch t := x.(type) {
		case nil:
			b.WriteString("null")
		case bool:
			fmt.Fprint(&b, t)
		case json.Number:
			d, err := decimal.NewFromString(string(t))
			if err != nil {
				b.WriteString("num:" + string(t))
			} else if d.IsZero() {
				b.WriteString("num:0")
			} else {
				// canonical: coefficient without trailing zeros and exponent
				c, e := new(big.Int).Set(d.Coefficient()), d.Exponent()
				ten := big.NewInt(10)
				for {
					q, m := new(big.Int).QuoRem(c, ten, new(big.Int))
					if m.Sign() != 0 {
						break
					}
					c, e = q, e+1
				}
				fmt.Fprintf(&b, "num:%se%d", c.String(), e)
			}
		case string:
			fmt.Fprintf(&b, "%q", t)
		case []any:
			b.WriteString("[")
			for _, e := range t {
				walk(e)
				b.WriteString(",")
			}
			b.WriteString("]")
		case map[string]any:
			keys := make([]string, 0, len(t))
			for k := range t {
				keys = append(keys, k)
			}
			sort.Strings(keys)
			b.WriteString("{")
			for _, k := range keys {
				fmt.Fprintf(&b, "%q:", k)
				walk(t[k])
				b.WriteString(",")
			}
			b.WriteString("}")
		}
	}
	walk(v)
	return b.String(), true
}
