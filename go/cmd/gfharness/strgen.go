package main

import (
	"strings"
	"unicode/utf8"
)

// biased alphabets for string-level properties (no NUL, valid UTF-8 only)

var alphaSyntax = []rune{'@', '(', ')', '"', '\\', '.', ' ', '_', '&', ',', '[', ']', '\'', '=', '-', '+'}
var alphaLetters = []rune{'a', 'b', 'z', 'A', 'Q', 'n', 't', 'u', 'x', '0', '1', '7', '9', 'e'}
var alphaNonASCII = []rune{'é', 'ß', '中', 'Ж', 'ñ', '\u0663', '\U0001F600', '\u2122', '\u20ac', '\u0301', '\u00a0', '\u2003', '\U0001F1E6', '\u202f', '\u01c5', '\ufeff', '\U00010348', '\ufffd', '\ufffd', '\ufffe', '\U0010ffff', '\ue000'}
var alphaControl = []rune{'\n', '\t', '\r', '\x01', '\x7f', '\x1b', '\x0b', '\x0c', '\x07', '\x08', '\u0085', '\u200b', '\u00ad'}

func genRune(r *Rng) rune {
	switch x := r.Intn(100); {
	case x < 40:
		return Pick(r, alphaSyntax)
	case x < 75:
		return Pick(r, alphaLetters)
	case x < 88:
		return Pick(r, alphaNonASCII)
	case x < 96:
		return Pick(r, alphaControl)
	default:
		// any scalar value except NUL, surrogates, and the two runes whose lower case is ASCII
		for {
			c := rune(1 + r.Intn(0x10FFFF))
			if c >= 0xD800 && c <= 0xDFFF || c == 0x130 || c == 0x212A {
				continue
			}
			return c
		}
	}
}

func genString(r *Rng, maxLen int) string {
	n := r.Intn(maxLen + 1)
	var b strings.Builder
	for i := 0; i < n; i++ {
		b.WriteRune(genRune(r))
	}
	s := b.String()
	if !utf8.ValidString(s) {
		panic("generator produced invalid UTF-8")
	}
	return s
}

// genStringBS biases towards trailing / repeated backslashes and quotes
func genStringBS(r *Rng, maxLen int) string {
	s := genString(r, maxLen)
	switch r.Intn(6) {
	case 0:
		s += "\\"
	case 1:
		s += "\\\\"
	case 2:
		s += "\""
	case 3:
		s += "\\\""
	}
	return s
}

func genPlain(r *Rng, maxLen int) string { // no '@'
	return strings.ReplaceAll(genString(r, maxLen), "@", "#")
}

func classifyString(s string) string {
	var k []string
	if s == "" {
		return "empty"
	}
	if strings.HasSuffix(s, "\\") {
		k = append(k, "trail-bs")
	}
	if strings.Contains(s, "\"") {
		k = append(k, "quote")
	}
	if strings.Contains(s, "\\") {
		k = append(k, "bs")
	}
	if strings.ContainsAny(s, "()") {
		k = append(k, "paren")
	}
	if strings.Contains(s, "@") {
		k = append(k, "at")
	}
	if len(s) != utf8.RuneCountInString(s) {
		k = append(k, "nonascii")
	}
	if strings.ContainsAny(s, "\n\r\t\x01\x7f") {
		k = append(k, "ctl")
	}
	if len(k) == 0 {
		return "plain"
	}
	return strings.Join(k, "+")
}
