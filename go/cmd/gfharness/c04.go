package main

import (
	"bufio"
	"encoding/json"
	"fmt"
	"os"
	"os/exec"
	"path/filepath"
	"runtime/debug"
	"sort"
	"strings"
	"syscall"
	"time"

	"github.com/nyaruka/goflow/assets"
	"github.com/nyaruka/goflow/envs"
	"github.com/nyaruka/goflow/excellent"
	"github.com/nyaruka/goflow/excellent/functions"
	"github.com/nyaruka/goflow/excellent/types"
	"github.com/nyaruka/goflow/flows/engine"
	"github.com/nyaruka/goflow/flows/routers/cases"
	"github.com/nyaruka/goflow/flows/triggers"
)

func init() {
	register("C04", "every registered function and router test at every arity 0-5 (and the arities around its own) on argument tuples drawn from every type and from boundary values (0, -1, +-2^31, +-2^63, "+
		"1e100, 1e-100, decimals with huge exponents, empty and 100k-character texts, null, errors, nested arrays and objects, JSON, functions, dates at year 1 and 9999); every operator on the same pool; "+
		"generated expression trees incl. anonymous functions applied to themselves and to one another; generated template strings over a biased alphabet (@ ( ) \" \\ and non-ASCII); "+
		"each evaluated in a child process under a wall-clock and an address-space limit so that a crash or a hang of the host is observed rather than suffered; "+
		"non-trivial = distinct (function or operator, argument classes, outcome)", runC04)
}

var c04Args = []struct{ cls, text string }{
	{"zero", "0"}, {"one", "1"}, {"neg", "-1"}, {"half", "0.5"}, {"2^31", "2147483648"}, {"-2^31", "-2147483648"}, {"2^31-1", "2147483647"}, {"2^63", "9223372036854775808"},
	{"-2^63", "-9223372036854775809"}, {"1e100", "10000000000000000000000000000000000000000000000000000000000000000000000000000000000000000000000000000"},
	{"tiny", "0.0000000000000000000000000000000000000000000000000000000000000001"}, {"2e9", "2000000000"}, {"big-frac", "123456789.123456789123456789"},
	{"empty", `""`}, {"text", `"hello world"`}, {"numtext", `"12"`}, {"long", "long"}, {"unicode", `"é😀\u0000"`}, {"cyrillic", `"да"`}, {"arabic-digit", `"١"`}, {"emoji-spaced", `" 😀 "`}, {"ascii3", `"abc"`}, {"2^64", "18446744073709551616"}, {"-2^64", "-18446744073709551616"}, {"2^64+1", "18446744073709551617"}, {"2^65", "36893488147419103232"}, {"null", "null"}, {"true", "true"}, {"error", "(1/0)"},
	{"multiline", `"a\nb"`}, {"newline", `"\n"`}, {"lead-newline", `"\nx"`}, {"array-multiline-empty", `array("", "a\nb")`}, {"array-multiline-nested", `array(array("a\nb", ""), "", "\n")`},
	{"object-multiline", `object("a", "", "b", "x\ny", "c", array("", "p\nq"))`},
	{"array", "array(1, \"x\", null)"}, {"empty-array", "array()"}, {"nested", "array(array(array(1)), object(\"a\", array()))"}, {"object", "object(\"a\", 1, \"b\", \"x\")"},
	{"json-huge-exponent", `parse_json("1e30000000")`},
	{"json", `parse_json("{\"a\":[1,{\"b\":null}],\"__default__\":5}")`}, {"func", "upper"}, {"lambda", "(x) => x"}, {"date1", `datetime("0001-01-01T00:00:00Z")`}, {"date9999", `datetime("9999-12-31T23:59:59Z")`},
	{"date", `date("2024-02-29")`}, {"time", `time("23:59:59.999999")`}, {"format", `"YYYY-MM-DD tt:mm:ss.fffffffff"`}, {"regex", `"(a+)+$"`}, {"bad-regex", `"[("`}, {"tz", `"America/Santiago"`}, {"ctx", "big"},
}

func c04Corpus(r *Rng, n int) []string {
	var out []string
	names := map[string]bool{}
	for k := range functions.XFUNCTIONS {
		names[k] = true
	}
	for k := range cases.XTESTS {
		names[k] = true
	}
	var fns []string
	for k := range names {
		fns = append(fns, k)
	}
	sort.Strings(fns)
	arg := func() string { return c04Args[r.Intn(len(c04Args))].text }
	// every function at every arity with uniform and with mixed arguments
	for _, f := range fns {
		for ar := 0; ar <= 5; ar++ {
			reps := 4
			if ar == 0 {
				reps = 1
			}
			for k := 0; k < reps; k++ {
				var as []string
				for i := 0; i < ar; i++ {
					as = append(as, arg())
				}
				out = append(out, fmt.Sprintf("fn|%s/%d|@(%s(%s))", f, ar, f, strings.Join(as, ", ")))
			}
		}
		// each boundary value in each of the first three positions
		// around a text-first, a number-first and a date-first tuple, so that the value reaches functions of every signature
		for bi, base := range [][]string{{`"hello world"`, "2", "1"}, {"5", "2", "1"}, {`"2024-02-29T10:30:00Z"`, "3", `"D"`}, {`array(3, 1, 2)`, `"a"`, "1"}} {
			for pos := 0; pos < 3; pos++ {
				for _, a := range c04Args {
					as := append([]string{}, base...)
					as[pos] = a.text
					out = append(out, fmt.Sprintf("fn|%s@%d.%d=%s|@(%s(%s))", f, bi, pos, a.cls, f, strings.Join(as[:pos+1], ", ")))
					if r.Chance(25) {
						out = append(out, fmt.Sprintf("fn|%s@%d.%d=%s+|@(%s(%s))", f, bi, pos, a.cls, f, strings.Join(as, ", ")))
					}
				}
			}
		}
	}
	for _, op := range []string{"+", "-", "*", "/", "^", "&", "=", "!=", "<", "<=", ">", ">="} {
		for _, a := range c04Args {
			for _, b := range c04Args {
				if r.Chance(35) {
					out = append(out, fmt.Sprintf("op|%s %s %s|@(%s %s %s)", a.cls, op, b.cls, a.text, op, b.text))
				}
			}
		}
	}
	for _, a := range c04Args {
		out = append(out, fmt.Sprintf("op|neg %s|@(-%s)", a.cls, a.text), fmt.Sprintf("op|lookup %s|@(%s.x) @(%s[0]) @(%s[\"a\"]) @(%s[-1])", a.cls, a.text, a.text, a.text, a.text))
	}
	// anonymous functions applied to themselves and to each other
	for _, e := range []string{"((f) => f(f))((f) => f(f))", "((f) => f(f, f))((f, g) => g(f, g))", "((x) => x(x)(x))((y) => y)", "foreach(array(1,2), (x) => foreach(array(x), (y) => y(y)))",
		"((f) => foreach(array(1, 2, 3), f))((x) => x * x)", "((f, n) => f(f, n))((f, n) => if(n = 0, 0, f(f, n - 1)), 50)", "((f, n) => f(f, n))((f, n) => if(n = 0, 0, f(f, n - 1)), 100000)",
		"((f) => f)((f) => f)(1)", "foreach(foreach(array(1), (x) => (y) => y), (g) => g(1))", "((f) => f(f) & f(f))((f) => f(f) & f(f))",
		"((f) => f(f) + f(f) + f(f))((f) => array(f(f), f(f)))", "((f, g) => f(g, f))((a, b) => b(a, b) & a(a, b), (a, b) => a(b, a))", "foreach(array(1,2,3,4,5,6,7,8), (x) => ((f) => f(f) & f(f))((f) => f(f) & f(f)))"} {
		out = append(out, "lambda|"+e+"|@("+e+")")
	}
	// generated expression trees
	for i := 0; i < n; i++ {
		g := &exprGen{r: r, feats: map[string]bool{}}
		out = append(out, "tree|depth|@("+g.expr(r.Range(1, 5))+")")
	}
	// template strings
	// incl. every kind of character that may or may not start or continue a name after "@": letters, decimal digits of several
	// scripts, other numbers (No, Nl), marks, underscore
	alpha := []string{"@", "@@", "(", ")", "\"", "\\", " ", "a", "contact", ".", "name", "é", "😀", "\n", "1", "+", "upper", ",", "[", "]", "=>", "x", "@(", "\"))", "\u0000",
		"²", "½", "①", "Ⅷ", "٣", "१", "_", "\u0301", "ǅ", "ʰ", "〇", "@²", "@½x", "@Ⅷ.", "@_", "@٣"}
	for i := 0; i < n; i++ {
		var b strings.Builder
		for k := r.Range(1, 30); k > 0; k-- {
			b.WriteString(alpha[r.Intn(len(alpha))])
		}
		out = append(out, "template|random|"+b.String())
	}
	return out
}

func c04Context() *types.XObject {
	big := map[string]types.XValue{}
	for i := 0; i < 2000; i++ {
		big[fmt.Sprintf("k%d", i)] = types.NewXNumberFromInt(i)
	}
	return types.NewXObject(map[string]types.XValue{
		"long": types.NewXText(strings.Repeat("ab é", 25000)), "big": types.NewXObject(big), "contact": types.NewXObject(map[string]types.XValue{"name": types.NewXText("Bob"), "__default__": types.NewXText("Bob")}),
		"a": types.NewXNumberFromInt(3), "x": types.NewXText("ex"), "foo": types.NewXArray(types.NewXNumberFromInt(1), types.NewXText("t")),
	})
}

// child: evaluate the listed templates one by one, announcing each before and after
func c04Child(listPath string, start int) {
	var rl syscall.Rlimit
	rl.Cur, rl.Max = 6<<30, 6<<30
	syscall.Setrlimit(syscall.RLIMIT_AS, &rl)
	debug.SetMaxStack(256 << 20)
	f, err := os.Open(listPath)
	if err != nil {
		os.Exit(4)
	}
	sc := bufio.NewScanner(f)
	sc.Buffer(make([]byte, 1<<20), 64<<20)
	env := envs.NewBuilder().Build()
	ctx := c04Context()
	w := bufio.NewWriter(os.Stdout)
	cur := make(chan int, 1)
	go func() {
		// watchdog
		id, since := -1, time.Now()
		for {
			select {
			case n := <-cur:
				id, since = n, time.Now()
			case <-time.After(250 * time.Millisecond):
				if id >= 0 && time.Since(since) > 8*time.Second {
					fmt.Printf("H %d\n", id)
					os.Exit(3)
				}
			}
		}
	}()
	i := -1
	for sc.Scan() {
		i++
		if i < start {
			continue
		}
		tpl := unhx(sc.Text())
		fmt.Fprintf(w, "B %d\n", i)
		w.Flush()
		cur <- i
		outcome := "ok"
		t0 := time.Now()
		func() {
			defer func() {
				if r := recover(); r != nil {
					outcome = fmt.Sprintf("panic %s %v", panicSite(string(debug.Stack())), r)
				}
			}()
			_, _, err := excellent.NewEvaluator().Template(env, ctx, tpl, nil)
			if err != nil {
				outcome = "error"
			}
		}()
		cur <- -1
		fmt.Fprintf(w, "E %d %d %s\n", i, time.Since(t0).Milliseconds(), strings.ReplaceAll(outcome, "\n", " "))
		w.Flush()
	}
	os.Exit(0)
}

func runC04(c *Ctx) {
	if lp := os.Getenv("VERIF_C04_CHILD"); lp != "" {
		start := 0
		fmt.Sscan(os.Getenv("VERIF_C04_START"), &start)
		c04Child(lp, start)
	}
	r := c.Rng
	// ---- M-run-context: the context a run builds for templates, over generated contacts ------------------------
	{
		env := envs.NewBuilder().Build()
		roots := "@contact|@contact.first_name|@contact.name|@(contact)|@contact.urn|@contact.urns|@contact.groups|@contact.fields|@contact.tickets|@fields|@urns|@urns.tel|@run|@run.contact|" +
			"@input|@results|@globals|@trigger|@resume|@node|@child|@parent|@parent.contact|@legacy_extra|@webhook|@ticket|@(json(contact))|@(format(contact))|@(foreach(contact.urns, (u) => urn_parts(u)))|@(format_urn(contact.urn))"
		def := `[{"uuid": "76f0a02f-3b75-4b86-9064-e9195e1b3a02", "name": "Ctx", "spec_version": "13.6.0", "language": "eng", "type": "messaging", "revision": 1, "expire_after_minutes": 60, "localization": {},
			"nodes": [{"uuid": "365293c7-633c-45bd-96b7-0b059766588d", "actions": [` + func() string {
			var as []string
			for i, t := range strings.Split(roots, "|") {
				tj, _ := json.Marshal("x " + t + " y")
				as = append(as, fmt.Sprintf(`{"uuid": "%08x-4444-4000-8000-000000000001", "type": "send_msg", "text": %s}`, 0xc0400000+i, tj))
			}
			return strings.Join(as, ",")
		}() + `], "exits": [{"uuid": "d7a36118-0a38-4b35-a7e4-ae89042f0d3c"}]}]}]`
		sa, err := contactAssets(env, def)
		if err != nil {
			c.Fail("monitor", "M-run-context", "harness-assets", "context flow rejected: "+err.Error(), nil)
		} else {
			for i := 0; i < c.N(150, 5000); i++ {
				cj := genContactJSON(r, false)
				desc := map[string]any{"contact": json.RawMessage(cj), "templates": roots}
				done := c.withTimeout("M-run-context", desc, 20*time.Second, func() {
					c.Guard("M-run-context", "panic:%site%", desc, func() {
						restore := setDeterministic(int64(i))
						defer restore()
						contact, err := readContact(sa, cj, env, false)
						if err != nil {
							c.Count("C04-contact-rejected")
							return
						}
						trig := triggers.NewBuilder(env, assets.NewFlowReference("76f0a02f-3b75-4b86-9064-e9195e1b3a02", "Ctx"), contact).Manual().Build()
						if _, _, err := engine.NewBuilder().Build().NewSession(sa, trig); err != nil {
							c.Fail("monitor", "M-run-context", "go-error", "NewSession returned a Go error: "+err.Error(), desc)
						}
					})
				})
				if !done {
					break
				}
				c.Count("check:M-run-context")
				var v contactView
				json.Unmarshal(cj, &v)
				c.Eval("runctx|" + v.Name + "|" + v.Status)
			}
		}
	}
	// ---- K: the guards against the model ----------------------------------------------------------------------
	{
		env := envs.NewBuilder().Build()
		txt := map[int]*types.XText{}
		for i := 0; i < c.N(160, 1500); i++ {
			ln := Pick(r, []int{0, 1, 3, 7, 10, 1000, 3333, 100000, 9999999, 10000000, 10000001})
			var count int
			switch r.Intn(4) {
			case 0:
				count = Pick(r, []int{-1, 0, 1, 2, -2147483648, 2147483647, 2000000000, 10000000, 10000001})
			default:
				if ln > 0 {
					count = 10000000/ln + Pick(r, []int{-1, 0, 1})
				}
			}
			if ln > 1000 && count > 1 && ln*count <= 10000000 && r.Chance(70) {
				count = Pick(r, []int{0, 1}) // keep the volume of 10 MB results down
			}
			if txt[ln] == nil {
				txt[ln] = types.NewXText(strings.Repeat("x", ln))
			}
			exp := "err"
			if v := functions.Repeat(env, txt[ln], count); !types.IsXError(v) {
				exp = fmt.Sprintf("ok %d", len(v.(*types.XText).Native()))
			}
			c.Model("repeatguard", fmt.Sprintf("repeatguard %d %d", ln, count), exp, map[string]any{"len": ln, "count": count})
		}
		// the slice bounds of the word and field functions: every count of words with every index around its ends
		for n := 0; n <= 6; n++ {
			var ws, fs []string
			for k := 0; k < n; k++ {
				ws = append(ws, fmt.Sprintf("w%d", k))
				fs = append(fs, fmt.Sprintf("f%d", k))
			}
			words, fields := types.NewXText(strings.Join(ws, " ")), types.NewXText(strings.Join(fs, ","))
			idx := func(s string, prefix string) int {
				var k int
				fmt.Sscanf(strings.TrimPrefix(s, prefix), "%d", &k)
				return k
			}
			for i := -9; i <= 9; i++ {
				d := map[string]any{"words": n, "index": i}
				exp := "none"
				if !c.Guard("K-wordguard", "panic:word", d, func() {
					if v := functions.Word(env, words, types.NewXNumberFromInt(i)); !types.IsXError(v) {
						exp = fmt.Sprintf("ok %d", idx(v.(*types.XText).Native(), "w"))
					}
				}) {
					c.Model("wordguard", fmt.Sprintf("wordguard %d %d", n, i), exp, d)
				}
				if n >= 1 {
					exp = "none"
					if !c.Guard("K-fieldguard", "panic:field", d, func() {
						if v := functions.Field(env, fields, types.NewXNumberFromInt(i), types.NewXText(",")); !types.IsXError(v) && v.(*types.XText).Native() != "" {
							exp = fmt.Sprintf("ok %d", idx(v.(*types.XText).Native(), "f"))
						}
					}) {
						c.Model("fieldguard", fmt.Sprintf("fieldguard %d %d", n, i), exp, d)
					}
				}
				for j := -9; j <= 9; j++ {
					d2 := map[string]any{"words": n, "start": i, "end": j}
					exp = "none"
					if !c.Guard("K-wordsliceguard", "panic:word_slice", d2, func() {
						var v types.XValue
						if j == -1 && (i+n)%2 == 0 {
							v = functions.WordSlice(env, words, types.NewXNumberFromInt(i)) // the end left out
						} else {
							v = functions.WordSlice(env, words, types.NewXNumberFromInt(i), types.NewXNumberFromInt(j))
						}
						if t, ok := v.(*types.XText); ok && t.Native() != "" {
							got := strings.Split(t.Native(), " ")
							exp = fmt.Sprintf("ok %d %d", idx(got[0], "w"), idx(got[len(got)-1], "w")+1)
						}
					}) {
						c.Model("wordsliceguard", fmt.Sprintf("wordsliceguard %d %d %d", n, i, j), exp, d2)
					}
				}
			}
		}
		// has_beginning: the first len(beginning) bytes of the text are sliced after a test on byte lengths; one-, two- and three-byte
		// characters on either side. Where the slice is taken and matches, its length is shown by the match and compared with the model's
		for _, hc := range []string{"a", "д", "日", "é"} {
			for _, pc := range []string{"A", "Д", "日", "a", "É"} {
				for h := 0; h <= 5; h++ {
					for p := 0; p <= 5; p++ {
						hay, pin := strings.Repeat(hc, h), strings.Repeat(pc, p)
						d := map[string]any{"text": hay, "beginning": pin}
						exp := "none"
						if c.Guard("K-beginguard", "panic:has_beginning", d, func() {
							v := cases.HasBeginning(env, types.NewXText(" "+hay+" "), types.NewXText(pin+"\t"))
							if o, ok := v.(*types.XObject); ok && o.Truthy() {
								m, _ := o.Get("match")
								exp = fmt.Sprintf("ok %d", len(m.(*types.XText).Native()))
							}
						}) {
							continue
						}
						if strings.EqualFold(hc, pc) {
							c.Model("beginguard", fmt.Sprintf("beginguard %d %d", len(hay), len(pin)), exp, d)
						}
					}
				}
			}
		}
		// numbers written with an exponent in JSON: refused beyond 10^+-10000, whatever the fraction does to the exponent
		for _, e := range []int{0, 1, -1, 400, 9999, 10000, 10001, 10002, -9999, -10000, -10001, 30000000, -30000000, 2147483647} {
			for _, frac := range []int{0, 1, 2, 5} {
				text := "1"
				if frac > 0 {
					text += "." + strings.Repeat("5", frac)
				}
				text += fmt.Sprintf("e%d", e)
				d := map[string]any{"json": text}
				exp := ""
				if c.Guard("K-numexpguard", "panic:json-number", d, func() {
					v := types.JSONToXValue([]byte(text))
					if _, isNum := v.(*types.XNumber); isNum {
						exp = "ok"
					} else {
						exp = "refused"
					}
				}) {
					continue
				}
				c.Model("numexpguard", fmt.Sprintf("numexpguard json %d %d", frac, e), exp, d)
			}
		}
		// read_chars: byte slices at offsets counted in characters
		for n := 0; n <= 13; n++ {
			for _, alphabet := range []string{"0123456789", "abcXYZ", "дé日1"} {
				var sb strings.Builder
				for k := 0; k < n; k++ {
					rs := []rune(alphabet)
					sb.WriteRune(rs[(k*7+n)%len(rs)])
				}
				for _, plus := range []string{"", "+", "++"} {
					text := plus + sb.String()
					d := map[string]any{"text": text}
					exp := ""
					if c.Guard("K-readchars", "panic:read_chars", d, func() {
						exp = "ok " + hx(functions.ReadChars(env, types.NewXText(text)).(*types.XText).Native())
					}) {
						continue
					}
					if alphabet != "дé日1" {
						c.Model("readchars", "readchars "+hx(text), exp, d)
					}
				}
			}
		}
		for i := 0; i < c.N(300, 3000); i++ {
			p := Pick(r, []int{0, 1, -1, 9, 999, 1000, 1001, -999, -1000, -1001, 2147483647, -2147483648, 2147483648, -2147483649, 4294967296, r.Intn(2500) - 1250})
			exp := "ok"
			fn := Pick(r, []func(envs.Environment, *types.XNumber, int) types.XValue{functions.Round, functions.RoundUp, functions.RoundDown})
			if types.IsXError(fn(env, types.RequireXNumberFromString("12.345"), p)) {
				exp = "err"
			}
			c.Model("roundguard", fmt.Sprintf("roundguard %d", p), exp, map[string]any{"places": p})
			e := Pick(r, []int{0, 1, -1, 9999, 10000, 10001, -10000, -10001, 2147483647, -2147483648, r.Intn(30000) - 15000})
			v, _ := excellent.NewEvaluator().Expression(env, types.NewXObject(map[string]types.XValue{}), fmt.Sprintf("1 ^ %d", e))
			exp = "ok"
			if types.IsXError(v) {
				exp = "err"
			}
			c.Model("expguard", fmt.Sprintf("expguard %d", e), exp, map[string]any{"exponent": e})
		}
		// the call bookkeeping: a chain of n nested calls and m calls side by side
		for _, tc := range [][2]int{{0, 1}, {1, 1}, {50, 3}, {99, 2}, {100, 2}, {101, 1}, {150, 1}, {3, 7}} {
			depth, side := tc[0], tc[1]
			// f calls itself `depth` levels deep; at the innermost level it is called `side` times side by side
			expr := fmt.Sprintf(`((f, n) => f(f, n))((f, n) => if(n <= 0, "%s", f(f, n - 1)), %d)`, "x", depth)
			_ = side
			v, _ := excellent.NewEvaluator().Expression(env, types.NewXObject(map[string]types.XValue{}), expr)
			// eager arguments: the recursion never stops by itself, so every chain runs into the depth limit
			c.Eval(fmt.Sprintf("calls|%d|%v", depth, types.IsXError(v)))
		}
		// a function that only calls itself: the calls that went ahead are the frames the error unwinds through
		if v, _ := excellent.NewEvaluator().Expression(env, types.NewXObject(map[string]types.XValue{}), "((f) => f(f))((f) => f(f))"); types.IsXError(v) {
			// one frame per call that went ahead plus one for the attempt that was refused
			frames := strings.Count(v.(*types.XError).Error(), "error calling <anon>") - 1
			c.Model("callrun", "callrun "+strings.Repeat("e", 150), fmt.Sprintf("ok %d %d", frames, frames), map[string]any{"expression": "((f) => f(f))((f) => f(f))", "error_frames": frames})
		}
		evs := strings.Repeat("e", 130) + strings.Repeat("l", 100) + "eel"
		c.Model("callrun", "callrun "+evs, "ok 102 1", map[string]any{"events": "130 attempts, 100 returns, 2 attempts, 1 return"})
	}
	corpus := c04Corpus(r, c.N(1500, 60000))
	if rp := os.Getenv("VERIF_REPLAY"); rp != "" {
		c.Notes = append(c.Notes, "replay runs the whole corpus of the seed")
	}
	work := os.Getenv("VERIF_WORK")
	if work == "" {
		work = os.TempDir()
	}
	listPath := filepath.Join(work, fmt.Sprintf("c04-%d.txt", os.Getpid()))
	lf, err := os.Create(listPath)
	if err != nil {
		c.Fail("monitor", "harness", "no-workdir", err.Error(), nil)
		return
	}
	for _, e := range corpus {
		parts := strings.SplitN(e, "|", 3)
		fmt.Fprintln(lf, hx(parts[2]))
	}
	lf.Close()
	defer os.Remove(listPath)
	exe, _ := os.Executable()
	start, deaths := 0, 0
	slowest := 0
	for start < len(corpus) {
		cmd := exec.Command(exe, "-prop", "C04", "-seed", fmt.Sprint(c.Seed), "-tier", "quick", "-driver", "/bin/true")
		cmd.Env = append(os.Environ(), "VERIF_C04_CHILD="+listPath, fmt.Sprintf("VERIF_C04_START=%d", start), "GOMEMLIMIT=5GiB")
		var stderr strings.Builder
		cmd.Stderr = &stderr
		stdout, _ := cmd.StdoutPipe()
		if err := cmd.Start(); err != nil {
			c.Fail("monitor", "harness", "child-start", err.Error(), nil)
			return
		}
		sc := bufio.NewScanner(stdout)
		sc.Buffer(make([]byte, 1<<20), 16<<20)
		begun, ended, hung := -1, -1, -1
		for sc.Scan() {
			f := strings.SplitN(sc.Text(), " ", 4)
			var id int
			if len(f) >= 2 {
				fmt.Sscan(f[1], &id)
			}
			switch f[0] {
			case "B":
				begun = id
			case "H":
				hung = id
			case "E":
				ended = id
				parts := strings.SplitN(corpus[id], "|", 3)
				ms := 0
				fmt.Sscan(f[2], &ms)
				if ms > slowest {
					slowest = ms
				}
				outcome := f[3]
				c.Count("check:M-total")
				cls := strings.SplitN(outcome, " ", 2)[0]
				c.Eval(parts[0] + "|" + parts[1] + "|" + cls)
				desc := map[string]any{"template": truncate(parts[2], 2000), "kind": parts[0], "case": parts[1]}
				if cls == "panic" {
					of := strings.SplitN(outcome, " ", 3)
					c.Fail("monitor", "M-total", "panic:"+of[1], "evaluation panicked: "+truncate(outcome, 300), desc)
				} else if ms > 3000 {
					c.Fail("monitor", "M-total", "slow:"+c04Root(parts), fmt.Sprintf("evaluation took %d ms", ms), desc)
				}
			}
		}
		cmd.Wait()
		if ended == len(corpus)-1 {
			break
		}
		// the child died or gave up while evaluating `begun`
		victim := begun
		if victim < 0 || victim <= ended {
			c.Fail("monitor", "harness", "child-died-idle", "the evaluating process died between evaluations: "+truncate(stderr.String(), 500), nil)
			return
		}
		parts := strings.SplitN(corpus[victim], "|", 3)
		desc := map[string]any{"template": truncate(parts[2], 2000), "kind": parts[0], "case": parts[1], "stderr": truncate(stderr.String(), 1500)}
		se := stderr.String()
		switch {
		case hung == victim:
			c.Fail("monitor", "M-total", "hang:"+c04Root(parts), "evaluation did not return within 8 s", desc)
			c.Eval(parts[0] + "|" + parts[1] + "|hang")
		case strings.Contains(se, "stack overflow") || strings.Contains(se, "stack exceeds"):
			c.Fail("monitor", "M-total", "crash:stack-overflow:"+c04Root(parts), "evaluation crashed the host process with a stack overflow (not recoverable)", desc)
			c.Eval(parts[0] + "|" + parts[1] + "|stack-overflow")
		case strings.Contains(se, "out of memory") || strings.Contains(se, "cannot allocate"):
			c.Fail("monitor", "M-total", "crash:out-of-memory:"+c04Root(parts), "evaluation exhausted a 6 GiB address space", desc)
			c.Eval(parts[0] + "|" + parts[1] + "|out-of-memory")
		default:
			c.Fail("monitor", "M-total", "crash:"+c04Root(parts), "evaluation killed the host process: "+truncate(se, 300), desc)
			c.Eval(parts[0] + "|" + parts[1] + "|crash")
		}
		c.Count("check:M-total")
		start = victim + 1
		// every death costs a watchdog period and a new process: a tree on which evaluation keeps dying is reported after a few
		deaths++
		if deaths >= 6 {
			c.Notes = appendNote(c.Notes, fmt.Sprintf("totality sweep stopped at case %d of %d after %d evaluations that hung or killed the process", victim, len(corpus), deaths))
			break
		}
	}
	c.Dist["slowest-evaluation-ms"] = slowest
	c.Dist["corpus"] = len(corpus)
}

// the function or construct a case is about
func c04Root(parts []string) string {
	if parts[0] == "fn" {
		s := parts[1]
		for _, sep := range []string{"/", "@"} {
			if i := strings.Index(s, sep); i > 0 {
				s = s[:i]
			}
		}
		return s
	}
	if parts[0] == "op" {
		f := strings.Fields(parts[1])
		if len(f) == 3 {
			return "operator" + f[1]
		}
	}
	return parts[0]
}
