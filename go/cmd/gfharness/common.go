package main

import (
	"runtime/debug"
	"bufio"
	"bytes"
	"encoding/hex"
	"encoding/json"
	"fmt"
	"os"
	"os/exec"
	"sort"
	"strings"
	"time"
)

// ---------------------------------------------------------------------------------------
// PRNG: SplitMix64; every random choice of a run derives from one state seeded by VERIF_SEED
// ---------------------------------------------------------------------------------------

type Rng struct{ s uint64 }

func NewRng(seed uint64) *Rng { return &Rng{s: seed*0x9E3779B97F4A7C15 + 0x1234567} }

func (r *Rng) U64() uint64 {
	r.s += 0x9E3779B97F4A7C15
	z := r.s
	z = (z ^ (z >> 30)) * 0xBF58476D1CE4E5B9
	z = (z ^ (z >> 27)) * 0x94D049BB133111EB
	return z ^ (z >> 31)
}
func (r *Rng) Intn(n int) int {
	if n <= 0 {
		return 0
	}
	return int(r.U64() % uint64(n))
}
func (r *Rng) Bool() bool         { return r.U64()&1 == 1 }
func (r *Rng) Chance(p int) bool  { return r.Intn(100) < p } // p percent
func (r *Rng) Fork() *Rng         { return NewRng(r.U64()) }
func (r *Rng) Range(a, b int) int { return a + r.Intn(b-a+1) }
func Pick[T any](r *Rng, xs []T) T { return xs[r.Intn(len(xs))] }

// ---------------------------------------------------------------------------------------
// line protocol helpers
// ---------------------------------------------------------------------------------------

func hx(s string) string {
	if s == "" {
		return "-"
	}
	return hex.EncodeToString([]byte(s))
}

func unhx(s string) string {
	if s == "-" {
		return ""
	}
	b, err := hex.DecodeString(s)
	if err != nil {
		return "<<bad hex " + s + ">>"
	}
	return string(b)
}

// ---------------------------------------------------------------------------------------
// result collection
// ---------------------------------------------------------------------------------------

type Violation struct {
	Kind      string `json:"kind"`      // "monitor" (property fails on the implementation) | "correspondence" | "crash"
	Check     string `json:"check"`     // which monitor / correspondence family
	Signature string `json:"signature"` // narrow signature used for known-findings matching
	What      string `json:"what"`
	Replay    any    `json:"replay"`
}

type ModelOp struct {
	Family string
	Op     string
	Expect string
	Input  any
}

type Ctx struct {
	Prop  string
	Seed  uint64
	Tier  string
	Rng   *Rng
	Start time.Time

	Evaluations int
	distinct    map[string]struct{}
	Dist        map[string]int
	Samples     []any
	Violations  []Violation
	Known       map[string]int
	Notes       []string
	Exhaustive  bool

	ops          []ModelOp
	ModelOpsRun  int
	Mismatches   int
	driver       string
	knownSigs    map[string]string // signature -> finding id (open findings of this property)
	maxViolation int
	perSig       map[string]int
}

func NewCtx(prop string, seed uint64, tier, driver, knownPath string) *Ctx {
	c := &Ctx{Prop: prop, Seed: seed, Tier: tier, Rng: NewRng(seed), Start: time.Now(),
		distinct: map[string]struct{}{}, Dist: map[string]int{}, Known: map[string]int{},
		driver: driver, knownSigs: map[string]string{}, maxViolation: 60}
	if f, err := os.Open(knownPath); err == nil {
		defer f.Close()
		sc := bufio.NewScanner(f)
		sc.Buffer(make([]byte, 1<<20), 1<<24)
		for sc.Scan() {
			line := strings.TrimSpace(sc.Text())
			if line == "" || strings.HasPrefix(line, "#") {
				continue
			}
			var e struct {
				Status    string `json:"status"`
				Property  string `json:"property"`
				ID        string `json:"id"`
				Signature string `json:"signature"`
			}
			if json.Unmarshal([]byte(line), &e) == nil && e.Status == "open" && e.Property == prop {
				c.knownSigs[e.Signature] = e.ID
			}
		}
	}
	return c
}

func (c *Ctx) Quick() bool { return c.Tier != "thorough" }

// N scales a case count by tier
func (c *Ctx) N(quick, thorough int) int {
	if c.Quick() {
		return quick
	}
	return thorough
}

func (c *Ctx) Count(key string) { c.Dist[key]++ }

// Eval records one evaluated case; key != "" marks it non-trivial with that canonical identity
func (c *Ctx) Eval(nontrivialKey string) {
	c.Evaluations++
	if nontrivialKey != "" {
		if len(c.distinct) < 2_000_000 {
			c.distinct[nontrivialKey] = struct{}{}
		}
	}
}

func (c *Ctx) Sample(v any) {
	if len(c.Samples) < 8 {
		c.Samples = append(c.Samples, v)
	}
}

// Fail records a failure of the property on the implementation (or of the correspondence).
// A failure whose signature is listed as an open known finding is counted there instead.
func (c *Ctx) Fail(kind, check, signature, what string, replay any) {
	if id, ok := c.knownSigs[signature]; ok && kind == "monitor" {
		c.Known[id+" "+signature]++
		return
	}
	c.Count("violation:" + check + ":" + signature)
	if c.perSig == nil {
		c.perSig = map[string]int{}
	}
	c.perSig[check+"|"+signature]++
	if c.perSig[check+"|"+signature] <= 3 && len(c.Violations) < c.maxViolation {
		c.Violations = append(c.Violations, Violation{kind, check, signature, what, replay})
	}
}

// Model queues one op for the Lean driver with the implementation's canonical output
func (c *Ctx) Model(family, op, expect string, input any) {
	c.ops = append(c.ops, ModelOp{family, op, expect, input})
	if len(c.ops) >= 20000 {
		c.Flush()
	}
}

// Flush runs the queued ops through gfdriver and diffs the two output streams
func (c *Ctx) Flush() {
	if len(c.ops) == 0 {
		return
	}
	ops := c.ops
	c.ops = nil
	var in bytes.Buffer
	for _, o := range ops {
		in.WriteString(o.Op)
		in.WriteByte('\n')
	}
	cmd := exec.Command(c.driver)
	cmd.Stdin = &in
	var out, errb bytes.Buffer
	cmd.Stdout = &out
	cmd.Stderr = &errb
	err := cmd.Run()
	lines := strings.Split(strings.TrimRight(out.String(), "\n"), "\n")
	if err != nil || len(lines) != len(ops) {
		c.Fail("correspondence", "driver", "driver-failed",
			fmt.Sprintf("gfdriver failed: err=%v lines=%d ops=%d stderr=%s", err, len(lines), len(ops), truncate(errb.String(), 500)), nil)
		return
	}
	for i, o := range ops {
		c.ModelOpsRun++
		c.Count("model-op:" + o.Family)
		if lines[i] == "skip" { // input outside the model's domain, stated by the model
			c.Count("model-skip:" + o.Family)
			continue
		}
		if lines[i] != o.Expect {
			c.Mismatches++
			c.Fail("correspondence", "K:"+o.Family, "K:"+o.Family,
				fmt.Sprintf("model and implementation differ on %s", o.Family),
				map[string]any{"op": o.Op, "impl": o.Expect, "model": lines[i], "input": o.Input})
		}
	}
}

func truncate(s string, n int) string {
	if len(s) <= n {
		return s
	}
	return s[:n] + "…"
}

type Result struct {
	Property     string         `json:"property"`
	Seed         uint64         `json:"seed"`
	Tier         string         `json:"tier"`
	Evaluations  int            `json:"evaluations"`
	Distinct     int            `json:"distinct_nontrivial"`
	Dist         map[string]int `json:"distribution"`
	Samples      []any          `json:"samples"`
	Violations   []Violation    `json:"violations"`
	Known        map[string]int `json:"known_findings"`
	ModelOps     int            `json:"model_ops"`
	Mismatches   int            `json:"mismatches"`
	Notes        []string       `json:"notes"`
	Rule         string         `json:"rule"`
	Exhaustive   bool           `json:"exhaustive"`
	WallS        float64        `json:"wall_s"`
}

func (c *Ctx) Finish(rule string, outPath string) {
	c.Flush()
	keys := make([]string, 0, len(c.Dist))
	for k := range c.Dist {
		keys = append(keys, k)
	}
	sort.Strings(keys)
	r := Result{c.Prop, c.Seed, c.Tier, c.Evaluations, len(c.distinct), c.Dist, c.Samples, c.Violations,
		c.Known, c.ModelOpsRun, c.Mismatches, c.Notes, rule, c.Exhaustive, time.Since(c.Start).Seconds()}
	if r.Violations == nil {
		r.Violations = []Violation{}
	}
	if r.Samples == nil {
		r.Samples = []any{}
	}
	b, _ := json.MarshalIndent(r, "", " ")
	if err := os.WriteFile(outPath, b, 0o644); err != nil {
		fmt.Fprintln(os.Stderr, "cannot write result:", err)
		os.Exit(3)
	}
}

// Guard runs f, converting a panic into a "crash" violation; returns true if it panicked
// the innermost function of the repository on the stack of a panic
func panicSite(stack string) string {
	lines := strings.Split(stack, "\n")
	after := false
	for _, l := range lines {
		if strings.HasPrefix(l, "panic(") {
			after = true
			continue
		}
		if after && strings.Contains(l, "nyaruka/goflow/") && !strings.HasPrefix(l, "\t") {
			f := l[strings.Index(l, "nyaruka/goflow/")+len("nyaruka/goflow/"):]
			if i := strings.LastIndex(f, "("); i > 0 {
				f = f[:i]
			}
			return f
		}
	}
	return "?"
}

func (c *Ctx) Guard(check, signature string, replay any, f func()) (panicked bool) {
	defer func() {
		if r := recover(); r != nil {
			panicked = true
			site := panicSite(string(debug.Stack()))
			c.Fail("monitor", check, strings.ReplaceAll(signature, "%site%", site), fmt.Sprintf("panic: %v (at %s)", r, site), replay)
		}
	}()
	f()
	return false
}
