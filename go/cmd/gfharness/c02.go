package main

import (
	"sort"
	"bytes"
	"encoding/json"
	"fmt"
	"strings"

	"github.com/nyaruka/goflow/assets"
	"github.com/nyaruka/goflow/flows"
	"github.com/nyaruka/goflow/flows/triggers"
	"github.com/nyaruka/gocommon/urns"
)

func init() {
	register("C02", "generated histories (engine generator with context-reading templates over @resume/@parent/@child/@input/@results/@run/@node, open_ticket, send_broadcast and "+
		"start_session under batch and non-batch triggers) executed twice: in memory, and with the session marshalled and read back at every subset of its waits "+
		"(all 2^k restart masks for k<=4 waits, 8 random masks beyond); events, segments, session JSON and error class compared byte for byte; non-trivial = distinct (history shape, mask, waits)", runC02)
}

type branchCall struct {
	class   string
	events  []string
	segs    []string
	session string
}

func marshalCall(call *engCall, s flows.Session) branchCall {
	bc := branchCall{class: call.Class}
	if call.Sprint != nil {
		for _, e := range call.Sprint.Events() {
			b, _ := json.Marshal(e)
			bc.events = append(bc.events, string(b))
		}
		for _, sg := range call.Sprint.Segments() {
			d := ""
			if sg.Destination() != nil {
				d = string(sg.Destination().UUID())
			}
			bc.segs = append(bc.segs, fmt.Sprintf("%s|%s|%s|%s|%s|%s", sg.Flow().UUID(), sg.Node().UUID(), sg.Exit().UUID(), sg.Operand(), d, sg.Time().Format("15:04:05.000000")))
		}
	}
	if s != nil {
		b, _ := json.Marshal(s)
		bc.session = string(b)
	}
	return bc
}

// runs one branch; mask bit k set = the host restarts (marshal + read) before resume k
func runBranch(c *Ctx, ec *engCase, batch bool, mask uint, onWait func(s flows.Session, k int)) ([]branchCall, bool) {
	er, err := newEngRun(ec)
	if err != nil {
		return nil, false
	}
	var out []branchCall
	ok := !c.Guard("C02-branch", "panic:branch", ec.describe(), func() {
		restore := setDeterministic(ec.Seed)
		defer restore()
		contact := er.newContact()
		f := ec.GA.Flows[ec.StartFlow]
		tb := triggers.NewBuilder(er.Env, assets.NewFlowReference(assets.FlowUUID(f.UUID), f.Name), contact)
		var trig flows.Trigger
		switch {
		case ec.Voice:
			// the call's URN as a host passes it: bare, or with the query and display parts a contact's URN carries
			callURN := []urns.URN{"tel:+12065550100", "tel:+12065550100?id=2345&priority=1000", "tel:+12065550100?channel=57f1078f-88aa-46f4-a59a-948a5739c03d#Ann"}[int(ec.Seed%3+3)%3]
			trig = tb.Manual().WithCall(assets.NewChannelReference("57f1078f-88aa-46f4-a59a-948a5739c03d", "Android"), callURN).Build()
		case ec.Trigger == "msg":
			trig = tb.Msg(er.msgIn("red")).Build()
		case batch:
			trig = tb.Manual().AsBatch().Build()
		default:
			trig = tb.Manual().Build()
		}
		s, sp, err := er.Eng.NewSession(er.SA, trig)
		call := &engCall{Call: "start", Sprint: sp, Err: err, Class: classOf(err)}
		er.Session = s
		out = append(out, marshalCall(call, s))
		if err != nil {
			return
		}
		for k, spec := range ec.Resumes {
			if er.Session.Status() != flows.SessionStatusWaiting {
				break
			}
			if onWait != nil {
				onWait(er.Session, k)
			}
			if mask&(1<<uint(k)) != 0 {
				b, err := json.Marshal(er.Session)
				if err != nil {
					c.Fail("monitor", "M-marshal", "marshal-error", "session cannot be marshalled: "+err.Error(), ec.describe())
					return
				}
				s2, err := er.Eng.ReadSession(er.SA, b, assets.PanicOnMissing)
				if err != nil {
					c.Fail("monitor", "M-read", "read-error", "a marshalled session cannot be read back: "+err.Error(), ec.describe())
					return
				}
				er.Session = s2
			}
			restoreK := setDeterministic(ec.Seed + int64(k) + 1)
			refresh := ""
			if k < len(ec.Refresh) {
				refresh = ec.Refresh[k]
			}
			sp, err := er.Session.Resume(er.makeResumeWith(spec, refresh))
			restoreK()
			call := &engCall{Call: resumeCallName(spec), Sprint: sp, Err: err, Class: classOf(err)}
			out = append(out, marshalCall(call, er.Session))
		}
		// the session as it is handed back at the end (waiting or not): the round trip is made of it as well (k = -1)
		if onWait != nil && er.Session != nil {
			onWait(er.Session, -1)
		}
	})
	return out, ok
}

func runC02(c *Ctx) {
	defer runC02Palette(c)
	r := c.Rng
	n := c.N(800, 40000)
	for i := 0; i < n; i++ {
		ec := genEngCase(r, false)
		enrichForContext(r, ec.GA)
		if len(ec.Resumes) > 6 {
			ec.Resumes = ec.Resumes[:6]
		}
		// what the host attaches to each resume: mostly nothing, sometimes a refreshed environment and/or contact
		ec.Refresh = nil
		for range ec.Resumes {
			ec.Refresh = append(ec.Refresh, Pick(r, []string{"", "", "", "env", "contact", "both"}))
		}
		batch := r.Chance(40)
		// reference branch: everything in memory; also the marshal -> read -> marshal round trip at every wait
		ref, ok := runBranch(c, ec, batch, 0, func(s flows.Session, k int) {
			b1, err := json.Marshal(s)
			if err != nil {
				return
			}
			er, _ := newEngRun(ec)
			s2, err := er.Eng.ReadSession(er.SA, b1, assets.PanicOnMissing)
			if err != nil {
				c.Fail("monitor", "M-roundtrip", "read-error", "a marshalled session cannot be read back: "+err.Error(), ec.describe())
				return
			}
			b2, _ := json.Marshal(s2)
			c.Count("check:M-roundtrip")
			// K: the model's restore . persist on the canonical session vs the re-read implementation session
			c.Model("persist", "prt "+canonicalise(s, ec.GA).enc(), "ok "+canonicalise(s2, ec.GA).enc(), ec.describe())
			if !bytes.Equal(b1, b2) {
				d := ec.describe()
				d["at_wait"], d["json1"], d["json2"] = k, truncate(string(b1), 3000), truncate(string(b2), 3000)
				c.Fail("monitor", "M-roundtrip", "marshal-read-marshal-differs", "marshalling a session, reading it back and marshalling again gives different JSON", d)
			}
			// what the host can ask of the session it has just read back: the same as of the one it kept
			show := func(x flows.Session) (out string) {
				defer func() {
					if r := recover(); r != nil {
						out = fmt.Sprintf("panic: %v", r)
					}
				}()
				cx := x.CurrentContext()
				if cx == nil {
					return "<no context>"
				}
				props := cx.Properties()
				sort.Strings(props)
				return strings.Join(props, ",")
			}
			c.Count("check:M-roundtrip-context")
			if live, restored := show(s), show(s2); live != restored {
				d := ec.describe()
				d["at_wait"], d["context_of_kept_session"], d["context_of_restored_session"] = k, truncate(live, 300), truncate(restored, 300)
				sig := "restored-context-differs"
				if strings.HasPrefix(restored, "panic:") {
					sig = "restored-context-panics"
				}
				c.Fail("monitor", "M-roundtrip", sig, "the current context of a session read back differs from that of the session kept in memory", d)
			}
		})
		if !ok || len(ref) == 0 {
			continue
		}
		waits := len(ref) - 1
		var masks []uint
		if waits <= 4 {
			for m := uint(1); m < 1<<uint(waits); m++ {
				masks = append(masks, m)
			}
		} else {
			for k := 0; k < 8; k++ {
				masks = append(masks, uint(1+r.Intn(1<<uint(waits)-1)))
			}
		}
		for _, mask := range masks {
			got, ok := runBranch(c, ec, batch, mask, nil)
			if !ok {
				continue
			}
			c.Eval(fmt.Sprintf("%d|%b|%d|%v", waits, mask, len(ref), batch))
			c.Count("check:M-two-branch")
			diff := compareBranches(ref, got)
			if diff != "" {
				d := ec.describe()
				d["batch"], d["restart_mask"], d["difference"] = batch, fmt.Sprintf("%b", mask), diff
				sig := "restart-changes-behaviour"
				if strings.Contains(diff, "webhook") || strings.Contains(diff, "legacy_extra") {
					sig = "restart-changes-behaviour:webhook-or-legacy-extra"
				}
				c.Fail("monitor", "M-two-branch", sig, "resuming after a restart differs from resuming in memory: "+truncate(diff, 400), d)
				break
			}
		}
		if i < 2 {
			c.Sample(map[string]any{"model_assets": ec.GA.ModelSpec(nil), "resumes": ec.Resumes, "batch": batch, "waits": waits, "masks": len(masks)})
		}
	}
}

// the same comparison over flows built from the repository's whole action palette, run on the test engine (all services
// present): the session stored and read back before every resume against the session kept in memory
func runC02Palette(c *Ctx) {
	r := c.Rng
	base, palette, err := loadActionPalette()
	if err != nil || len(palette) < 50 {
		c.Notes = appendNote(c.Notes, "palette stream skipped: action palette unavailable")
		return
	}
	c08SeenBefore, c08NoWebhookReads = true, true
	defer func() { c08SeenBefore, c08NoWebhookReads = false, false }()
	for i := 0; i < c.N(120, 4000); i++ {
		aj, fu, shape := c08Scenario(r, i, base, palette)
		// the transient @webhook and the deprecated @legacy_extra are allowed to differ after a restart: flows that read them are not compared
		skip := false
		for _, w := range []string{"@webhook", "webhook.", "(webhook", " webhook", ",webhook", "legacy_extra"} {
			if bytes.Contains(aj, []byte(w)) {
				skip = true
			}
		}
		if skip {
			c.Count("C02-palette-skipped-reads-webhook")
			continue
		}
		// a send_email whose subject or body evaluates to blanks, a ticket with a blank note: what is logged must read back
		if r.Chance(60) {
			aj = c02AddActions(aj, fu, []map[string]any{
				{"uuid": fmt.Sprintf("%08x-3333-4000-8000-%012x", 0xe0000000+i, i), "type": "send_email", "addresses": []string{"a@example.com"},
					"subject": Pick(r, []string{"@fields.nope @fields.nada", "  ", "@(\" \")", "Hi @contact.name"}), "body": Pick(r, []string{"Body", "@fields.nope @fields.nada", "x"})},
			})
		}
		var inputs []string
		for k := r.Range(1, 3); k > 0; k-- {
			inputs = append(inputs, Pick(r, []string{"red", "blue", "hmm", ""}))
		}
		desc := map[string]any{"assets": json.RawMessage(aj), "flow_uuid": fu, "inputs": inputs, "seed": i, "shape": shape}
		var live, stored c08Out
		var e1, e2 error
		if c.Guard("M-palette-restart", "panic:scenario", desc, func() {
			live, e1 = c08Execute(aj, fu, int64(i), inputs, false)
			stored, e2 = c08Execute(aj, fu, int64(i), inputs, true)
		}) {
			continue
		}
		if e1 != nil || e2 != nil {
			c.Count("C02-palette-assets-rejected")
			continue
		}
		c.Count("check:M-palette-restart")
		c.Eval("palette|" + shape + "|" + fmt.Sprint(len(live)))
		if digest(live) != digest(stored) {
			k, av, bv := firstDiff(live, stored)
			wa, wb := diffWindow(av, bv)
			d := map[string]any{"differs_at": k, "in_memory": wa, "stored_and_read_back": wb}
			for x, y := range desc {
				d[x] = y
			}
			sig := "palette-restart-differs:" + strings.TrimRight(k, "0123456789")
			if _, bad := stored["read-error"]; bad {
				sig = "stored-session-does-not-read-back"
				d["read_error"] = stored["read-error"]
			}
			c.Fail("monitor", "M-palette-restart", sig, "a session stored and read back between sprints behaves differently from the one kept in memory", d)
		}
	}
}

// appends actions to the first node of the flow
func c02AddActions(assetsJSON []byte, flowUUID string, actions []map[string]any) []byte {
	var all map[string]json.RawMessage
	if json.Unmarshal(assetsJSON, &all) != nil {
		return assetsJSON
	}
	var fl []map[string]any
	if json.Unmarshal(all["flows"], &fl) != nil {
		return assetsJSON
	}
	for _, f := range fl {
		if f["uuid"] == flowUUID {
			if nodes, ok := f["nodes"].([]any); ok && len(nodes) > 0 {
				if n0, ok := nodes[0].(map[string]any); ok {
					as, _ := n0["actions"].([]any)
					for _, a := range actions {
						as = append(as, a)
					}
					n0["actions"] = as
				}
			}
		}
	}
	fb, _ := json.Marshal(fl)
	all["flows"] = fb
	b, _ := json.Marshal(all)
	return b
}

func compareBranches(a, b []branchCall) string {
	if len(a) != len(b) {
		return fmt.Sprintf("number of calls %d vs %d", len(a), len(b))
	}
	for i := range a {
		if a[i].class != b[i].class {
			return fmt.Sprintf("call %d: outcome %s vs %s", i, a[i].class, b[i].class)
		}
		if strings.Join(a[i].events, "\n") != strings.Join(b[i].events, "\n") {
			for k := range a[i].events {
				if k >= len(b[i].events) || a[i].events[k] != b[i].events[k] {
					other := "<none>"
					if k < len(b[i].events) {
						other = b[i].events[k]
					}
					return fmt.Sprintf("call %d event %d: in memory %s | restarted %s", i, k, truncate(a[i].events[k], 300), truncate(other, 300))
				}
			}
			return fmt.Sprintf("call %d: %d vs %d events", i, len(a[i].events), len(b[i].events))
		}
		if strings.Join(a[i].segs, "\n") != strings.Join(b[i].segs, "\n") {
			return fmt.Sprintf("call %d: segments differ", i)
		}
		if a[i].session != b[i].session {
			return fmt.Sprintf("call %d: session JSON differs", i)
		}
	}
	return ""
}

// adds actions whose behaviour depends on run/session context and on transient state
func enrichForContext(r *Rng, ga *genAssets) {
	us := &uuidSeq{n: 700000 + r.Intn(1000)*100}
	texts := []string{"resume=@resume.type", "parent=@parent.uuid @parent.status", "child=@child.status @child.results", "in=@input.text @input.created_on",
		"res=@results", "run=@run.status @run.path", "node=@node.visit_count", "trig=@trigger.type", "c=@contact.name @contact.language @urns.tel",
		"env=@(format_datetime(\"2020-03-15T15:30:00Z\")) @(format_date(\"2020-03-15T15:30:00Z\")) @(datetime(\"01-02-2020 3:04\")) @(format_number(1234.5))",
		"created=@contact.created_on @(format_time(\"15:30\")) @(default(contact.tel, \"?\")) @(format_urn(urns.tel))"}
	for _, f := range ga.Flows {
		for _, n := range f.Nodes {
			if r.Chance(60) {
				n.Actions = append(n.Actions, map[string]any{"uuid": us.next(), "type": "send_msg", "text": Pick(r, texts)})
			}
			if r.Chance(15) {
				n.Actions = append(n.Actions, map[string]any{"uuid": us.next(), "type": "open_ticket", "body": "help @input.text", "result_name": "Ticket"})
			}
			if r.Chance(10) {
				n.Actions = append(n.Actions, map[string]any{"uuid": us.next(), "type": "send_broadcast", "text": "hi", "groups": []map[string]any{{"uuid": "b7cf0d83-f1c9-411c-96fd-c511a4cfa86d", "name": "Testers"}}})
			}
			if r.Chance(10) {
				n.Actions = append(n.Actions, map[string]any{"uuid": us.next(), "type": "start_session", "flow": map[string]any{"uuid": f.UUID, "name": f.Name},
					"groups": []map[string]any{{"uuid": "b7cf0d83-f1c9-411c-96fd-c511a4cfa86d", "name": "Testers"}}, "exclusions": map[string]any{}})
			}
		}
	}
}
