package main

import (
	"encoding/json"
	"fmt"
	"os"
	"strings"
)

func init() {
	register("C01", "generated assets (1-4 flows x 0-6 nodes, exits wired to none/self/any node, enter_flow to existing/missing/wrong-type flows, terminal or not, "+
		"switch/random routers, msg/msg+timeout/dial waits) x triggers (manual, msg) x histories of 0-8 resumes (msg, wait_timeout, run_expiration, dial; accepted and rejected) "+
		"x MaxStepsPerSprint in {1,2,3,5,100}; non-trivial = distinct (session status, run statuses, parents, path lengths) reached with at least two runs or one resume", runC01)
}

func genEngCase(r *Rng, adversarial bool) *engCase {
	voice := r.Chance(20)
	cfg := engGenCfg{MaxFlows: 4, MaxNodes: 6, Voice: voice, Adversarial: adversarial || r.Chance(30)}
	ga := genEngAssets(r, cfg)
	ec := &engCase{GA: ga, Voice: voice, Seed: int64(r.Intn(1 << 30))}
	ec.MaxSteps = Pick(r, []int{1, 2, 3, 5, 100, 100, 100})
	ec.MaxResumes = Pick(r, []int{1, 2, 3, 500, 500, 500})
	ec.Trigger = Pick(r, []string{"manual", "manual", "msg"})
	ec.StartFlow = r.Intn(len(ga.Flows))
	n := r.Intn(9)
	for i := 0; i < n; i++ {
		switch x := r.Intn(100); {
		case x < 50:
			ec.Resumes = append(ec.Resumes, "msg:"+Pick(r, []string{"red", "blue", "yes", "purple", ""}))
		case x < 65:
			ec.Resumes = append(ec.Resumes, "timeout")
		case x < 80:
			ec.Resumes = append(ec.Resumes, "expiration")
		default:
			ec.Resumes = append(ec.Resumes, "dial:"+Pick(r, []string{"answered", "no_answer", "busy", "failed"}))
		}
	}
	return ec
}

type invFailure struct {
	clause, sig, what string
}

// the invariant of C01, evaluated on the implementation's session after a call that returned without error
func checkSessionInv(post *canonSession, ga *genAssets, assetsChanged bool) []invFailure {
	var out []invFailure
	fail := func(clause, sig, what string) { out = append(out, invFailure{clause, sig, what}) }
	// (i)
	if post.Status != "w" && post.Status != "c" && post.Status != "f" {
		fail("i", "session-status-after-call", "session status is "+post.Status+" after a call that returned without error")
	}
	// (iv)
	for ri, r := range post.Runs {
		ended := r.Status == "c" || r.Status == "f" || r.Status == "x"
		if ended != r.Exited {
			fail("iv", "exited-on-vs-status", fmt.Sprintf("run %d has status %s but exited_on set=%v", ri, r.Status, r.Exited))
		}
	}
	// (ii)
	var waiting []int
	for ri, r := range post.Runs {
		if r.Status == "w" {
			waiting = append(waiting, ri)
		}
	}
	if post.Status == "w" {
		if len(waiting) != 1 {
			fail("ii", "waiting-run-count", fmt.Sprintf("session is waiting but %d runs are waiting", len(waiting)))
		} else {
			w := waiting[0]
			wr := post.Runs[w]
			if len(wr.Path) == 0 {
				fail("ii", "waiting-run-empty-path", "the waiting run has no steps")
			} else if wr.Flow >= 0 {
				last := wr.Path[len(wr.Path)-1]
				if last.Node < len(ga.Flows[wr.Flow].Nodes) {
					if ga.Flows[wr.Flow].Nodes[last.Node].HasWait == "" && !assetsChanged {
						fail("ii", "waiting-on-node-without-wait", fmt.Sprintf("run %d waits on node %d whose router has no wait", w, last.Node))
					}
				}
			}
			anc := map[int]bool{}
			for p := wr.Parent; p >= 0; p = post.Runs[p].Parent {
				if anc[p] {
					break
				}
				anc[p] = true
			}
			for ri, r := range post.Runs {
				if r.Status == "a" && !anc[ri] {
					fail("ii", "active-run-not-ancestor", fmt.Sprintf("run %d is active but not an ancestor of the waiting run %d", ri, w))
				}
			}
		}
	} else {
		for ri, r := range post.Runs {
			if r.Status == "a" || r.Status == "w" {
				fail("ii", "unfinished-run-in-ended-session", fmt.Sprintf("session is %s but run %d is %s", post.Status, ri, r.Status))
			}
		}
	}
	// (iii)
	if !assetsChanged {
		for ri, r := range post.Runs {
			if r.Flow < 0 {
				continue
			}
			nodes := ga.Flows[r.Flow].Nodes
			for si, st := range r.Path {
				if st.Node >= len(nodes) {
					fail("iii", "step-on-unknown-node", fmt.Sprintf("run %d step %d is on a node that is not in its flow", ri, si))
					continue
				}
				if st.Exit < 0 {
					if si != len(r.Path)-1 {
						fail("iii", "inner-step-without-exit", fmt.Sprintf("run %d step %d has no exit but is not the last step", ri, si))
					}
					continue
				}
				if st.Exit >= len(nodes[st.Node].Exits) {
					fail("iii", "exit-not-of-node", fmt.Sprintf("run %d step %d left through an exit that does not belong to its node", ri, si))
					continue
				}
				if si+1 < len(r.Path) && nodes[st.Node].Exits[st.Exit].Dest != r.Path[si+1].Node {
					fail("iii", "exit-does-not-lead-to-next-step", fmt.Sprintf("run %d step %d exit leads to node %d but the next step is on node %d", ri, si, nodes[st.Node].Exits[st.Exit].Dest, r.Path[si+1].Node))
				}
			}
		}
	}
	return out
}

// clause (v): events recorded by a run during the sprint name a step of that run and appear in order in the sprint
func checkEventInv(call *engCall) []invFailure {
	var out []invFailure
	post := call.Post
	if call.Sprint == nil {
		return out
	}
	spEvents := call.Sprint.Events()
	for ri, r := range post.Runs {
		pe := 0
		if call.Pre != nil && ri < len(call.Pre.Runs) {
			pe = len(call.Pre.Runs[ri].Events)
		}
		pos := 0
		for _, e := range r.Events[pe:] {
			if e.Run >= 0 && (e.Run != ri || e.Idx >= len(r.Path)) {
				sig := "event-names-step-of-another-run"
				if e.Kind == 1 {
					sig = "step-limit-failure-names-step-of-another-run"
				}
				out = append(out, invFailure{"v", sig, fmt.Sprintf("run %d recorded a %s event naming step (%d,%d), which is not one of its own steps", ri, e.typ, e.Run, e.Idx)})
			}
			found := false
			for pos < len(spEvents) {
				if spEvents[pos] == e.ev {
					found = true
					pos++
					break
				}
				pos++
			}
			if !found {
				out = append(out, invFailure{"v", "run-event-not-in-sprint-order", fmt.Sprintf("run %d recorded a %s event that does not appear (in order) in the sprint's events", ri, e.typ)})
				break
			}
		}
	}
	return out
}

func shapeKey(cs *canonSession) string {
	var b strings.Builder
	b.WriteString(cs.Status)
	for _, r := range cs.Runs {
		fmt.Fprintf(&b, "|%s%s%d", r.Status, optI(r.Parent), len(r.Path))
	}
	s := b.String()
	if len(s) > 100 {
		s = s[:100]
	}
	return s
}

// runs one case: start + resumes; after every call the monitors of C01 and the model op
func runEngCase(c *Ctx, ec *engCase, prop string, perCall func(er *engRun, call *engCall)) {
	restore := setDeterministic(ec.Seed)
	defer restore()
	er, err := newEngRun(ec)
	if err != nil {
		c.Count("generated-assets-rejected")
		c.Notes = appendNote(c.Notes, "assets rejected: "+err.Error())
		return
	}
	var call *engCall
	if c.Guard(prop+"-start", "panic:NewSession", ec.describe(), func() { call = er.start() }) {
		return
	}
	perCall(er, call)
	if call.Err != nil || er.Session == nil {
		return
	}
	extra := 1 // one more resume after the session has ended (must be rejected)
	for _, spec := range ec.Resumes {
		if er.Session.Status() != "waiting" {
			if extra == 0 {
				break
			}
			extra--
		}
		spec := spec
		if c.Guard(prop+"-resume", "panic:Resume", ec.describe(), func() { call = er.resume(spec) }) {
			return
		}
		perCall(er, call)
		if call.Class == "goerr" {
			return
		}
	}
}

func appendNote(notes []string, n string) []string {
	if len(notes) < 5 {
		notes = append(notes, n)
	}
	return notes
}

// breaks one reference inside a router of the generated flows (what flow validation must refuse at load: the engine
// and its model rely on a router only ever naming exits of its own node); returns what was broken, "" if nothing could be
func malformRouter(r *Rng, ga *genAssets, prefer int) string {
	type cand struct {
		f *genFlow
		n *genNode
	}
	var cands []cand
	for _, f := range ga.Flows {
		for _, n := range f.Nodes {
			if n.Router != nil {
				cands = append(cands, cand{f, n})
			}
		}
	}
	if len(cands) == 0 {
		return ""
	}
	// mostly in the flow the session starts in, and early in it, so that the broken node is reached
	var near []cand
	for _, cd := range cands {
		if cd.f == ga.Flows[prefer] {
			near = append(near, cd)
		}
	}
	cd := cands[r.Intn(len(cands))]
	if len(near) > 0 && r.Chance(80) {
		cd = near[0]
		if r.Chance(40) {
			cd = near[r.Intn(len(near))]
		}
	}
	cats, _ := cd.n.Router["categories"].([]map[string]any)
	if len(cats) == 0 {
		return ""
	}
	foreignExit := func() string {
		var others []string
		for _, n := range cd.f.Nodes {
			if n != cd.n {
				for _, e := range n.Exits {
					others = append(others, e.UUID)
				}
			}
		}
		if len(others) > 0 && r.Chance(70) {
			return others[r.Intn(len(others))]
		}
		return fmt.Sprintf("%08x-1111-4000-8000-%012x", 0xdead0000+r.Intn(1000), r.Intn(1000))
	}
	unknown := fmt.Sprintf("%08x-2222-4000-8000-%012x", 0xbeef0000+r.Intn(1000), r.Intn(1000))
	var timeoutCat string
	if w, ok := cd.n.Router["wait"].(map[string]any); ok {
		if t, ok := w["timeout"].(map[string]any); ok {
			timeoutCat, _ = t["category_uuid"].(string)
		}
	}
	switch x := r.Intn(100); {
	case x < 35 && timeoutCat != "":
		for _, c := range cats {
			if c["uuid"] == timeoutCat {
				c["exit_uuid"] = foreignExit()
				return "timeout-category-exit-foreign"
			}
		}
	case x < 50 && timeoutCat != "":
		cd.n.Router["wait"].(map[string]any)["timeout"].(map[string]any)["category_uuid"] = unknown
		return "timeout-category-unknown"
	case x < 75:
		cats[r.Intn(len(cats))]["exit_uuid"] = foreignExit()
		return "category-exit-foreign"
	case x < 88:
		if cases, ok := cd.n.Router["cases"].([]map[string]any); ok && len(cases) > 0 {
			cases[r.Intn(len(cases))]["category_uuid"] = unknown
			return "case-category-unknown"
		}
	default:
		if _, ok := cd.n.Router["default_category_uuid"]; ok {
			cd.n.Router["default_category_uuid"] = unknown
			return "default-category-unknown"
		}
	}
	cats[r.Intn(len(cats))]["exit_uuid"] = foreignExit()
	return "category-exit-foreign"
}

func runC01(c *Ctx) {
	r := c.Rng
	n := c.N(1500, 60000)
	var replayCase *engCase
	if p := os.Getenv("VERIF_REPLAY"); p != "" {
		ec, _, err := engCaseFromReplay(p)
		if err != nil {
			c.Fail("monitor", "replay", "replay-unreadable", err.Error(), nil)
			return
		}
		replayCase, n = ec, 1
	}
	for i := 0; i < n; i++ {
		ec := genEngCase(r, false)
		if replayCase != nil {
			ec = replayCase
		}
		ncall := 0
		runEngCase(c, ec, "C01", func(er *engRun, call *engCall) {
			ncall++
			c.Count("call:" + call.Call + ":" + call.Class)
			if replayCase != nil && call.Post != nil {
				fmt.Printf("replay call %d %s -> %s\n  session: %s\n", ncall, call.Call, call.Class, call.Post.enc())
				if call.Sprint != nil {
					for _, e := range call.Sprint.Events() {
						b, _ := json.Marshal(e)
						fmt.Printf("    %s\n", truncate(string(b), 300))
					}
				}
			}
			if call.Post == nil {
				return
			}
			key := ""
			if len(call.Post.Runs) >= 2 || ncall >= 2 {
				key = shapeKey(call.Post)
			}
			c.Eval(key)
			if call.Class == "ok" {
				fails := checkSessionInv(call.Post, ec.GA, false)
				fails = append(fails, checkEventInv(call)...)
				for _, f := range fails {
					d := ec.describe()
					d["failed_at_call"] = ncall
					d["call"] = call.Call
					d["session_after"] = call.Post.enc()
					c.Fail("monitor", "M-inv-"+f.clause, f.sig, f.what, d)
				}
			}
			if call.Class != "goerr" {
				op, expect := er.modelOp(call, nil)
				c.Model("eng", op, expect, map[string]any{"case": ec.describe(), "call_index": ncall})
			}
			if i < 3 && ncall == 1 {
				c.Sample(map[string]any{"model_assets": ec.GA.ModelSpec(nil), "trigger": ec.Trigger, "resumes": ec.Resumes, "max_steps": ec.MaxSteps, "after_start": call.Post.enc()})
			}
		})
	}
	if replayCase != nil {
		return
	}
	// malformed stream: flows with one broken reference inside a router. Either the flow is refused when it is loaded (no call
	// then returns a session) or, if it runs, the invariant must hold all the same. No model here: it assumes validated flows.
	for i := 0; i < c.N(400, 12000); i++ {
		ec := genEngCase(r, false)
		kind := malformRouter(r, ec.GA, ec.StartFlow)
		if kind == "" {
			continue
		}
		if strings.HasPrefix(kind, "timeout") {
			ec.Resumes = append([]string{"timeout"}, ec.Resumes...)
		}
		ncall, ran := 0, false
		runEngCase(c, ec, "C01", func(er *engRun, call *engCall) {
			ncall++
			if call.Post == nil || call.Class != "ok" {
				return
			}
			ran = true
			fails := checkSessionInv(call.Post, ec.GA, false)
			fails = append(fails, checkEventInv(call)...)
			for _, f := range fails {
				d := ec.describe()
				d["malformed"], d["failed_at_call"], d["call"], d["session_after"] = kind, ncall, call.Call, call.Post.enc()
				c.Fail("monitor", "M-inv-"+f.clause, f.sig+":malformed-flow", f.what+" (flow with a broken router reference that was not refused at load: "+kind+")", d)
			}
		})
		c.Count("malformed:" + kind + map[bool]string{true: ":ran", false: ":no-session"}[ran])
	}
}
