package main

import (
	"encoding/json"
	"errors"
	"fmt"
	"sort"
	"strings"
	"time"

	"github.com/nyaruka/gocommon/dates"
	"github.com/nyaruka/gocommon/i18n"
	"github.com/nyaruka/gocommon/random"
	"github.com/nyaruka/gocommon/urns"
	"github.com/nyaruka/gocommon/uuids"
	"github.com/nyaruka/goflow/assets"
	"github.com/nyaruka/goflow/assets/static"
	"github.com/nyaruka/goflow/envs"
	"github.com/nyaruka/goflow/flows"
	"github.com/nyaruka/goflow/flows/engine"
	"github.com/nyaruka/goflow/flows/events"
	"github.com/nyaruka/goflow/flows/resumes"
	"github.com/nyaruka/goflow/flows/triggers"
)

// ---------------------------------------------------------------------------------------
// running sessions deterministically and canonicalising them
// ---------------------------------------------------------------------------------------

type engCase struct {
	GA         *genAssets
	Voice      bool
	MaxSteps   int
	MaxResumes int
	Trigger    string // "manual" | "msg"
	StartFlow  int
	Resumes    []string // "msg:<text>" | "timeout" | "expiration" | "dial:<status>"
	Refresh    []string // per resume (C02): "" | "env" | "contact" | "both" - what the resume carries besides its payload
	Seed       int64
}

func (ec *engCase) describe() map[string]any {
	return map[string]any{"assets": json.RawMessage(ec.GA.JSON(ec.Voice)), "max_steps": ec.MaxSteps, "max_resumes": ec.MaxResumes, "trigger": ec.Trigger,
		"start_flow": ec.StartFlow, "resumes": ec.Resumes, "refresh": ec.Refresh, "seed": ec.Seed, "voice": ec.Voice, "model_assets": ec.GA.ModelSpec(nil)}
}

type canonStep struct {
	Node int
	Exit int // -1 none
	uuid flows.StepUUID
	at   time.Time
}

type canonEv struct {
	Kind   int
	IsWait bool
	Run    int // step ref, -1 none
	Idx    int
	typ    string
	at     time.Time
	ev     flows.Event
}

type canonRun struct {
	Flow    int
	Parent  int
	Status  string
	Exited  bool
	Path    []canonStep
	Events  []canonEv
	created time.Time
}

type canonSession struct {
	Status string
	Runs   []canonRun
}

var evKindCodes = map[string]int{events.TypeFailure: 1, events.TypeMsgReceived: 2, events.TypeWaitTimedOut: 3, events.TypeRunExpired: 4, events.TypeDialEnded: 5}

func evKind(typ string) int {
	if k, ok := evKindCodes[typ]; ok {
		return k
	}
	k := 10 + len(evKindCodes)
	evKindCodes[typ] = k
	return k
}

var statusLetters = map[string]string{"active": "a", "waiting": "w", "completed": "c", "failed": "f", "expired": "x", "interrupted": "i"}

func canonicalise(s flows.Session, ga *genAssets) *canonSession {
	cs := &canonSession{Status: statusLetters[string(s.Status())]}
	flowIdx := map[assets.FlowUUID]int{}
	for i, f := range ga.Flows {
		flowIdx[assets.FlowUUID(f.UUID)] = i
	}
	runIdx := map[flows.RunUUID]int{}
	for i, r := range s.Runs() {
		runIdx[r.UUID()] = i
	}
	stepRef := map[flows.StepUUID][2]int{}
	for i, r := range s.Runs() {
		for j, st := range r.Path() {
			stepRef[st.UUID()] = [2]int{i, j}
		}
	}
	for _, r := range s.Runs() {
		cr := canonRun{Flow: -1, Parent: -1, Status: statusLetters[string(r.Status())], Exited: r.ExitedOn() != nil, created: r.CreatedOn()}
		if fi, ok := flowIdx[r.FlowReference().UUID]; ok {
			cr.Flow = fi
		}
		if p := r.ParentInSession(); p != nil {
			cr.Parent = runIdx[p.UUID()]
		}
		var gf *genFlow
		if cr.Flow >= 0 {
			gf = ga.Flows[cr.Flow]
		}
		for _, st := range r.Path() {
			c := canonStep{Node: 999, Exit: -1, uuid: st.UUID(), at: st.ArrivedOn()}
			if gf != nil {
				for ni, n := range gf.Nodes {
					if n.UUID == string(st.NodeUUID()) {
						c.Node = ni
						if st.ExitUUID() != "" {
							c.Exit = 998
							for ei, e := range n.Exits {
								if e.UUID == string(st.ExitUUID()) {
									c.Exit = ei
								}
							}
						}
					}
				}
			}
			cr.Path = append(cr.Path, c)
		}
		for _, e := range r.Events() {
			ce := canonEv{Kind: evKind(e.Type()), IsWait: strings.HasSuffix(e.Type(), "_wait"), Run: -1, Idx: -1, typ: e.Type(), at: e.CreatedOn(), ev: e}
			if e.StepUUID() != "" {
				if ref, ok := stepRef[e.StepUUID()]; ok {
					ce.Run, ce.Idx = ref[0], ref[1]
				} else {
					ce.Run, ce.Idx = 997, 997 // names a step that is in no run
				}
			}
			cr.Events = append(cr.Events, ce)
		}
		cs.Runs = append(cs.Runs, cr)
	}
	return cs
}

func optI(i int) string {
	if i < 0 {
		return "-"
	}
	return fmt.Sprint(i)
}

func b01(b bool) string {
	if b {
		return "1"
	}
	return "0"
}

func (e canonEv) enc() string {
	return fmt.Sprintf("%d:%s:%s:%s", e.Kind, b01(e.IsWait), optI(e.Run), optI(e.Idx))
}

func encList(xs []string, sep string) string {
	if len(xs) == 0 {
		return "_"
	}
	return strings.Join(xs, sep)
}

func (cs *canonSession) enc() string {
	parts := []string{cs.Status}
	for _, r := range cs.Runs {
		var path, evs []string
		for _, st := range r.Path {
			path = append(path, fmt.Sprintf("%d:%s", st.Node, optI(st.Exit)))
		}
		for _, e := range r.Events {
			evs = append(evs, e.enc())
		}
		parts = append(parts, fmt.Sprintf("%d,%s,%s,%s,%s,%s", r.Flow, optI(r.Parent), r.Status, b01(r.Exited), encList(path, "."), encList(evs, ".")))
	}
	return strings.Join(parts, "|")
}

// sprint events with the run each was also logged to
func encSprint(sp flows.Sprint, post *canonSession) string {
	var out []string
	for _, e := range sp.Events() {
		run := -1
		var ce canonEv
		found := false
		for ri, r := range post.Runs {
			for _, re := range r.Events {
				if re.ev == e {
					run, ce, found = ri, re, true
				}
			}
		}
		if !found {
			ce = canonEv{Kind: evKind(e.Type()), IsWait: strings.HasSuffix(e.Type(), "_wait"), Run: -1, Idx: -1}
			if e.StepUUID() != "" {
				ce.Run, ce.Idx = 996, 996
			}
		}
		out = append(out, optI(run)+":"+ce.enc())
	}
	return encList(out, ".")
}

// ---------------------------------------------------------------------------------------
// oracle reconstruction from the implementation's own trace (see Engine/Model.lean)
// ---------------------------------------------------------------------------------------

func evks(es []canonEv) string {
	var out []string
	for _, e := range es {
		out = append(out, fmt.Sprintf("%d~%s", e.Kind, b01(e.IsWait)))
	}
	return encList(out, ".")
}

func routeOf(exit int) string {
	if exit < 0 {
		return "e-"
	}
	return fmt.Sprintf("e%d", exit)
}

func buildOracle(pre, post *canonSession, sp flows.Sprint, call string, ga *genAssets, startFlow int) string {
	var items []string
	preRuns := 0
	if pre != nil {
		preRuns = len(pre.Runs)
	}
	preLen := func(r int) (int, int) {
		if pre != nil && r < len(pre.Runs) {
			return len(pre.Runs[r].Path), len(pre.Runs[r].Events)
		}
		return 0, 0
	}
	// times at which the engine did something other than log to the current step: run creations and step arrivals
	var marks []time.Time
	for ri, r := range post.Runs {
		if ri >= preRuns {
			marks = append(marks, r.created)
		}
		pl, _ := preLen(ri)
		for si := pl; si < len(r.Path); si++ {
			marks = append(marks, r.Path[si].at)
		}
	}
	sort.Slice(marks, func(i, j int) bool { return marks[i].Before(marks[j]) })
	nextMark := func(t time.Time) (time.Time, bool) {
		for _, m := range marks {
			if m.After(t) {
				return m, true
			}
		}
		return time.Time{}, false
	}
	failedChildAfter := func(parent int, t time.Time) bool {
		for _, r := range post.Runs {
			if r.Parent == parent && r.created.After(t) && r.Status == "f" {
				return true
			}
		}
		return false
	}
	flowIdxByUUID := func(u string) int {
		for i, f := range ga.Flows {
			if f.UUID == u {
				return i
			}
		}
		return 995
	}

	if call == "start" {
		var init []canonEv
		for _, e := range sp.Events() {
			inRun := false
			for _, r := range post.Runs {
				for _, re := range r.Events {
					if re.ev == e {
						inRun = true
					}
				}
			}
			if !inRun && e.StepUUID() == "" && e.Type() != events.TypeFailure {
				init = append(init, canonEv{Kind: evKind(e.Type()), IsWait: strings.HasSuffix(e.Type(), "_wait")})
			}
		}
		items = append(items, fmt.Sprintf("I0:%d:%s", startFlow, evks(init)))
	}

	for ri, r := range post.Runs {
		pl, pe := preLen(ri)
		newEvents := r.Events[pe:]
		atStep := func(si int) []canonEv {
			var out []canonEv
			for _, e := range newEvents {
				if e.Run == ri && e.Idx == si {
					out = append(out, e)
				}
			}
			return out
		}
		// strips engine-made failure events from a late part; reports whether a router failed to pick a category
		lateStrip := func(es []canonEv, si int, since time.Time) ([]canonEv, bool) {
			noCat := false
			var out []canonEv
			for k, e := range es {
				if e.Kind == 1 {
					if r.Path[si].Exit >= 0 && k == len(es)-1 {
						continue // step limit reached after the step was left
					}
					if failedChildAfter(ri, since) {
						continue // a failed child bubbling up
					}
					noCat = true
					continue
				}
				out = append(out, e)
			}
			return out, noCat
		}
		for si := range r.Path {
			isNew := si >= pl
			es := atStep(si)
			var late []canonEv
			since := r.Path[si].at
			if isNew {
				var visit []canonEv
				limit, hasLimit := nextMark(r.Path[si].at)
				for _, e := range es {
					if !hasLimit || e.at.Before(limit) {
						visit = append(visit, e)
					} else {
						late = append(late, e)
					}
				}
				if len(visit) > 0 && visit[len(visit)-1].Kind == 1 && r.Path[si].Exit >= 0 {
					visit = visit[:len(visit)-1] // step limit reached right after this visit left the node
				}
				res, pushed, begin := "d", "-", "0"
				for _, e := range visit {
					if e.Kind == 1 {
						res = "f"
					}
					if e.IsWait {
						begin = "1"
					}
					if fe, ok := e.ev.(*events.FlowEnteredEvent); ok {
						pushed = fmt.Sprintf("%d~%s", flowIdxByUUID(string(fe.Flow.UUID)), b01(fe.Terminal))
					}
				}
				items = append(items, fmt.Sprintf("V%d:%d:%s:%s:%s:%s:%s", ri, si, evks(visit), pushed, res, begin, routeOf(r.Path[si].Exit)))
			} else if si == pl-1 {
				late = es
				if pre != nil && ri < len(pre.Runs) && pre.Runs[ri].Status == "w" && strings.HasPrefix(call, "resume:") {
					// the waiting step: fixed resume event, base apply events, group events, then the router's
					fixed := map[string]int{"resume:msg": 2, "resume:timeout": 3, "resume:expiration": 4, "resume:dial": 5}[call]
					var base, groups, rest []canonEv
					seenFixed := false
					for _, e := range es {
						switch {
						case !seenFixed && e.Kind == fixed:
							seenFixed = true
						case !seenFixed:
							base = append(base, e)
						case len(rest) == 0 && len(groups) == 0 && (e.typ == events.TypeEnvironmentRefreshed || e.typ == events.TypeContactRefreshed):
							base = append(base, e)
						case len(rest) == 0 && len(groups) == 0 && e.typ == events.TypeContactGroupsChanged:
							groups = append(groups, e)
						default:
							rest = append(rest, e)
						}
					}
					if !seenFixed {
						base, rest = nil, es
					}
					items = append(items, fmt.Sprintf("A%s:%s", evks(base), evks(groups)))
					late = rest
				}
			} else {
				continue
			}
			stripped, noCat := lateStrip(late, si, since)
			route := routeOf(r.Path[si].Exit)
			if noCat {
				route = "n"
			}
			items = append(items, fmt.Sprintf("L%d:%d:%s:%s", ri, si, evks(stripped), route))
		}
	}
	return encList(items, "+")
}

// ---------------------------------------------------------------------------------------
// executing a case
// ---------------------------------------------------------------------------------------

type engCall struct {
	Call   string
	Pre    *canonSession
	Post   *canonSession
	Sprint flows.Sprint
	Err    error
	Class  string // ok | goerr | eng101..
	PreJSON, PostJSON []byte
}

type engRun struct {
	Case    *engCase
	SA      flows.SessionAssets
	Eng     flows.Engine
	Session flows.Session
	Calls   []*engCall
	Env     envs.Environment
	Contact *flows.Contact
}

func setDeterministic(seed int64) func() {
	dates.SetNowFunc(dates.NewSequentialNow(time.Date(2024, 5, 1, 12, 0, 0, 0, time.UTC), time.Second))
	uuids.SetGenerator(uuids.NewSeededGenerator(seed, dates.Now))
	random.SetGenerator(random.NewSeededGenerator(seed))
	return func() {
		dates.SetNowFunc(time.Now)
		uuids.SetGenerator(uuids.DefaultGenerator)
		random.SetGenerator(random.DefaultGenerator)
	}
}

func classOf(err error) string {
	if err == nil {
		return "ok"
	}
	var ee *engine.Error
	if errors.As(err, &ee) {
		return fmt.Sprintf("eng%d", ee.Code())
	}
	return "goerr"
}

func newEngRun(ec *engCase) (*engRun, error) {
	src, err := static.NewSource(ec.GA.JSON(ec.Voice))
	if err != nil {
		return nil, err
	}
	env := envs.NewBuilder().WithAllowedLanguages("eng", "fra").WithDefaultCountry("US").Build()
	sa, err := engine.NewSessionAssets(env, src, nil)
	if err != nil {
		return nil, err
	}
	eng := engine.NewBuilder().WithMaxStepsPerSprint(ec.MaxSteps).WithMaxResumesPerSession(ec.MaxResumes).Build()
	return &engRun{Case: ec, SA: sa, Eng: eng, Env: env}, nil
}

func (er *engRun) newContact() *flows.Contact {
	c := flows.NewEmptyContact(er.SA, "Ann", i18n.Language("eng"), nil)
	c.AddURN(urns.URN("tel:+12065550100"), nil)
	return c
}

func (er *engRun) msgIn(text string) *flows.MsgIn {
	return flows.NewMsgIn(flows.MsgUUID(uuids.NewV4()), urns.URN("tel:+12065550100"), nil, text, nil)
}

func (er *engRun) start() *engCall {
	ec := er.Case
	contact := er.newContact()
	er.Contact = contact
	f := ec.GA.Flows[ec.StartFlow]
	ref := assets.NewFlowReference(assets.FlowUUID(f.UUID), f.Name)
	tb := triggers.NewBuilder(er.Env, ref, contact)
	var trig flows.Trigger
	callURN := urns.URN("tel:+12065550100")
	chRef := assets.NewChannelReference("57f1078f-88aa-46f4-a59a-948a5739c03d", "Android")
	switch ec.Trigger {
	case "msg":
		trig = tb.Msg(er.msgIn("red")).Build()
		if ec.Voice {
			trig = tb.Manual().WithCall(chRef, callURN).Build()
		}
	default:
		if ec.Voice {
			trig = tb.Manual().WithCall(chRef, callURN).Build()
		} else {
			trig = tb.Manual().Build()
		}
	}
	s, sp, err := er.Eng.NewSession(er.SA, trig)
	call := &engCall{Call: "start", Sprint: sp, Err: err, Class: classOf(err)}
	er.Session = s
	if s != nil {
		call.Post = canonicalise(s, ec.GA)
		call.PostJSON, _ = json.Marshal(s)
	}
	er.Calls = append(er.Calls, call)
	return call
}

func (er *engRun) makeResume(spec string) flows.Resume {
	switch {
	case strings.HasPrefix(spec, "msg:"):
		return resumes.NewMsg(nil, nil, er.msgIn(spec[4:]))
	case spec == "timeout":
		return resumes.NewWaitTimeout(nil, nil)
	case spec == "expiration":
		return resumes.NewRunExpiration(nil, nil)
	case strings.HasPrefix(spec, "dial:"):
		return resumes.NewDial(nil, nil, flows.NewDial(flows.DialStatus(spec[5:]), 5))
	}
	panic("bad resume spec " + spec)
}

// makeResumeWith builds the resume with the refreshed environment and/or contact the host may attach to it
func (er *engRun) makeResumeWith(spec, refresh string) flows.Resume {
	var env envs.Environment
	var contact *flows.Contact
	if refresh == "env" || refresh == "both" {
		tz, _ := time.LoadLocation("Africa/Kigali")
		env = envs.NewBuilder().WithDateFormat(envs.DateFormatDayMonthYear).WithTimeFormat(envs.TimeFormatHourMinuteAmPm).WithTimezone(tz).
			WithAllowedLanguages("fra", "eng").WithDefaultCountry("RW").Build()
	}
	if refresh == "contact" || refresh == "both" {
		contact = er.Session.Contact().Clone()
		contact.SetName("Refreshed " + contact.Name())
		contact.SetLanguage("fra")
	}
	switch {
	case strings.HasPrefix(spec, "msg:"):
		return resumes.NewMsg(env, contact, er.msgIn(spec[4:]))
	case spec == "timeout":
		return resumes.NewWaitTimeout(env, contact)
	case spec == "expiration":
		return resumes.NewRunExpiration(env, contact)
	case strings.HasPrefix(spec, "dial:"):
		return resumes.NewDial(env, contact, flows.NewDial(flows.DialStatus(spec[5:]), 5))
	}
	panic("bad resume spec " + spec)
}

func resumeCallName(spec string) string {
	switch {
	case strings.HasPrefix(spec, "msg:"):
		return "resume:msg"
	case spec == "timeout":
		return "resume:timeout"
	case spec == "expiration":
		return "resume:expiration"
	default:
		return "resume:dial"
	}
}

func (er *engRun) resume(spec string) *engCall {
	call := &engCall{Call: resumeCallName(spec)}
	call.Pre = canonicalise(er.Session, er.Case.GA)
	call.PreJSON, _ = json.Marshal(er.Session)
	sp, err := er.Session.Resume(er.makeResume(spec))
	call.Sprint, call.Err, call.Class = sp, err, classOf(err)
	call.Post = canonicalise(er.Session, er.Case.GA)
	call.PostJSON, _ = json.Marshal(er.Session)
	er.Calls = append(er.Calls, call)
	return call
}

// the model op and the implementation's canonical answer for one call
func (er *engRun) modelOp(call *engCall, missing map[int]bool) (op, expect string) {
	ec := er.Case
	pre := "-"
	if call.Pre != nil {
		pre = call.Pre.enc()
	}
	sprintEnc := "_"
	if call.Sprint != nil {
		sprintEnc = encSprint(call.Sprint, call.Post)
	}
	oracle := buildOracle(call.Pre, call.Post, call.Sprint, call.Call, ec.GA, ec.StartFlow)
	op = fmt.Sprintf("eng %s %d,%d %s %s %s", ec.GA.ModelSpec(missing), ec.MaxSteps, ec.MaxResumes, call.Call, pre, oracle)
	expect = fmt.Sprintf("%s %s %s", call.Class, call.Post.enc(), sprintEnc)
	return
}
