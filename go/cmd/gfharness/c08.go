package main

import (
	"bufio"
	"bytes"
	"crypto/sha256"
	"encoding/hex"
	"encoding/json"
	"fmt"
	"io"
	"net/http"
	"os"
	"os/exec"
	"path/filepath"
	"sort"
	"strings"

	"github.com/nyaruka/gocommon/httpx"
	"github.com/nyaruka/gocommon/i18n"
	"github.com/nyaruka/gocommon/urns"
	"github.com/nyaruka/gocommon/uuids"
	"github.com/nyaruka/goflow/assets"
	"github.com/nyaruka/goflow/assets/static"
	"github.com/nyaruka/goflow/contactql"
	"github.com/nyaruka/goflow/envs"
	"github.com/nyaruka/goflow/excellent/types"
	"github.com/nyaruka/goflow/flows"
	"github.com/nyaruka/goflow/flows/definition/legacy"
	"github.com/nyaruka/goflow/flows/definition/migrations"
	"github.com/nyaruka/goflow/flows/engine"
	"github.com/nyaruka/goflow/flows/resumes"
	"github.com/nyaruka/goflow/flows/triggers"
	"github.com/nyaruka/goflow/test"
)

func init() {
	register("C08", "generated flows over the repository's whole action palette with localization in three further languages (different templates and group arguments per language), call_webhook headers, "+
		"broadcast translations and nodes carrying several issues, contacts and msg resume histories, JSON objects with case-variant keys; every definition in the repository's test data for migration and cloning; "+
		"generated contact queries; each scenario repeated in-process and a fixed subset in fresh processes; non-trivial = distinct (scenario kind, shape, outcome)", runC08)
}

// answers webhooks from the URL alone, so that every execution sees the same responses
type c08Requestor struct{}

func (c08Requestor) Do(client *http.Client, request *http.Request) (*http.Response, error) {
	body, status := "not found", 404
	u := request.URL.String()
	for _, m := range [][2]string{{"bool", "true"}, {"false", "false"}, {"num", "12.50"}, {"obj", `{"Id":1,"ID":2,"ok":true,"list":[1,{"a":null}]}`}, {"arr", "[true,false,null]"}, {"null", "null"}, {"text", "hello"}} {
		if strings.Contains(u, m[0]) {
			body, status = m[1], 200
		}
	}
	return &http.Response{Status: fmt.Sprintf("%d X", status), StatusCode: status, Proto: "HTTP/1.1", ProtoMajor: 1, ProtoMinor: 1,
		Header: http.Header{"Content-Type": []string{"application/json"}}, Body: io.NopCloser(strings.NewReader(body)), ContentLength: int64(len(body)), Request: request}, nil
}

// one scenario's outputs, by name
type c08Out map[string]string

func digest(o c08Out) string {
	keys := make([]string, 0, len(o))
	for k := range o {
		keys = append(keys, k)
	}
	sort.Strings(keys)
	h := sha256.New()
	for _, k := range keys {
		h.Write([]byte(k))
		h.Write([]byte{0})
		h.Write([]byte(o[k]))
		h.Write([]byte{0})
	}
	return hex.EncodeToString(h.Sum(nil))[:16]
}

func firstDiff(a, b c08Out) (string, string, string) {
	keys := make([]string, 0, len(a))
	for k := range a {
		keys = append(keys, k)
	}
	sort.Strings(keys)
	for _, k := range keys {
		if a[k] != b[k] {
			return k, a[k], b[k]
		}
	}
	for k := range b {
		if _, ok := a[k]; !ok {
			return k, "", b[k]
		}
	}
	return "", "", ""
}

// the C08 flow: palette actions plus the constructs whose output order could depend on map iteration
func c08Scenario(r *Rng, i int, base map[string]json.RawMessage, palette []json.RawMessage) (assetsJSON []byte, flowUUID string, shape string) {
	us := &uuidSeq{n: 4000000 + i*1000}
	flowUUID = us.next()
	pick := func(k int) []any {
		var out []any
		for j := 0; j < k; j++ {
			var a map[string]any
			json.Unmarshal(Pick(r, palette), &a)
			a["uuid"] = us.next()
			if a["type"] == "enter_flow" {
				continue
			}
			out = append(out, a)
		}
		return out
	}
	langs := []string{"fra", "spa", "kin", "por"}
	nl := r.Range(0, 4)
	localization := map[string]any{}
	addTr := func(uuid string, props map[string][]string) {
		for li := 0; li < nl; li++ {
			lt, _ := localization[langs[li]].(map[string]any)
			if lt == nil {
				lt = map[string]any{}
				localization[langs[li]] = lt
			}
			item := map[string]any{}
			for p, vals := range props {
				var vs []string
				for _, v := range vals {
					vs = append(vs, strings.ReplaceAll(v, "#", fmt.Sprint(li)))
				}
				item[p] = vs
			}
			lt[uuid] = item
		}
	}
	fieldRefs := []string{"@fields.gender", "@fields.age", "@fields.state", "@fields.activation_token", "@globals.org_name", "@(1/0)", "@(bad", "@contact.name"}
	var extras []any
	shapeBits := []string{fmt.Sprintf("langs%d", nl)}
	if r.Chance(70) {
		u := us.next()
		extras = append(extras, map[string]any{"uuid": u, "type": "send_msg", "text": "hi " + Pick(r, fieldRefs), "quick_replies": []string{"a", "b"}})
		// each language refers to something different, so the order languages are visited in is visible in the lists inspection returns
		addTr(u, map[string][]string{"text": {"t# " + fieldRefs[r.Intn(len(fieldRefs))] + " @fields.lang#"}, "quick_replies": {"q# @globals.g#", Pick(r, fieldRefs)}})
		shapeBits = append(shapeBits, "msg-tr")
	}
	if r.Chance(60) {
		hdrs := map[string]string{}
		for k := r.Range(1, 4); k > 0; k-- {
			hdrs[Pick(r, []string{"Authorization", "X-Age", "X-Gender", "X-Bad", "X-Div", "Accept"})] = Pick(r, fieldRefs)
		}
		extras = append(extras, map[string]any{"uuid": us.next(), "type": "call_webhook", "method": "POST", "url": "http://example.com/" + Pick(r, []string{"bool", "false", "num", "obj", "arr", "null", "text", "missing", "@fields.state"}), "headers": hdrs, "body": "x", "result_name": "Hook"})
		extras = append(extras, map[string]any{"uuid": us.next(), "type": "send_msg", "text": c08Tpl("hook: @webhook.json @webhook.json.ok @webhook.status @results.hook.extra @(json(webhook.json))")})
		shapeBits = append(shapeBits, fmt.Sprintf("headers%d", len(hdrs)))
	}
	if r.Chance(50) {
		u := us.next()
		extras = append(extras, map[string]any{"uuid": u, "type": "send_broadcast", "text": "bc " + Pick(r, fieldRefs), "urns": []string{"tel:+12065550199"}})
		addTr(u, map[string][]string{"text": {"bc# " + Pick(r, fieldRefs) + " @(1/#)"}})
		shapeBits = append(shapeBits, "broadcast-tr")
	}
	if r.Chance(60) {
		doc := Pick(r, []string{`{\"Foo\":1,\"foo\":2,\"FOO\":3}`, `{\"a\":{\"Key\":\"x\",\"KEY\":\"y\",\"key\":\"z\"},\"A\":0}`, `{\"b\":1,\"B\":[1,2]}`})
		key := Pick(r, []string{"foo", "Foo", "fOO", "FOo", "a.key", "a.KeY", "A", "b", "B"})
		extras = append(extras, map[string]any{"uuid": us.next(), "type": "send_msg", "text": fmt.Sprintf(`v=@(parse_json("%s").%s) j=@(json(parse_json("%s")))`, doc, key, doc)})
		extras = append(extras, map[string]any{"uuid": us.next(), "type": "set_run_result", "name": "Obj", "value": fmt.Sprintf(`@(parse_json("%s").%s)`, doc, key)})
		shapeBits = append(shapeBits, "case-variant-keys")
	}
	if r.Chance(50) {
		// several kinds of issue on one node
		extras = append(extras, map[string]any{"uuid": us.next(), "type": "add_contact_groups", "groups": []map[string]any{{"uuid": us.next(), "name": "Gone"}}})
		extras = append(extras, map[string]any{"uuid": us.next(), "type": "send_msg", "text": "@legacy_extra.x @(has_pattern(\"a\", \"[\"))"})
		extras = append(extras, map[string]any{"uuid": us.next(), "type": "set_contact_field", "field": map[string]any{"key": "nope", "name": "Nope"}, "value": c08Tpl("@webhook.x")})
		shapeBits = append(shapeBits, "issues")
	}
	hasLocations := false
	if r.Chance(35) {
		// places of the same name under different parents, looked up under each parent in turn
		hasLocations = true
		order := Pick(r, [][]string{{"State Two", "State One", "State Three"}, {"State Three", "State Two", "State One"}, {"State One", "State Two", "State One"}})
		var parts []string
		for _, st := range order {
			parts = append(parts, fmt.Sprintf(`@(has_district("Springfield", "%s").match)`, st), fmt.Sprintf(`@(has_ward("Downtown", "Springfield", "%s").match)`, st))
		}
		extras = append(extras, map[string]any{"uuid": us.next(), "type": "send_msg", "text": "where: " + strings.Join(parts, " / ") + ` @(has_state("One").match)`})
		shapeBits = append(shapeBits, "same-name-places")
	}
	if r.Chance(40) {
		// a message template whose first variable's value looks like the second placeholder
		extras = append(extras, map[string]any{"uuid": us.next(), "type": "send_msg", "text": "tpl", "template": map[string]any{"uuid": "5722e1fd-fe32-4e74-ac78-3cf41a6adb7e", "name": "affirmation"},
			"template_variables": []string{Pick(r, []string{"{{2}}", "a {{2}} b", "@contact.name"}), Pick(r, []string{"{{1}}", "boy", "x{{1}}"})}})
		shapeBits = append(shapeBits, "template-vars")
	}
	n1, n2, n3 := us.next(), us.next(), us.next()
	// a router with group tests whose arguments are translated
	cats := []map[string]any{}
	exits := []map[string]any{}
	cases := []map[string]any{}
	for k := 0; k < 3; k++ {
		eu, cu := us.next(), us.next()
		ex := map[string]any{"uuid": eu}
		if k == 0 {
			ex["destination_uuid"] = n3
		}
		exits = append(exits, ex)
		cats = append(cats, map[string]any{"uuid": cu, "name": []string{"Other", "Testers", "Red"}[k], "exit_uuid": eu})
		if k == 1 {
			cu2 := us.next()
			cases = append(cases, map[string]any{"uuid": cu2, "type": "has_group", "arguments": []string{"b7cf0d83-f1c9-411c-96fd-c511a4cfa86d", "Testers"}, "category_uuid": cu})
			addTr(cu2, map[string][]string{"arguments": {Pick(r, []string{"4f1f98fc-27a7-4a69-bbdb-24744ba739a9", "b7cf0d83-f1c9-411c-96fd-c511a4cfa86d", "0ec97956-c451-48a0-a180-1ce766623e31"}), "G#"}})
		}
		if k == 2 {
			cases = append(cases, map[string]any{"uuid": us.next(), "type": "has_any_word", "arguments": []string{"red"}, "category_uuid": cu})
		}
	}
	router := map[string]any{"type": "switch", "operand": "@input.text", "cases": cases, "categories": cats, "default_category_uuid": cats[0]["uuid"], "wait": map[string]any{"type": "msg"}, "result_name": "Color"}
	nodes := []map[string]any{
		{"uuid": n1, "actions": append(pick(r.Range(1, 3)), extras...), "exits": []map[string]any{{"uuid": us.next(), "destination_uuid": n2}}},
		{"uuid": n2, "router": router, "exits": exits},
		{"uuid": n3, "actions": append(pick(r.Range(1, 3)), map[string]any{"uuid": us.next(), "type": "send_msg", "text": c08Tpl("after wait: w=@webhook j=@webhook.json h=@results.hook k=@(json(webhook)) id=@webhook.json.id")}), "exits": []map[string]any{{"uuid": us.next()}}},
	}
	main := map[string]any{"uuid": flowUUID, "name": "Main", "spec_version": "13.6.0", "language": "eng", "type": "messaging", "revision": 1, "expire_after_minutes": 60,
		"localization": localization, "nodes": nodes}
	all := map[string]any{}
	for k, v := range base {
		all[k] = v
	}
	all["flows"] = []any{main}
	if hasLocations {
		all["locations"] = json.RawMessage(`[{"name": "Freedonia", "aliases": [], "children": [
			{"name": "State One", "aliases": ["One"], "children": [{"name": "Springfield", "children": [{"name": "Downtown"}, {"name": "Harbor"}]}, {"name": "Shelbyville", "children": []}]},
			{"name": "State Two", "aliases": ["Two"], "children": [{"name": "Springfield", "children": [{"name": "Downtown"}]}, {"name": "Ogdenville", "children": []}]},
			{"name": "State Three", "aliases": [], "children": [{"name": "Springfield", "children": [{"name": "Harbor"}]}]}]}]`)
	}
	assetsJSON, _ = json.Marshal(all)
	return assetsJSON, flowUUID, strings.Join(shapeBits, ",")
}

// everything the property names for one generated flow: inspection, a run with resumes, the session JSON
// set by C02: the trigger contact has been seen before (odd seeds); templates do not read the transient @webhook
var c08SeenBefore = false
var c08NoWebhookReads = false

// the template, or the same without its reads of @webhook when those are not wanted
func c08Tpl(t string) string {
	if !c08NoWebhookReads {
		return t
	}
	for _, w := range []string{"@webhook.json.ok", "@webhook.json.id", "@webhook.json", "@webhook.status", "@webhook.x", "@(json(webhook.json))", "@(json(webhook))", "@webhook"} {
		t = strings.ReplaceAll(t, w, "-")
	}
	return t
}

func c08Execute(assetsJSON []byte, flowUUID string, seed int64, inputs []string, restart bool) (c08Out, error) {
	out := c08Out{}
	httpx.SetRequestor(c08Requestor{})
	defer httpx.SetRequestor(httpx.DefaultRequestor)
	env := envs.NewBuilder().WithAllowedLanguages("eng", "spa", "fra").WithDefaultCountry("US").Build()
	src, err := static.NewSource(assetsJSON)
	if err != nil {
		return nil, err
	}
	sa, err := engine.NewSessionAssets(env, src, nil)
	if err != nil {
		return nil, err
	}
	f, err := sa.Flows().Get(assets.FlowUUID(flowUUID))
	if err != nil {
		return nil, err
	}
	ib, _ := json.Marshal(f.Inspect(sa))
	out["inspect"] = string(ib)
	fb, _ := json.Marshal(f)
	out["definition"] = string(fb)
	// the run itself, twice over the same assets object (as a host that keeps its assets between sessions does): the second
	// session must see what the first saw - nothing a session does may be left behind in the assets
	first := c08RunOnce(env, sa, flowUUID, seed, inputs, restart)
	for k, v := range first {
		out[k] = v
	}
	if c08SeenBefore {
		return out, nil // C02 uses the scenarios for its own comparison
	}
	second := c08RunOnce(env, sa, flowUUID, seed, inputs, restart)
	out["second-session-over-same-assets"] = "same"
	if what, a, b := firstDiff(first, second); what != "" {
		x, y := diffWindow(a, b)
		out["second-session-over-same-assets"] = fmt.Sprintf("differs in %s: first %s / second %s", what, x, y)
	}
	return out, nil
}

func c08RunOnce(env envs.Environment, sa flows.SessionAssets, flowUUID string, seed int64, inputs []string, restart bool) c08Out {
	out := c08Out{}
	restore := setDeterministic(seed)
	defer restore()
	eng := test.NewEngine()
	contact := flows.NewEmptyContact(sa, "Ann", i18n.Language("fra"), nil)
	contact.AddURN(urns.URN("tel:+12065550100"), nil)
	if c08SeenBefore {
		// C02: a contact as hosts have them, read from its stored form (NewEmptyContact leaves the unset fields out of the context,
		// which reading back does not), seen before on odd seeds
		seen := ""
		if seed%2 == 1 {
			seen = `, "last_seen_on": "2025-04-20T09:30:00Z"`
		}
		cj := `{"uuid": "5d76d86b-3bb9-4d5a-b822-c9d86f5d8e4f", "id": 1234, "name": "Ann", "language": "fra", "status": "active", "created_on": "2018-06-20T11:40:30Z", "urns": ["tel:+12065550100"]` + seen + `}`
		if rc, err := flows.ReadContact(sa, []byte(cj), assets.IgnoreMissing); err == nil {
			contact = rc
		}
	}
	trig := triggers.NewBuilder(env, assets.NewFlowReference(assets.FlowUUID(flowUUID), "Main"), contact).Manual().Build()
	s, sp, err := eng.NewSession(sa, trig)
	if err != nil {
		out["start-error"] = err.Error()
		return out
	}
	evs := func(sp flows.Sprint) string {
		b, _ := json.Marshal(sp.Events())
		sg := []string{}
		for _, x := range sp.Segments() {
			sg = append(sg, fmt.Sprintf("%s>%s", x.Node().UUID(), x.Exit().UUID()))
		}
		return string(b) + "|" + strings.Join(sg, ",")
	}
	out["sprint0"] = evs(sp)
	for k, in := range inputs {
		if s.Status() != flows.SessionStatusWaiting {
			break
		}
		if restart {
			// the host stores the session between sprints and reads it back
			b, err := json.Marshal(s)
			if err != nil {
				out["marshal-error"] = err.Error()
				break
			}
			s2, err := eng.ReadSession(sa, b, assets.IgnoreMissing)
			if err != nil {
				out["read-error"] = err.Error()
				break
			}
			s = s2
		}
		sp, err := s.Resume(resumes.NewMsg(nil, nil, flows.NewMsgIn(flows.MsgUUID(uuids.NewV4()), "tel:+12065550100", nil, in, nil)))
		if err != nil {
			out[fmt.Sprintf("resume%d-error", k)] = err.Error()
			break
		}
		out[fmt.Sprintf("sprint%d", k+1)] = evs(sp)
	}
	sb, _ := json.Marshal(s)
	out["session"] = string(sb)
	return out
}

// migration, cloning and reading of one stored definition
func c08Definition(name string, def []byte) c08Out {
	out := c08Out{}
	restore := setDeterministic(7)
	defer restore()
	isLegacy := legacy.IsPossibleDefinition(def)
	cur := def
	if isLegacy {
		m, err := legacy.MigrateDefinition(def, "https://example.com/media/")
		if err != nil {
			out["legacy-error"] = err.Error()
			return out
		}
		out["legacy"] = string(m)
		cur = m
	}
	m, err := migrations.MigrateToLatest(cur, migrations.DefaultConfig)
	if err != nil {
		out["migrate-error"] = err.Error()
		return out
	}
	out["migrated"] = string(m)
	cl, err := migrations.Clone(m, map[uuids.UUID]uuids.UUID{"b7cf0d83-f1c9-411c-96fd-c511a4cfa86d": "11111111-1111-4111-8111-111111111111"})
	if err != nil {
		out["clone-error"] = err.Error()
	} else {
		out["clone"] = string(cl)
	}
	return out
}

// every flow definition stored in the repository's test data
func c08Definitions() (names []string, defs [][]byte) {
	add := func(name string, d []byte) {
		if len(d) > 0 && bytes.Contains(d, []byte(`"`)) {
			names, defs = append(names, name), append(defs, d)
		}
	}
	files, _ := filepath.Glob("/repo/test/testdata/runner/*.json")
	more, _ := filepath.Glob("/repo/flows/definition/migrations/testdata/migrations/*.json")
	legacyFiles, _ := filepath.Glob("/repo/flows/definition/legacy/testdata/*.json")
	for _, fn := range files {
		if strings.Contains(filepath.Base(fn), ".test") || strings.Count(filepath.Base(fn), ".") > 1 {
			continue
		}
		b, err := os.ReadFile(fn)
		if err != nil {
			continue
		}
		var a struct {
			Flows []json.RawMessage `json:"flows"`
		}
		if json.Unmarshal(b, &a) == nil {
			for k, f := range a.Flows {
				add(fmt.Sprintf("%s#%d", filepath.Base(fn), k), f)
			}
		}
	}
	for _, fn := range more {
		b, _ := os.ReadFile(fn)
		var ts []struct {
			Original json.RawMessage `json:"original"`
		}
		if json.Unmarshal(b, &ts) == nil {
			for k, t := range ts {
				add(fmt.Sprintf("%s#%d", filepath.Base(fn), k), t.Original)
			}
		}
	}
	for _, fn := range legacyFiles {
		b, _ := os.ReadFile(fn)
		var ts []map[string]json.RawMessage
		if json.Unmarshal(b, &ts) == nil {
			for k, t := range ts {
				for _, key := range []string{"legacy", "legacy_flow"} {
					if d, ok := t[key]; ok && bytes.HasPrefix(bytes.TrimSpace(d), []byte("{")) && bytes.Contains(d, []byte("action_sets")) {
						add(fmt.Sprintf("%s#%d", filepath.Base(fn), k), d)
					}
				}
			}
		}
	}
	// every legacy ruleset, action and test of the legacy test data in a holder flow; the airtime ruleset also with two countries
	// that share a currency at different amounts (refused - always, or never)
	for k, h := range c16LegacyHolders() {
		add(fmt.Sprintf("legacy-holder#%d", k), h)
		var doc map[string]any
		if json.Unmarshal(h, &doc) != nil {
			continue
		}
		// the same with a "base" entry beside the base language's own in every translated text (flows that were given a language
		// later keep both): which of the two is the base text must not depend on the order a map is walked in
		{
			var withBase any
			json.Unmarshal(h, &withBase)
			changed := false
			var walk func(v any)
			walk = func(v any) {
				switch x := v.(type) {
				case map[string]any:
					if t, ok := x["eng"].(string); ok {
						if _, has := x["base"]; !has {
							x["base"] = t + " (base)"
							changed = true
						}
					}
					for _, c := range x {
						walk(c)
					}
				case []any:
					for _, c := range x {
						walk(c)
					}
				}
			}
			walk(withBase)
			if changed {
				v, _ := json.Marshal(withBase)
				add(fmt.Sprintf("legacy-holder#%d+base-entries", k), v)
			}
		}
		rss, _ := doc["rule_sets"].([]any)
		if len(rss) == 0 {
			continue
		}
		rs, _ := rss[0].(map[string]any)
		cfg, _ := rs["config"].(map[string]any)
		if rs["ruleset_type"] != "airtime" || cfg == nil {
			continue
		}
		for _, amount := range []float64{5, 3} {
			cfg["US"] = map[string]any{"currency_name": "US Dollar", "amount": amount, "code": "US", "name": "United States", "currency_code": "USD"}
			cfg["PR"] = map[string]any{"currency_name": "US Dollar", "amount": 7, "code": "PR", "name": "Puerto Rico", "currency_code": "USD"}
			v, _ := json.Marshal(doc)
			add(fmt.Sprintf("legacy-holder#%d+shared-currency-%v", k, amount), v)
		}
	}
	return
}

func genQueryText(r *Rng, depth int) string {
	atom := func() string {
		return Pick(r, []string{"name", "age", "gender", "tel", "group", "language", "created_on", "uuid", "urn"}) + " " + Pick(r, []string{"=", "!=", "~", ">", "<="}) + " " +
			Pick(r, []string{`"bob"`, "12", `""`, `"x y"`, "2020-01-01", "+1234", `"a\"b"`})
	}
	if depth == 0 || r.Chance(40) {
		if r.Chance(15) {
			return Pick(r, []string{"bob", "12345", `"ann lee"`})
		}
		return atom()
	}
	k := r.Range(2, 3)
	var parts []string
	for j := 0; j < k; j++ {
		parts = append(parts, genQueryText(r, depth-1))
	}
	s := strings.Join(parts, Pick(r, []string{" AND ", " OR ", " "}))
	if r.Bool() {
		s = "(" + s + ")"
	}
	return s
}

type c08Plan struct {
	assets   []byte
	flowUUID string
	shape    string
	inputs   []string
	seed     int64
	restart  bool
}

func runC08(c *Ctx) {
	r := c.Rng
	base, palette, err := loadActionPalette()
	if err != nil || len(palette) < 50 {
		c.Fail("monitor", "harness", "palette-unavailable", fmt.Sprintf("cannot load the action palette from the repository testdata: %v", err), nil)
		return
	}
	child := os.Getenv("VERIF_C08_CHILD") != ""
	n := c.N(250, 6000)
	crossN := 40
	if child {
		n = crossN
	}
	var queries []string
	for i := 0; i < 300; i++ {
		queries = append(queries, genQueryText(r, 2))
	}
	var plans []c08Plan
	for i := 0; i < n; i++ {
		a, fu, shape := c08Scenario(r, i, base, palette)
		var inputs []string
		for k := r.Range(0, 2); k > 0; k-- {
			inputs = append(inputs, Pick(r, []string{"red", "blue", "hmm", "hmm"}))
		}
		plans = append(plans, c08Plan{a, fu, shape, inputs, int64(i), r.Bool()})
	}
	names, defs := c08Definitions()
	for _, nm := range names {
		if strings.HasSuffix(nm, "+base-entries") {
			c.Dist["defs-with-base-entries"]++
		}
	}
	envQ := envs.NewBuilder().Build()
	queryOut := func(q string) string {
		pq, err := contactql.ParseQuery(envQ, q, nil)
		if err != nil {
			return "error: " + err.Error()
		}
		return pq.String()
	}

	if child {
		// a fresh process: print the digest of each scenario of the fixed subset and stop
		w := bufio.NewWriter(os.Stdout)
		for i, p := range plans {
			o, err := c08Execute(p.assets, p.flowUUID, p.seed, p.inputs, p.restart)
			if err != nil {
				fmt.Fprintf(w, "DIGEST flow %d rejected\n", i)
				continue
			}
			fmt.Fprintf(w, "DIGEST flow %d %s\n", i, digest(o))
		}
		for i := range defs {
			fmt.Fprintf(w, "DIGEST def %d %s\n", i, digest(c08Definition(names[i], defs[i])))
		}
		for i, q := range queries {
			fmt.Fprintf(w, "DIGEST query %d %s\n", i, digest(c08Out{"q": queryOut(q)}))
		}
		w.Flush()
		os.Exit(0)
	}

	ownDigests := map[string]string{}
	reps := 4
	if !c.Quick() {
		reps = 8
	}
	for i, p := range plans {
		desc := map[string]any{"assets": json.RawMessage(p.assets), "flow_uuid": p.flowUUID, "inputs": p.inputs, "seed": p.seed, "shape": p.shape, "restart_between_sprints": p.restart}
		var first c08Out
		rejected := false
		for k := 0; k < reps && !rejected; k++ {
			var o c08Out
			var err error
			if c.Guard("M-repeat", "panic:scenario", desc, func() { o, err = c08Execute(p.assets, p.flowUUID, p.seed, p.inputs, p.restart) }) {
				rejected = true
				break
			}
			if err != nil {
				c.Count("C08-flow-rejected")
				c.Notes = appendNote(c.Notes, "flow rejected: "+truncate(err.Error(), 160))
				rejected = true
				break
			}
			if k == 0 {
				first = o
				c.Count("check:M-assets-reuse")
				if v := o["second-session-over-same-assets"]; v != "same" && v != "" {
					desc["second_session"] = v
					c.Fail("monitor", "M-assets-reuse", "second-session-differs", "a second, identical session over the same assets object does not produce what the first produced: the first left something behind in the assets", desc)
				}
				continue
			}
			if what, a, b := firstDiff(first, o); what != "" {
				sig := "repeat-differs:" + strings.TrimRight(what, "0123456789")
				desc["differs_in"] = what
				desc["first"], desc["again"] = diffWindow(a, b)
				c.Fail("monitor", "M-repeat", sig, fmt.Sprintf("executing the same scenario again in the same process gives a different %s", what), desc)
				break
			}
		}
		if rejected {
			continue
		}
		c.Count("check:M-repeat")
		for _, marker := range []string{`"templating"`, `"broadcast_created"`, `"webhook_called"`, `"type":"error"`} {
			if strings.Contains(first["sprint0"], marker) {
				c.Count("sprint0-has:" + strings.Trim(marker, `"`))
			}
		}
		c.Eval(fmt.Sprintf("flow|%s|%d|%v", p.shape, len(p.inputs), first["start-error"] == ""))
		if i < crossN {
			ownDigests[fmt.Sprintf("flow %d", i)] = digest(first)
		}
		if i < 2 {
			c.Sample(map[string]any{"kind": "flow", "shape": p.shape, "inspect": truncate(first["inspect"], 400)})
		}
	}
	for i := range defs {
		desc := map[string]any{"definition": names[i]}
		var first c08Out
		nreps := reps
		if strings.HasSuffix(names[i], "+base-entries") {
			nreps = 10 * reps // small definitions whose only purpose is an order dependence: a walk order repeats often
		}
		for k := 0; k < nreps; k++ {
			var o c08Out
			if c.Guard("M-migrate-repeat", "panic:migrate", desc, func() { o = c08Definition(names[i], defs[i]) }) {
				break
			}
			if k == 0 {
				first = o
				continue
			}
			if what, a, b := firstDiff(first, o); what != "" {
				desc["differs_in"] = what
				desc["first"], desc["again"] = diffWindow(a, b)
				c.Fail("monitor", "M-migrate-repeat", "repeat-differs:"+what, fmt.Sprintf("migrating/cloning the same definition again gives a different %s", what), desc)
				break
			}
		}
		c.Count("check:M-migrate-repeat")
		kind := "current"
		if _, ok := first["legacy"]; ok {
			kind = "legacy"
		}
		c.Eval(fmt.Sprintf("def|%s|%v|%d", kind, first["migrate-error"] == "" && first["legacy-error"] == "", len(defs[i])/4000))
		ownDigests[fmt.Sprintf("def %d", i)] = digest(first)
	}
	for i, q := range queries {
		a := queryOut(q)
		for k := 0; k < reps; k++ {
			if b := queryOut(q); b != a {
				c.Fail("monitor", "M-query-repeat", "repeat-differs:query", "formatting the same query again gives different text", map[string]any{"query": q, "first": a, "again": b})
				break
			}
		}
		c.Count("check:M-query-repeat")
		c.Eval(fmt.Sprintf("query|%v|%d", strings.HasPrefix(a, "error"), strings.Count(q, " AND ")+strings.Count(q, " OR ")))
		ownDigests[fmt.Sprintf("query %d", i)] = digest(c08Out{"q": a})
	}

	// XObject lookups with case-variant keys: function against model
	for i := 0; i < c.N(1500, 40000); i++ {
		k := r.Range(1, 5)
		props := map[string]types.XValue{}
		var names []string
		for j := 0; j < k; j++ {
			nm := Pick(r, []string{"foo", "Foo", "FOO", "fOO", "bar", "Bar", "a", "A", "key", "KEY", "Key", "x1", "X1"})
			if _, dup := props[nm]; dup {
				continue
			}
			props[nm] = types.NewXNumberFromInt(len(names))
			names = append(names, nm)
		}
		key := Pick(r, []string{"foo", "FOO", "Bar", "a", "key", "kEy", "x1", "zzz"})
		got := "none"
		if v, ok := types.NewXObject(props).Get(key); ok {
			got = "ok " + v.(*types.XNumber).Render()
		}
		var hn []string
		for _, nm := range names {
			hn = append(hn, hx(nm))
		}
		c.Model("objget", fmt.Sprintf("objget %s %s", strings.Join(hn, ","), hx(key)), got, map[string]any{"properties": names, "key": key})
		// the same lookup on the same object built again must answer the same
		for k := 0; k < 12; k++ {
			again := "none"
			cp := map[string]types.XValue{}
			for n, v := range props {
				cp[n] = v
			}
			if v, ok := types.NewXObject(cp).Get(key); ok {
				again = "ok " + v.(*types.XNumber).Render()
			}
			if again != got {
				c.Fail("monitor", "M-objget-repeat", "repeat-differs:object-lookup", "the same property lookup on the same object gives different values",
					map[string]any{"properties": names, "key": key, "first": got, "again": again})
				break
			}
		}
		c.Count("check:M-objget-repeat")
		obj := types.NewXObject(props)
		c.Model("objprops", "objprops "+strings.Join(hn, ","), "ok "+strings.Join(hxAll(obj.Properties()), ","), map[string]any{"properties": names})
	}

	// ---- fresh processes: a different map hash seed each ------------------------------------------
	exe, err := os.Executable()
	procs := 2
	if !c.Quick() {
		procs = 5
	}
	for p := 0; err == nil && p < procs; p++ {
		cmd := exec.Command(exe, "-prop", "C08", "-seed", fmt.Sprint(c.Seed), "-tier", "quick", "-driver", "/bin/true")
		cmd.Env = append(os.Environ(), "VERIF_C08_CHILD=1")
		outb, cerr := cmd.Output()
		if cerr != nil {
			c.Fail("monitor", "M-xprocess", "child-failed", "a fresh process executing the fixed subset failed: "+cerr.Error(), nil)
			break
		}
		seen := 0
		for _, line := range strings.Split(string(outb), "\n") {
			parts := strings.Fields(line)
			if len(parts) != 4 || parts[0] != "DIGEST" {
				continue
			}
			key := parts[1] + " " + parts[2]
			own, ok := ownDigests[key]
			if !ok {
				continue
			}
			seen++
			if own != parts[3] {
				c.Fail("monitor", "M-xprocess", "process-differs:"+parts[1], fmt.Sprintf("a fresh process gives different output for %s (digest %s vs %s)", key, parts[3], own), map[string]any{"scenario": key, "seed": c.Seed})
			}
		}
		c.Count("check:M-xprocess")
		c.Dist[fmt.Sprintf("xprocess-%d-compared", p)] = seen
	}
}

// the parts of two texts around their first difference
func diffWindow(a, b string) (string, string) {
	i := 0
	for i < len(a) && i < len(b) && a[i] == b[i] {
		i++
	}
	lo := i - 300
	if lo < 0 {
		lo = 0
	}
	cut := func(s string) string {
		hi := i + 300
		if hi > len(s) {
			hi = len(s)
		}
		if lo > len(s) {
			return ""
		}
		return s[lo:hi]
	}
	return cut(a), cut(b)
}

func hxAll(xs []string) []string {
	var out []string
	for _, x := range xs {
		out = append(out, hx(x))
	}
	return out
}
