package main

import (
	"encoding/json"
	"fmt"
	"sort"
	"strings"
	"time"

	"github.com/nyaruka/gocommon/i18n"
	"github.com/nyaruka/gocommon/urns"
	"github.com/nyaruka/goflow/assets"
	"github.com/nyaruka/goflow/assets/static"
	"github.com/nyaruka/goflow/envs"
	"github.com/nyaruka/goflow/flows"
	"github.com/nyaruka/goflow/flows/engine"
	"github.com/nyaruka/goflow/flows/modifiers"
	"github.com/nyaruka/goflow/flows/resumes"
	"github.com/nyaruka/goflow/flows/triggers"
)

func init() {
	register("C03", "random contacts (any status, language, timezone, 0-3 URNs incl. channel affinity, fields of every type, ticket, arbitrary stored group membership) x every "+
		"modifier type (name, language, status, timezone, field, groups add/remove of several static and query groups, URNs append/remove/set of several new, present and invalid URNs "+
		"in every order, channel, ticket; values at, below and beyond MaxFieldChars with multi-byte runes), applied twice; and flows of contact-changing actions under msg triggers and resumes; "+
		"non-trivial = distinct (modifier kind and variant, modified?, events emitted, contact shape)", runC03)
}

type internTable struct {
	m map[string]int
}

func (t *internTable) id(s string) int {
	if t.m == nil {
		t.m = map[string]int{}
	}
	if v, ok := t.m[s]; ok {
		return v
	}
	t.m[s] = len(t.m) + 1
	return t.m[s]
}

// model encoding of a contact (see Driver/Contact.lean)
func encContact(c *flows.Contact, it *internTable) string {
	var us, gs, fs []string
	for _, u := range c.URNs() {
		us = append(us, fmt.Sprintf("%d~%d", it.id("id:"+u.URN().Identity().String()), it.id("urn:"+string(u.URN()))))
	}
	for _, g := range c.Groups().All() {
		gs = append(gs, fmt.Sprint(it.id("g:"+string(g.UUID()))))
	}
	b, _ := json.Marshal(c)
	var v contactView
	json.Unmarshal(b, &v)
	var keys []string
	for k := range v.Fields {
		keys = append(keys, k)
	}
	sort.Strings(keys) // interning order must not depend on map iteration
	// field order is not observable in JSON; the model compares fields as a set (driver sorts)
	for _, k := range keys {
		var compact any
		json.Unmarshal(v.Fields[k], &compact)
		cb, _ := json.Marshal(compact)
		fs = append(fs, fmt.Sprintf("%d~%d", it.id("f:"+k), it.id("v:"+string(cb))))
	}
	// sorted as the driver sorts them: by (key id, value id)
	sort.Slice(fs, func(i, j int) bool {
		var a1, a2, b1, b2 int
		fmt.Sscanf(fs[i], "%d~%d", &a1, &a2)
		fmt.Sscanf(fs[j], "%d~%d", &b1, &b2)
		return a1 < b1 || (a1 == b1 && a2 < b2)
	})
	t := "-"
	if c.Ticket() != nil {
		t = fmt.Sprint(it.id("t:" + string(c.Ticket().UUID())))
	}
	tz := ""
	if c.Timezone() != nil {
		tz = c.Timezone().String()
	}
	return fmt.Sprintf("%s|%d|%s|%d|%s|%s|%s|%s", hx(c.Name()), it.id("l:"+string(c.Language())), c.Status(), it.id("z:"+tz), encList(us, ","), encList(gs, ","), encList(fs, ","), t)
}

func encEvents(evs []flows.Event, it *internTable) string {
	var out []string
	for _, e := range evs {
		b, _ := json.Marshal(e)
		var m map[string]json.RawMessage
		json.Unmarshal(b, &m)
		str := func(k string) string { var s string; json.Unmarshal(m[k], &s); return s }
		switch e.Type() {
		case "contact_name_changed":
			out = append(out, "name:"+hx(str("name")))
		case "contact_language_changed":
			out = append(out, fmt.Sprintf("lang:%d", it.id("l:"+str("language"))))
		case "contact_status_changed":
			out = append(out, "status:"+str("status"))
		case "contact_timezone_changed":
			out = append(out, fmt.Sprintf("tz:%d", it.id("z:"+str("timezone"))))
		case "contact_urns_changed":
			var us []string
			json.Unmarshal(m["urns"], &us)
			var enc []string
			for _, u := range us {
				enc = append(enc, fmt.Sprintf("%d~%d", it.id("id:"+urns.URN(u).Identity().String()), it.id("urn:"+u)))
			}
			out = append(out, "urns:"+encList(enc, ";"))
		case "contact_field_changed":
			var f struct{ Key string }
			json.Unmarshal(m["field"], &f)
			v := "-"
			if m["value"] != nil && string(m["value"]) != "null" {
				var compact any
				json.Unmarshal(m["value"], &compact)
				cb, _ := json.Marshal(compact)
				v = fmt.Sprint(it.id("v:" + string(cb)))
			}
			out = append(out, fmt.Sprintf("field:%d:%s", it.id("f:"+f.Key), v))
		case "contact_groups_changed":
			var added, removed []struct{ UUID string }
			json.Unmarshal(m["groups_added"], &added)
			json.Unmarshal(m["groups_removed"], &removed)
			var a, r []string
			for _, g := range added {
				a = append(a, fmt.Sprint(it.id("g:"+g.UUID)))
			}
			for _, g := range removed {
				r = append(r, fmt.Sprint(it.id("g:"+g.UUID)))
			}
			out = append(out, "groups:"+encList(a, ";")+"/"+encList(r, ";"))
		case "ticket_opened":
			var t struct{ UUID string }
			json.Unmarshal(m["ticket"], &t)
			out = append(out, fmt.Sprintf("ticket:%d", it.id("t:"+t.UUID)))
		case "error":
			out = append(out, "err")
		default:
			out = append(out, "other")
		}
	}
	return encList(out, ",")
}

type modCase struct {
	kind string
	mod  flows.Modifier
	op   string // model op arguments (after the contact), "" = not modelled
	desc string
}

func genModifier(r *Rng, sa flows.SessionAssets, env envs.Environment, c *flows.Contact, it *internTable, maxField int) modCase {
	lim := func(s string) string {
		rs := []rune(s)
		l := maxField
		if l < 0 {
			l = 0
		}
		if len(rs) > l {
			rs = rs[:l]
		}
		return string(rs)
	}
	switch r.Intn(9) {
	case 0:
		name := Pick(r, []string{"", "Bob", c.Name(), "Ann Lee", strings.Repeat("é", maxField), strings.Repeat("é", maxField+1), strings.Repeat("中", maxField-1) + "ab", strings.Repeat("x", 700)})
		return modCase{"name", modifiers.NewName(name), "name " + hx(lim(name)), fmt.Sprintf("name(%d runes)", runeLen(name))}
	case 1:
		l := Pick(r, []string{"", "eng", "fra", "spa"})
		return modCase{"language", modifiers.NewLanguage(i18n.Language(l)), fmt.Sprintf("language %d", it.id("l:"+l)), "language " + l}
	case 2:
		s := Pick(r, []string{"active", "blocked", "stopped", "archived"})
		return modCase{"status", modifiers.NewStatus(flows.ContactStatus(s)), "status " + s, "status " + s}
	case 3:
		tz := Pick(r, []string{"America/Bogota", "Africa/Kigali", "Asia/Kolkata"})
		loc, _ := time.LoadLocation(tz)
		return modCase{"timezone", modifiers.NewTimezone(loc), fmt.Sprintf("timezone %d", it.id("z:"+tz)), "timezone " + tz}
	case 4:
		key := Pick(r, []string{"gender", "age", "joined", "nick", "gender", "age", "joined", "nick", "state", "district", "ward"})
		val := Pick(r, []string{"Kigali City", "Rwanda > Kigali City > Gasabo", "Rwanda > Kigali City > Gasabo > Gisozi", "Gasabo", "Gisozi", "Rwanda > Eastern Province > Rwamagana", "", "male", "Male", "18", "40.5", "abc", "2022-01-01T00:00:00Z", strings.Repeat("é", maxField+2), strings.Repeat("é", maxField), "x", "37.50", "2018-05-01T10:30:00.000000-05:00"})
		// the text the field already has (the contact was read from its stored form): nothing changes
		if fv := c.Fields()[key]; fv != nil && fv.Value != nil && fv.Text != nil && r.Chance(35) {
			val = fv.Text.Native()
		}
		f := sa.Fields().Get(key)
		return modCase{"field", modifiers.NewField(f, val), "", fmt.Sprintf("field %s=%q", key, truncate(val, 20))}
	case 5:
		add := r.Bool()
		var gs []*flows.Group
		var ids []string
		pool := append(append([]string{}, staticGroupUUIDs...), queryGroupUUIDs[:3]...)
		for i, k := 0, r.Range(1, 4); i < k; i++ {
			u := Pick(r, pool)
			gs = append(gs, sa.Groups().Get(assets.GroupUUID(u)))
			ids = append(ids, fmt.Sprint(it.id("g:"+u)))
		}
		var qids []string
		for _, q := range queryGroupUUIDs {
			qids = append(qids, fmt.Sprint(it.id("g:"+q)))
		}
		m := modifiers.GroupsAdd
		w := "add"
		if !add {
			m, w = modifiers.GroupsRemove, "remove"
		}
		return modCase{"groups", modifiers.NewGroups(gs, m), fmt.Sprintf("groups %s %s %s", w, strings.Join(qids, ","), strings.Join(ids, ",")), "groups " + w + " " + strings.Join(ids, ",")}
	case 6:
		m := Pick(r, []modifiers.URNsModification{modifiers.URNsAppend, modifiers.URNsRemove, modifiers.URNsSet})
		var us []urns.URN
		var enc []string
		pool := []string{"tel:+12065550100", "tel:+12065550199", "tel:+250788123123", "twitter:bobby", "twitter:ann", "mailto:a@b.com", "tel:+1 (206) 555-0100", "xyz:1", "tel:", "twitter:Bobby"}
		if r.Chance(30) {
			// the contact's own URNs in their own order
			for _, u := range c.URNs() {
				pool = append([]string{string(u.URN())}, pool...)
			}
		}
		k := r.Range(1, 4)
		if r.Chance(20) {
			for _, u := range c.URNs() {
				us = append(us, u.URN())
			}
			k = 0
		}
		for i := 0; i < k; i++ {
			us = append(us, urns.URN(Pick(r, pool)))
		}
		for _, u := range us {
			n := u.Normalize()
			if n.Validate() != nil {
				enc = append(enc, "x")
			} else {
				enc = append(enc, fmt.Sprintf("%d~%d", it.id("id:"+n.Identity().String()), it.id("urn:"+string(n))))
			}
		}
		return modCase{"urns", modifiers.NewURNs(us, m), fmt.Sprintf("urns %s %s", m, encList(enc, ",")), fmt.Sprintf("urns %s %v", m, us)}
	case 7:
		var ch *flows.Channel
		if u := Pick(r, []string{"", "57f1078f-88aa-46f4-a59a-948a5739c03d", "3a05eaf5-cb1b-4246-bef1-f277419c83a7", "8e21f093-99aa-413b-b55b-758b54308fcb", "4bb288a0-7fca-4da1-abe8-59a593aff648"}); u != "" {
			ch = sa.Channels().Get(assets.ChannelUUID(u))
		}
		return modCase{"channel", modifiers.NewChannel(ch), "", "channel"}
	default:
		topic := sa.Topics().Get("472a7a73-96cb-4736-b567-056d987cc5b4")
		return modCase{"ticket", modifiers.NewTicket(topic, nil, "note"), "", "ticket"}
	}
}

func runC03(c *Ctx) {
	r := c.Rng
	envUTC := envs.NewBuilder().WithAllowedLanguages("eng", "fra").WithDefaultCountry("US").Build()
	guayaquil, _ := time.LoadLocation("America/Guayaquil")
	envLocal := envs.NewBuilder().WithAllowedLanguages("eng", "fra").WithDefaultCountry("US").WithTimezone(guayaquil).Build()
	sa, err := contactAssets(envUTC, "")
	if err != nil {
		c.Fail("monitor", "harness", "assets", "contact assets rejected: "+err.Error(), nil)
		return
	}
	// ---- modifier level -------------------------------------------------------------------------
	// corpus first: a field set to the text it already has, on a contact read from its stored form - numbers with trailing
	// zeros, instants written with a zone offset, in an environment in UTC and in one that is not
	type c03Case struct {
		cj, key, val string
		local        bool
	}
	var corpus []c03Case
	for _, local := range []bool{false, true} {
		for _, fv := range [][3]string{{"age", "37.50", `"number": 37.50`}, {"age", "18.0", `"number": 18.0`}, {"age", "40.5", `"number": 40.5`},
			{"joined", "2018-05-01T10:30:00.000000-05:00", `"datetime": "2018-05-01T10:30:00.000000-05:00"`}, {"joined", "2021-07-01T23:30:00+02:00", `"datetime": "2021-07-01T23:30:00+02:00"`},
			{"joined", "2022-01-01T00:00:00Z", `"datetime": "2022-01-01T00:00:00Z"`}, {"gender", "male", `"text": "male"`}} {
			corpus = append(corpus, c03Case{fmt.Sprintf(`{"uuid": "5d76d86b-3bb9-4d5a-b822-c9d86f5d8e4f", "id": 1234, "name": "Cy", "status": "active", "created_on": "2023-01-02T03:04:05Z", "fields": {%q: {"text": %q, %s}}}`,
				fv[0], fv[1], fv[2]), fv[0], fv[1], local})
		}
	}
	n := c.N(6000, 300000)
	for i := 0; i < n+len(corpus); i++ {
		env := envUTC
		if i%3 == 2 {
			env = envLocal
		}
		maxField := Pick(r, []int{4, 10, 640})
		cj := genContactJSON(r, r.Chance(60))
		if i < len(corpus) {
			cj, maxField, env = []byte(corpus[i].cj), 640, envUTC
			if corpus[i].local {
				env = envLocal
			}
		}
		eng := engine.NewBuilder().WithMaxFieldChars(maxField).Build()
		contact, err := readContact(sa, cj, env, false)
		if err != nil {
			c.Count("C03-contact-rejected")
			continue
		}
		if i < len(corpus) || i%4 == 1 {
			// the contact as the engine itself stores it (numbers and instants in its own normal form), read back
			if stored, err := json.Marshal(contact); err == nil {
				if again, err := readContact(sa, stored, env, false); err == nil {
					contact, cj = again, stored
				}
			}
		}
		it := &internTable{}
		mc := genModifier(r, sa, env, contact, it, maxField)
		if i < len(corpus) {
			mc = modCase{"field", modifiers.NewField(sa.Fields().Get(corpus[i].key), corpus[i].val), "", fmt.Sprintf("field %s=%q (the text it has)", corpus[i].key, corpus[i].val)}
		}
		desc := map[string]any{"contact": json.RawMessage(cj), "modifier": mc.desc, "max_field_chars": maxField, "timezone": env.Timezone().String()}
		mj, _ := json.Marshal(mc.mod)
		desc["modifier_json"] = json.RawMessage(mj)

		// K: the modifier's own Apply (without the group re-evaluation) against the model
		if mc.op != "" {
			k := contact.Clone()
			var kevs []flows.Event
			var kmod bool
			if !c.Guard("C03-K", "panic:modifier", desc, func() { kmod = mc.mod.Apply(eng, env, sa, k, func(e flows.Event) { kevs = append(kevs, e) }) }) {
				pre := encContact(contact, it)
				c.Model("cmod:"+mc.kind, "cmod "+pre+" "+mc.op, fmt.Sprintf("%s %s %v", encContact(k, it), encEvents(kevs, it), kmod), desc)
			}
		}

		before, _ := viewOf(contact)
		var evs []flows.Event
		var modified bool
		if c.Guard("C03-M", "panic:modifier", desc, func() { modified = modifiers.Apply(eng, env, sa, contact, mc.mod, func(e flows.Event) { evs = append(evs, e) }) }) {
			continue
		}
		after, _ := viewOf(contact)
		replayed := replayEvents(before, evs, "")
		changed := before.canon() != after.canon()
		hasChangeEvent := false
		var evTypes []string
		for _, e := range evs {
			evTypes = append(evTypes, e.Type())
			if isChangeEvent(e.Type()) {
				hasChangeEvent = true
			}
		}
		c.Eval(fmt.Sprintf("%s|%v|%v|%s", mc.kind, modified, changed, strings.Join(evTypes, ",")))
		c.Count("check:M-modifier:" + mc.kind)
		d2 := func() map[string]any {
			x := map[string]any{}
			for k, v := range desc {
				x[k] = v
			}
			x["before"], x["after"], x["replayed"], x["events"], x["modified"] = before.canon(), after.canon(), replayed.canon(), evTypes, modified
			return x
		}
		if replayed.canon() != after.canon() {
			c.Fail("monitor", "M-replay", "replay-differs:"+mc.kind, "replaying the emitted events over the contact as it was does not reproduce the contact afterwards", d2())
		}
		if modified != changed {
			c.Fail("monitor", "M-modified-iff", "modified-flag:"+mc.kind, fmt.Sprintf("the modifier reported modified=%v but the contact changed=%v", modified, changed), d2())
		}
		if modified != hasChangeEvent {
			c.Fail("monitor", "M-event-iff", "change-event:"+mc.kind, fmt.Sprintf("modified=%v but a change event was emitted=%v", modified, hasChangeEvent), d2())
		}
		// second application
		var evs2 []flows.Event
		var modified2 bool
		if c.Guard("C03-M2", "panic:modifier", desc, func() { modified2 = modifiers.Apply(eng, env, sa, contact, mc.mod, func(e flows.Event) { evs2 = append(evs2, e) }) }) {
			continue
		}
		after2, _ := viewOf(contact)
		change2 := false
		for _, e := range evs2 {
			if isChangeEvent(e.Type()) {
				change2 = true
			}
		}
		if modified2 || change2 || after2.canon() != after.canon() {
			x := d2()
			x["after_second"], x["modified_second"] = after2.canon(), modified2
			c.Fail("monitor", "M-idempotent", "second-application:"+mc.kind, "applying the same modifier a second time changed or reported something", x)
		}
		if i < 3 {
			c.Sample(map[string]any{"modifier": mc.desc, "before": before.canon(), "after": after.canon(), "events": evTypes, "modified": modified})
		}
	}

	// ---- sprint level ---------------------------------------------------------------------------
	n = c.N(400, 20000)
	for i := 0; i < n; i++ {
		runContactSprintCase(c, r, i, "C03")
	}
	// ---- K: the channel modifier against its model ----
	c03ChannelMod(c)
}

// a flow of contact-changing actions run under a msg trigger and msg resumes: the sprint's contact events must replay to
// the contact afterwards (C03) and query-based groups must be right whenever the session is handed back (C06)
func runContactSprintCase(c *Ctx, r *Rng, i int, prop string) {
	env := envs.NewBuilder().WithAllowedLanguages("eng", "fra").WithDefaultCountry("US").Build()
	us := &uuidSeq{n: 500000 + i*100}
	palette := []func() map[string]any{
		func() map[string]any { return map[string]any{"type": "set_contact_name", "name": Pick(r, []string{"Bob", "@input.text", "", "Bobby Tables"})} },
		func() map[string]any { return map[string]any{"type": "set_contact_language", "language": Pick(r, []string{"fra", "eng", ""})} },
		func() map[string]any {
			return map[string]any{"type": "set_contact_field", "field": map[string]any{"key": Pick(r, []string{"gender", "age", "nick"}), "name": "F"}, "value": Pick(r, []string{"male", "18", "17", "x", "@input.text", ""})}
		},
		func() map[string]any {
			return map[string]any{"type": "add_contact_groups", "groups": []map[string]any{{"uuid": Pick(r, staticGroupUUIDs), "name": "G"}, {"uuid": Pick(r, staticGroupUUIDs), "name": "G"}}}
		},
		func() map[string]any {
			return map[string]any{"type": "remove_contact_groups", "groups": []map[string]any{{"uuid": Pick(r, staticGroupUUIDs), "name": "G"}}, "all_groups": r.Chance(20)}
		},
		func() map[string]any { return map[string]any{"type": "add_contact_urn", "scheme": Pick(r, []string{"tel", "twitter"}), "path": Pick(r, []string{"+12065550123", "bobby", "@input.text"})} },
		func() map[string]any { return map[string]any{"type": "set_contact_status", "status": Pick(r, []string{"active", "blocked", "stopped", "archived"})} },
		func() map[string]any { return map[string]any{"type": "set_contact_timezone", "timezone": Pick(r, []string{"Africa/Kigali", "America/Bogota"})} },
		func() map[string]any { return map[string]any{"type": "set_contact_channel", "channel": map[string]any{"uuid": Pick(r, []string{"57f1078f-88aa-46f4-a59a-948a5739c03d", "3a05eaf5-cb1b-4246-bef1-f277419c83a7"}), "name": "C"}} },
		func() map[string]any { return map[string]any{"type": "open_ticket", "body": "help", "result_name": "Ticket", "topic": map[string]any{"uuid": "472a7a73-96cb-4736-b567-056d987cc5b4", "name": "Weather"}} },
		func() map[string]any { return map[string]any{"type": "send_msg", "text": "hi @contact.name"} },
	}
	mkActions := func() []map[string]any {
		var as []map[string]any
		for k, m := 0, r.Range(1, 4); k < m; k++ {
			a := Pick(r, palette)()
			a["uuid"] = us.next()
			if a["type"] == "remove_contact_groups" && a["all_groups"] == true {
				a["groups"] = []map[string]any{}
			}
			as = append(as, a)
		}
		return as
	}
	n1, n2, n3 := us.next(), us.next(), us.next()
	e1, e2, e3 := us.next(), us.next(), us.next()
	cu := us.next()
	flowUUID := us.next()
	def := map[string]any{"uuid": flowUUID, "name": "Contact", "spec_version": "13.6.0", "language": "eng", "type": "messaging", "revision": 1, "expire_after_minutes": 60, "localization": map[string]any{},
		"nodes": []map[string]any{
			{"uuid": n1, "actions": mkActions(), "exits": []map[string]any{{"uuid": e1, "destination_uuid": n2}}},
			{"uuid": n2, "router": map[string]any{"type": "switch", "wait": map[string]any{"type": "msg", "timeout": map[string]any{"seconds": 600, "category_uuid": cu}}, "operand": "@input.text", "cases": []any{}, "default_category_uuid": cu,
				"categories": []map[string]any{{"uuid": cu, "name": "All", "exit_uuid": e2}}}, "exits": []map[string]any{{"uuid": e2, "destination_uuid": n3}}},
			{"uuid": n3, "actions": mkActions(), "exits": []map[string]any{{"uuid": e3, "destination_uuid": n2}}},
		}}
	fj, _ := json.Marshal([]any{def})
	sa, err := contactAssets(env, string(fj))
	if err != nil {
		c.Count(prop + "-assets-rejected")
		c.Notes = appendNote(c.Notes, "assets rejected: "+truncate(err.Error(), 200))
		return
	}
	cj := genContactJSON(r, false)
	useMsgTrigger := r.Chance(60)
	desc := map[string]any{"flow": json.RawMessage(fj), "contact": json.RawMessage(cj), "msg_trigger": useMsgTrigger, "seed": i}
	c.Guard(prop+"-sprint", "panic:sprint", desc, func() {
		restore := setDeterministic(int64(i))
		defer restore()
		contact, err := readContact(sa, cj, env, false)
		if err != nil {
			c.Count(prop + "-contact-rejected")
			return
		}
		eng := engine.NewBuilder().Build()
		tb := triggers.NewBuilder(env, assets.NewFlowReference(assets.FlowUUID(flowUUID), "Contact"), contact)
		var trig flows.Trigger
		if useMsgTrigger {
			trig = tb.Msg(flows.NewMsgIn("0d1c5a36-fff5-4a0f-a2c7-02f7c7f3c4a8", "tel:+12065550100", nil, "hello", nil)).Build()
		} else {
			trig = tb.Manual().Build()
		}
		before, _ := viewOf(contact)
		s, sp, err := eng.NewSession(sa, trig)
		if err != nil {
			c.Count(prop + "-go-error")
			c.Notes = appendNote(c.Notes, "go error: "+truncate(err.Error(), 200))
			return
		}
		check := func(call string, before *contactView, sp flows.Sprint, seen string) {
			after, _ := viewOf(s.Contact())
			if prop == "C03" {
				replayed := replayEvents(before, sp.Events(), seen)
				c.Eval(fmt.Sprintf("sprint|%s|%d|%v", call, len(sp.Events()), before.canon() != after.canon()))
				c.Count("check:M-sprint-replay")
				if replayed.canon() != after.canon() {
					d := map[string]any{"call": call, "before": before.canon(), "after": after.canon(), "replayed": replayed.canon()}
					for k, v := range desc {
						d[k] = v
					}
					sig := "sprint-replay-differs"
					if replayed.LastSeen != after.LastSeen {
						sig = "sprint-replay-differs:last-seen"
					}
					c.Fail("monitor", "M-sprint-replay", sig, "replaying the sprint's contact events over the contact as it was does not reproduce the session contact afterwards", d)
				}
			} else {
				fails := groupInvFailures(sa, s.MergedEnvironment(), s.Contact())
				c.Eval(fmt.Sprintf("sprint|%s|%s|%d", call, s.Contact().Status(), s.Contact().Groups().Count()))
				c.Count("check:M-sprint-groups")
				if len(fails) > 0 {
					d := map[string]any{"call": call, "contact_after": after.canon(), "wrong": fails}
					for k, v := range desc {
						d[k] = v
					}
					sig := "sprint-group-membership"
					if call == "start" && useMsgTrigger && strings.Contains(strings.Join(fails, ";"), "Seen") {
						sig = "sprint-group-membership:last-seen-on-msg-trigger"
					}
					c.Fail("monitor", "M-sprint-groups", sig, "the session was handed back with wrong group membership: "+strings.Join(fails, "; "), d)
				}
			}
		}
		seen := ""
		if useMsgTrigger {
			seen = trig.TriggeredOn().UTC().Format(time.RFC3339Nano)
		}
		check("start", before, sp, seen)
		tokyo, _ := time.LoadLocation("Asia/Tokyo")
		for k := 0; k < 3 && s.Status() == flows.SessionStatusWaiting; k++ {
			call := "resume"
			if prop == "C06" && r.Chance(40) {
				// the host stored the session and reads it back; what it stored as the contact's membership of query-based groups may be
				// stale or wrong (the statement's "stored membership is already wrong"): the hand-back after the resume must be right
				sj, err := json.Marshal(s)
				if err != nil {
					return
				}
				var sm map[string]any
				json.Unmarshal(sj, &sm)
				if cm, ok := sm["contact"].(map[string]any); ok && r.Chance(70) {
					var gs []any
					has := map[string]bool{}
					if old, ok := cm["groups"].([]any); ok {
						for _, g := range old {
							if r.Chance(70) {
								gs = append(gs, g)
								if gm, ok := g.(map[string]any); ok {
									has[fmt.Sprint(gm["uuid"])] = true
								}
							}
						}
					}
					for _, q := range queryGroupUUIDs {
						if r.Chance(20) && !has[q] {
							gs = append(gs, map[string]any{"uuid": q, "name": "q"})
						}
					}
					if cm["status"] != "active" {
						gs = nil
					}
					cm["groups"] = gs
					call += "+stored-membership-edited"
				}
				sj, _ = json.Marshal(sm)
				s2, err := eng.ReadSession(sa, sj, assets.IgnoreMissing)
				if err != nil {
					c.Count(prop + "-session-not-read")
					return
				}
				s = s2
			}
			before, _ = viewOf(s.Contact())
			var renv envs.Environment
			if prop == "C06" && r.Chance(30) {
				// the resume brings a refreshed environment: the same query can now say something else (dates are read in its zone)
				renv = envs.NewBuilder().WithAllowedLanguages("eng", "fra").WithDefaultCountry("US").WithTimezone(tokyo).Build()
				call += "+env"
			}
			var res flows.Resume
			seenOn := ""
			kind := 0
			if prop == "C06" {
				kind = r.Intn(5)
			}
			switch kind {
			case 3:
				res = resumes.NewWaitTimeout(renv, nil)
				call += ":wait_timeout"
			case 4:
				res = resumes.NewRunExpiration(renv, nil)
				call += ":run_expiration"
			default:
				res = resumes.NewMsg(renv, nil, flows.NewMsgIn(flows.MsgUUID(us.next()), "tel:+12065550100", nil, Pick(r, []string{"Bob", "male", "18", "x"}), nil))
				seenOn = res.ResumedOn().UTC().Format(time.RFC3339Nano)
			}
			sp, err := s.Resume(res)
			if err != nil {
				c.Count(prop + "-resume-rejected")
				return
			}
			check(call, before, sp, seenOn)
		}
	})
}

// ---------------------------------------------------------------------------------------------------------------------
// K:chanmod — the channel modifier against its model (Contact/Channel.lean): every shape of URN list (four schemes, with and
// without affinity to any of the channels, also to channels of another scheme) x every channel (one that cannot send, ones for
// one and for several schemes, none), applied twice
// ---------------------------------------------------------------------------------------------------------------------

const c03ChannelAssets = `{
  "channels": [
    {"uuid": "c0000000-0000-4000-8000-000000000001", "name": "Android", "address": "+17036975131", "schemes": ["tel"], "roles": ["send", "receive"]},
    {"uuid": "c0000000-0000-4000-8000-000000000002", "name": "Inbound", "address": "+17036975132", "schemes": ["tel"], "roles": ["receive"]},
    {"uuid": "c0000000-0000-4000-8000-000000000003", "name": "Social", "address": "nyaruka", "schemes": ["twitter", "whatsapp"], "roles": ["send", "receive"]},
    {"uuid": "c0000000-0000-4000-8000-000000000004", "name": "Multi", "address": "+17036975134", "schemes": ["tel", "whatsapp"], "roles": ["send", "receive"]},
    {"uuid": "c0000000-0000-4000-8000-000000000005", "name": "Facebook", "address": "1234", "schemes": ["facebook"], "roles": ["send"]}
  ]
}`

func c03ChannelMod(c *Ctx) {
	r := c.Rng
	src, err := static.NewSource([]byte(c03ChannelAssets))
	if err != nil {
		c.Fail("monitor", "harness", "channel-assets", "channel modifier assets rejected: "+err.Error(), nil)
		return
	}
	env := envs.NewBuilder().Build()
	sa, err := engine.NewSessionAssets(env, src, nil)
	if err != nil {
		c.Fail("monitor", "harness", "channel-assets", "channel modifier assets rejected: "+err.Error(), nil)
		return
	}
	eng := engine.NewBuilder().Build()
	schemes := []string{"tel", "twitter", "facebook", "whatsapp"}
	schemeID := map[string]int{"tel": 0, "twitter": 1, "facebook": 2, "whatsapp": 3}
	chanUUID := func(i int) string { return fmt.Sprintf("c0000000-0000-4000-8000-%012d", i) }
	chanSpec := map[int]string{1: "1:1:0", 2: "2:0:0", 3: "3:1:1,3", 4: "4:1:0,3", 5: "5:1:2"}
	path := func(scheme string, k int) string {
		switch scheme {
		case "tel":
			return fmt.Sprintf("+1206555000%d", k)
		case "twitter":
			return fmt.Sprintf("user%d", k)
		case "facebook":
			return fmt.Sprintf("10%d", k)
		}
		return fmt.Sprintf("1206555111%d", k)
	}
	show := func(cn *flows.Contact) string {
		var out []string
		for _, u := range cn.URNs() {
			s := u.URN().Scheme()
			k := int(u.URN().Path()[len(u.URN().Path())-1] - '0')
			ch := "-"
			if u.Channel() != nil {
				ch = fmt.Sprint(int(u.Channel().UUID()[len(u.Channel().UUID())-1] - '0'))
			}
			// the URN's own text must say the same channel as the object
			q, _ := u.URN().Query()
			if (u.Channel() == nil) != (q.Get("channel") == "") || (u.Channel() != nil && q.Get("channel") != string(u.Channel().UUID())) {
				ch += "!text-says-" + q.Get("channel")
			}
			out = append(out, fmt.Sprintf("%d:%d:%s", schemeID[s], k, ch))
		}
		if len(out) == 0 {
			return "_"
		}
		return strings.Join(out, ";")
	}
	for i := 0; i < c.N(3000, 120000); i++ {
		n := r.Intn(5)
		var raw []urns.URN
		for k := 0; k < n; k++ {
			s := Pick(r, schemes)
			u := s + ":" + path(s, k)
			if r.Chance(55) {
				u += "?channel=" + chanUUID(r.Range(1, 5))
			}
			raw = append(raw, urns.URN(u))
		}
		chIdx := r.Intn(6) // 0 = no channel
		desc := map[string]any{"urns": raw, "channel": chIdx}
		var line1, line2, before string
		if c.Guard("K-chanmod", "panic:channel-modifier", desc, func() {
			contact, err := flows.NewContact(sa, "5d76d86b-3bb9-4d5a-b822-c9d86f5d8e4f", 7, "Ann", "eng", flows.ContactStatusActive, nil, time.Date(2020, 1, 1, 0, 0, 0, 0, time.UTC), nil, raw, nil, nil, nil, assets.PanicOnMissing)
			if err != nil {
				return
			}
			before = show(contact)
			var ch *flows.Channel
			if chIdx > 0 {
				ch = sa.Channels().Get(assets.ChannelUUID(chanUUID(chIdx)))
			}
			apply := func() string {
				var evs []flows.Event
				mod := modifiers.NewChannel(ch).Apply(eng, env, sa, contact, func(e flows.Event) { evs = append(evs, e) })
				ev := "none"
				switch {
				case len(evs) > 1:
					ev = "several"
				case len(evs) == 1 && evs[0].Type() == "error":
					ev = "error"
				case len(evs) == 1 && evs[0].Type() == "contact_urns_changed":
					ev = "changed"
					b, _ := json.Marshal(evs[0])
					var got struct {
						URNs []urns.URN `json:"urns"`
					}
					json.Unmarshal(b, &got)
					if fmt.Sprint(got.URNs) != fmt.Sprint(contact.URNs().RawURNs()) {
						ev = "changed-with-another-list"
					}
				case len(evs) == 1:
					ev = evs[0].Type()
				}
				m := 0
				if mod {
					m = 1
				}
				return fmt.Sprintf("mod=%d ev=%s urns=%s", m, ev, show(contact))
			}
			line1 = apply()
			mid := show(contact)
			line2 = mid + "|" + apply()
		}) || before == "" {
			continue
		}
		spec := "-"
		if chIdx > 0 {
			spec = chanSpec[chIdx]
		}
		desc["before"], desc["first_application"] = before, line1
		c.Eval(fmt.Sprintf("chanmod|%d|%d|%s", n, chIdx, strings.SplitN(line1, " urns=", 2)[0]))
		c.Model("chanmod", fmt.Sprintf("chanmod %s %s", spec, before), line1, desc)
		parts := strings.SplitN(line2, "|", 2)
		c.Model("chanmod", fmt.Sprintf("chanmod %s %s", spec, parts[0]), parts[1], desc)
		// M: the second application changes and reports nothing
		c.Count("check:M-idempotent-channel")
		if !strings.HasPrefix(parts[1], "mod=0 ") || strings.Contains(parts[1], "ev=changed") || !strings.HasSuffix(parts[1], "urns="+parts[0]) {
			desc["second_application"] = parts[1]
			c.Fail("monitor", "M-idempotent", "channel-modifier-not-idempotent", "the channel modifier applied a second time changes or reports something", desc)
		}
	}
}
