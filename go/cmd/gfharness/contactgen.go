package main

import (
	"github.com/nyaruka/goflow/contactql"
	"encoding/json"
	"fmt"
	"sort"
	"strings"

	"github.com/nyaruka/goflow/assets"
	"github.com/nyaruka/goflow/assets/static"
	"github.com/nyaruka/goflow/envs"
	"github.com/nyaruka/goflow/flows"
	"github.com/nyaruka/goflow/flows/engine"
)

// assets for the contact properties (C03, C06, C19): static and query-based groups over every queryable
// property, fields of every type, two tel channels and a twitter channel, topics, users
const contactAssetsJSON = `{
 "channels": [
  {"uuid": "57f1078f-88aa-46f4-a59a-948a5739c03d", "name": "Android", "address": "+17036975131", "schemes": ["tel"], "roles": ["send", "receive"], "country": "US"},
  {"uuid": "3a05eaf5-cb1b-4246-bef1-f277419c83a7", "name": "Nexmo", "address": "+16055742523", "schemes": ["tel"], "roles": ["send", "receive"], "country": "US"},
  {"uuid": "8e21f093-99aa-413b-b55b-758b54308fcb", "name": "Twitter", "address": "nyaruka", "schemes": ["twitter"], "roles": ["send", "receive"]},
  {"uuid": "4bb288a0-7fca-4da1-abe8-59a593aff648", "name": "Receive Only", "address": "+16055740001", "schemes": ["tel"], "roles": ["receive"]}
 ],
 "fields": [
  {"uuid": "d66a7823-eada-40e5-9a3a-57239d4690bf", "key": "gender", "name": "Gender", "type": "text"},
  {"uuid": "f1b5aea6-6586-41c7-9020-1a6326cc6565", "key": "age", "name": "Age", "type": "number"},
  {"uuid": "6c86d5ab-3fd9-4a5c-a5b6-48168b016747", "key": "joined", "name": "Joined", "type": "datetime"},
  {"uuid": "c88d2640-d124-438a-b666-5ec53a353dcd", "key": "nick", "name": "Nick", "type": "text"},
  {"uuid": "1c2f7a34-6d2b-4c18-9a3e-5b0c2d7e1a01", "key": "state", "name": "State", "type": "state"},
  {"uuid": "1c2f7a34-6d2b-4c18-9a3e-5b0c2d7e1a02", "key": "district", "name": "District", "type": "district"},
  {"uuid": "1c2f7a34-6d2b-4c18-9a3e-5b0c2d7e1a03", "key": "ward", "name": "Ward", "type": "ward"}
 ],
 "locations": [{"name": "Rwanda", "aliases": ["Ruanda"], "children": [
   {"name": "Kigali City", "aliases": ["Kigali"], "children": [{"name": "Gasabo", "children": [{"name": "Gisozi"}, {"name": "Ndera"}]}, {"name": "Nyarugenge", "children": []}]},
   {"name": "Eastern Province", "children": [{"name": "Rwamagana", "children": [{"name": "Bicumbi"}]}]}]}],
 "groups": [
  {"uuid": "b7cf0d83-f1c9-411c-96fd-c511a4cfa86d", "name": "Testers"},
  {"uuid": "4f1f98fc-27a7-4a69-bbdb-24744ba739a9", "name": "Males"},
  {"uuid": "0ec97956-c451-48a0-a180-1ce766623e31", "name": "Customers"},
  {"uuid": "a5c50365-11d6-412b-b48f-53783b2a7803", "name": "Q Name Bob", "query": "name ~ Bob"},
  {"uuid": "b1ddac3c-3a7e-4a96-8e5b-c0c3a1e7e7a1", "name": "Q French", "query": "language = fra"},
  {"uuid": "c2ddac3c-3a7e-4a96-8e5b-c0c3a1e7e7a2", "name": "Q Has Tel", "query": "tel != \"\""},
  {"uuid": "d3ddac3c-3a7e-4a96-8e5b-c0c3a1e7e7a3", "name": "Q Twitter", "query": "twitter = bobby"},
  {"uuid": "e4ddac3c-3a7e-4a96-8e5b-c0c3a1e7e7a4", "name": "Q Male Adults", "query": "gender = male AND age >= 18"},
  {"uuid": "f5ddac3c-3a7e-4a96-8e5b-c0c3a1e7e7a5", "name": "Q Seen", "query": "last_seen_on != \"\""},
  {"uuid": "a6ddac3c-3a7e-4a96-8e5b-c0c3a1e7e7a6", "name": "Q Never Seen", "query": "last_seen_on = \"\""},
  {"uuid": "b7ddac3c-3a7e-4a96-8e5b-c0c3a1e7e7a7", "name": "Q Tickets", "query": "tickets > 0"},
  {"uuid": "c8ddac3c-3a7e-4a96-8e5b-c0c3a1e7e7a8", "name": "Q Old", "query": "created_on < 2020-01-01 OR joined > 2021-06-01"},
  {"uuid": "d9ddac3c-3a7e-4a96-8e5b-c0c3a1e7e7a9", "name": "Q No Name Or Nick", "query": "name = \"\" OR nick = x"},
  {"uuid": "e1ddac3c-3a7e-4a96-8e5b-c0c3a1e7e7b1", "name": "Q State Kigali", "query": "state = \"Kigali City\""},
  {"uuid": "e2ddac3c-3a7e-4a96-8e5b-c0c3a1e7e7b2", "name": "Q State Gasabo", "query": "state = Gasabo"},
  {"uuid": "e3ddac3c-3a7e-4a96-8e5b-c0c3a1e7e7b3", "name": "Q District Gasabo", "query": "district = Gasabo"},
  {"uuid": "e4ddac3c-3a7e-4a96-8e5b-c0c3a1e7e7b4", "name": "Q District Gisozi", "query": "district = Gisozi"},
  {"uuid": "e5ddac3c-3a7e-4a96-8e5b-c0c3a1e7e7b5", "name": "Q Ward Gisozi", "query": "ward = Gisozi"}
 ],
 "topics": [{"uuid": "0d9a2c56-6fc2-4f27-93c5-a6322e26b740", "name": "General"}, {"uuid": "472a7a73-96cb-4736-b567-056d987cc5b4", "name": "Weather"}],
 "users": [{"email": "bob@nyaruka.com", "name": "Bob"}],
 "labels": [{"uuid": "3f65d88a-95dc-4140-9451-943e94e06fea", "name": "Spam"}],
 "flows": %s
}`

var staticGroupUUIDs = []string{"b7cf0d83-f1c9-411c-96fd-c511a4cfa86d", "4f1f98fc-27a7-4a69-bbdb-24744ba739a9", "0ec97956-c451-48a0-a180-1ce766623e31"}
var queryGroupUUIDs = []string{"a5c50365-11d6-412b-b48f-53783b2a7803", "b1ddac3c-3a7e-4a96-8e5b-c0c3a1e7e7a1", "c2ddac3c-3a7e-4a96-8e5b-c0c3a1e7e7a2",
	"d3ddac3c-3a7e-4a96-8e5b-c0c3a1e7e7a3", "e4ddac3c-3a7e-4a96-8e5b-c0c3a1e7e7a4", "f5ddac3c-3a7e-4a96-8e5b-c0c3a1e7e7a5", "a6ddac3c-3a7e-4a96-8e5b-c0c3a1e7e7a6",
	"b7ddac3c-3a7e-4a96-8e5b-c0c3a1e7e7a7", "c8ddac3c-3a7e-4a96-8e5b-c0c3a1e7e7a8", "d9ddac3c-3a7e-4a96-8e5b-c0c3a1e7e7a9",
	"e1ddac3c-3a7e-4a96-8e5b-c0c3a1e7e7b1", "e2ddac3c-3a7e-4a96-8e5b-c0c3a1e7e7b2", "e3ddac3c-3a7e-4a96-8e5b-c0c3a1e7e7b3", "e4ddac3c-3a7e-4a96-8e5b-c0c3a1e7e7b4", "e5ddac3c-3a7e-4a96-8e5b-c0c3a1e7e7b5"}

// location-typed fields are searched by the name of the location at the field's own level, whatever deeper level the stored
// value was resolved to: (group, field, level, name) - the statement's oracle for these groups, independent of QueryValue
var locationGroups = []struct{ uuid, field, level, name string }{
	{"e1ddac3c-3a7e-4a96-8e5b-c0c3a1e7e7b1", "state", "state", "Kigali City"}, {"e2ddac3c-3a7e-4a96-8e5b-c0c3a1e7e7b2", "state", "state", "Gasabo"},
	{"e3ddac3c-3a7e-4a96-8e5b-c0c3a1e7e7b3", "district", "district", "Gasabo"}, {"e4ddac3c-3a7e-4a96-8e5b-c0c3a1e7e7b4", "district", "district", "Gisozi"},
	{"e5ddac3c-3a7e-4a96-8e5b-c0c3a1e7e7b5", "ward", "ward", "Gisozi"}}

// stored values of location fields, resolved at the field's level or deeper
var genLocationValues = []map[string]any{
	{"text": "Kigali City", "state": "Rwanda > Kigali City"},
	{"text": "Rwanda > Kigali City > Gasabo", "state": "Rwanda > Kigali City", "district": "Rwanda > Kigali City > Gasabo"},
	{"text": "Rwanda > Kigali City > Gasabo > Gisozi", "state": "Rwanda > Kigali City", "district": "Rwanda > Kigali City > Gasabo", "ward": "Rwanda > Kigali City > Gasabo > Gisozi"},
	{"text": "Rwanda > Eastern Province > Rwamagana", "state": "Rwanda > Eastern Province", "district": "Rwanda > Eastern Province > Rwamagana"},
	{"text": "Nowhere"},
}

func contactAssets(env envs.Environment, flowsJSON string) (flows.SessionAssets, error) {
	if flowsJSON == "" {
		flowsJSON = "[]"
	}
	src, err := static.NewSource([]byte(fmt.Sprintf(contactAssetsJSON, flowsJSON)))
	if err != nil {
		return nil, err
	}
	return engine.NewSessionAssets(env, src, nil)
}

// URNs as a caller may have stored them: plain, with a channel affinity, with an affinity for a channel the assets no longer
// have, with other parameters and with parameters in another order than the URN library writes them
var genURNs = []string{"tel:+12065550100", "tel:+12065550199", "tel:+250788123123", "twitter:bobby", "twitter:ann", "mailto:a@b.com", "tel:+12065550100?channel=57f1078f-88aa-46f4-a59a-948a5739c03d",
	"tel:+12065550199?channel=0a0a0a0a-aaaa-4bbb-8ccc-000000000001", "tel:+250788123123?id=3&channel=3a05eaf5-cb1b-4246-bef1-f277419c83a7", "twitter:ann?id=7", "tel:+12065550100?id=2&channel=57f1078f-88aa-46f4-a59a-948a5739c03d"}

// a random contact as JSON; group membership is deliberately arbitrary (query groups may be wrong)
func genContactJSON(r *Rng, correctGroups bool) []byte {
	c := map[string]any{"uuid": "5d76d86b-3bb9-4d5a-b822-c9d86f5d8e4f", "id": 1234, "name": Pick(r, []string{"", "Bob", "Ann Lee", "bob smith", "Élodie", "Bob", "Ann Lee", "...", "-", "?!", " ", "$", "😀 x"}),
		"status": Pick(r, []string{"active", "active", "active", "blocked", "stopped", "archived"}), "created_on": Pick(r, []string{"2018-06-20T11:40:30Z", "2023-01-02T03:04:05Z", "2019-12-31T22:00:00Z"})}
	if l := Pick(r, []string{"", "eng", "fra", "spa"}); l != "" {
		c["language"] = l
	}
	if tz := Pick(r, []string{"", "America/Bogota", "Africa/Kigali"}); tz != "" {
		c["timezone"] = tz
	}
	if r.Chance(50) {
		// before, or (late handling, skewed clocks, a refreshed contact) after the message the session will receive
		c["last_seen_on"] = Pick(r, []string{"2024-02-03T10:00:00Z", "2024-02-03T10:00:00Z", "2031-07-08T09:10:11Z"})
	}
	var us []string
	seen := map[string]bool{}
	for i, k := 0, r.Intn(4); i < k; i++ {
		u := Pick(r, genURNs)
		id := strings.SplitN(u, "?", 2)[0]
		if !seen[id] {
			seen[id] = true
			us = append(us, u)
		}
	}
	if us != nil {
		c["urns"] = us
	}
	fields := map[string]any{}
	if r.Chance(50) {
		fields["gender"] = map[string]any{"text": Pick(r, []string{"male", "Male", "female", "x"})}
	}
	if r.Chance(50) {
		n := Pick(r, []string{"17", "18", "40.5", "37.50", "18.0"})
		fields["age"] = map[string]any{"text": n, "number": json.Number(n)}
	}
	if r.Chance(30) {
		// in UTC, or as a caller in another zone stored it
		j := Pick(r, []string{"2022-01-01T00:00:00Z", "2022-01-01T00:00:00Z", "2018-05-01T10:30:00.000000-05:00", "2021-07-01T23:30:00+02:00"})
		fields["joined"] = map[string]any{"text": j, "datetime": j}
	}
	if r.Chance(30) {
		fields["nick"] = map[string]any{"text": Pick(r, []string{"x", "bobby"})}
	}
	for _, k := range []string{"state", "district", "ward"} {
		if r.Chance(20) {
			fields[k] = Pick(r, genLocationValues)
		}
	}
	if len(fields) > 0 {
		c["fields"] = fields
	}
	if r.Chance(25) {
		c["ticket"] = map[string]any{"uuid": "78d1fe0d-7e39-461e-81c3-a6a25f15ed69", "topic": map[string]any{"uuid": "472a7a73-96cb-4736-b567-056d987cc5b4", "name": "Weather"}}
	}
	var groups []map[string]any
	if c["status"] == "active" { // a non-active contact is in no static group (it left them when it became non-active)
		for _, g := range staticGroupUUIDs {
			if r.Chance(35) {
				groups = append(groups, map[string]any{"uuid": g, "name": "g"})
			}
		}
	}
	if !correctGroups {
		for _, g := range queryGroupUUIDs {
			if r.Chance(30) {
				groups = append(groups, map[string]any{"uuid": g, "name": "q"})
			}
		}
	}
	if groups != nil {
		c["groups"] = groups
	}
	b, _ := json.Marshal(c)
	return b
}

func readContact(sa flows.SessionAssets, data []byte, env envs.Environment, correct bool) (*flows.Contact, error) {
	c, err := flows.ReadContact(sa, data, assets.IgnoreMissing)
	if err != nil {
		return nil, err
	}
	if correct {
		c.ReevaluateQueryBasedGroups(env)
	}
	return c, nil
}

// the caller's view of a contact, read from its JSON
type contactView struct {
	Name     string                     `json:"name"`
	Language string                     `json:"language"`
	Status   string                     `json:"status"`
	Timezone string                     `json:"timezone"`
	URNs     []string                   `json:"urns"`
	Groups   []struct{ UUID string }    `json:"groups"`
	Fields   map[string]json.RawMessage `json:"fields"`
	Ticket   *struct{ UUID string }     `json:"ticket"`
	LastSeen string                     `json:"last_seen_on"`
}

func viewOf(c *flows.Contact) (*contactView, string) {
	b, _ := json.Marshal(c)
	v := &contactView{}
	json.Unmarshal(b, v)
	return v, string(b)
}

func (v *contactView) canon() string {
	var gs []string
	for _, g := range v.Groups {
		gs = append(gs, g.UUID)
	}
	sort.Strings(gs)
	var fs []string
	for k, f := range v.Fields {
		var compact any
		json.Unmarshal(f, &compact)
		cb, _ := json.Marshal(compact)
		fs = append(fs, k+"="+string(cb))
	}
	sort.Strings(fs)
	t := ""
	if v.Ticket != nil {
		t = v.Ticket.UUID
	}
	return fmt.Sprintf("name=%q lang=%s status=%s tz=%s urns=%v groups=%v fields=%v ticket=%s seen=%s", v.Name, v.Language, v.Status, v.Timezone, v.URNs, gs, fs, t, v.LastSeen)
}

// independent replay of contact events (as JSON) over a view
func replayEvents(v *contactView, evs []flows.Event, lastSeenFromMsg string) *contactView {
	out := *v
	out.URNs = append([]string{}, v.URNs...)
	out.Groups = append([]struct{ UUID string }{}, v.Groups...)
	out.Fields = map[string]json.RawMessage{}
	for k, f := range v.Fields {
		out.Fields[k] = f
	}
	for _, e := range evs {
		b, _ := json.Marshal(e)
		var m map[string]json.RawMessage
		json.Unmarshal(b, &m)
		str := func(k string) string { var s string; json.Unmarshal(m[k], &s); return s }
		switch e.Type() {
		case "contact_name_changed":
			out.Name = str("name")
		case "contact_language_changed":
			out.Language = str("language")
		case "contact_status_changed":
			out.Status = str("status")
		case "contact_timezone_changed":
			out.Timezone = str("timezone")
		case "contact_urns_changed":
			var us []string
			json.Unmarshal(m["urns"], &us)
			out.URNs = us
		case "contact_field_changed":
			var f struct{ Key string }
			json.Unmarshal(m["field"], &f)
			if string(m["value"]) == "null" || m["value"] == nil {
				delete(out.Fields, f.Key)
			} else {
				out.Fields[f.Key] = m["value"]
			}
		case "contact_groups_changed":
			var added, removed []struct{ UUID string }
			json.Unmarshal(m["groups_added"], &added)
			json.Unmarshal(m["groups_removed"], &removed)
			var gs []struct{ UUID string }
			for _, g := range out.Groups {
				rm := false
				for _, x := range removed {
					if x.UUID == g.UUID {
						rm = true
					}
				}
				if !rm {
					gs = append(gs, g)
				}
			}
			for _, a := range added {
				has := false
				for _, g := range gs {
					if g.UUID == a.UUID {
						has = true
					}
				}
				if !has {
					gs = append(gs, struct{ UUID string }{a.UUID})
				}
			}
			out.Groups = gs
		case "ticket_opened":
			var t struct{ UUID string }
			json.Unmarshal(m["ticket"], &t)
			out.Ticket = &struct{ UUID string }{t.UUID}
		case "msg_received":
			if lastSeenFromMsg != "" {
				out.LastSeen = lastSeenFromMsg
			}
		case "contact_refreshed":
			var nv contactView
			json.Unmarshal(m["contact"], &nv)
			out = nv
		}
	}
	return &out
}

func isChangeEvent(t string) bool {
	switch t {
	case "contact_name_changed", "contact_language_changed", "contact_status_changed", "contact_timezone_changed", "contact_urns_changed",
		"contact_field_changed", "contact_groups_changed", "ticket_opened":
		return true
	}
	return false
}

// query-based group membership of the contact vs what each group's query says (the statement's own oracle)
func groupInvFailures(sa flows.SessionAssets, env envs.Environment, c *flows.Contact) []string {
	var out []string
	for _, g := range sa.Groups().All() {
		in := c.Groups().FindByUUID(g.UUID()) != nil
		if g.UsesQuery() {
			want := g.CheckQueryBasedMembership(env, c)
			if in != want {
				out = append(out, fmt.Sprintf("query group %q: member=%v, query says %v", g.Name(), in, want))
			}
			// the same question asked of the query's text, read now in the environment it is evaluated in: what the group's
			// stored, shared form of the query remembers from earlier readings or evaluations must make no difference
			if q, err := contactql.ParseQuery(env, g.Query(), sa.Fields()); err == nil {
				fresh := c.Status() == flows.ContactStatusActive && contactql.EvaluateQuery(env, q, c)
				if in != fresh && in == want {
					out = append(out, fmt.Sprintf("query group %q: member=%v, the query %q read afresh says %v", g.Name(), in, g.Query(), fresh))
				}
			}
			for _, lg := range locationGroups {
				if string(g.UUID()) != lg.uuid {
					continue
				}
				// the name of the stored location at the field's own level
				name := ""
				if fv := c.Fields()[lg.field]; fv != nil && fv.Value != nil {
					path := map[string]envs.LocationPath{"state": fv.State, "district": fv.District, "ward": fv.Ward}[lg.level]
					if path != "" {
						parts := strings.Split(string(path), ">")
						name = strings.TrimSpace(parts[len(parts)-1])
					}
				}
				wantLoc := c.Status() == flows.ContactStatusActive && strings.EqualFold(name, lg.name)
				if in != wantLoc {
					out = append(out, fmt.Sprintf("query group %q: member=%v, but the %s of field %s is %q", g.Name(), in, lg.level, lg.field, name))
				}
			}
		} else if in && c.Status() != flows.ContactStatusActive {
			out = append(out, fmt.Sprintf("non-active contact (%s) is still in static group %q", c.Status(), g.Name()))
		}
	}
	return out
}
