package main

import (
	"bytes"
	"encoding/json"
	"fmt"
	"os"
	"path/filepath"
	"regexp"
	"sort"
	"strings"

	"github.com/Masterminds/semver"
	"github.com/nyaruka/gocommon/jsonx"
	"github.com/nyaruka/gocommon/uuids"
	"github.com/nyaruka/goflow/envs"
	"github.com/nyaruka/goflow/excellent"
	"github.com/nyaruka/goflow/excellent/types"
	"github.com/nyaruka/goflow/flows/definition"
	"github.com/nyaruka/goflow/flows/definition/legacy"
	"github.com/nyaruka/goflow/flows/definition/migrations"
)

func init() {
	register("C16", "every definition stored in the repository's test data (runner flows, the per-version migration cases, legacy flows) and generated definitions at every source version 13.0-13.5 "+
		"(all action types of the action palette, routers and waits, localization in several languages incl. the legacy 'base' language, old-style templating objects with and without uuid and translated variables, "+
		"over-long result and category names, @webhook references in texts, attachments, quick replies, headers, bodies, router operands, case arguments and translations), migrated to every target version "+
		"in one go and stepwise; for rejection: truncations at every length class, and type/emptiness/removal mutations at every JSON path of valid definitions of every kind; "+
		"non-trivial = distinct (source kind and version, target, feature set, outcome)", runC16)
}

var c16Versions = []string{"13.0.0", "13.1.0", "13.2.0", "13.3.0", "13.4.0", "13.5.0", "13.6.0"}

type c16Def struct {
	name    string
	data    []byte
	version string // "" for legacy
	feats   string
}

// nodes, exits and destinations of a definition
func c16Graph(data []byte) (string, string, error) {
	var f struct {
		UUID  string `json:"uuid"`
		Nodes []struct {
			UUID  string `json:"uuid"`
			Exits []struct {
				UUID string `json:"uuid"`
				Dest string `json:"destination_uuid"`
			} `json:"exits"`
		} `json:"nodes"`
	}
	if err := json.Unmarshal(data, &f); err != nil {
		return "", "", err
	}
	var b strings.Builder
	for _, n := range f.Nodes {
		b.WriteString(n.UUID + "[")
		for _, e := range n.Exits {
			b.WriteString(e.UUID + ">" + e.Dest + ",")
		}
		b.WriteString("]")
	}
	return f.UUID, b.String(), nil
}

func c16Generated(r *Rng, i int, palette []json.RawMessage) c16Def {
	us := &uuidSeq{n: 6000000 + i*1000}
	version := Pick(r, c16Versions[:6])
	vnum := int(version[3] - '0')
	var feats []string
	localization := map[string]any{}
	langs := []string{"fra", "spa"}
	if vnum < 2 && r.Chance(40) {
		langs = append(langs, "base")
		feats = append(feats, "base-translation")
	}
	tr := func(uuid string, props map[string][]string) {
		for _, l := range langs {
			if r.Chance(70) {
				lt, _ := localization[l].(map[string]any)
				if lt == nil {
					lt = map[string]any{}
					localization[l] = lt
				}
				item := map[string]any{}
				for p, v := range props {
					item[p] = v
				}
				lt[uuid] = item
			}
		}
	}
	wh := func() string {
		return Pick(r, []string{"@webhook", "@webhook.name", "@(webhook.items[0])", "@(upper(webhook.x) & webhook)", "@(WEBHOOK.a)", "@webhook.json", "no refs", "@contact.name",
			"@(foreach(array(1), (webhook) => webhook))", "@(\"webhook\")", "@webhooks", "@(webhook)",
			// a reference next to an expression that does not parse
			"Balance: @webhook.name, used: @(webhook.x / )", "@webhook.a and @(webhook.a +) and @(upper(webhook.x))", "@(webhook.a & ) @webhook",
			// rewritten expressions are printed again: long literals, escapes, numbers written unusually, lookups by number
			"@(if(webhook.ok, \"" + strings.Repeat("long text ", 20) + "end\", \"Sorry\"))", "@(\"" + strings.Repeat("long text ", 20) + "end\" & webhook)", "@(webhook.a & \"q\\\"uote\\n\" & 007 & 1.50)", "@(webhook.items.0 .1 & webhook[\"k\"])"})
	}
	var actions []any
	for k := r.Range(0, 3); k > 0; k-- {
		var a map[string]any
		json.Unmarshal(Pick(r, palette), &a)
		if a["type"] == "enter_flow" || a["type"] == "send_msg" || a["type"] == "say_msg" || a["type"] == "play_audio" {
			continue
		}
		a["uuid"] = us.next()
		actions = append(actions, a)
	}
	if r.Chance(80) {
		u := us.next()
		msg := map[string]any{"uuid": u, "type": "send_msg", "text": "Hi " + wh(), "quick_replies": []string{wh(), "no"}, "attachments": []string{"image/jpeg:http://x.com/" + wh()}}
		tr(u, map[string][]string{"text": {"Salut " + wh()}, "quick_replies": {wh()}})
		if vnum < 5 && r.Chance(60) {
			t := map[string]any{"template": map[string]any{"uuid": "5722e1fd-fe32-4e74-ac78-3cf41a6adb7e", "name": "affirmation"}}
			tu := us.next()
			switch {
			case vnum == 0:
				t["variables"] = []string{wh(), "boy"}
				feats = append(feats, "templating-no-uuid")
			case vnum < 4:
				t["uuid"] = tu
				t["variables"] = []string{wh(), "boy"}
				tr(tu, map[string][]string{"variables": {"@contact.name", wh()}})
				feats = append(feats, "templating-uuid")
			default:
				cu := us.next()
				t["components"] = []map[string]any{{"uuid": cu, "name": "body", "params": []string{wh(), "boy"}}}
				tr(cu, map[string][]string{"params": {"@contact.name", wh()}})
				feats = append(feats, "templating-components")
			}
			msg["templating"] = t
		}
		actions = append(actions, msg)
		feats = append(feats, "send_msg")
	}
	if r.Chance(50) {
		actions = append(actions, map[string]any{"uuid": us.next(), "type": "call_webhook", "method": "POST", "url": "http://x.com/?a=" + wh(), "headers": map[string]string{"X": wh()}, "body": wh(), "result_name": "Hook"})
		feats = append(feats, "webhook")
		if r.Chance(25) {
			// before 13.6 nothing limited the result name of any action that saves one
			actions[len(actions)-1].(map[string]any)["result_name"] = strings.Repeat("Long Hook Result ", 5)
			feats = append(feats, "over-long-action-result-name")
		}
	}
	long := strings.Repeat("Long Result Name ", 6)
	resultName := Pick(r, []string{"Color", "Fav Color", long, long[:64], long[:65], strings.Repeat("a-b_c 9", 12), "  spaced  ", strings.Repeat("x", 63) + "  y"})
	catName := Pick(r, []string{"Other", strings.Repeat("Category ", 6), strings.Repeat("C", 36), strings.Repeat("C", 37), "Red"})
	if len(resultName) > 64 || len(catName) > 36 {
		feats = append(feats, "over-long-names")
	}
	n1, n2, n3 := us.next(), us.next(), us.next()
	e1, e2, e3, e4 := us.next(), us.next(), us.next(), us.next()
	c1, c2 := us.next(), us.next()
	caseUUID := us.next()
	tr(caseUUID, map[string][]string{"arguments": {wh()}})
	tr(c2, map[string][]string{"name": {strings.Repeat("Catégorie ", 5)}})
	router := map[string]any{"type": "switch", "operand": Pick(r, []string{"@input.text", wh()}), "result_name": resultName, "wait": map[string]any{"type": "msg"},
		"cases":      []map[string]any{{"uuid": caseUUID, "type": "has_any_word", "arguments": []string{Pick(r, []string{"red", wh()})}, "category_uuid": c2}},
		"categories": []map[string]any{{"uuid": c1, "name": "Other", "exit_uuid": e2}, {"uuid": c2, "name": catName, "exit_uuid": e3}}, "default_category_uuid": c1}
	nodes := []map[string]any{
		{"uuid": n1, "actions": actions, "exits": []map[string]any{{"uuid": e1, "destination_uuid": n2}}},
		{"uuid": n2, "router": router, "exits": []map[string]any{{"uuid": e2, "destination_uuid": n3}, {"uuid": e3, "destination_uuid": n1}}},
		{"uuid": n3, "actions": []any{map[string]any{"uuid": us.next(), "type": "set_run_result", "name": resultName, "value": wh(), "category": catName}}, "exits": []map[string]any{{"uuid": e4}}},
	}
	if len(actions) == 0 {
		nodes[0]["actions"] = []any{}
	}
	lang := "eng"
	if vnum < 2 && r.Chance(40) {
		lang = "base"
		feats = append(feats, "base-language")
	}
	flow := map[string]any{"uuid": us.next(), "name": "Gen", "spec_version": version, "language": lang, "type": "messaging", "revision": 1, "expire_after_minutes": 60, "localization": localization, "nodes": nodes}
	if r.Chance(30) {
		flow["_ui"] = map[string]any{"nodes": map[string]any{n1: map[string]any{"position": map[string]int{"left": 1, "top": 2}}}}
	}
	b, _ := json.Marshal(flow)
	sort.Strings(feats)
	return c16Def{name: fmt.Sprintf("generated#%d", i), data: b, version: version, feats: strings.Join(feats, ",")}
}

func c16Corpus() []c16Def {
	var out []c16Def
	names, defs := c08Definitions()
	for i := range defs {
		var h struct {
			V string `json:"spec_version"`
		}
		json.Unmarshal(defs[i], &h)
		v := h.V
		if legacy.IsPossibleDefinition(defs[i]) && v == "" {
			v = ""
		}
		out = append(out, c16Def{name: names[i], data: defs[i], version: v, feats: "stored"})
	}
	return out
}

func c16Less(a, b string) bool { return semver.MustParse(a).LessThan(semver.MustParse(b)) }

// mutations of a JSON document at one path
func c16Mutate(r *Rng, data []byte) ([]byte, string) {
	var doc any
	if json.Unmarshal(data, &doc) != nil {
		return nil, ""
	}
	type slot struct {
		set  func(any)
		del  func()
		path string
		val  any
	}
	var slots []slot
	var walk func(v any, path string)
	walk = func(v any, path string) {
		switch t := v.(type) {
		case map[string]any:
			for k, x := range t {
				k, x := k, x
				slots = append(slots, slot{func(n any) { t[k] = n }, func() { delete(t, k) }, path + "." + k, x})
				walk(x, path+"."+k)
			}
		case []any:
			for i, x := range t {
				i, x := i, x
				slots = append(slots, slot{func(n any) { t[i] = n }, nil, fmt.Sprintf("%s[]", path), x})
				walk(x, fmt.Sprintf("%s[]", path))
			}
		}
	}
	walk(doc, "$")
	if len(slots) == 0 {
		return nil, ""
	}
	sort.Slice(slots, func(i, j int) bool { return slots[i].path < slots[j].path })
	s := slots[r.Intn(len(slots))]
	kind := Pick(r, []string{"null", "number", "string", "empty-string", "array", "empty-array", "object", "empty-object", "bool", "remove", "nested-same", "long-string", "non-uuid"})
	switch kind {
	case "null":
		s.set(nil)
	case "number":
		s.set(Pick(r, []any{0, -1, 1.5, 1e30}))
	case "string":
		s.set(Pick(r, []string{"x", "@(", "13.99.0", "99.0.0", "abc", "base"}))
	case "empty-string":
		s.set("")
	case "array":
		s.set([]any{1, "x", nil, map[string]any{}})
	case "empty-array":
		s.set([]any{})
	case "object":
		s.set(map[string]any{"uuid": 5, "type": "nope", "x": []any{}})
	case "empty-object":
		s.set(map[string]any{})
	case "bool":
		s.set(true)
	case "remove":
		if s.del == nil {
			s.set(nil)
		} else {
			s.del()
		}
	case "nested-same":
		s.set([]any{s.val, s.val})
	case "long-string":
		s.set(strings.Repeat("é@(", 3000))
	case "non-uuid":
		s.set("not-a-uuid")
	}
	b, err := json.Marshal(doc)
	if err != nil {
		return nil, ""
	}
	cls := s.path
	if len(cls) > 60 {
		cls = cls[:60]
	}
	return b, kind + "@" + cls
}

func runC16(c *Ctx) {
	r := c.Rng
	_, palette, err := loadActionPalette()
	if err != nil {
		c.Fail("monitor", "harness", "palette-unavailable", "cannot load the action palette: "+err.Error(), nil)
		return
	}
	defs := c16Corpus()
	for i := 0; i < c.N(250, 8000); i++ {
		defs = append(defs, c16Generated(r, i, palette))
	}
	env := envs.NewBuilder().Build()
	migrateSeeded := func(data []byte, to *semver.Version) ([]byte, error) {
		restore := setDeterministic(16)
		defer restore()
		return migrations.MigrateToVersion(data, to, migrations.DefaultConfig)
	}
	// legacy definitions whose entry node is not the top-most one on the canvas
	for _, d := range append([]c16Def{}, defs...) {
		if d.version != "" || !legacy.IsPossibleDefinition(d.data) {
			continue
		}
		var doc map[string]any
		if json.Unmarshal(d.data, &doc) != nil {
			continue
		}
		entry, _ := doc["entry"].(string)
		moved := false
		maxY := 0.0
		for _, key := range []string{"action_sets", "rule_sets"} {
			sets, _ := doc[key].([]any)
			for _, x := range sets {
				if m, ok := x.(map[string]any); ok {
					if y, ok := m["y"].(float64); ok && y > maxY {
						maxY = y
					}
				}
			}
		}
		for _, key := range []string{"action_sets", "rule_sets"} {
			sets, _ := doc[key].([]any)
			for _, x := range sets {
				if m, ok := x.(map[string]any); ok && m["uuid"] == entry && entry != "" {
					m["y"] = maxY + 100
					moved = true
				}
			}
		}
		if moved {
			b, _ := json.Marshal(doc)
			defs = append(defs, c16Def{name: d.name + "+entry-lowest", data: b, version: "", feats: "stored,entry-not-topmost"})
		}
		// older exports carry uuid and name at the root instead of in metadata: alongside a metadata object, without one, with null
		var doc2 map[string]any
		if json.Unmarshal(d.data, &doc2) == nil {
			if md, ok := doc2["metadata"].(map[string]any); ok && md["uuid"] != nil {
				for vi, variant := range []string{"root-uuid+metadata", "root-uuid-no-metadata", "root-uuid-null-metadata"} {
					var dv map[string]any
					json.Unmarshal(d.data, &dv)
					mdv := dv["metadata"].(map[string]any)
					dv["uuid"], dv["name"] = mdv["uuid"], mdv["name"]
					switch vi {
					case 0:
						delete(mdv, "uuid")
						delete(mdv, "name")
					case 1:
						delete(dv, "metadata")
					default:
						dv["metadata"] = nil
					}
					b, _ := json.Marshal(dv)
					defs = append(defs, c16Def{name: d.name + "+" + variant, data: b, version: "", feats: "stored," + variant})
				}
			}
		}
	}
	var valid [][]byte
	for _, d := range defs {
		desc := map[string]any{"definition": d.name, "source_version": d.version, "features": d.feats}
		if strings.HasPrefix(d.name, "generated") {
			desc["definition_json"] = json.RawMessage(d.data)
		}
		var latest []byte
		var merr error
		if c.Guard("M-migrate", "panic:migrate", desc, func() { latest, merr = migrateSeeded(d.data, nil) }) {
			continue
		}
		kind := d.version
		if kind == "" {
			kind = "legacy"
		}
		if merr != nil {
			// stored definitions that are not valid at their version are not in the property's domain
			c.Eval("rejected|" + kind + "|" + d.feats)
			c.Count("C16-source-rejected")
			if strings.HasPrefix(d.name, "generated") {
				c.Notes = appendNote(c.Notes, "generated definition rejected: "+truncate(merr.Error(), 200))
			}
			continue
		}
		// (a) loads at the current version
		var loadErr error
		if c.Guard("M-loads", "panic:read", desc, func() { _, loadErr = definition.ReadFlow(latest, nil) }) {
			continue
		}
		c.Count("check:M-loads")
		if loadErr != nil {
			// was the source itself loadable at its own version? (a definition that was never valid is outside the domain)
			if _, srcErr := definition.ReadFlow(d.data, nil); srcErr == nil || d.version == "" || true {
				desc["error"] = truncate(loadErr.Error(), 500)
				sig := "migrated-does-not-load"
				if strings.Contains(d.feats, "over-long") {
					sig += ":over-long-names"
				}
				// the result name of an action other than set_run_result (13.6 limits set_run_result names, router result names
				// and category names only): its own signature, so that any other failure to load is still reported
				if strings.Contains(d.feats, "over-long-action-result-name") && strings.Contains(loadErr.Error(), "unable to read action: field 'result_name' is not a valid result name") {
					sig = "migrated-does-not-load:action-result-name-over-64"
				}
				c.Fail("monitor", "M-loads", sig, "the migrated definition does not load at the current version", desc)
			}
			c.Eval("not-loadable|" + kind + "|" + d.feats)
			continue
		}
		valid = append(valid, latest)
		// (b) uuid, nodes, exits and destinations
		if d.version != "" {
			u0, g0, _ := c16Graph(d.data)
			u1, g1, _ := c16Graph(latest)
			c.Count("check:M-graph")
			if u0 != u1 || g0 != g1 {
				desc["before"], desc["after"] = truncate(u0+" "+g0, 1500), truncate(u1+" "+g1, 1500)
				c.Fail("monitor", "M-graph", "graph-changed", "migration changed the flow's UUID, its nodes or how they are connected", desc)
			}
		} else {
			var src struct {
				UUID     string `json:"uuid"`
				Metadata struct {
					UUID string `json:"uuid"`
				} `json:"metadata"`
				Entry string `json:"entry"`
			}
			json.Unmarshal(d.data, &src)
			if src.Metadata.UUID == "" {
				src.Metadata.UUID = src.UUID
			}
			u1, g1, _ := c16Graph(latest)
			c.Count("check:M-graph-legacy")
			if src.Metadata.UUID != "" && src.Metadata.UUID != u1 {
				c.Fail("monitor", "M-graph", "uuid-changed", "migration of a legacy definition changed the flow's UUID", desc)
			}
			if src.Entry != "" && g1 != "" && !strings.HasPrefix(g1, src.Entry) {
				desc["entry"], desc["nodes"] = src.Entry, truncate(g1, 600)
				c.Fail("monitor", "M-graph", "entry-not-first", "the entry node of a legacy definition is not the first node after migration", desc)
			}
		}
		// (c) migrating again changes nothing; a current definition is returned untouched
		again, aerr := migrateSeeded(latest, nil)
		c.Count("check:M-stable")
		if aerr != nil || !bytes.Equal(again, latest) {
			c.Fail("monitor", "M-stable", "migrating-again-changes", "migrating the migrated definition again changes it", desc)
		}
		if d.version == c16Versions[len(c16Versions)-1] && !bytes.Equal(latest, d.data) {
			c.Fail("monitor", "M-stable", "current-not-untouched", "a definition already at the current version is not returned untouched", desc)
		}
		// stepwise = in one go
		if d.version != "" && c16Less(d.version, "13.6.0") {
			cur := d.data
			ok := true
			for _, v := range c16Versions {
				if !c16Less(d.version, v) {
					continue
				}
				restore := setDeterministic(16)
				next, err := migrations.MigrateToVersion(cur, semver.MustParse(v), migrations.DefaultConfig)
				restore()
				if err != nil {
					ok = false
					break
				}
				cur = next
			}
			c.Count("check:M-stepwise")
			if ok {
				// generated UUIDs (13.1, 13.4) come from the generator's sequence, which restarts per call: compare structure
				if canonUUIDs(cur) != canonUUIDs(latest) {
					a, b := diffWindow(canonUUIDs(cur), canonUUIDs(latest))
					desc["stepwise"], desc["one_go"] = a, b
					c.Fail("monitor", "M-stepwise", "stepwise-differs", "migrating version by version gives a different definition than migrating in one go", desc)
				}
			}
		}
		// (e) read + marshal reads back equal
		if f, err := definition.ReadFlow(latest, nil); err == nil {
			m1, _ := json.Marshal(f)
			f2, err2 := definition.ReadFlow(m1, nil)
			c.Count("check:M-marshal-roundtrip")
			if err2 != nil {
				desc["error"] = err2.Error()
				c.Fail("monitor", "M-marshal-roundtrip", "marshalled-does-not-read", "a definition read and marshalled back does not read", desc)
			} else if m2, _ := json.Marshal(f2); !bytes.Equal(m1, m2) {
				a, b := diffWindow(string(m1), string(m2))
				desc["first"], desc["second"] = a, b
				c.Fail("monitor", "M-marshal-roundtrip", "marshal-not-stable", "a definition read and marshalled back reads back to a different definition", desc)
			}
		}
		// (d) the 13.3 rewrite keeps what templates evaluate to
		if d.version != "" && c16Less(d.version, "13.3.0") {
			before, after := map[string]string{}, map[string]string{}
			stringsByPath(d.data, before)
			m33, err := migrateSeeded(d.data, semver.MustParse("13.3.0"))
			if err == nil {
				stringsByPath(m33, after)
			}
			if err == nil {
				val := types.NewXObject(map[string]types.XValue{"__default__": types.NewXText("W"), "name": types.NewXText("N"), "x": types.NewXText("ex"), "a": types.NewXText("A"),
					"items": types.NewXArray(types.NewXText("i0")), "json": types.NewXObject(map[string]types.XValue{"k": types.NewXText("inner")})})
				ctx1 := types.NewXObject(map[string]types.XValue{"webhook": val, "contact": types.NewXObject(map[string]types.XValue{"name": types.NewXText("Bob")})})
				ctx2 := types.NewXObject(map[string]types.XValue{"webhook": types.NewXObject(map[string]types.XValue{"json": val}), "contact": types.NewXObject(map[string]types.XValue{"name": types.NewXText("Bob")})})
				generated := strings.HasPrefix(d.name, "generated")
				for k := range before {
					if _, ok := after[k]; !ok || !strings.Contains(strings.ToLower(before[k]), "webhook") {
						continue
					}
					// in generated definitions every string with a reference is in a template position, so one that is left
					// alone is compared as well; in stored ones only what the migration chose to rewrite
					if before[k] == after[k] && (!generated || !strings.Contains(before[k], "@") || strings.Contains(k, "/_ui/")) {
						continue
					}
					v1, _, e1 := excellent.NewEvaluator().Template(env, ctx1, before[k], nil)
					v2, _, e2 := excellent.NewEvaluator().Template(env, ctx2, after[k], nil)
					c.Count("check:M-rewrite-meaning")
					// a template with an expression that does not parse is rewritten too (the broken expression is written back as
					// it was, the others are rewritten): what is left of the text, and whether there were errors, is compared as well
					if (e1 == nil) != (e2 == nil) || v1 != v2 {
						sig := "rewrite-changes-value"
						if strings.Contains(before[k], "(webhook) =>") {
							sig += ":lambda-parameter"
						}
						c.Fail("monitor", "M-rewrite-meaning", sig, "the 13.3 rewrite of @webhook changes what a template evaluates to",
							map[string]any{"before": before[k], "after": after[k], "value": v1, "value_after": v2, "definition": d.name})
					}
				}
			}
		}
		c.Eval(fmt.Sprintf("ok|%s|%s", kind, d.feats))
	}

	// ---- K: every per-version function against its model --------------------------------------------------------------
	for _, d := range defs {
		if d.version != "" && c16Less(d.version, "13.6.0") {
			c16MigSteps(c, d.name, d.data, d.version, d.feats)
		}
	}
	for i := 0; i < c.N(1200, 40000); i++ {
		d := c16StepDoc(r.Fork(), i)
		c16MigSteps(c, d.name, d.data, d.version, d.feats)
	}

	// ---- K: the 13.6 name limits against the model ----------------------------------------------------------------
	for i := 0; i < c.N(1500, 60000); i++ {
		n := Pick(r, []int{0, 1, 35, 36, 37, 38, 63, 64, 65, 66, 70, 100, 200})
		var sb strings.Builder
		for k := 0; k < n; k++ {
			sb.WriteByte(Pick(r, []byte{'a', 'B', '9', '-', '_', ' ', ' ', ' ', 'x', 'y'}))
		}
		name := sb.String()
		if r.Chance(20) && n > 3 {
			name = name[:n-3] + "   "
		}
		if r.Chance(15) && n > 2 {
			name = "  " + name[2:]
		}
		isCat := r.Bool()
		max := 64
		action := map[string]any{"uuid": "8eebd020-1af5-431c-b943-aa670fc74da9", "type": "set_run_result", "name": name, "value": "v", "category": "C"}
		if isCat {
			max = 36
			action["name"], action["category"] = "R", name
		}
		flow := map[string]any{"uuid": "76f0a02f-3b75-4b86-9064-e9195e1b3a02", "name": "T", "spec_version": "13.5.0", "language": "eng", "type": "messaging",
			"nodes": []map[string]any{{"uuid": "365293c7-633c-45bd-96b7-0b059766588d", "actions": []any{action}, "exits": []map[string]any{{"uuid": "3bd19c40-1114-4b83-b12e-f0c38054ba3f"}}}}}
		fb, _ := json.Marshal(flow)
		out, err := migrations.MigrateToVersion(fb, semver.MustParse("13.6.0"), migrations.DefaultConfig)
		if err != nil {
			continue
		}
		var res struct {
			Nodes []struct {
				Actions []struct {
					Name     string `json:"name"`
					Category string `json:"category"`
				} `json:"actions"`
			} `json:"nodes"`
		}
		json.Unmarshal(out, &res)
		got := res.Nodes[0].Actions[0].Name
		if isCat {
			got = res.Nodes[0].Actions[0].Category
		}
		c.Model("limitname", fmt.Sprintf("limitname %d %s", max, hx(name)), "ok "+hx(got), map[string]any{"name": name, "limit": max})
	}

	// ---- K: the order of the nodes of a migrated legacy flow (entry first, the others by height, stably) ---------------
	for i := 0; i < c.N(400, 20000); i++ {
		k := r.Range(1, 7)
		type ln struct {
			id, y int
			rule  bool
		}
		var ns []ln
		for j := 0; j < k; j++ {
			ns = append(ns, ln{j + 1, Pick(r, []int{0, 10, 50, 50, 200, 200, 400, 1000}), false})
		}
		nAct := r.Range(0, k+1) // the first nAct are action sets, the others rule sets (listed after them)
		for j := nAct; j < k; j++ {
			ns[j].rule = true
		}
		entry := Pick(r, ns).id
		if r.Chance(5) {
			entry = 99 // a flow whose entry names no node
		}
		uu := func(id int) string { return fmt.Sprintf("a1b2c3d4-0000-4000-8000-%012d", id) }
		var as, rs, enc []string
		for _, n := range ns {
			enc = append(enc, fmt.Sprintf("%d:%d", n.id, n.y))
			if n.rule {
				rs = append(rs, fmt.Sprintf(`{"uuid": %q, "x": 100, "y": %d, "label": "R", "operand": "@step.value", "ruleset_type": "wait_message", "config": {}, "rules": [{"uuid": %q, "category": {"eng": "All"}, "destination": null, "destination_type": null, "test": {"type": "true"}}]}`,
					uu(n.id), n.y, uu(1000+n.id)))
			} else {
				as = append(as, fmt.Sprintf(`{"uuid": %q, "x": 100, "y": %d, "destination": null, "exit_uuid": %q, "actions": [{"type": "reply", "uuid": %q, "msg": {"eng": "hi"}}]}`, uu(n.id), n.y, uu(2000+n.id), uu(3000+n.id)))
			}
		}
		def := fmt.Sprintf(`{"base_language": "eng", "entry": %q, "flow_type": "F", "action_sets": [%s], "rule_sets": [%s], "metadata": {"uuid": "50c3706e-fedb-42c0-8eab-dda3335714b7", "name": "Order"}}`,
			uu(entry), strings.Join(as, ","), strings.Join(rs, ","))
		desc := map[string]any{"legacy": json.RawMessage(def)}
		var out []byte
		var err error
		if c.Guard("K-legacyorder", "panic:legacy-migrate", desc, func() { out, err = legacy.MigrateDefinition([]byte(def), "https://example.com/") }) {
			continue
		}
		exp := "err"
		if err == nil {
			var res struct {
				Nodes []struct {
					UUID string `json:"uuid"`
				} `json:"nodes"`
			}
			json.Unmarshal(out, &res)
			var ids []string
			for _, n := range res.Nodes {
				var id int
				fmt.Sscanf(n.UUID[len(n.UUID)-12:], "%d", &id)
				ids = append(ids, fmt.Sprint(id))
			}
			exp = "ok " + strings.Join(ids, ",")
		}
		c.Eval(fmt.Sprintf("legacyorder|%d|%d|%v", k, nAct, entry == ns[0].id))
		c.Model("legacyorder", fmt.Sprintf("legacyorder %d %s", entry, strings.Join(enc, ",")), exp, desc)
	}

	// ---- (f) anything else is rejected with an error, never a panic -------------------------------------------------
	var seeds [][]byte
	for _, d := range defs {
		seeds = append(seeds, d.data)
	}
	seeds = append(seeds, valid...)
	files, _ := filepath.Glob("/repo/flows/definition/legacy/testdata/*.json")
	for _, fn := range files {
		if b, err := os.ReadFile(fn); err == nil && len(b) < 200000 {
			seeds = append(seeds, b)
		}
	}
	// every legacy ruleset, action and test of the repository's own legacy test data, each in a minimal legacy flow (the way
	// the repository's tests hold them): all ruleset types, action types and tests are then among the mutated documents
	seeds = append(seeds, c16LegacyHolders()...)
	try := func(data []byte, how string) {
		desc := map[string]any{"how": how, "input": truncate(string(data), 4000)}
		c.Count("check:M-reject")
		outcome := "?"
		if c.Guard("M-reject", "panic:%site%", desc, func() {
			out, err := migrations.MigrateToLatest(data, migrations.DefaultConfig)
			if err != nil {
				outcome = "migrate-error"
				return
			}
			if _, err := definition.ReadFlow(out, nil); err != nil {
				outcome = "read-error"
				return
			}
			outcome = "accepted"
			// also the other entry points hosts use on uploads
			migrations.Clone(out, map[uuids.UUID]uuids.UUID{})
		}) {
			outcome = "panic"
		}
		c.Eval("hostile|" + strings.SplitN(how, "@", 2)[0] + "|" + outcome)
	}
	for i := 0; i < c.N(2500, 150000); i++ {
		seed := seeds[r.Intn(len(seeds))]
		if r.Chance(20) {
			k := r.Intn(len(seed) + 1)
			try(seed[:k], fmt.Sprintf("truncate@%d%%", 10*(10*k/(len(seed)+1))))
			continue
		}
		m, how := c16Mutate(r, seed)
		if m != nil {
			if r.Chance(25) {
				if m2, how2 := c16Mutate(r, m); m2 != nil {
					m, how = m2, how+"+"+how2
				}
			}
			try(m, how)
		}
	}
	// systematically: every member of every holder flow removed, nulled and emptied
	holders := c16LegacyHolders()
	for _, h := range holders {
		for idx := 0; ; idx++ {
			any := false
			for _, kind := range []string{"remove", "null", "empty-string", "empty-object"} {
				if m, how := c16MutateAt(h, idx, kind); m != nil {
					any = true
					try(m, how)
				}
			}
			if !any {
				break
			}
		}
	}
	for _, s := range []string{"", "null", "[]", "{}", "0", `""`, `{"uuid": null}`, `{"flows": []}`, `{"metadata": {}}`, `{"action_sets": null, "rule_sets": null}`, `{"uuid":"a","name":"b","spec_version":"13.0.0","nodes":null}`,
		`{"uuid":"76f0a02f-3b75-4b86-9064-e9195e1b3a02","name":"b","spec_version":"13.0.0","language":"eng","type":"messaging","nodes":[null]}`,
		`{"uuid":"76f0a02f-3b75-4b86-9064-e9195e1b3a02","name":"b","spec_version":"13.0.0","language":"eng","type":"messaging","nodes":[{"uuid":"365293c7-633c-45bd-96b7-0b059766588d","actions":[null],"exits":[{}]}]}`,
		`{"uuid":"76f0a02f-3b75-4b86-9064-e9195e1b3a02","name":"b","spec_version":"13.0.0","language":"eng","type":"messaging","localization":{"spa":null},"nodes":[]}`,
		`{"uuid":"76f0a02f-3b75-4b86-9064-e9195e1b3a02","name":"b","spec_version":"13.0.0","language":"eng","type":"messaging","localization":{"spa":{"x":{"text":"notalist"}}},"nodes":[]}`} {
		try([]byte(s), "literal")
	}
}

// the idx-th member (in path order) of the document removed, nulled or emptied; nil when there is no such member
func c16MutateAt(data []byte, idx int, kind string) ([]byte, string) {
	var doc any
	if json.Unmarshal(data, &doc) != nil {
		return nil, ""
	}
	type slot struct {
		set  func(any)
		del  func()
		path string
	}
	var slots []slot
	var walk func(v any, path string)
	walk = func(v any, path string) {
		switch t := v.(type) {
		case map[string]any:
			keys := make([]string, 0, len(t))
			for k := range t {
				keys = append(keys, k)
			}
			sort.Strings(keys)
			for _, k := range keys {
				k, x := k, t[k]
				slots = append(slots, slot{func(n any) { t[k] = n }, func() { delete(t, k) }, path + "." + k})
				walk(x, path+"."+k)
			}
		case []any:
			for i, x := range t {
				walk(x, fmt.Sprintf("%s[%d]", path, i))
			}
		}
	}
	walk(doc, "$")
	if idx >= len(slots) {
		return nil, ""
	}
	sl := slots[idx]
	switch kind {
	case "remove":
		sl.del()
	case "null":
		sl.set(nil)
	case "empty-string":
		sl.set("")
	default:
		sl.set(map[string]any{})
	}
	b, _ := json.Marshal(doc)
	return b, kind + "@" + sl.path
}

func c16LegacyHolders() [][]byte {
	var out [][]byte
	dir := "/repo/flows/definition/legacy/testdata/"
	meta := `"metadata": {"uuid": "50c3706e-fedb-42c0-8eab-dda3335714b7", "name": "TestFlow"}`
	actionSets := `[{"uuid": "5b977652-91e3-48be-8e86-7c8094b4aa8f", "x": 0, "y": 2200, "destination": null, "exit_uuid": "cfcf5cef-49f9-41a6-886b-f466575a3045", "actions": []},
		{"uuid": "833fc698-d590-42dc-93e1-39e701b7e8e4", "x": 0, "y": 2400, "destination": null, "exit_uuid": "da3e7eaf-c087-4e80-97b5-0b2e217fcc93", "actions": []},
		{"uuid": "42ff72d3-5f4d-4dbf-89c9-8a97864dabcd", "x": 0, "y": 2600, "destination": null, "exit_uuid": "6a8cb81b-1b59-4cfb-b00e-575ccbafd3ba", "actions": []}]`
	var rulesets []struct {
		R json.RawMessage `json:"legacy_ruleset"`
	}
	if b, err := os.ReadFile(dir + "rulesets.json"); err == nil && json.Unmarshal(b, &rulesets) == nil {
		for _, t := range rulesets {
			var rs struct {
				UUID string `json:"uuid"`
			}
			json.Unmarshal(t.R, &rs)
			out = append(out, []byte(fmt.Sprintf(`{"base_language": "eng", "entry": %q, "flow_type": "F", "rule_sets": [%s], "action_sets": %s, %s}`, rs.UUID, t.R, actionSets, meta)))
		}
	}
	var actions []struct {
		A json.RawMessage `json:"legacy_action"`
		T string          `json:"legacy_flow_type"`
	}
	if b, err := os.ReadFile(dir + "actions.json"); err == nil && json.Unmarshal(b, &actions) == nil {
		for _, t := range actions {
			ft := t.T
			if ft == "" {
				ft = "F"
			}
			out = append(out, []byte(fmt.Sprintf(`{"base_language": "eng", "entry": "10e483a8-5ffb-4c4f-917b-d43ce86c1d65", "flow_type": %q, "action_sets": [{"uuid": "10e483a8-5ffb-4c4f-917b-d43ce86c1d65",
				"x": 100, "y": 0, "destination": null, "exit_uuid": "cfcf5cef-49f9-41a6-886b-f466575a3045", "actions": [%s]}], "rule_sets": [], %s}`, ft, t.A, meta)))
		}
	}
	var tests []struct {
		T json.RawMessage `json:"legacy_test"`
	}
	if b, err := os.ReadFile(dir + "tests.json"); err == nil && json.Unmarshal(b, &tests) == nil {
		for _, t := range tests {
			out = append(out, []byte(fmt.Sprintf(`{"base_language": "eng", "entry": "10e483a8-5ffb-4c4f-917b-d43ce86c1d65", "flow_type": "F", "action_sets": %s,
				"rule_sets": [{"uuid": "10e483a8-5ffb-4c4f-917b-d43ce86c1d65", "x": 100, "y": 0, "label": "Name", "operand": "@step.value", "ruleset_type": "wait_message", "config": {},
				"rules": [{"uuid": "9fe2d9b6-9bea-4bd0-8c57-ef1b4c5b2c3d", "category": {"eng": "Match"}, "destination": "5b977652-91e3-48be-8e86-7c8094b4aa8f", "destination_type": "A", "test": %s},
				{"uuid": "1c75fd71-027b-40e8-a819-151a0f8140e6", "category": {"eng": "Other"}, "destination": null, "destination_type": null, "test": {"type": "true"}}]}], %s}`, actionSets, t.T, meta)))
		}
	}
	return out
}

// every string in a JSON document, by its path
func stringsByPath(data []byte, out map[string]string) {
	var doc any
	if json.Unmarshal(data, &doc) != nil {
		return
	}
	var walk func(v any, path string)
	walk = func(v any, path string) {
		switch t := v.(type) {
		case map[string]any:
			for k, x := range t {
				walk(x, path+"/"+k)
			}
		case []any:
			for i, x := range t {
				walk(x, fmt.Sprintf("%s/%d", path, i))
			}
		case string:
			out[path] = t
		}
	}
	walk(doc, "")
}

func canonUUIDs(b []byte) string {
	seen := map[string]int{}
	return uuidLikeRe.ReplaceAllStringFunc(string(b), func(u string) string {
		n, ok := seen[u]
		if !ok {
			n = len(seen)
			seen[u] = n
		}
		return fmt.Sprintf("U%d", n)
	})
}

var uuidLikeRe = regexp.MustCompile(`[0-9a-f]{8}-[0-9a-f]{4}-[0-9a-f]{4}-[0-9a-f]{4}-[0-9a-f]{12}`)

// ---------------------------------------------------------------------------------------------------------------------
// K:migstep — each registered per-version function (13.1, 13.2, 13.4, 13.5, 13.6) called directly on the decoded
// definition, as migrate() calls it, against the Lean model of that function (Migrate/Steps.lean) on the same document;
// the UUIDs the function draws come from a counting generator whose sequence the model is given
// ---------------------------------------------------------------------------------------------------------------------

type c16CountGen struct{ n int }

func c16SeqUUID(i int) string { return fmt.Sprintf("0f0f0f0f-0000-4000-8000-%012d", i) }

func (g *c16CountGen) NextV4() uuids.UUID { u := c16SeqUUID(g.n); g.n++; return uuids.UUID(u) }
func (g *c16CountGen) NextV7() uuids.UUID { return g.NextV4() }

func c16MigSteps(c *Ctx, name string, data []byte, fromVersion string, feats string) {
	cur := data
	var seq []string
	for i := 0; i < 48; i++ {
		seq = append(seq, hx(c16SeqUUID(i)))
	}
	for vi, v := range c16Versions[1:] {
		vnum := vi + 1
		if !c16Less(fromVersion, v) {
			continue
		}
		flow, err := migrations.ReadFlow(cur)
		if err != nil {
			return
		}
		inDoc := string(jsonx.MustMarshal(flow))
		var fn migrations.MigrationFunc
		for rv, f := range migrations.Registered() {
			if rv.String() == v {
				fn = f
			}
		}
		if fn == nil {
			c.Fail("correspondence", "K:migstep", "K:migstep", "no migration function registered for "+v, nil)
			return
		}
		desc := map[string]any{"definition": name, "function": "Migrate13_" + fmt.Sprint(vnum), "features": feats}
		if len(inDoc) < 6000 {
			desc["input"] = json.RawMessage(inDoc)
		}
		gen := &c16CountGen{}
		uuids.SetGenerator(gen)
		var out migrations.Flow
		var merr error
		panicked := c.Guard("K-migstep", "panic:%site%", desc, func() { out, merr = fn(flow, migrations.DefaultConfig) })
		uuids.SetGenerator(uuids.DefaultGenerator)
		if panicked || merr != nil {
			return
		}
		out["spec_version"] = semver.MustParse(v).String()
		next, err := jsonx.Marshal(out)
		if err != nil {
			return
		}
		if vnum != 3 {
			in, ok1 := jsonTokens(inDoc, false)
			o, ok2 := jsonTokens(string(next), false)
			if ok1 && ok2 && len(in) < 12000 && gen.n <= len(seq) {
				c.Eval(fmt.Sprintf("migstep|%d|%s|%v", vnum, feats, inDoc != string(next)))
				c.Count(fmt.Sprintf("migstep:13.%d:changed=%v", vnum, canonVersionless(inDoc) != canonVersionless(string(next))))
				c.Model("migstep", fmt.Sprintf("migstep %d 0 %s %s", vnum, strings.Join(seq, ","), strings.Join(in, " ")),
					fmt.Sprintf("ok %d %s", gen.n, strings.Join(o, " ")), desc)
			}
		}
		cur = next
	}
}

var specVersionRE = regexp.MustCompile(`"spec_version":"[^"]*"`)

func canonVersionless(s string) string { return specVersionRE.ReplaceAllString(s, "") }

// definitions made to exercise what the per-version functions read: old-style templating objects in all their forms,
// translations of their variables / params in several languages (some languages or items not objects, some properties not
// lists, lists with other things than strings, items that become empty), several send_msg actions sharing UUIDs, things
// that are not objects among nodes, actions, components and categories, languages of every length, names at and around
// the 13.6 limits with other than ASCII letters and every kind of white space
func c16StepDoc(r *Rng, i int) c16Def {
	us := &uuidSeq{n: 7000000 + i*100}
	version := Pick(r, []string{"13.0.0", "13.0.0", "13.1.0", "13.3.0", "13.3.0", "13.4.0", "13.4.0", "13.4.0", "13.5.0"})
	strOrOdd := func(s string) any {
		switch r.Intn(14) {
		case 0:
			return nil
		case 1:
			return 7
		case 2:
			return map[string]any{"x": s}
		}
		return s
	}
	strList := func(n int) []any {
		out := []any{}
		for k := 0; k < n; k++ {
			out = append(out, strOrOdd(Pick(r, []string{"@contact.name", "boy", "", "@(1 + 2)", "x y", "é"})))
		}
		return out
	}
	langs := []string{"fra", "spa", "und", "kin"}
	loc := map[string]any{}
	var itemUUIDs []string
	tr := func(uuid, prop string) {
		itemUUIDs = append(itemUUIDs, uuid)
		for _, l := range langs {
			if !r.Chance(55) {
				continue
			}
			lt, _ := loc[l].(map[string]any)
			if lt == nil {
				lt = map[string]any{}
				loc[l] = lt
			}
			item, _ := lt[uuid].(map[string]any)
			if item == nil {
				item = map[string]any{}
			}
			switch r.Intn(10) {
			case 0:
				item[prop] = "not a list"
			case 1:
				item[prop] = []any{}
			case 2:
				item[prop] = nil
			default:
				item[prop] = strList(r.Range(1, 3))
			}
			if r.Chance(40) {
				item["text"] = []any{"autre"}
			}
			if r.Chance(8) {
				lt[uuid] = "not an object"
			} else if r.Chance(8) {
				lt[uuid] = map[string]any{}
			} else {
				lt[uuid] = item
			}
		}
	}
	var feats []string
	sendMsg := func(shareUUID string) map[string]any {
		u := us.next()
		if shareUUID != "" && r.Chance(50) {
			u = shareUUID
		}
		msg := map[string]any{"uuid": u, "type": "send_msg", "text": "hi"}
		if r.Chance(10) {
			delete(msg, "uuid")
		}
		t := map[string]any{}
		if r.Chance(85) {
			t["template"] = map[string]any{"uuid": "5722e1fd-fe32-4e74-ac78-3cf41a6adb7e", "name": "affirmation"}
		}
		tu := us.next()
		if shareUUID != "" && r.Chance(30) {
			tu = shareUUID
		}
		switch r.Intn(4) {
		case 0: // 13.0 style: no uuid
			t["variables"] = strList(r.Range(0, 3))
			tr("", "variables")
		case 1, 2: // 13.1-13.3 style
			t["uuid"] = strOrOdd(tu)
			switch r.Intn(6) {
			case 0:
				t["variables"] = "text"
			case 1: // none
			default:
				t["variables"] = strList(r.Range(0, 3))
			}
			tr(tu, "variables")
		default: // 13.4 style: components
			var comps []any
			for k := r.Range(0, 3); k > 0; k-- {
				cu := us.next()
				if r.Chance(15) && len(itemUUIDs) > 0 {
					cu = Pick(r, itemUUIDs)
				}
				comp := map[string]any{"uuid": strOrOdd(cu), "name": "body"}
				switch r.Intn(6) {
				case 0:
					comp["params"] = "text"
				case 1:
				default:
					comp["params"] = strList(r.Range(0, 3))
				}
				if r.Chance(80) {
					tr(cu, "params")
				}
				if r.Chance(10) {
					comps = append(comps, Pick(r, []any{nil, "str", 3, []any{}}))
				}
				comps = append(comps, comp)
			}
			if comps == nil && r.Bool() {
				comps = []any{}
			}
			if comps != nil || r.Bool() {
				t["components"] = comps
			}
			if r.Chance(20) {
				t["components"] = "text"
			}
			if r.Chance(30) { // the action's own item has translations already
				tr(u, Pick(r, []string{"text", "template_variables"}))
			}
		}
		switch r.Intn(12) {
		case 0:
			msg["templating"] = nil
		case 1:
			msg["templating"] = "text"
		case 2: // no templating at all
		default:
			msg["templating"] = t
		}
		return msg
	}
	spaces := []string{" ", "\t", " ", " ", "　", "\u0085", "​", "\n"}
	longName := func(limit int) string {
		n := Pick(r, []int{0, 1, limit - 1, limit, limit + 1, limit + 2, limit + 30, limit / 2, limit/3 + 1})
		var sb strings.Builder
		for k := 0; k < n; k++ {
			switch r.Intn(12) {
			case 0:
				sb.WriteString(Pick(r, spaces))
			case 1:
				sb.WriteString(Pick(r, []string{"é", "日", "𝒳", "ß"}))
			default:
				sb.WriteByte(Pick(r, []byte{'a', 'B', '9', '-', '_', ' '}))
			}
		}
		s := sb.String()
		if r.Chance(25) {
			s = Pick(r, spaces) + s
		}
		if r.Chance(25) {
			rs := []rune(s)
			if len(rs) > limit {
				s = string(rs[:limit-1]) + Pick(r, spaces) + string(rs[limit:])
			}
		}
		return s
	}
	var nodes []any
	share := us.next()
	for k := r.Range(1, 3); k > 0; k-- {
		var actions []any
		for a := r.Range(0, 3); a > 0; a-- {
			switch r.Intn(8) {
			case 0:
				actions = append(actions, map[string]any{"uuid": us.next(), "type": "set_run_result", "name": strOrOdd(longName(64)), "value": "v", "category": strOrOdd(longName(36))})
			case 1:
				actions = append(actions, Pick(r, []any{nil, "str", 5}))
			case 2:
				actions = append(actions, map[string]any{"uuid": us.next(), "type": strOrOdd("send_msg"), "templating": map[string]any{"variables": strList(1)}})
			default:
				actions = append(actions, sendMsg(share))
			}
		}
		node := map[string]any{"uuid": us.next(), "exits": []any{map[string]any{"uuid": us.next(), "destination_uuid": nil}}}
		if actions != nil || r.Bool() {
			node["actions"] = actions
		}
		if r.Chance(50) {
			var cats []any
			for q := r.Range(0, 3); q > 0; q-- {
				if r.Chance(10) {
					cats = append(cats, Pick(r, []any{nil, "str"}))
				}
				cats = append(cats, map[string]any{"uuid": us.next(), "name": strOrOdd(longName(36)), "exit_uuid": us.next()})
			}
			router := map[string]any{"type": "switch", "result_name": strOrOdd(longName(64)), "categories": cats}
			if r.Chance(10) {
				router["categories"] = "text"
			}
			node["router"] = router
			if r.Chance(8) {
				node["router"] = Pick(r, []any{nil, "str"})
			}
		}
		if r.Chance(6) {
			nodes = append(nodes, Pick(r, []any{nil, "str", 1}))
		}
		nodes = append(nodes, node)
	}
	flow := map[string]any{"uuid": us.next(), "name": "Steps", "spec_version": version, "type": "messaging", "nodes": nodes,
		"language": Pick(r, []any{"eng", "eng", "base", "", "en", "日", "日本", "fran", nil, 5})}
	switch r.Intn(10) {
	case 0: // no localization
	case 1:
		flow["localization"] = nil
	case 2:
		flow["localization"] = "text"
	default:
		if r.Chance(15) {
			loc[Pick(r, langs)] = Pick(r, []any{nil, "str"})
		}
		flow["localization"] = loc
	}
	if r.Chance(5) {
		flow["nodes"] = Pick(r, []any{nil, "str", map[string]any{}})
	}
	feats = append(feats, "step-doc", version)
	b, _ := json.Marshal(flow)
	return c16Def{name: fmt.Sprintf("stepdoc#%d", i), data: b, version: version, feats: strings.Join(feats, ",")}
}
