package main

import (
	"fmt"
	"regexp"
	"strconv"
	"strings"

	"github.com/antlr4-go/antlr/v4"
	"github.com/nyaruka/gocommon/urns"
	cqlgen "github.com/nyaruka/goflow/antlr/gen/contactql"
	"github.com/nyaruka/goflow/assets"
	"github.com/nyaruka/goflow/assets/static"
	"github.com/nyaruka/goflow/contactql"
	"github.com/nyaruka/goflow/envs"
	"github.com/nyaruka/goflow/excellent"
	"github.com/nyaruka/goflow/excellent/types"
	"github.com/nyaruka/goflow/flows"
	"github.com/nyaruka/goflow/flows/engine"
	"github.com/nyaruka/goflow/flows/events"
	"github.com/nyaruka/goflow/flows/triggers"
)

func init() {
	register("C14", "query texts from the ContactQL grammar (implicit conditions, all comparators and aliases, nesting, quoted and bare literals), "+
		"programmatically built queries and escaped substitutions with adversarial values, both redaction policies; "+
		"non-trivial = distinct (check, value class / query shape, outcome)", runC14)
}

func cqlResolver() contactql.Resolver {
	return contactql.NewMockResolver(
		[]assets.Field{
			static.NewField("f1", "age", "Age", assets.FieldTypeNumber),
			static.NewField("f2", "gender", "Gender", assets.FieldTypeText),
			static.NewField("f3", "state", "State", assets.FieldTypeState),
			static.NewField("f4", "dob", "DOB", assets.FieldTypeDatetime),
			static.NewField("f5", "nick_name", "Nick", assets.FieldTypeText),
		},
		[]assets.Flow{static.NewFlow("fl1", "Registration", []byte(`{}`))},
		[]assets.Group{static.NewGroup("g1", "U-Reporters", ""), static.NewGroup("g2", "Testers", "")},
	)
}

var cqlKinds = map[int]string{
	cqlgen.ContactQLLexerLPAREN: "LP", cqlgen.ContactQLLexerRPAREN: "RP", cqlgen.ContactQLLexerAND: "AND", cqlgen.ContactQLLexerOR: "OR",
	cqlgen.ContactQLLexerCOMPARATOR: "CMP", cqlgen.ContactQLLexerSTRING: "STR", cqlgen.ContactQLLexerPROPERTY: "PROP",
	cqlgen.ContactQLLexerTEXT: "TEXT", cqlgen.ContactQLLexerERROR: "ERR",
}

func cqlLex(s string) string {
	lexer := cqlgen.NewContactQLLexer(antlr.NewInputStream(s))
	lexer.RemoveErrorListeners()
	parts := []string{"toks"}
	for {
		t := lexer.NextToken()
		if t.GetTokenType() == antlr.TokenEOF {
			break
		}
		k, ok := cqlKinds[t.GetTokenType()]
		if !ok {
			k = "?" + strconv.Itoa(t.GetTokenType())
		}
		parts = append(parts, k+":"+hx(t.GetText()))
	}
	return strings.Join(parts, " ")
}

// canonical structural dump of a query tree
func dumpNode(n contactql.QueryNode) string {
	switch t := n.(type) {
	case nil:
		return "nil"
	case *contactql.Condition:
		if t == nil {
			return "nil"
		}
		return fmt.Sprintf("c(%s,%s,%s,%q)", t.PropertyType(), t.PropertyKey(), t.Operator(), t.Value())
	case *contactql.BoolCombination:
		if t == nil {
			return "nil"
		}
		cs := make([]string, len(t.Children()))
		for i, ch := range t.Children() {
			cs[i] = dumpNode(ch)
		}
		return string(t.Operator()) + "[" + strings.Join(cs, " ") + "]"
	}
	return "?"
}

var opNames = map[contactql.Operator]string{contactql.OpEqual: "eq", contactql.OpNotEqual: "neq", contactql.OpContains: "contains",
	contactql.OpGreaterThan: "gt", contactql.OpLessThan: "lt", contactql.OpGreaterThanOrEqual: "gte", contactql.OpLessThanOrEqual: "lte"}

// prefix-notation encoding for the driver
func encNode(n contactql.QueryNode) string {
	switch t := n.(type) {
	case *contactql.Condition:
		return fmt.Sprintf("c %s %s %s %s", t.PropertyType(), hx(t.PropertyKey()), opNames[t.Operator()], hx(t.Value()))
	case *contactql.BoolCombination:
		parts := []string{string(t.Operator()), strconv.Itoa(len(t.Children()))}
		for _, ch := range t.Children() {
			parts = append(parts, encNode(ch))
		}
		return strings.Join(parts, " ")
	}
	return "?"
}

func encNodeOrNil(n contactql.QueryNode) string {
	if n == nil {
		return "nil"
	}
	if c, ok := n.(*contactql.Condition); ok && c == nil {
		return "nil"
	}
	if b, ok := n.(*contactql.BoolCombination); ok && b == nil {
		return "nil"
	}
	return encNode(n)
}

// ---- generators ---------------------------------------------------------------------------

var cqlValues = []string{"1 2", "10=20", "3\"4", "5(6", "7,5", "1-2", "12:30", "1.2.3", "1.", ".5", "1e5", "٣", "1.٣", "bob", "Bob Smith", "", "10", "3.5", "007", "M", "x y", "OR", "and", "name = \"x\"", "a\"b", "a\\", "\\", "a\\\\", "\"", ") OR (id = 1", "\" OR \"\" = \"",
	"é中", "𝟏𝟐𝟑", "𝟏.𝟓", "𐒠𐒡", "１２", "१२.३", "1𝟐", "tel:+123", "+12065551212", "1-2", "a.b", "it's", "x@y.com", "2020-01-01", "\n", "\t x", "a\\\"", "\\\" OR name = \\\"",
	// typographic quotation marks: characters of a value like any other
	"x” OR name != “", "it’s", "„", "“quoted”", "‘a’ OR nick_name = ‘b’", "” AND gender = “M"}

func genCQLValue(r *Rng) string {
	if r.Chance(55) {
		return Pick(r, cqlValues)
	}
	return genStringBS(r, 10)
}

// a query text from the grammar
func genCQLText(r *Rng, depth int) string {
	lit := func() string {
		switch r.Intn(6) {
		case 0:
			return strconv.Quote(genCQLValue(r))
		case 1:
			return Pick(r, []string{"bob", "10", "3.5", "x.y", "+123-456", "tel:+1234", "it's", "a@b.c", "1/2/2020", "é", "_x", "2020-01-02",
				"Tel:+12065551212", "TWITTER:bobby", "\"Mailto:bob@nyaruka.com\"", "WhatsApp:123", "twitter:Bobby", "foo:bar", "Foo.Bar:1", "tel:+1(206)", "mailto:a@b.c"})
		case 2:
			return "\"" + strings.NewReplacer("\"", "", "\\", "").Replace(genCQLValue(r)) + "\""
		case 3:
			return Pick(r, []string{"\"\"", "\"M\"", "\"x y\"", "\"Bob\""})
		case 4:
			return quoteSafe(genCQLValue(r))
		default:
			return Pick(r, []string{"Bob", "M", "F", "15", "eng"})
		}
	}
	cond := func() string {
		if r.Chance(15) {
			return lit() // implicit condition
		}
		prop := Pick(r, []string{"name", "Name", "NAME", "age", "fields.age", "gender", "fields.gender", "tel", "urns.tel", "urn", "language", "id", "uuid", "status", "group",
			"created_on", "last_seen_on", "tickets", "dob", "state", "nick_name", "twitter", "urns.whatsapp", "flow", "nope", "FIELDS.Gender"})
		op := Pick(r, []string{"=", "!=", "~", ">", "<", ">=", "<=", "has", "is", "HAS", "Is", " = ", "="})
		sp := Pick(r, []string{" ", "", "  ", " "})
		return prop + sp + op + sp + lit()
	}
	if depth == 0 || r.Chance(35) {
		return cond()
	}
	a, b := genCQLText(r, depth-1), genCQLText(r, depth-1)
	switch r.Intn(7) {
	case 0:
		return a + " AND " + b
	case 1:
		return a + " OR " + b
	case 2:
		return a + " " + b
	case 3:
		return "(" + a + ")"
	case 4:
		return "(" + a + " or " + b + ") and " + genCQLText(r, depth-1)
	case 5:
		return a + " and (" + b + ")"
	default:
		return a + " OR " + b + " AND " + genCQLText(r, depth-1)
	}
}

// a programmatically built, valid query with arbitrary text values
func genBuilt(r *Rng, depth int) contactql.QueryNode {
	cond := func() contactql.QueryNode {
		v := genCQLValue(r)
		op := Pick(r, []contactql.Operator{contactql.OpEqual, contactql.OpNotEqual})
		switch r.Intn(5) {
		case 0:
			return contactql.NewCondition(contactql.PropertyTypeAttribute, contactql.AttributeName, op, v)
		case 1:
			return contactql.NewCondition(contactql.PropertyTypeField, "gender", op, v)
		case 2:
			return contactql.NewCondition(contactql.PropertyTypeField, "nick_name", op, v)
		case 3:
			return contactql.NewCondition(contactql.PropertyTypeURN, Pick(r, []string{"tel", "twitter", "whatsapp"}), op, v)
		default:
			return contactql.NewCondition(contactql.PropertyTypeField, "age", Pick(r, []contactql.Operator{contactql.OpEqual, contactql.OpGreaterThan, contactql.OpLessThanOrEqual}),
				Pick(r, []string{"10", "3.5", "0", "007", "12.50"}))
		}
	}
	if depth == 0 || r.Chance(35) {
		return cond()
	}
	n := r.Range(2, 4)
	if r.Chance(10) {
		n = r.Intn(2) // constructible but not parseable: 0 or 1 children
	}
	cs := make([]contactql.QueryNode, n)
	for i := range cs {
		cs[i] = genBuilt(r, depth-1)
	}
	return contactql.NewBoolCombination(Pick(r, []contactql.BoolOperator{contactql.BoolOperatorAnd, contactql.BoolOperatorOr}), cs...)
}

func runC14(c *Ctx) {
	r := c.Rng
	resolver := cqlResolver()
	envPlain := envs.NewBuilder().Build()
	envRedact := envs.NewBuilder().WithRedactionPolicy(envs.RedactionPolicyURNs).Build()
	envsBoth := []struct {
		name string
		env  envs.Environment
	}{{"none", envPlain}, {"urns", envRedact}}

	parse := func(env envs.Environment, text string) (q *contactql.ContactQuery, err error, panicked bool) {
		panicked = c.Guard("parse", "panic:ParseQuery", map[string]any{"text": text}, func() { q, err = contactql.ParseQuery(env, text, resolver) })
		return
	}

	// ---- M1: parse -> String -> parse is the identity on structure ------------------------
	n := c.N(8000, 400000)
	for i := 0; i < n; i++ {
		text := genCQLText(r, 3)
		c.Model("qlex", "qlex "+hx(text), cqlLex(text), text)
		for _, e := range envsBoth {
			q, err, p := parse(e.env, text)
			if p {
				continue
			}
			if err != nil {
				c.Eval("")
				c.Count("M1-rejected")
				continue
			}
			printed := q.String()
			q2, err2, p2 := parse(e.env, printed)
			if p2 {
				continue
			}
			ok := err2 == nil && dumpNode(q2.Root()) == dumpNode(q.Root())
			c.Eval("M1|" + shapeOf(dumpNode(q.Root())) + "|" + fmt.Sprint(ok))
			c.Count("check:M1-reparse")
			if !ok {
				sig := "reparse-differs"
				if hasValueEndingBackslash(q.Root()) {
					sig = "printed-value-ends-with-backslash"
				}
				got := "error: " + fmt.Sprint(err2)
				if err2 == nil {
					got = dumpNode(q2.Root())
				}
				c.Fail("monitor", "M1-reparse", sig, "formatting a parsed query and parsing it again does not give the same query",
					map[string]any{"policy": e.name, "text": text, "parsed": dumpNode(q.Root()), "printed": printed, "reparsed": got})
			}
			// printing is stable
			if err2 == nil && q2.String() != printed {
				c.Fail("monitor", "M1-print-stable", "print-unstable", "formatting is not stable after one round",
					map[string]any{"policy": e.name, "text": text, "printed": printed, "printed2": q2.String()})
			}
			if i < 2 && e.name == "none" {
				c.Sample(map[string]any{"check": "M1", "text": text, "printed": printed})
			}
			if q.Root() != nil {
				c.Model("qprint", "qprint "+encNode(q.Root()), "ok "+hx(printed), printed)
			}
		}
	}

	// ---- M2: built queries format to text that parses back to them -------------------------
	n = c.N(8000, 400000)
	for i := 0; i < n; i++ {
		built := genBuilt(r, 2)
		var simp contactql.QueryNode
		var printed string
		if c.Guard("M2-built", "panic:Simplify/Stringify", map[string]any{"built": dumpNode(built)}, func() {
			simp = built.Simplify()
			printed = contactql.Stringify(built)
		}) {
			continue
		}
		c.Model("qsimplify", "qsimplify "+encNode(built), encNodeOrNil(simp), dumpNode(built))
		c.Model("qprint", "qprint "+encNode(built), "ok "+hx(printed), dumpNode(built))
		if encNodeOrNil(simp) == "nil" {
			c.Eval("")
			c.Count("M2-simplifies-to-nil")
			continue
		}
		if !parseable(built) {
			c.Eval("")
			c.Count("M2-unparseable-shape-skipped") // combinations with fewer than two children cannot be written as text
			continue
		}
		for _, e := range envsBoth {
			if e.name == "urns" && hasURNCond(built) {
				c.Count("M2-urn-under-redaction-skipped")
				continue
			}
			q, err, p := parse(e.env, printed)
			if p {
				continue
			}
			ok := err == nil && dumpNode(q.Root()) == dumpNode(simp)
			c.Eval("M2|" + shapeOf(dumpNode(simp)) + "|" + fmt.Sprint(ok))
			c.Count("check:M2-built")
			if !ok {
				sig := "built-reparse-differs"
				if hasValueEndingBackslash(built) {
					sig = "printed-value-ends-with-backslash"
				}
				got := "error: " + fmt.Sprint(err)
				if err == nil {
					got = dumpNode(q.Root())
				}
				c.Fail("monitor", "M2-built", sig, "a valid built query does not format to text that parses back to it",
					map[string]any{"policy": e.name, "built": dumpNode(built), "simplified": dumpNode(simp), "printed": printed, "reparsed": got})
			}
		}
		if i < 2 {
			c.Sample(map[string]any{"check": "M2", "built": dumpNode(built), "printed": printed})
		}
	}

	// ---- K: the parser model against the generated parser (real lexer tokens -> simplified tree) -----------------
	{
		attrs := []string{"uuid", "id", "name", "status", "language", "urn", "group", "flow", "history", "tickets", "created_on", "last_seen_on"}
		props := []string{"name", "Name", "NAME", "age", "fields.age", "gender", "fields.gender", "tel", "urns.tel", "urn", "language", "id", "uuid", "status", "group", "created_on",
			"last_seen_on", "tickets", "dob", "state", "nick_name", "twitter", "urns.whatsapp", "flow", "nope", "FIELDS.Gender", "foo.bar", "urns.x.y", "fields.a.b", "mailto", "_x", "x1"}
		var schemes []string
		for _, pn := range props {
			if l := strings.ToLower(pn); !strings.Contains(l, ".") && urns.IsValidScheme(l) {
				schemes = append(schemes, hx(l))
			}
		}
		var ah []string
		for _, a := range attrs {
			ah = append(ah, hx(a))
		}
		sl := "[]"
		if len(schemes) > 0 {
			sl = strings.Join(schemes, ",")
		}
		var gen func(depth int) string
		gen = func(depth int) string {
			cond := func() string {
				lit := Pick(r, []string{"bob", "10", "3.5", "x.y", "+123-456", "it's", "\"M\"", "\"x y\"", "\"\"", "\"a\\\"b\"", "Bob", "15", "eng", "\"OR\"", "\") OR (\""})
				op := Pick(r, []string{"=", "!=", "~", ">", "<", ">=", "<=", "has", "is", "HAS", "Is", " = "})
				sp := Pick(r, []string{" ", "", "  "})
				if op[0] >= 'A' || op[0] == ' ' {
					sp = " " // a comparator spelled in letters needs its spaces, or it is part of a word
				}
				return Pick(r, props) + sp + op + sp + lit
			}
			if depth == 0 || r.Chance(30) {
				return cond()
			}
			a, b := gen(depth-1), gen(depth-1)
			switch r.Intn(10) {
			case 0, 1:
				return a + " AND " + b
			case 2, 3:
				return a + " OR " + b
			case 4, 5:
				return a + " " + b // juxtaposition is an implicit AND, below AND and above OR
			case 6:
				return "(" + a + ")"
			case 7:
				return "(" + a + " " + Pick(r, []string{"and", "Or", "AND", "OR", ""}) + " " + b + ")"
			case 8:
				return a + " and (" + b + ")"
			default:
				return Pick(r, []string{a + " AND", "(" + a, a + ")", a + " OR OR " + b, "AND " + a, a + " = " + b, "()", a + " (" + b + ")"})
			}
		}
		envPlain := envs.NewBuilder().Build()
		for i := 0; i < c.N(3000, 150000); i++ {
			text := gen(r.Range(0, 4))
			var q *contactql.ContactQuery
			var err error
			if c.Guard("K-qparse", "panic:ParseQuery", map[string]any{"text": text}, func() { q, err = contactql.ParseQuery(envPlain, text, nil) }) {
				continue
			}
			exp := "err"
			if err == nil {
				exp = encNodeOrNil(q.Root())
			} else if qe, ok := err.(*contactql.QueryError); ok && qe.Code() != contactql.ErrSyntax && qe.Code() != contactql.ErrUnknownPropertyType {
				c.Count("K-qparse-skipped-validation-error") // operators against property types are checked after parsing (C15's part)
				continue
			}
			toks := strings.TrimPrefix(cqlLex(text), "toks")
			c.Model("qparse", "qparse "+strings.Join(ah, ",")+" "+sl+toks, exp, text)
		}
	}

	// ---- M3: an escaped substitution is exactly one literal -------------------------------
	type tpl struct {
		text string // with {V} and optionally {W}
		want func(v, w string) string
	}
	cnd := func(pt, key, op, v string) string { return fmt.Sprintf("c(%s,%s,%s,%q)", pt, key, op, v) }
	tpls := []tpl{
		{`name = {V}`, func(v, w string) string { return cnd("attr", "name", "=", v) }},
		{`name = {V} OR gender = "M"`, func(v, w string) string { return "or[" + cnd("attr", "name", "=", v) + " " + cnd("field", "gender", "=", "M") + "]" }},
		{`gender = "F" AND name != {V} AND nick_name = {W}`, func(v, w string) string {
			return "and[" + cnd("field", "gender", "=", "F") + " " + cnd("attr", "name", "!=", v) + " " + cnd("field", "nick_name", "=", w) + "]"
		}},
		{`(nick_name = {V}) or (gender = {W} and age > 10)`, func(v, w string) string {
			return "or[" + cnd("field", "nick_name", "=", v) + " and[" + cnd("field", "gender", "=", w) + " " + cnd("field", "age", ">", "10") + "]]"
		}},
		{`gender={V} nick_name={W} name = "x"`, func(v, w string) string {
			return "and[" + cnd("field", "gender", "=", v) + " " + cnd("field", "nick_name", "=", w) + " " + cnd("attr", "name", "=", "x") + "]"
		}},
		// the same value in several places
		{`gender = "F" AND (name = {V} OR nick_name = {V})`, func(v, w string) string {
			return "and[" + cnd("field", "gender", "=", "F") + " or[" + cnd("attr", "name", "=", v) + " " + cnd("field", "nick_name", "=", v) + "]]"
		}},
		{`name = {W} OR nick_name = {V} OR gender = {W} OR nick_name != {V}`, func(v, w string) string {
			return "or[" + cnd("attr", "name", "=", w) + " " + cnd("field", "nick_name", "=", v) + " " + cnd("field", "gender", "=", w) + " " + cnd("field", "nick_name", "!=", v) + "]"
		}},
	}
	evaluator := excellent.NewEvaluator()
	n = c.N(8000, 400000)
	for i := 0; i < n; i++ {
		v, w := genCQLValue(r), genCQLValue(r)
		t := tpls[r.Intn(len(tpls))]
		ev, ew := flows.ContactQueryEscaping(v), flows.ContactQueryEscaping(w)
		text := strings.ReplaceAll(strings.ReplaceAll(t.text, "{V}", ev), "{W}", ew)
		// the substitution as the engine does it: the template evaluated with the escaping, values referenced as identifiers or expressions
		{
			refV, refW := Pick(r, []string{"@v", "@v", "@(v)", "@vals.v"}), Pick(r, []string{"@w", "@(w)", "@vals.w"})
			tt := strings.ReplaceAll(strings.ReplaceAll(t.text, "{V}", refV), "{W}", refW)
			vals := types.NewXObject(map[string]types.XValue{"v": types.NewXText(v), "w": types.NewXText(w)})
			ctx := types.NewXObject(map[string]types.XValue{"v": types.NewXText(v), "w": types.NewXText(w), "vals": vals})
			var evaluated string
			var eerr error
			desc := map[string]any{"template": tt, "v": v, "w": w}
			if !c.Guard("M3-template", "panic:template", desc, func() {
				evaluated, _, eerr = evaluator.Template(envs.NewBuilder().Build(), ctx, tt, flows.ContactQueryEscaping)
			}) {
				c.Count("check:M3-template")
				if eerr != nil || evaluated != text {
					desc["evaluated"], desc["expected"] = evaluated, text
					c.Fail("monitor", "M3-template", "template-escaping-differs", "evaluating a query template with the contact query escaping did not escape every substituted value", desc)
				}
			}
		}
		c.Model("qlex", "qlex "+hx(text), cqlLex(text), text)
		for _, e := range envsBoth {
			q, err, p := parse(e.env, text)
			if p {
				continue
			}
			want := t.want(v, w)
			ok := err == nil && dumpNode(q.Root()) == want
			c.Eval("M3|" + classifyString(v) + "|" + fmt.Sprint(ok))
			c.Count("check:M3-injection")
			if !ok {
				sig := "injection"
				if strings.HasSuffix(v, "\\") || strings.HasSuffix(w, "\\") {
					sig = "escaped-value-ends-with-backslash"
				}
				got := "error: " + fmt.Sprint(err)
				if err == nil {
					got = dumpNode(q.Root())
				}
				c.Fail("monitor", "M3-injection", sig, "a value substituted with the engine's escaping did not become exactly one literal value",
					map[string]any{"policy": e.name, "template": t.text, "v": v, "w": w, "text": text, "want": want, "got": got})
			}
		}
		if i < 2 {
			c.Sample(map[string]any{"check": "M3", "template": t.text, "v": v, "text": text})
		}
	}
	c14EngineSubstitution(c, parse)
}

func shapeOf(dump string) string {
	// query shape without values: keep structure tokens only
	var b strings.Builder
	inq := false
	for i := 0; i < len(dump); i++ {
		ch := dump[i]
		if ch == '"' && (i == 0 || dump[i-1] != '\\') {
			inq = !inq
			continue
		}
		if !inq {
			b.WriteByte(ch)
		}
	}
	s := b.String()
	if len(s) > 80 {
		s = s[:80]
	}
	return s
}

func parseable(n contactql.QueryNode) bool {
	if b, ok := n.(*contactql.BoolCombination); ok {
		if len(b.Children()) < 2 {
			return false
		}
		for _, ch := range b.Children() {
			if !parseable(ch) {
				return false
			}
		}
	}
	return true
}

func hasValueEndingBackslash(n contactql.QueryNode) bool {
	switch t := n.(type) {
	case *contactql.Condition:
		return strings.HasSuffix(t.Value(), "\\")
	case *contactql.BoolCombination:
		for _, ch := range t.Children() {
			if hasValueEndingBackslash(ch) {
				return true
			}
		}
	}
	return false
}

func hasURNCond(n contactql.QueryNode) bool {
	switch t := n.(type) {
	case *contactql.Condition:
		return t.PropertyType() == contactql.PropertyTypeURN
	case *contactql.BoolCombination:
		for _, ch := range t.Children() {
			if hasURNCond(ch) {
				return true
			}
		}
	}
	return false
}

// does the text contain (as the real lexer sees it) a STRING token closed right after a backslash?
func hasBackslashClosedString(text string) bool {
	lexer := cqlgen.NewContactQLLexer(antlr.NewInputStream(text))
	lexer.RemoveErrorListeners()
	for {
		t := lexer.NextToken()
		if t.GetTokenType() == antlr.TokenEOF {
			return false
		}
		if t.GetTokenType() == cqlgen.ContactQLLexerSTRING {
			if txt := t.GetText(); len(txt) >= 3 && strings.HasSuffix(txt, `\"`) {
				return true
			}
		}
	}
}


// M4-engine: the substitution as a session makes it — a start_session action whose contact_query is a template over the
// message just received, under engines with every small and the default limit on evaluated text: the query the action hands
// over (session_triggered.contact_query), when it is a query at all, has the template's conditions and no others, whatever
// the length of the value (a value cut by the limit is still one value)
func c14EngineSubstitution(c *Ctx, parse func(env envs.Environment, text string) (*contactql.ContactQuery, error, bool)) {
	r := c.Rng
	const assetsJSON = `{
	  "channels": [{"uuid": "57f1078f-88aa-46f4-a59a-948a5739c03d", "name": "Android", "address": "+17036975131", "schemes": ["tel"], "roles": ["send", "receive"]}],
	  "fields": [{"uuid": "d66a7823-eada-40e5-9a3a-57239d4690bf", "key": "gender", "name": "Gender", "type": "text"}, {"uuid": "d66a7823-eada-40e5-9a3a-57239d4690c0", "key": "nick_name", "name": "Nick", "type": "text"}],
	  "flows": [
	    {"uuid": "50c3706e-fedb-42c0-8eab-dda3335714b7", "name": "Starter", "spec_version": "13.6.0", "language": "eng", "type": "messaging", "revision": 1, "expire_after_minutes": 60, "localization": {},
	     "nodes": [{"uuid": "72a1f5df-49f9-45df-94c9-d86f7ea064e5", "actions": [
	        {"uuid": "9a1b2c3d-0000-4000-8000-000000000031", "type": "start_session", "flow": {"uuid": "b7cf0d83-f1c9-411c-96fd-c511a4cfa86d", "name": "Other"}, "contact_query": "%s", "exclusions": {}}],
	       "exits": [{"uuid": "d7a36118-0a38-4b35-a7e4-ae89042f0d3c"}]}]},
	    {"uuid": "b7cf0d83-f1c9-411c-96fd-c511a4cfa86d", "name": "Other", "spec_version": "13.6.0", "language": "eng", "type": "messaging", "revision": 1, "expire_after_minutes": 60, "localization": {}, "nodes": []}
	  ]}`
	type tpl struct{ text, shape string }
	tpls := []tpl{
		{`name = @input.text`, `c(attr,name,=)`},
		{`gender = \"F\" AND name = @input.text AND nick_name != \"\"`, `and[c(field,gender,=) c(attr,name,=) c(field,nick_name,!=)]`},
		{`name = @(input.text) OR nick_name = @input.text`, `or[c(attr,name,=) c(field,nick_name,=)]`},
	}
	valueRe := regexp.MustCompile(`,"(?:[^"\\]|\\.)*"\)`)
	for i := 0; i < c.N(400, 12000); i++ {
		t := Pick(r, tpls)
		limit := Pick(r, []int{20, 40, 64, 100, 640, 10000})
		head := Pick(r, []string{`x" OR name != `, `x\" OR name != `, `" OR gender = "M" OR name = "`, `a") OR (name != "`, `x" AND nick_name = `, genCQLValue(r) + ` " OR name != `})
		fill := Pick(r, []string{"z", "zz z", `"`, `\`, `z"`, "é"})
		n := limit + Pick(r, []int{-30, -10, -4, -3, -2, -1, 0, 1, 2, 3, 5, 20, 200})
		value := head
		for len([]rune(value)) < n {
			value += fill
		}
		desc := map[string]any{"contact_query": strings.ReplaceAll(t.text, `\"`, `"`), "message_text": truncate(value, 300), "message_length": len([]rune(value)), "max_template_chars": limit}
		var got string
		ok := false
		if c.Guard("M4-engine", "panic:session", desc, func() {
			src, err := static.NewSource([]byte(fmt.Sprintf(assetsJSON, t.text)))
			if err != nil {
				return
			}
			env := envs.NewBuilder().Build()
			sa, err := engine.NewSessionAssets(env, src, nil)
			if err != nil {
				return
			}
			eng := engine.NewBuilder().WithMaxTemplateChars(limit).Build()
			contact := flows.NewEmptyContact(sa, "Ann", "eng", nil)
			trig := triggers.NewBuilder(env, assets.NewFlowReference("50c3706e-fedb-42c0-8eab-dda3335714b7", "Starter"), contact).
				Msg(flows.NewMsgIn("0d1c5a36-fff5-4a0f-a2c7-02f7c7f3c4a8", "tel:+12065550100", nil, value, nil)).Build()
			_, sp, err := eng.NewSession(sa, trig)
			if err != nil {
				return
			}
			for _, e := range sp.Events() {
				if st, isST := e.(*events.SessionTriggeredEvent); isST {
					got, ok = st.ContactQuery, true
				}
			}
		}) {
			continue
		}
		c.Count("check:M4-engine")
		if !ok {
			c.Eval(fmt.Sprintf("M4|%d|no-session-triggered", limit))
			continue
		}
		q, err, p := parse(envs.NewBuilder().Build(), got)
		if p {
			continue
		}
		outcome := "not-a-query"
		if err == nil {
			shape := valueRe.ReplaceAllString(dumpNode(q.Root()), ")")
			outcome = "same-conditions"
			if shape != t.shape {
				outcome = "other-conditions"
				desc["handed_over"], desc["conditions"], desc["expected_conditions"] = truncate(got, 400), truncate(shape, 300), t.shape
				c.Fail("monitor", "M4-engine", "injection:cut-inside-value", "a value substituted into a contact query template by a session added, dropped or altered conditions", desc)
			}
		}
		c.Eval(fmt.Sprintf("M4|%d|%v|%s", limit, len([]rune(value)) > limit, outcome))
	}
}
