package main

import (
	"encoding/json"
	"fmt"
	"os"
	"os/exec"
	"path/filepath"
	"regexp"
	"sort"
	"strings"

	"github.com/nyaruka/goflow/assets"
	"github.com/nyaruka/goflow/assets/static"
	"github.com/nyaruka/goflow/flows/definition"
	"github.com/nyaruka/goflow/flows/definition/migrations"
)

func init() {
	register("C09", "N goroutines (8 quick, 8 and 16 thorough; several rounds) each starting, marshalling, reading, resuming and inspecting its own sessions and evaluating expressions over values shared process-wide, "+
		"against ONE SessionAssets per assets file of the repository's runner test data (incl. legacy definitions migrated lazily on first use), from a cold flow cache, under the race detector; "+
		"every worker's canonical output compared with the same work alone over fresh assets; reads of each flow from the source counted; sequential Get/FindByName sequences against the cache model; "+
		"non-trivial = distinct (assets file, worker outcome)", runC09)
}

type flowCountSource struct {
	assets.Source
	reads []string
}

func (c *flowCountSource) FlowByUUID(u assets.FlowUUID) (assets.Flow, error) {
	c.reads = append(c.reads, string(u))
	return c.Source.FlowByUUID(u)
}

var raceFrameRe = regexp.MustCompile(`\n  ([\w./()*\-]+)\(\)\n`)

// the two access stacks of a race report, reduced to their innermost goflow frames
func raceSignature(block string) string {
	parts := strings.Split(block, "\n\n")
	var sides []string
	for _, p := range parts {
		if !(strings.Contains(p, "Write at") || strings.Contains(p, "Read at") || strings.Contains(p, "Previous write") || strings.Contains(p, "Previous read")) {
			continue
		}
		frame := "?"
		for _, m := range raceFrameRe.FindAllStringSubmatch(p, -1) {
			if strings.Contains(m[1], "nyaruka/goflow") {
				frame = m[1][strings.Index(m[1], "nyaruka/goflow/")+len("nyaruka/goflow/"):]
				break
			}
		}
		sides = append(sides, frame)
	}
	sort.Strings(sides)
	return strings.Join(sides, "|")
}

func runC09(c *Ctx) {
	r := c.Rng
	// ---- sequential correspondence: the flow cache against the model ------------------------------------
	files, _ := filepath.Glob("/repo/test/testdata/runner/*.json")
	sort.Strings(files)
	type fa struct {
		data  []byte
		uuids []string
		names []string
	}
	var pool []fa
	for _, fn := range files {
		if strings.Count(filepath.Base(fn), ".") > 1 {
			continue
		}
		b, err := os.ReadFile(fn)
		if err != nil {
			continue
		}
		var a struct {
			Flows []struct {
				UUID string `json:"uuid"`
				Name string `json:"name"`
			} `json:"flows"`
		}
		if json.Unmarshal(b, &a) != nil || len(a.Flows) < 2 {
			continue
		}
		x := fa{data: b}
		for _, f := range a.Flows {
			if f.UUID != "" {
				x.uuids = append(x.uuids, f.UUID)
				x.names = append(x.names, f.Name)
			}
		}
		if len(x.uuids) >= 2 {
			pool = append(pool, x)
		}
	}
	for i := 0; i < c.N(300, 6000) && len(pool) > 0; i++ {
		x := Pick(r, pool)
		src, err := static.NewSource(x.data)
		if err != nil {
			continue
		}
		cs := &flowCountSource{Source: src}
		fas := definition.NewFlowAssets(cs, migrations.DefaultConfig)
		nops := r.Range(1, 12)
		var keys []string
		var got []string
		for k := 0; k < nops; k++ {
			ki := r.Intn(len(x.uuids) + 1)
			if ki == len(x.uuids) {
				keys = append(keys, "9") // a flow that does not exist
				_, err := fas.Get(assets.FlowUUID("00000000-0000-4000-8000-000000000000"))
				got = append(got, fmt.Sprint(err != nil))
				continue
			}
			keys = append(keys, fmt.Sprint(ki))
			f, err := fas.Get(assets.FlowUUID(x.uuids[ki]))
			if err != nil {
				got = append(got, "err")
			} else {
				got = append(got, fmt.Sprint(string(f.UUID()) == x.uuids[ki]))
			}
		}
		// reads the model predicts: the first request of each existing key, in order; a missing flow is asked for every time
		idx := map[string]string{"00000000-0000-4000-8000-000000000000": "9"}
		for k, u := range x.uuids {
			idx[u] = fmt.Sprint(k)
		}
		var reads []string
		for _, u := range cs.reads {
			reads = append(reads, idx[u])
		}
		c.Model("cacheseq", "cacheseq "+strings.Join(keys, ","), "reads "+strings.Join(reads, ","), map[string]any{"flows": x.uuids, "requests": keys})
		c.Eval(fmt.Sprintf("cacheseq|%d|%d", nops, len(cs.reads)))
	}

	// ---- the concurrent run under the race detector ---------------------------------------------------
	bin := os.Getenv("VERIF_GFRACE")
	if bin == "" {
		c.Fail("monitor", "harness", "gfrace-unavailable", "the race-detector build of the concurrent driver is not available (VERIF_GFRACE unset)", nil)
		return
	}
	logBase := filepath.Join(filepath.Dir(bin), "race.log")
	configs := [][2]int{{8, 2}}
	if !c.Quick() {
		configs = [][2]int{{8, 6}, {16, 4}, {3, 6}}
	}
	for _, cfg := range configs {
		old, _ := filepath.Glob(logBase + "*")
		for _, f := range old {
			os.Remove(f)
		}
		dump := filepath.Join(filepath.Dir(bin), "racediff.txt")
		os.Remove(dump)
		cmd := exec.Command(bin, "-workers", fmt.Sprint(cfg[0]), "-rounds", fmt.Sprint(cfg[1]), "-dump", dump)
		cmd.Env = append(os.Environ(), "GORACE=halt_on_error=0 log_path="+logBase)
		outb, err := cmd.Output()
		if err != nil && len(outb) == 0 {
			c.Fail("monitor", "M-concurrent", "driver-crashed", "the concurrent driver crashed: "+err.Error(), map[string]any{"workers": cfg[0]})
			continue
		}
		for _, line := range strings.Split(string(outb), "\n") {
			f := strings.Fields(line)
			if len(f) == 0 {
				continue
			}
			switch f[0] {
			case "SKIP":
				// a job that cannot be loaded is not run: for the flows written for this check that is a defect of the check itself
				if strings.HasPrefix(f[1], "synthetic-") {
					c.Fail("monitor", "harness", "synthetic-job-skipped", "a synthetic job of the race driver could not be loaded: "+line, map[string]any{"line": line})
				}
			case "SAME", "DIFF":
				c.Count("check:M-same-as-alone")
				c.Eval(fmt.Sprintf("worker|%s|%s|%s", f[1], f[2], f[0]))
				if f[0] == "DIFF" {
					d, _ := os.ReadFile(dump)
					c.Fail("monitor", "M-same-as-alone", "differs-from-alone", "a worker's sessions over the shared assets differ from the same work alone over fresh assets",
						map[string]any{"assets": f[1], "worker": f[2], "workers": cfg[0], "outputs": truncate(string(d), 6000)})
				}
			case "LOADS":
				c.Count("check:M-load-once")
				if f[len(f)-1] != "reads=1" {
					c.Fail("monitor", "M-load-once", "flow-read-twice", "a flow was read from the source more than once under concurrent first use", map[string]any{"line": line, "workers": cfg[0]})
				}
			}
		}
		logs, _ := filepath.Glob(logBase + "*")
		nraces := 0
		for _, lf := range logs {
			b, _ := os.ReadFile(lf)
			for _, block := range strings.Split(string(b), "==================") {
				if !strings.Contains(block, "DATA RACE") {
					continue
				}
				nraces++
				sig := "race:" + raceSignature(block)
				c.Fail("monitor", "M-race", sig, "the race detector reports a data race between goroutines driving their own sessions over shared assets",
					map[string]any{"report": truncate(block, 5000), "workers": cfg[0], "rounds": cfg[1]})
			}
		}
		c.Count("check:M-race")
		c.Dist[fmt.Sprintf("races-workers%d", cfg[0])] = nraces
	}
}
