// gfrace drives N goroutines, each with its own sessions, over ONE shared SessionAssets from a cold flow
// cache, and then drives the same work alone over fresh assets; it prints one canonical digest line per
// (assets file, worker) for both, for the caller to compare.  Built with -race: data races are reported by
// the runtime into GORACE's log_path.
package main

import (
	"time"
	"crypto/sha256"
	"encoding/hex"
	"encoding/json"
	"flag"
	"fmt"
	"io"
	"net/http"
	"os"
	"path/filepath"
	"regexp"
	"sort"
	"strings"
	"sync"

	"github.com/nyaruka/gocommon/httpx"
	"github.com/nyaruka/gocommon/i18n"
	"github.com/nyaruka/gocommon/urns"
	"github.com/nyaruka/gocommon/uuids"
	"github.com/nyaruka/goflow/assets"
	"github.com/nyaruka/goflow/assets/static"
	"github.com/nyaruka/goflow/envs"
	"github.com/nyaruka/goflow/excellent"
	"github.com/nyaruka/goflow/excellent/types"
	"github.com/nyaruka/goflow/flows"
	"github.com/nyaruka/goflow/flows/engine"
	"github.com/nyaruka/goflow/flows/resumes"
	"github.com/nyaruka/goflow/flows/routers/cases"
	"github.com/nyaruka/goflow/flows/triggers"
	"github.com/nyaruka/goflow/test"
)

var uuidRe = regexp.MustCompile(`[0-9a-f]{8}-[0-9a-f]{4}-[0-9a-f]{4}-[0-9a-f]{4}-[0-9a-f]{12}`)
var timeRe = regexp.MustCompile(`\d{4}-\d{2}-\d{2}T\d{2}:\d{2}:\d{2}(\.\d+)?(Z|[+-]\d{2}:\d{2})`)
var elapsedRe = regexp.MustCompile(`"elapsed_ms":\d+`)

// UUIDs and times come from process-wide generators shared by all workers: number the generated ones by first
// occurrence within one worker's own output, keep the ones that come from the assets
func canon(s string, known map[string]bool) string {
	seen := map[string]int{}
	s = uuidRe.ReplaceAllStringFunc(s, func(u string) string {
		if known[u] {
			return u
		}
		n, ok := seen[u]
		if !ok {
			n = len(seen)
			seen[u] = n
		}
		return fmt.Sprintf("U%d", n)
	})
	s = timeRe.ReplaceAllString(s, "TS")
	return elapsedRe.ReplaceAllString(s, `"elapsed_ms":0`)
}

type job struct {
	file     string
	data     []byte
	flowUUID []assets.FlowUUID
	names    []string // contact names by worker (default "Worker n")
	zones    []string // contact timezones by worker, with a creation time at a day boundary (default: none, created now)
	known    map[string]bool
}

// a flow set written for this check: fixed recipients plus legacy variables (the recipient lists of the cached flow must not
// be extended in place), and a webhook that answers a bare JSON boolean, referenced before and after a wait
const syntheticAssets = `{
  "channels": [{"uuid": "57f1078f-88aa-46f4-a59a-948a5739c03d", "name": "Android", "address": "+17036975131", "schemes": ["tel"], "roles": ["send", "receive"], "country": "US"}],
  "flows": [
    {"uuid": "9a1b2c3d-0000-4000-8000-000000000001", "name": "Recipients", "spec_version": "13.6.0", "language": "eng", "type": "messaging", "revision": 1, "expire_after_minutes": 60, "localization": {},
     "nodes": [{"uuid": "9a1b2c3d-0000-4000-8000-000000000011", "actions": [
        {"uuid": "9a1b2c3d-0000-4000-8000-000000000021", "type": "send_broadcast", "text": "hi @contact.name", "urns": ["tel:+12065550001", "tel:+12065550002", "tel:+12065550003"], "legacy_vars": ["@urns.tel", "@contact.uuid"]},
        {"uuid": "9a1b2c3d-0000-4000-8000-000000000022", "type": "start_session", "flow": {"uuid": "9a1b2c3d-0000-4000-8000-000000000002", "name": "Hook"},
         "contacts": [{"uuid": "9a1b2c3d-0000-4000-8000-0000000000a1", "name": "A"}, {"uuid": "9a1b2c3d-0000-4000-8000-0000000000a2", "name": "B"}, {"uuid": "9a1b2c3d-0000-4000-8000-0000000000a3", "name": "C"},
                      {"uuid": "9a1b2c3d-0000-4000-8000-0000000000a4", "name": "D"}, {"uuid": "9a1b2c3d-0000-4000-8000-0000000000a5", "name": "E"}],
         "legacy_vars": ["@contact.uuid", "@urns.tel"], "exclusions": {}},
        {"uuid": "9a1b2c3d-0000-4000-8000-000000000023", "type": "send_broadcast", "text": "again", "urns": ["tel:+12065550001", "tel:+12065550002", "tel:+12065550003", "tel:+12065550004", "tel:+12065550005", "tel:+12065550006"], "legacy_vars": ["@urns.tel"]}],
       "router": {"type": "switch", "operand": "@input.text", "wait": {"type": "msg"}, "cases": [], "categories": [{"uuid": "9a1b2c3d-0000-4000-8000-000000000031", "name": "All", "exit_uuid": "9a1b2c3d-0000-4000-8000-000000000041"}], "default_category_uuid": "9a1b2c3d-0000-4000-8000-000000000031"},
       "exits": [{"uuid": "9a1b2c3d-0000-4000-8000-000000000041"}]}]},
    {"uuid": "9a1b2c3d-0000-4000-8000-000000000002", "name": "Hook", "spec_version": "13.6.0", "language": "eng", "type": "messaging", "revision": 1, "expire_after_minutes": 60, "localization": {},
     "nodes": [{"uuid": "9a1b2c3d-0000-4000-8000-000000000012", "actions": [
        {"uuid": "9a1b2c3d-0000-4000-8000-000000000024", "type": "call_webhook", "method": "GET", "url": "http://example.com/bool", "result_name": "Hook"},
        {"uuid": "9a1b2c3d-0000-4000-8000-000000000025", "type": "send_msg", "text": "before: @webhook.json @(parse_json(\"true\")) @(parse_json(\"{\\\"ok\\\": true, \\\"no\\\": false}\").ok) @results.hook.extra"}],
       "router": {"type": "switch", "operand": "@input.text", "wait": {"type": "msg"}, "cases": [], "categories": [{"uuid": "9a1b2c3d-0000-4000-8000-000000000032", "name": "All", "exit_uuid": "9a1b2c3d-0000-4000-8000-000000000042"}], "default_category_uuid": "9a1b2c3d-0000-4000-8000-000000000032"},
       "exits": [{"uuid": "9a1b2c3d-0000-4000-8000-000000000042", "destination_uuid": "9a1b2c3d-0000-4000-8000-000000000013"}]},
      {"uuid": "9a1b2c3d-0000-4000-8000-000000000013", "actions": [
        {"uuid": "9a1b2c3d-0000-4000-8000-000000000026", "type": "send_msg", "text": "after: @webhook.json @webhook @(parse_json(\"false\")) @(json(webhook))"}],
       "router": {"type": "switch", "operand": "@input.text", "wait": {"type": "msg"}, "cases": [], "categories": [{"uuid": "9a1b2c3d-0000-4000-8000-000000000033", "name": "All", "exit_uuid": "9a1b2c3d-0000-4000-8000-000000000043"}], "default_category_uuid": "9a1b2c3d-0000-4000-8000-000000000033"},
       "exits": [{"uuid": "9a1b2c3d-0000-4000-8000-000000000043"}]}]},
    {"uuid": "9a1b2c3d-0000-4000-8000-000000000004", "name": "Empty", "spec_version": "13.6.0", "language": "eng", "type": "messaging", "revision": 1, "expire_after_minutes": 60, "localization": {},
     "nodes": [{"uuid": "9a1b2c3d-0000-4000-8000-000000040001", "actions": [
        {"uuid": "9a1b2c3d-0000-4000-8000-000000040002", "type": "call_webhook", "method": "GET", "url": "http://example.com/emptyobj", "result_name": "Hook"},
        {"uuid": "9a1b2c3d-0000-4000-8000-000000040003", "type": "send_msg", "text": "before: @webhook.json @results.hook.extra @(parse_json(\"{}\")) @(parse_json(\"[]\")) @(json(results.hook.extra)) @(count(parse_json(\"[]\")))"}],
       "router": {"type": "switch", "operand": "@input.text", "wait": {"type": "msg"}, "cases": [], "categories": [{"uuid": "9a1b2c3d-0000-4000-8000-000000040004", "name": "All", "exit_uuid": "9a1b2c3d-0000-4000-8000-000000040005"}], "default_category_uuid": "9a1b2c3d-0000-4000-8000-000000040004"},
       "exits": [{"uuid": "9a1b2c3d-0000-4000-8000-000000040005", "destination_uuid": "9a1b2c3d-0000-4000-8000-000000040006"}]},
      {"uuid": "9a1b2c3d-0000-4000-8000-000000040006", "actions": [
        {"uuid": "9a1b2c3d-0000-4000-8000-000000040007", "type": "send_msg", "text": "after: @results.hook.extra @webhook @webhook.json @(json(webhook)) @(parse_json(\"{}\")) @(count(parse_json(\"[]\"))) @results.hook.extra"}],
       "router": {"type": "switch", "operand": "@input.text", "wait": {"type": "msg"}, "cases": [], "categories": [{"uuid": "9a1b2c3d-0000-4000-8000-000000040008", "name": "All", "exit_uuid": "9a1b2c3d-0000-4000-8000-000000040009"}], "default_category_uuid": "9a1b2c3d-0000-4000-8000-000000040008"},
       "exits": [{"uuid": "9a1b2c3d-0000-4000-8000-000000040009"}]}]},
    {"uuid": "9a1b2c3d-0000-4000-8000-000000000005", "name": "Empty List", "spec_version": "13.6.0", "language": "eng", "type": "messaging", "revision": 1, "expire_after_minutes": 60, "localization": {},
     "nodes": [{"uuid": "9a1b2c3d-0000-4000-8000-000000050001", "actions": [
        {"uuid": "9a1b2c3d-0000-4000-8000-000000050002", "type": "call_webhook", "method": "GET", "url": "http://example.com/emptyarr", "result_name": "Hook"},
        {"uuid": "9a1b2c3d-0000-4000-8000-000000050003", "type": "send_msg", "text": "before: @webhook.json @results.hook.extra @(parse_json(\"{}\")) @(parse_json(\"[]\")) @(json(results.hook.extra)) @(count(parse_json(\"[]\")))"}],
       "router": {"type": "switch", "operand": "@input.text", "wait": {"type": "msg"}, "cases": [], "categories": [{"uuid": "9a1b2c3d-0000-4000-8000-000000050004", "name": "All", "exit_uuid": "9a1b2c3d-0000-4000-8000-000000050005"}], "default_category_uuid": "9a1b2c3d-0000-4000-8000-000000050004"},
       "exits": [{"uuid": "9a1b2c3d-0000-4000-8000-000000050005", "destination_uuid": "9a1b2c3d-0000-4000-8000-000000050006"}]},
      {"uuid": "9a1b2c3d-0000-4000-8000-000000050006", "actions": [
        {"uuid": "9a1b2c3d-0000-4000-8000-000000050007", "type": "send_msg", "text": "after: @results.hook.extra @webhook @webhook.json @(json(webhook)) @(parse_json(\"{}\")) @(count(parse_json(\"[]\"))) @results.hook.extra"}],
       "router": {"type": "switch", "operand": "@input.text", "wait": {"type": "msg"}, "cases": [], "categories": [{"uuid": "9a1b2c3d-0000-4000-8000-000000050008", "name": "All", "exit_uuid": "9a1b2c3d-0000-4000-8000-000000050009"}], "default_category_uuid": "9a1b2c3d-0000-4000-8000-000000050008"},
       "exits": [{"uuid": "9a1b2c3d-0000-4000-8000-000000050009"}]}]}
  ]
}`

// a location hierarchy in which two states have a district of the same name: lookups scoped to a parent read the shared
// per-level name index
const locationAssets = `{
  "channels": [{"uuid": "57f1078f-88aa-46f4-a59a-948a5739c03d", "name": "Android", "address": "+17036975131", "schemes": ["tel"], "roles": ["send", "receive"], "country": "RW"}],
  "locations": [{"name": "Rwanda", "aliases": ["Ruanda"], "children": [
     {"name": "Kigali City", "aliases": ["Kigali"], "children": [{"name": "Gasabo", "children": [{"name": "Gisozi"}, {"name": "Ndera"}]}, {"name": "Nyarugenge", "children": []}]},
     {"name": "Eastern Province", "aliases": ["East"], "children": [{"name": "Gasabo", "children": [{"name": "Ndera"}, {"name": "Rukara"}]}, {"name": "Kayonza", "children": []}]},
     {"name": "Northern Province", "aliases": [], "children": [{"name": "Gasabo", "children": [{"name": "Ndera"}]}]}]}],
  "flows": [
    {"uuid": "9a1b2c3d-0000-4000-8000-000000000003", "name": "Where", "spec_version": "13.6.0", "language": "eng", "type": "messaging", "revision": 1, "expire_after_minutes": 60, "localization": {},
     "nodes": [{"uuid": "9a1b2c3d-0000-4000-8000-000000000014", "actions": [
        {"uuid": "9a1b2c3d-0000-4000-8000-000000000027", "type": "send_msg", "text": "d=@(has_district(\"Gasabo\", contact.name).match) w=@(has_ward(\"Ndera\", \"Gasabo\", contact.name).match) s=@(has_state(contact.name).match) d0=@(has_district(\"Gasabo\").match)"}],
       "router": {"type": "switch", "operand": "@input.text", "wait": {"type": "msg"}, "cases": [
          {"uuid": "9a1b2c3d-0000-4000-8000-000000000051", "type": "has_district", "arguments": ["@contact.name"], "category_uuid": "9a1b2c3d-0000-4000-8000-000000000034"}],
          "categories": [{"uuid": "9a1b2c3d-0000-4000-8000-000000000034", "name": "Found", "exit_uuid": "9a1b2c3d-0000-4000-8000-000000000044"}, {"uuid": "9a1b2c3d-0000-4000-8000-000000000035", "name": "Other", "exit_uuid": "9a1b2c3d-0000-4000-8000-000000000045"}],
          "default_category_uuid": "9a1b2c3d-0000-4000-8000-000000000035", "result_name": "District"},
       "exits": [{"uuid": "9a1b2c3d-0000-4000-8000-000000000044", "destination_uuid": "9a1b2c3d-0000-4000-8000-000000000014"}, {"uuid": "9a1b2c3d-0000-4000-8000-000000000045", "destination_uuid": "9a1b2c3d-0000-4000-8000-000000000014"}]}]}
  ]
}`

// groups on dates, and contacts in different timezones created at a day boundary: the parsed query of a group is shared by
// every session over the assets, and whose timezone reads its date must not depend on who came first
const dateGroupAssets = `{
  "channels": [{"uuid": "57f1078f-88aa-46f4-a59a-948a5739c03d", "name": "Android", "address": "+17036975131", "schemes": ["tel"], "roles": ["send", "receive"], "country": "US"}],
  "fields": [{"uuid": "9a1b2c3d-0000-4000-8000-000000060001", "key": "joined", "name": "Joined", "type": "datetime"}],
  "groups": [{"uuid": "9a1b2c3d-0000-4000-8000-000000060002", "name": "Before 2020", "query": "created_on < 2020-01-01"},
             {"uuid": "9a1b2c3d-0000-4000-8000-000000060003", "name": "Since 2020", "query": "created_on >= 2020-01-01"},
             {"uuid": "9a1b2c3d-0000-4000-8000-000000060004", "name": "New Year", "query": "created_on = 2020-01-01 OR joined = 01-01-2020"}],
  "flows": [
    {"uuid": "9a1b2c3d-0000-4000-8000-000000060005", "name": "Dates", "spec_version": "13.6.0", "language": "eng", "type": "messaging", "revision": 1, "expire_after_minutes": 60, "localization": {},
     "nodes": [{"uuid": "9a1b2c3d-0000-4000-8000-000000060006", "actions": [
        {"uuid": "9a1b2c3d-0000-4000-8000-000000060007", "type": "send_msg", "text": "groups: @(join(foreach(contact.groups, (g) => g.name), \",\"))"},
        {"uuid": "9a1b2c3d-0000-4000-8000-000000060008", "type": "set_contact_field", "field": {"key": "joined", "name": "Joined"}, "value": "@contact.created_on"},
        {"uuid": "9a1b2c3d-0000-4000-8000-000000060009", "type": "send_msg", "text": "groups: @(join(foreach(contact.groups, (g) => g.name), \",\"))"}],
       "router": {"type": "switch", "operand": "@input.text", "wait": {"type": "msg"}, "cases": [], "categories": [{"uuid": "9a1b2c3d-0000-4000-8000-00000006000a", "name": "All", "exit_uuid": "9a1b2c3d-0000-4000-8000-00000006000b"}], "default_category_uuid": "9a1b2c3d-0000-4000-8000-00000006000a"},
       "exits": [{"uuid": "9a1b2c3d-0000-4000-8000-00000006000b"}]}]}
  ]
}`

// answers webhooks from the URL alone (no network in the sandbox, and every worker must see the same answers)
type urlRequestor struct{}

func (urlRequestor) Do(client *http.Client, request *http.Request) (*http.Response, error) {
	body, status := "not found", 404
	u := request.URL.String()
	for _, m := range [][2]string{{"bool", "true"}, {"false", "false"}, {"obj", `{"ok":true,"n":1}`}, {"emptyobj", `{}`}, {"emptyarr", `[]`}} {
		if strings.Contains(u, m[0]) {
			body, status = m[1], 200
		}
	}
	return &http.Response{Status: fmt.Sprintf("%d X", status), StatusCode: status, Proto: "HTTP/1.1", ProtoMajor: 1, ProtoMinor: 1,
		Header: http.Header{"Content-Type": []string{"application/json"}}, Body: io.NopCloser(strings.NewReader(body)), ContentLength: int64(len(body)), Request: request}, nil
}

func loadJobs(dir string) []job {
	files, _ := filepath.Glob(filepath.Join(dir, "*.json"))
	sort.Strings(files)
	var jobs []job
	for _, fn := range files {
		base := filepath.Base(fn)
		if strings.Count(base, ".") > 1 || strings.Contains(base, "webhook") || strings.Contains(base, "resthook") || strings.Contains(base, "airtime") ||
			strings.Contains(base, "nlu") || strings.Contains(base, "all_actions") || strings.Contains(base, "brochure") {
			continue
		}
		b, err := os.ReadFile(fn)
		if err != nil {
			continue
		}
		var a struct {
			Flows []struct {
				UUID     string `json:"uuid"`
				Metadata *struct {
					UUID string `json:"uuid"`
				} `json:"metadata"`
			} `json:"flows"`
		}
		if json.Unmarshal(b, &a) != nil || len(a.Flows) == 0 {
			continue
		}
		j := job{file: base, data: b, known: map[string]bool{}}
		for _, f := range a.Flows {
			u := f.UUID
			if u == "" && f.Metadata != nil {
				u = f.Metadata.UUID
			}
			if u != "" {
				j.flowUUID = append(j.flowUUID, assets.FlowUUID(u))
			}
		}
		for _, u := range uuidRe.FindAllString(string(b), -1) {
			j.known[u] = true
		}
		if len(j.flowUUID) > 0 {
			jobs = append(jobs, j)
		}
	}
	syn := job{file: "synthetic-recipients-webhook", data: []byte(syntheticAssets), known: map[string]bool{},
		flowUUID: []assets.FlowUUID{"9a1b2c3d-0000-4000-8000-000000000001", "9a1b2c3d-0000-4000-8000-000000000002", "9a1b2c3d-0000-4000-8000-000000000004", "9a1b2c3d-0000-4000-8000-000000000005"}}
	for _, u := range uuidRe.FindAllString(syntheticAssets, -1) {
		syn.known[u] = true
	}
	jobs = append(jobs, syn)
	loc := job{file: "synthetic-locations", data: []byte(locationAssets), known: map[string]bool{}, flowUUID: []assets.FlowUUID{"9a1b2c3d-0000-4000-8000-000000000003"},
		names: []string{"Kigali City", "Eastern Province", "Northern Province", "Kigali"}}
	for _, u := range uuidRe.FindAllString(locationAssets, -1) {
		loc.known[u] = true
	}
	jobs = append(jobs, loc)
	dg := job{file: "synthetic-date-groups", data: []byte(dateGroupAssets), known: map[string]bool{}, flowUUID: []assets.FlowUUID{"9a1b2c3d-0000-4000-8000-000000060005"},
		zones: []string{"Africa/Kigali", "America/Los_Angeles", "UTC", "Pacific/Auckland"}}
	for _, u := range uuidRe.FindAllString(dateGroupAssets, -1) {
		dg.known[u] = true
	}
	jobs = append(jobs, dg)
	return jobs
}

// a source that counts how often each flow is read
type countingSource struct {
	assets.Source
	mu    sync.Mutex
	reads map[assets.FlowUUID]int
}

func (c *countingSource) FlowByUUID(u assets.FlowUUID) (assets.Flow, error) {
	c.mu.Lock()
	c.reads[u]++
	c.mu.Unlock()
	return c.Source.FlowByUUID(u)
}

func newAssets(env envs.Environment, j job) (flows.SessionAssets, *countingSource, error) {
	src, err := static.NewSource(j.data)
	if err != nil {
		return nil, nil, err
	}
	cs := &countingSource{Source: src, reads: map[assets.FlowUUID]int{}}
	sa, err := engine.NewSessionAssets(env, cs, nil)
	return sa, cs, err
}

// one worker's whole life: start, marshal, read, resume, inspect, evaluate
func work(env envs.Environment, sa flows.SessionAssets, j job, w int) string {
	var out []string
	add := func(k string, v any) {
		b, _ := json.Marshal(v)
		out = append(out, k+"="+string(b))
	}
	defer func() {
		if r := recover(); r != nil {
			out = append(out, fmt.Sprintf("panic=%v", r))
		}
	}()
	fu := j.flowUUID[w%len(j.flowUUID)]
	if w%2 == 1 {
		// the other way to a flow: by name, on a cache that may still be cold (contact queries on flow = "..." resolve like this)
		for _, n := range []string{"Recipients", "Hook", "Where", "Two Questions", "No Such Flow"} {
			if f, err := sa.Flows().FindByName(n); err == nil && f != nil {
				out = append(out, "by-name="+n)
			}
		}
	}
	flow, err := sa.Flows().Get(fu)
	if err != nil {
		return "flow-error=" + err.Error()
	}
	eng := test.NewEngine()
	name := fmt.Sprintf("Worker %d", w)
	if len(j.names) > 0 {
		name = j.names[w%len(j.names)]
	}
	contact := flows.NewEmptyContact(sa, name, i18n.Language("eng"), nil)
	if len(j.zones) > 0 {
		tz, _ := time.LoadLocation(j.zones[w%len(j.zones)])
		created := time.Date(2019, 12, 31, 22, 30, 0, 0, time.UTC).Add(time.Duration(w/len(j.zones)) * 3 * time.Hour)
		if c2, err := flows.NewContact(sa, flows.ContactUUID(fmt.Sprintf("9a1b2c3d-0000-4000-8000-0000000700%02d", w)), flows.ContactID(100+w), name, i18n.Language("eng"),
			flows.ContactStatusActive, tz, created, nil, nil, nil, nil, nil, assets.IgnoreMissing); err == nil {
			contact = c2
		}
	}
	contact.AddURN(urns.URN(fmt.Sprintf("tel:+1206555%04d", 1000+w)), nil)
	trig := triggers.NewBuilder(env, flow.Reference(false), contact).Manual().Build()
	s, sp, err := eng.NewSession(sa, trig)
	if err != nil {
		return "start-error=" + err.Error()
	}
	add("sprint0", sp.Events())
	for k := 0; k < 3 && s.Status() == flows.SessionStatusWaiting; k++ {
		b, err := json.Marshal(s)
		if err != nil {
			out = append(out, "marshal-error="+err.Error())
			break
		}
		s2, err := eng.ReadSession(sa, b, assets.IgnoreMissing)
		if err != nil {
			out = append(out, "read-error="+err.Error())
			break
		}
		s = s2
		msg := flows.NewMsgIn(flows.MsgUUID(uuids.NewV4()), urns.URN(fmt.Sprintf("tel:+1206555%04d", 1000+w)), nil, []string{"red", "3", "yes", "Ryan Lewis", "Gasabo", "gasabo please"}[(w+k)%6], nil)
		sp, err := s.Resume(resumes.NewMsg(nil, nil, msg))
		if err != nil {
			out = append(out, "resume-error="+err.Error())
			break
		}
		add(fmt.Sprintf("sprint%d", k+1), sp.Events())
	}
	add("session", s)
	add("inspect", flow.Inspect(sa))
	// expression evaluation over shared package-level values
	ctx := types.NewXObject(map[string]types.XValue{"a": types.XObjectEmpty, "b": types.NewXText("x")})
	for _, e := range []string{`@(default(a, "d"))`, `@(json(a)) @(count(a))`, `@(object("k", b).k)`, `@(has_text(b).match) @(has_number("x"))`, `@(a = object())`} {
		v, _, err := excellent.NewEvaluator().Template(env, ctx, e, nil)
		out = append(out, fmt.Sprintf("eval=%s|%v", v, err))
	}
	add("false", cases.FalseResult)
	return canon(strings.Join(out, "\n"), j.known)
}

func dig(s string) string {
	h := sha256.Sum256([]byte(s))
	return hex.EncodeToString(h[:])[:16]
}

func main() {
	dir := flag.String("dir", "/repo/test/testdata/runner", "assets directory")
	workers := flag.Int("workers", 8, "goroutines per shared assets")
	rounds := flag.Int("rounds", 1, "repetitions")
	dump := flag.String("dump", "", "write the two outputs of the first disagreement here")
	flag.Parse()
	httpx.SetRequestor(urlRequestor{})
	env := envs.NewBuilder().WithAllowedLanguages("eng", "spa", "fra").WithDefaultCountry("US").Build()
	jobs := loadJobs(*dir)
	// what the synthetic jobs produce alone in this process while nothing else has run in it yet: compared at the very end with
	// what they produce then - anything the sessions in between left behind in process-wide state shows as a difference
	type pristineRun struct {
		j   job
		w   int
		out string
	}
	var pristine []pristineRun
	for _, j := range jobs {
		if !strings.HasPrefix(j.file, "synthetic-") {
			continue
		}
		for w := 0; w < 2*len(j.flowUUID); w++ {
			if sa, _, err := newAssets(env, j); err == nil {
				pristine = append(pristine, pristineRun{j, w, work(env, sa, j, w)})
			}
		}
	}
	defer func() {
		for _, p := range pristine {
			sa, _, err := newAssets(env, p.j)
			if err != nil {
				continue
			}
			after := work(env, sa, p.j, p.w)
			verdict := "SAME"
			if after != p.out {
				verdict = "DIFF"
				if *dump != "" {
					os.WriteFile(*dump, []byte("--- after every other session of the process\n"+after+"\n--- in the fresh process\n"+p.out+"\n"), 0o644)
					*dump = ""
				}
			}
			fmt.Printf("%s process-state:%s worker=%d together=%s alone=%s\n", verdict, p.j.file, p.w, dig(after), dig(p.out))
		}
	}()
	for round := 0; round < *rounds; round++ {
		for _, j := range jobs {
			sa, counter, err := newAssets(env, j)
			if err != nil {
				fmt.Printf("SKIP %s %v\n", j.file, err)
				continue
			}
			together := make([]string, *workers)
			var wg sync.WaitGroup
			start := make(chan struct{})
			for w := 0; w < *workers; w++ {
				wg.Add(1)
				go func(w int) {
					defer wg.Done()
					<-start
					together[w] = work(env, sa, j, w)
				}(w)
			}
			close(start)
			wg.Wait()
			for u, n := range counter.reads {
				fmt.Printf("LOADS %s flow=%s reads=%d\n", j.file, u, n)
			}
			for w := 0; w < *workers; w++ {
				saAlone, _, err := newAssets(env, j)
				if err != nil {
					continue
				}
				alone := work(env, saAlone, j, w)
				verdict := "SAME"
				if alone != together[w] {
					verdict = "DIFF"
					if *dump != "" {
						os.WriteFile(*dump, []byte("--- together\n"+together[w]+"\n--- alone\n"+alone+"\n"), 0o644)
						*dump = ""
					}
				}
				fmt.Printf("%s %s worker=%d together=%s alone=%s\n", verdict, j.file, w, dig(together[w]), dig(alone))
			}
		}
	}
}
