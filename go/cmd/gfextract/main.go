// gfextract regenerates, from the current /repo tree and the Go runtime linked with it, the
// Lean data files under lean/GoflowModel/Gen.  Files are rewritten only when their content
// changes, so an unchanged tree costs no Lean rebuild.
package main

import (
	"flag"
	"fmt"
	"os"
	"path/filepath"
	"sort"
	"strings"
)

var outDir string
var changed []string

func emit(name string, content string) {
	path := filepath.Join(outDir, name)
	old, err := os.ReadFile(path)
	if err == nil && string(old) == content {
		return
	}
	if err := os.WriteFile(path, []byte(content), 0o644); err != nil {
		fmt.Fprintln(os.Stderr, "write", path, err)
		os.Exit(2)
	}
	changed = append(changed, name)
}

type extractor func() error

var extractors = map[string]extractor{}

func main() {
	flag.StringVar(&outDir, "out", "/verif/lean/GoflowModel/Gen", "output directory")
	repo := flag.String("repo", "/repo", "repository root")
	flag.Parse()
	repoRoot = *repo
	os.MkdirAll(outDir, 0o755)
	names := make([]string, 0, len(extractors))
	for n := range extractors {
		names = append(names, n)
	}
	sort.Strings(names)
	failed := false
	for _, n := range names {
		if err := extractors[n](); err != nil {
			fmt.Fprintf(os.Stderr, "extractor %s: %v\n", n, err)
			failed = true
		}
	}
	fmt.Printf("gfextract: %d extractors, changed: [%s]\n", len(names), strings.Join(changed, ", "))
	if failed {
		os.Exit(1)
	}
}

var repoRoot string

// helpers for emitting Lean

func leanStr(s string) string {
	var b strings.Builder
	b.WriteByte('"')
	for _, r := range s {
		switch {
		case r == '"':
			b.WriteString("\\\"")
		case r == '\\':
			b.WriteString("\\\\")
		case r == '\n':
			b.WriteString("\\n")
		case r == '\t':
			b.WriteString("\\t")
		case r == '\r':
			b.WriteString("\\r")
		case r < 0x20 || r == 0x7f:
			fmt.Fprintf(&b, "\\x%02x", r)
		default:
			b.WriteRune(r)
		}
	}
	b.WriteByte('"')
	return b.String()
}

func leanStrList(xs []string) string {
	q := make([]string, len(xs))
	for i, x := range xs {
		q[i] = leanStr(x)
	}
	return "[" + strings.Join(q, ", ") + "]"
}
