import Lean
/-!
`lake env lean --run Audit.lean GoflowModel.Props.C12`

Loads the compiled module, lists every theorem declared in it and prints, one JSON object per
line, the axioms each depends on (the same computation as `#print axioms`).  Used by
`bin/check` to count obligations / discharged and to reject `sorryAx` or any axiom outside
{propext, Classical.choice, Quot.sound}.
-/
open Lean

def allowed : List Name := [``propext, ``Classical.choice, ``Quot.sound]

unsafe def main (args : List String) : IO UInt32 := do
  let some modStr := args.head? | do IO.eprintln "usage: Audit <module>"; return 2
  let modName := modStr.toName
  initSearchPath (← findSysroot)
  enableInitializersExecution
  let env ← importModules #[{ module := modName }] {} (loadExts := true)
  let some modIdx := env.getModuleIdx? modName | do IO.eprintln "module not found"; return 2
  let mut bad := 0
  let mut n := 0
  let mut names : Array Name := #[]
  for (name, info) in env.constants.map₁.toList do
    if env.getModuleIdxFor? name != some modIdx then continue
    match info with
    | .thmInfo _ => if !name.isInternal && modName.isPrefixOf name then names := names.push name
    | _ => pure ()
  let sorted := names.qsort (fun a b => a.toString < b.toString)
  for name in sorted do
    let (axs, _) ← (collectAxioms name : Core.CoreM _).toIO
      { fileName := "<audit>", fileMap := default } { env := env }
    let axs := axs.toList
    let ok := axs.all (fun a => allowed.contains a)
    n := n + 1
    if !ok then bad := bad + 1
    let axStr := ", ".intercalate (axs.map fun a => "\"" ++ a.toString ++ "\"")
    IO.println s!"\{\"theorem\": \"{name}\", \"axioms\": [{axStr}], \"ok\": {ok}}"
  IO.println s!"\{\"summary\": true, \"theorems\": {n}, \"bad\": {bad}}"
  return (if bad == 0 then 0 else 1)
