/-
Contact state, the contact events and their replay semantics, and the modifiers of
`flows/modifiers/*.go` with their `modified` bookkeeping, followed by the group re-evaluation of
`modifiers.ReevaluateGroups` / `Contact.ReevaluateQueryBasedGroups`.

External functions are inputs: a URN arrives already normalised, with its identity and whether
it validates; a field value arrives already parsed and truncated; whether the contact matches a
group's query is a predicate parameter (the ContactQL evaluator of C15).
-/
namespace GoflowModel.Contact

inductive Status where
  | active | blocked | stopped | archived
deriving Repr, DecidableEq, Inhabited

/-- a URN: its identity (scheme + path; what `HasURN`/`RemoveURN` compare) and its full text -/
structure URN where
  identity : Nat
  text : Nat
deriving Repr, DecidableEq, Inhabited

structure Contact where
  name : List Char
  language : Nat
  status : Status
  timezone : Nat
  urns : List URN
  /-- group identifiers, static and query-based -/
  groups : List Nat
  /-- field key ↦ value (absent = no value) -/
  fields : List (Nat × Nat)
  ticket : Option Nat
  lastSeen : Option Nat
deriving Repr, DecidableEq, Inhabited

inductive Ev where
  | nameChanged (n : List Char)
  | languageChanged (l : Nat)
  | statusChanged (s : Status)
  | timezoneChanged (t : Nat)
  | urnsChanged (us : List URN)
  | fieldChanged (k : Nat) (v : Option Nat)
  | groupsChanged (added removed : List Nat)
  | ticketOpened (t : Nat)
  | error
deriving Repr, DecidableEq, Inhabited

def setField (fs : List (Nat × Nat)) (k : Nat) (v : Option Nat) : List (Nat × Nat) :=
  let rest := fs.filter (·.1 ≠ k)
  match v with
  | some x => rest ++ [(k, x)]
  | none => rest

def getField (fs : List (Nat × Nat)) (k : Nat) : Option Nat := fs.lookup k

/-- the caller's semantics of each event -/
def replay (c : Contact) : Ev → Contact
  | .nameChanged n => { c with name := n }
  | .languageChanged l => { c with language := l }
  | .statusChanged s => { c with status := s }
  | .timezoneChanged t => { c with timezone := t }
  | .urnsChanged us => { c with urns := us }
  | .fieldChanged k v => { c with fields := setField c.fields k v }
  | .groupsChanged a r => { c with groups := (c.groups.filter fun g => !r.contains g) ++ a.filter fun g => !c.groups.contains g }
  | .ticketOpened t => { c with ticket := some t }
  | .error => c

def replayAll (c : Contact) (evs : List Ev) : Contact := evs.foldl replay c

/-- is a logged event a change event? -/
def Ev.isChange : Ev → Bool
  | .error => false
  | _ => true

structure Out where
  contact : Contact
  events : List Ev
  modified : Bool
deriving Repr, DecidableEq

/-! ### simple modifiers -/

/-- `NameModifier.Apply` (after the fix: the truncated name is what is compared) -/
def applyName (c : Contact) (truncated : List Char) : Out :=
  if c.name ≠ truncated then ⟨{ c with name := truncated }, [.nameChanged truncated], true⟩ else ⟨c, [], false⟩

def applyLanguage (c : Contact) (l : Nat) : Out :=
  if c.language ≠ l then ⟨{ c with language := l }, [.languageChanged l], true⟩ else ⟨c, [], false⟩

def applyStatus (c : Contact) (s : Status) : Out :=
  if c.status ≠ s then ⟨{ c with status := s }, [.statusChanged s], true⟩ else ⟨c, [], false⟩

def applyTimezone (c : Contact) (t : Nat) : Out :=
  if c.timezone ≠ t then ⟨{ c with timezone := t }, [.timezoneChanged t], true⟩ else ⟨c, [], false⟩

/-- `TicketModifier.Apply` -/
def applyTicket (c : Contact) (t : Nat) : Out :=
  match c.ticket with
  | some _ => ⟨c, [], false⟩
  | none => ⟨{ c with ticket := some t }, [.ticketOpened t], true⟩

/-- `FieldModifier.Apply`: `v` is the parsed, truncated value (`none`: cleared) -/
def applyField (c : Contact) (k : Nat) (v : Option Nat) : Out :=
  if v ≠ getField c.fields k then ⟨{ c with fields := setField c.fields k v }, [.fieldChanged k v], true⟩
  else ⟨c, [], false⟩

/-! ### URNs -/

inductive URNsMod where
  | append | remove | set
deriving Repr, DecidableEq

def hasURN (us : List URN) (u : URN) : Bool := us.any (·.identity == u.identity)

/-- the loop over the modifier's URNs; `none` = a URN that does not validate (an error event) -/
def urnsLoop (m : URNsMod) : List URN → List (Option URN) → List URN × List Ev
  | us, [] => (us, [])
  | us, none :: rest =>
    let r := urnsLoop m us rest
    (r.1, .error :: r.2)
  | us, some u :: rest =>
    match m with
    | .remove => urnsLoop m (us.filter (·.identity ≠ u.identity)) rest
    | _ => urnsLoop m (if hasURN us u then us else us ++ [u]) rest

def urnsResult (c : Contact) (m : URNsMod) (urns : List (Option URN)) : List URN × List Ev :=
  urnsLoop m (if m = .set then [] else c.urns) urns

/-- `URNsModifier.Apply` (after the fix: modified iff the list actually changed) -/
def applyURNs (c : Contact) (m : URNsMod) (urns : List (Option URN)) : Out :=
  if (urnsResult c m urns).1 ≠ c.urns then
    ⟨{ c with urns := (urnsResult c m urns).1 }, (urnsResult c m urns).2 ++ [.urnsChanged (urnsResult c m urns).1], true⟩
  else ⟨c, (urnsResult c m urns).2, false⟩

/-! ### groups -/

/-- `GroupsModifier.Apply` for static groups (`isQuery g`: a query-based group is refused with
an error event); contacts that are not active (blocked, stopped, archived) are refused -/
def groupsAddLoop (isQuery : Nat → Bool) : List Nat → List Nat → List Nat × List Nat × List Ev
  | gs, [] => (gs, [], [])
  | gs, g :: rest =>
    if isQuery g then
      let r := groupsAddLoop isQuery gs rest
      (r.1, r.2.1, .error :: r.2.2)
    else if gs.contains g then groupsAddLoop isQuery gs rest
    else
      let r := groupsAddLoop isQuery (gs ++ [g]) rest
      (r.1, g :: r.2.1, r.2.2)

def groupsRemoveLoop (isQuery : Nat → Bool) : List Nat → List Nat → List Nat × List Nat × List Ev
  | gs, [] => (gs, [], [])
  | gs, g :: rest =>
    if isQuery g then
      let r := groupsRemoveLoop isQuery gs rest
      (r.1, r.2.1, .error :: r.2.2)
    else if !gs.contains g then groupsRemoveLoop isQuery gs rest
    else
      let r := groupsRemoveLoop isQuery (gs.filter (· ≠ g)) rest
      (r.1, g :: r.2.1, r.2.2)

def applyGroups (isQuery : Nat → Bool) (c : Contact) (add : Bool) (gs : List Nat) : Out :=
  if c.status ≠ .active then ⟨c, [.error], false⟩
  else if add then
    if (groupsAddLoop isQuery c.groups gs).2.1 ≠ [] then
      ⟨{ c with groups := (groupsAddLoop isQuery c.groups gs).1 },
       (groupsAddLoop isQuery c.groups gs).2.2 ++ [.groupsChanged (groupsAddLoop isQuery c.groups gs).2.1 []], true⟩
    else ⟨c, (groupsAddLoop isQuery c.groups gs).2.2, false⟩
  else
    if (groupsRemoveLoop isQuery c.groups gs).2.1 ≠ [] then
      ⟨{ c with groups := (groupsRemoveLoop isQuery c.groups gs).1 },
       (groupsRemoveLoop isQuery c.groups gs).2.2 ++ [.groupsChanged [] (groupsRemoveLoop isQuery c.groups gs).2.1], true⟩
    else ⟨c, (groupsRemoveLoop isQuery c.groups gs).2.2, false⟩

/-! ### group re-evaluation -/

/-- `Contact.ReevaluateQueryBasedGroups`: `qgroups` = the query-based groups in asset order,
`matches g` = `CheckQueryBasedMembership` (false for a non-active contact) -/
def reevalLoop (matches_ : Nat → Bool) : List Nat → List Nat → List Nat × List Nat × List Nat
  | gs, [] => (gs, [], [])
  | gs, g :: rest =>
    if matches_ g then
      if gs.contains g then reevalLoop matches_ gs rest
      else
        let r := reevalLoop matches_ (gs ++ [g]) rest
        (r.1, g :: r.2.1, r.2.2)
    else
      if gs.contains g then
        let r := reevalLoop matches_ (gs.filter (· ≠ g)) rest
        (r.1, r.2.1, g :: r.2.2)
      else reevalLoop matches_ gs rest

/-- `modifiers.ReevaluateGroups`: query groups, then a non-active contact leaves every group -/
def reevaluate (isQuery : Nat → Bool) (matches_ : Nat → Bool) (qgroups : List Nat) (c : Contact) : Out :=
  let r := reevalLoop matches_ c.groups qgroups
  let (gs, removed) : List Nat × List Nat :=
    if c.status ≠ .active then ([], r.2.2 ++ r.1.filter fun g => !isQuery g) else (r.1, r.2.2)
  if r.2.1 ≠ [] ∨ removed ≠ [] then ⟨{ c with groups := gs }, [.groupsChanged r.2.1 removed], true⟩
  else ⟨{ c with groups := gs }, [], false⟩

end GoflowModel.Contact
