/-
The channel modifier (`flows/modifiers/channel.go`, `Contact.UpdatePreferredChannel` in flows/contact.go):
setting the contact's preferred channel re-assigns tel URNs to a channel that handles tel, gives the
channel to URNs without one whose scheme it handles, and moves the URNs that now have the channel to the
front, in their order; no channel clears the affinity of every URN.  The modifier reports a change, with a
`contact_urns_changed` event carrying the new list, exactly when the list (channels included) differs
from the old one; a channel that cannot send is refused with an error event.
-/
namespace GoflowModel.Contact.Channel

/-- the scheme of telephone URNs -/
def tel : Nat := 0

/-- a contact URN: scheme, the rest of its text (path, display, other parameters), channel affinity -/
structure CURN where
  scheme : Nat
  rest : Nat
  channel : Option Nat
deriving Repr, DecidableEq, Inhabited

structure Chan where
  id : Nat
  canSend : Bool
  schemes : List Nat
deriving Repr, DecidableEq, Inhabited

/-- the two assignments made to one URN (a tel URN is re-assigned to a channel that handles tel; otherwise a URN without a
channel gets the channel if it handles the URN's scheme — after the first the second finds a channel and does nothing) -/
def assign (ch : Chan) (u : CURN) : CURN :=
  if (u.scheme = tel ∧ ch.schemes.contains tel = true) ∨ (u.channel = none ∧ ch.schemes.contains u.scheme = true)
  then { u with channel := some ch.id } else u

def has (ch : Chan) (u : CURN) : Bool := u.channel == some ch.id

/-- `UpdatePreferredChannel` (the new list) -/
def update (us : List CURN) : Option Chan → List CURN
  | none => us.map fun u => { u with channel := none }
  | some ch =>
    if ch.canSend then (us.map (assign ch)).filter (has ch) ++ (us.map (assign ch)).filter (fun u => !has ch u)
    else us

inductive Ev where
  | urnsChanged (us : List CURN)
  | error
deriving Repr, DecidableEq

structure Out where
  urns : List CURN
  events : List Ev
  modified : Bool
deriving Repr, DecidableEq

/-- `ChannelModifier.Apply` -/
def apply (us : List CURN) (ch : Option Chan) : Out :=
  match ch with
  | some c =>
    if c.canSend then
      if update us ch ≠ us then ⟨update us ch, [.urnsChanged (update us ch)], true⟩ else ⟨us, [], false⟩
    else ⟨us, [.error], false⟩
  | none => if update us ch ≠ us then ⟨update us ch, [.urnsChanged (update us ch)], true⟩ else ⟨us, [], false⟩

/-- replaying the events over the old list -/
def replay (us : List CURN) : List Ev → List CURN
  | [] => us
  | .urnsChanged l :: rest => replay l rest
  | .error :: rest => replay us rest

end GoflowModel.Contact.Channel
