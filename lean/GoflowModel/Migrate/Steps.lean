import GoflowModel.Basic.Json
import GoflowModel.Engine.Migrate
/-!
The per-version migration functions of `flows/definition/migrations/13_x.go` on generic JSON
(`Migrate13_1`, `13_2`, `13_4`, `13_5`, `13_6`) and the primitives of `primitives.go` they are written with.

A Go `map[string]any` that the function mutates in place is an association list here and every
function returns the new value: `get` reads the first member of a name, `set` replaces it (or adds
the member at the end), `del` removes every member of the name.  A decoded document has one member
per name; nothing below needs that.  The UUIDs `uuids.NewV4()` hands out are `gen 0, gen 1, …` and
the counter is threaded.  `Migrate13_3` rewrites templates (C11's renaming theorem) and is not in
this file.
-/
namespace GoflowModel.Migrate.Steps
open GoflowModel.Json GoflowModel.Migrate

abbrev Str := List Char

/-! ### maps -/

def get (k : Str) : JO → Option J
  | .nil => none
  | .cons k' v rest => if k' = k then some v else get k rest

def set (k : Str) (v : J) : JO → JO
  | .nil => .cons k v .nil
  | .cons k' v' rest => if k' = k then .cons k v rest else .cons k' v' (set k v rest)

def del (k : Str) : JO → JO
  | .nil => .nil
  | .cons k' v rest => if k' = k then del k rest else .cons k' v (del k rest)

def isEmptyO : JO → Bool
  | .nil => true
  | .cons _ _ _ => false

/-- `v, _ := x.(string)` -/
def asStr : Option J → Str
  | some (.str s) => s
  | _ => []

/-- `len(s)` of a Go string: bytes of the UTF-8 form -/
def utf8Len (s : Str) : Nat := (s.map (fun c => c.utf8Size)).sum

/-- the strings of an array (`ss[i], _ = vs[i].(string)`) -/
def strs : JL → List Str
  | .nil => []
  | .cons x rest => asStr (some x) :: strs rest

def strArr : List Str → JL
  | [] => .nil
  | s :: rest => .cons (.str s) (strArr rest)

/-- the function applied, with a state, to every element of the array that is an object
(`Nodes()`, `Actions()` and the loops over them: other elements are skipped and kept) -/
def mapObjs {S : Type} (f : S → JO → S × JO) : S → JL → S × JL
  | s, .nil => (s, .nil)
  | s, .cons (.obj o) rest =>
    let r := f s o
    let r' := mapObjs f r.1 rest
    (r'.1, .cons (.obj r.2) r'.2)
  | s, .cons x rest =>
    let r' := mapObjs f s rest
    (r'.1, .cons x r'.2)

/-- … on the array member `k` of an object, when it is one -/
def onKeyArr {S : Type} (k : Str) (f : S → JO → S × JO) (s : S) (o : JO) : S × JO :=
  match get k o with
  | some (.arr l) => let r := mapObjs f s l; (r.1, set k (.arr r.2) o)
  | _ => (s, o)

def isType (t : String) (a : JO) : Bool := asStr (get "type".toList a) = t.toList

/-- `for node in f.Nodes() { for action in node.Actions() { g } }` -/
def onActions {S : Type} (g : S → JO → S × JO) (s : S) (f : JO) : S × JO :=
  onKeyArr "nodes".toList (onKeyArr "actions".toList g) s f

/-! ### translations (`ItemTranslation`, `LanguageTranslation`, `Localization`) -/

def itGet (it : JO) (prop : Str) : Option (List Str) :=
  match get prop it with
  | some (.arr vs) => some (strs vs)
  | _ => none

def getTranslation (lt : JO) (uuid prop : Str) : Option (List Str) :=
  match get uuid lt with
  | some (.obj it) => itGet it prop
  | _ => none

def setTranslation (lt : JO) (uuid prop : Str) (vars : List Str) : JO :=
  let it := match get uuid lt with
    | some (.obj it) => it
    | _ => .nil
  set uuid (.obj (set prop (.arr (strArr vars)) it)) lt

def deleteTranslation (lt : JO) (uuid prop : Str) : JO :=
  match get uuid lt with
  | some (.obj it) =>
    let it' := del prop it
    if isEmptyO it' then del uuid lt else set uuid (.obj it') lt
  | _ => lt

/-- every language's translations that are an object (`GetLanguageTranslation(lang) != nil`) -/
def mapLangs (g : JO → JO) : JO → JO
  | .nil => .nil
  | .cons k (.obj lt) rest => .cons k (.obj (g lt)) (mapLangs g rest)
  | .cons k v rest => .cons k v (mapLangs g rest)

def localization (f : JO) : Option JO :=
  match get "localization".toList f with
  | some (.obj l) => some l
  | _ => none

def putLocalization (l : Option JO) (f : JO) : JO :=
  match l with
  | some l => set "localization".toList (.obj l) f
  | none => f

/-- `GetObjectUUID` -/
def objUUID (o : JO) : Str := asStr (get "uuid".toList o)

/-! ### 13.1 -/

def act13_1 (gen : Nat → Str) (n : Nat) (a : JO) : Nat × JO :=
  if isType "send_msg" a then
    match get "templating".toList a with
    | some (.obj t) => (n + 1, set "templating".toList (.obj (set "uuid".toList (.str (gen n)) t)) a)
    | _ => (n, a)
  else (n, a)

def mig13_1 (gen : Nat → Str) (n : Nat) (f : JO) : Nat × JO := onActions (act13_1 gen) n f

/-! ### 13.2 -/

def mig13_2 (f : JO) : JO :=
  if utf8Len (asStr (get "language".toList f)) ≠ 3 then
    let f1 := set "language".toList (.str "und".toList) f
    match localization f1 with
    | some l => set "localization".toList (.obj (del "und".toList l)) f1
    | none => f1
  else f

/-! ### 13.4 -/

/-- the variables of a templating object (`variables, _ := templating["variables"].([]any)`, an empty list when there are none) -/
def varsOf (t : JO) : JL :=
  match get "variables".toList t with
  | some (.arr l) => l
  | _ => .nil

def lang13_4 (tu body : Str) (lt : JO) : JO :=
  match getTranslation lt tu "variables".toList with
  | some vs => deleteTranslation (setTranslation lt body "params".toList vs) tu "variables".toList
  | none => lt

def act13_4 (gen : Nat → Str) (s : Nat × Option JO) (a : JO) : (Nat × Option JO) × JO :=
  if isType "send_msg" a then
    match get "templating".toList a with
    | some (.obj t) =>
      let tu := objUUID t
      let body := gen s.1
      let vars : JL := varsOf t
      let comp : J := .obj (.cons "uuid".toList (.str body) (.cons "name".toList (.str "body".toList)
        (.cons "params".toList (.arr vars) .nil)))
      let t1 := set "components".toList (.arr (.cons comp .nil)) t
      let loc' := s.2.map (mapLangs (lang13_4 tu body))
      let t2 := del "variables".toList (del "uuid".toList t1)
      ((s.1 + 1, loc'), set "templating".toList (.obj t2) a)
    | _ => (s, a)
  else (s, a)

def mig13_4 (gen : Nat → Str) (n : Nat) (f : JO) : Nat × JO :=
  let r := onActions (act13_4 gen) (n, localization f) f
  (r.1.1, putLocalization r.1.2 r.2)

/-! ### 13.5 -/

/-- a component as the loop reads it: its UUID and its params as strings (not an object: no UUID, no params) -/
def compsOf : JL → List (Str × List Str)
  | .nil => []
  | .cons (.obj c) rest =>
    (objUUID c, match get "params".toList c with
      | some (.arr ps) => strs ps
      | _ => []) :: compsOf rest
  | .cons _ rest => ([], []) :: compsOf rest

def lang13_5 (comps : List (Str × List Str)) (auuid : Str) (lt : JO) : JO :=
  let r := comps.foldl (fun (st : JO × List Str × Bool) (c : Str × List Str) =>
    match getTranslation st.1 c.1 "params".toList with
    | some params => (deleteTranslation st.1 c.1 "params".toList, st.2.1 ++ params, true)
    | none => (st.1, st.2.1 ++ c.2, st.2.2)) (lt, [], false)
  if r.2.2 then setTranslation r.1 auuid "template_variables".toList r.2.1 else r.1

def act13_5 (loc : Option JO) (a : JO) : Option JO × JO :=
  if isType "send_msg" a then
    match get "templating".toList a with
    | some (.obj t) =>
      let comps := match get "components".toList t with
        | some (.arr l) => compsOf l
        | _ => []
      let variables := comps.flatMap (·.2)
      let loc' := loc.map (mapLangs (lang13_5 comps (asStr (get "uuid".toList a))))
      let a1 := set "template".toList ((get "template".toList t).getD .null) a
      let a2 := set "template_variables".toList (.arr (strArr variables)) a1
      (loc', del "templating".toList a2)
    | _ => (loc, a)
  else (loc, a)

def mig13_5 (f : JO) : JO :=
  let r := onActions act13_5 (localization f) f
  putLocalization r.1 r.2

/-! ### 13.6 -/

/-- `if len(s) > max { s = strings.TrimSpace(stringsx.Truncate(s, max)) }`: the test counts bytes, the cut characters -/
def limit (max : Nat) (s : Str) : Str := if utf8Len s > max then trimSpace (s.take max) else s

def limKey (k : Str) (max : Nat) (o : JO) : JO :=
  match get k o with
  | some (.str s) => if utf8Len s > max then set k (.str (trimSpace (s.take max))) o else o
  | _ => o

def act13_6 (a : JO) : JO :=
  if isType "set_run_result" a then limKey "category".toList 36 (limKey "name".toList 64 a) else a

def router13_6 (r : JO) : JO :=
  let r1 := limKey "result_name".toList 64 r
  match get "categories".toList r1 with
  | some (.arr cats) => set "categories".toList (.arr (mapObjs (fun (_ : Unit) c => ((), limKey "name".toList 36 c)) () cats).2) r1
  | _ => r1

def node13_6 (n : JO) : JO :=
  let n1 := (onKeyArr "actions".toList (fun (_ : Unit) a => ((), act13_6 a)) () n).2
  match get "router".toList n1 with
  | some (.obj r) => set "router".toList (.obj (router13_6 r)) n1
  | _ => n1

def mig13_6 (f : JO) : JO := (onKeyArr "nodes".toList (fun (_ : Unit) n => ((), node13_6 n)) () f).2

/-! ### one step of `migrate`: the version's function, then `flow["spec_version"] = version` -/

def versionText : Nat → String
  | 1 => "13.1.0" | 2 => "13.2.0" | 3 => "13.3.0" | 4 => "13.4.0" | 5 => "13.5.0" | 6 => "13.6.0" | _ => ""

/-- the function registered for version 13.`v` (`m3`: the template rewrite of 13.3) -/
def migFn (gen : Nat → Str) (m3 : JO → JO) (v : Nat) (p : Nat × JO) : Nat × JO :=
  match v with
  | 1 => mig13_1 gen p.1 p.2
  | 2 => (p.1, mig13_2 p.2)
  | 3 => (p.1, m3 p.2)
  | 4 => mig13_4 gen p.1 p.2
  | 5 => (p.1, mig13_5 p.2)
  | 6 => (p.1, mig13_6 p.2)
  | _ => p

def stepFn (gen : Nat → Str) (m3 : JO → JO) (v : Nat) (p : Nat × JO) : Nat × JO :=
  let r := migFn gen m3 v p
  (r.1, set "spec_version".toList (.str (versionText v).toList) r.2)

end GoflowModel.Migrate.Steps
