import GoflowModel.Contact.Model
/-!
# C06 — Query-based group membership always matches the contact

`reevaluate` = `modifiers.ReevaluateGroups` (`Contact.ReevaluateQueryBasedGroups` followed by the
clearing of a non-active contact's groups).  `matches_ g` is the outcome of
`Group.CheckQueryBasedMembership` for the contact **as it is now** (an input: the ContactQL
evaluator of C15 applied to the contact); for a non-active contact it is false for every group.
-/
namespace GoflowModel.Props.C06
open GoflowModel.Contact

/-- what one pass over the query-based groups does, element-wise -/
theorem reevalLoop_spec (m : Nat → Bool) (qs : List Nat) (hq : qs.Nodup) (gs : List Nat) :
    (∀ x, x ∈ (reevalLoop m gs qs).1 ↔ (x ∈ gs ∧ ¬ (x ∈ qs ∧ m x = false)) ∨ (x ∈ qs ∧ m x = true)) ∧
    (∀ x, x ∈ (reevalLoop m gs qs).2.1 ↔ x ∈ qs ∧ m x = true ∧ x ∉ gs) ∧
    (∀ x, x ∈ (reevalLoop m gs qs).2.2 ↔ x ∈ qs ∧ m x = false ∧ x ∈ gs) := by
  induction qs generalizing gs with
  | nil => simp [reevalLoop]
  | cons g rest ih =>
    have hg : g ∉ rest := (List.nodup_cons.1 hq).1
    have hrest : rest.Nodup := (List.nodup_cons.1 hq).2
    simp only [reevalLoop]
    by_cases hm : m g = true
    · simp only [hm, if_true]
      by_cases hin : gs.contains g = true
      · simp only [hin, if_true]
        have := ih hrest gs
        have hin' : g ∈ gs := by simpa using hin
        refine ⟨fun x => ?_, fun x => ?_, fun x => ?_⟩
        · rw [this.1 x]; simp only [List.mem_cons]
          by_cases e : x = g
          · subst e; simp [hm, hin', hg]
          · simp [e]
        · rw [this.2.1 x]; simp only [List.mem_cons]
          by_cases e : x = g
          · subst e; simp [hg, hin']
          · simp [e]
        · rw [this.2.2 x]; simp only [List.mem_cons]
          by_cases e : x = g
          · subst e; simp [hg, hm]
          · simp [e]
      · have hin2 : gs.contains g = false := by simpa using hin
        simp only [hin2, Bool.false_eq_true, if_false]
        have := ih hrest (gs ++ [g])
        have hin' : g ∉ gs := by simpa using hin
        refine ⟨fun x => ?_, fun x => ?_, fun x => ?_⟩
        · rw [this.1 x]; simp only [List.mem_cons, List.mem_append, List.mem_singleton]
          by_cases e : x = g
          · subst e; simp [hm, hg]
          · simp [e]
        · simp only [List.mem_cons]; rw [this.2.1 x]; simp only [List.mem_append, List.mem_singleton]
          by_cases e : x = g
          · subst e; simp [hm, hin']
          · simp [e]
        · rw [this.2.2 x]; simp only [List.mem_cons, List.mem_append, List.mem_singleton]
          by_cases e : x = g
          · subst e; simp [hg, hm]
          · simp [e]
    · have hm' : m g = false := by simpa using hm
      simp only [hm', Bool.false_eq_true, if_false]
      by_cases hin : gs.contains g = true
      · simp only [hin, if_true]
        have := ih hrest (gs.filter (· ≠ g))
        have hin' : g ∈ gs := by simpa using hin
        refine ⟨fun x => ?_, fun x => ?_, fun x => ?_⟩
        · rw [this.1 x]; simp only [List.mem_cons, List.mem_filter, decide_eq_true_eq]
          by_cases e : x = g
          · subst e; simp [hm', hg]
          · simp [e]
        · rw [this.2.1 x]; simp only [List.mem_cons, List.mem_filter, decide_eq_true_eq]
          by_cases e : x = g
          · subst e; simp [hg, hm']
          · simp [e]
        · simp only [List.mem_cons]; rw [this.2.2 x]; simp only [List.mem_filter, decide_eq_true_eq]
          by_cases e : x = g
          · subst e; simp [hm', hin']
          · simp [e]
      · have hin2 : gs.contains g = false := by simpa using hin
        simp only [hin2, Bool.false_eq_true, if_false]
        have := ih hrest gs
        have hin' : g ∉ gs := by simpa using hin
        refine ⟨fun x => ?_, fun x => ?_, fun x => ?_⟩
        · rw [this.1 x]; simp only [List.mem_cons]
          by_cases e : x = g
          · subst e; simp [hm', hin', hg]
          · simp [e]
        · rw [this.2.1 x]; simp only [List.mem_cons]
          by_cases e : x = g
          · subst e; simp [hg, hm']
          · simp [e]
        · rw [this.2.2 x]; simp only [List.mem_cons]
          by_cases e : x = g
          · subst e; simp [hg, hin']
          · simp [e]

/-- the invariant: membership in every query-based group is exactly what its query says -/
def GroupInv (m : Nat → Bool) (qgroups : List Nat) (c : Contact) : Prop :=
  ∀ g ∈ qgroups, (g ∈ c.groups ↔ m g = true)

/-- **Re-evaluation establishes the invariant**, from any starting membership (including one that
is already wrong), for an active contact … -/
theorem reevaluate_establishes_active (isQuery m : Nat → Bool) (qs : List Nat) (hq : qs.Nodup)
    (c : Contact) (ha : c.status = .active) :
    GroupInv m qs (reevaluate isQuery m qs c).contact := by
  intro g hg
  have hs := (reevalLoop_spec m qs hq c.groups).1 g
  have hgroups : (reevaluate isQuery m qs c).contact.groups = (reevalLoop m c.groups qs).1 := by
    unfold reevaluate
    simp only [ha, ne_eq, not_true_eq_false, if_false]
    split <;> rfl
  rw [hgroups, hs]
  constructor
  · rintro (⟨_, h2⟩ | ⟨_, h2⟩)
    · cases hmg : m g with
      | true => rfl
      | false => exact absurd ⟨hg, hmg⟩ h2
    · exact h2
  · intro h; exact Or.inr ⟨hg, h⟩

/-- … and a non-active contact (for which no query matches) ends in no group at all, static
groups included. -/
theorem reevaluate_nonactive_leaves_all (isQuery m : Nat → Bool) (qs : List Nat) (c : Contact)
    (hna : c.status ≠ .active) :
    (reevaluate isQuery m qs c).contact.groups = [] := by
  unfold reevaluate
  simp only [hna, ne_eq, not_false_eq_true, if_true]
  split <;> rfl

theorem reevaluate_nonactive_inv (isQuery m : Nat → Bool) (qs : List Nat) (c : Contact)
    (hna : c.status ≠ .active) (hm : ∀ g, m g = false) :
    GroupInv m qs (reevaluate isQuery m qs c).contact := by
  intro g _
  rw [reevaluate_nonactive_leaves_all isQuery m qs c hna, hm g]
  simp

/-- **Every membership change made is reported**: replaying the emitted event over the groups as
they were gives exactly the new membership (as a set), for an active contact. -/
theorem reevaluate_events_replay_active (isQuery m : Nat → Bool) (qs : List Nat) (hq : qs.Nodup)
    (c : Contact) (ha : c.status = .active) (x : Nat) :
    x ∈ (replayAll c (reevaluate isQuery m qs c).events).groups ↔
    x ∈ (reevaluate isQuery m qs c).contact.groups := by
  have hs := reevalLoop_spec m qs hq c.groups
  unfold reevaluate
  simp only [ha, ne_eq, not_true_eq_false, if_false]
  split
  · simp only [replayAll, List.foldl_cons, List.foldl_nil, replay, List.mem_append, List.mem_filter,
      Bool.not_eq_true', List.contains_eq_mem, decide_eq_false_iff_not, decide_eq_true_eq]
    rw [hs.1 x, hs.2.1 x, hs.2.2 x]
    by_cases h1 : x ∈ c.groups <;> by_cases h2 : x ∈ qs <;> cases hm : m x <;> simp [h1, h2, hm]
  · rename_i hnone
    simp only [not_or, ne_eq, Decidable.not_not] at hnone
    simp only [replayAll, List.foldl_nil]
    rw [hs.1 x]
    have ha' := hs.2.1 x
    have hr' := hs.2.2 x
    rw [hnone.1] at ha'
    rw [hnone.2] at hr'
    simp only [List.not_mem_nil, false_iff] at ha' hr'
    by_cases h1 : x ∈ c.groups <;> by_cases h2 : x ∈ qs <;> cases hm : m x <;> simp_all

/-- modified ⇔ an event was emitted ⇔ some membership changed -/
theorem reevaluate_modified_iff_event (isQuery m : Nat → Bool) (qs : List Nat) (c : Contact) :
    (reevaluate isQuery m qs c).modified = true ↔ (reevaluate isQuery m qs c).events ≠ [] := by
  unfold reevaluate
  simp only
  split <;> split <;> simp

end GoflowModel.Props.C06
