import GoflowModel.Contact.Model
import GoflowModel.Gen.Reeval
/-!
# C06 — Query-based group membership always matches the contact

`reevaluate` = `modifiers.ReevaluateGroups` (`Contact.ReevaluateQueryBasedGroups` followed by the
clearing of a non-active contact's groups).  `matches_ g` is the outcome of
`Group.CheckQueryBasedMembership` for the contact **as it is now** (an input: the ContactQL
evaluator of C15 applied to the contact); for a non-active contact it is false for every group.
-/
namespace GoflowModel.Props.C06
open GoflowModel.Contact

/-- what one pass over the query-based groups does, element-wise -/
theorem reevalLoop_spec (m : Nat → Bool) (qs : List Nat) (hq : qs.Nodup) (gs : List Nat) :
    (∀ x, x ∈ (reevalLoop m gs qs).1 ↔ (x ∈ gs ∧ ¬ (x ∈ qs ∧ m x = false)) ∨ (x ∈ qs ∧ m x = true)) ∧
    (∀ x, x ∈ (reevalLoop m gs qs).2.1 ↔ x ∈ qs ∧ m x = true ∧ x ∉ gs) ∧
    (∀ x, x ∈ (reevalLoop m gs qs).2.2 ↔ x ∈ qs ∧ m x = false ∧ x ∈ gs) := by
  induction qs generalizing gs with
  | nil => simp [reevalLoop]
  | cons g rest ih =>
    have hg : g ∉ rest := (List.nodup_cons.1 hq).1
    have hrest : rest.Nodup := (List.nodup_cons.1 hq).2
    simp only [reevalLoop]
    by_cases hm : m g = true
    · simp only [hm, if_true]
      by_cases hin : gs.contains g = true
      · simp only [hin, if_true]
        have := ih hrest gs
        have hin' : g ∈ gs := by simpa using hin
        refine ⟨fun x => ?_, fun x => ?_, fun x => ?_⟩
        · rw [this.1 x]; simp only [List.mem_cons]
          by_cases e : x = g
          · subst e; simp [hm, hin', hg]
          · simp [e]
        · rw [this.2.1 x]; simp only [List.mem_cons]
          by_cases e : x = g
          · subst e; simp [hg, hin']
          · simp [e]
        · rw [this.2.2 x]; simp only [List.mem_cons]
          by_cases e : x = g
          · subst e; simp [hg, hm]
          · simp [e]
      · have hin2 : gs.contains g = false := by simpa using hin
        simp only [hin2, Bool.false_eq_true, if_false]
        have := ih hrest (gs ++ [g])
        have hin' : g ∉ gs := by simpa using hin
        refine ⟨fun x => ?_, fun x => ?_, fun x => ?_⟩
        · rw [this.1 x]; simp only [List.mem_cons, List.mem_append, List.mem_singleton]
          by_cases e : x = g
          · subst e; simp [hm, hg]
          · simp [e]
        · simp only [List.mem_cons]; rw [this.2.1 x]; simp only [List.mem_append, List.mem_singleton]
          by_cases e : x = g
          · subst e; simp [hm, hin']
          · simp [e]
        · rw [this.2.2 x]; simp only [List.mem_cons, List.mem_append, List.mem_singleton]
          by_cases e : x = g
          · subst e; simp [hg, hm]
          · simp [e]
    · have hm' : m g = false := by simpa using hm
      simp only [hm', Bool.false_eq_true, if_false]
      by_cases hin : gs.contains g = true
      · simp only [hin, if_true]
        have := ih hrest (gs.filter (· ≠ g))
        have hin' : g ∈ gs := by simpa using hin
        refine ⟨fun x => ?_, fun x => ?_, fun x => ?_⟩
        · rw [this.1 x]; simp only [List.mem_cons, List.mem_filter, decide_eq_true_eq]
          by_cases e : x = g
          · subst e; simp [hm', hg]
          · simp [e]
        · rw [this.2.1 x]; simp only [List.mem_cons, List.mem_filter, decide_eq_true_eq]
          by_cases e : x = g
          · subst e; simp [hg, hm']
          · simp [e]
        · simp only [List.mem_cons]; rw [this.2.2 x]; simp only [List.mem_filter, decide_eq_true_eq]
          by_cases e : x = g
          · subst e; simp [hm', hin']
          · simp [e]
      · have hin2 : gs.contains g = false := by simpa using hin
        simp only [hin2, Bool.false_eq_true, if_false]
        have := ih hrest gs
        have hin' : g ∉ gs := by simpa using hin
        refine ⟨fun x => ?_, fun x => ?_, fun x => ?_⟩
        · rw [this.1 x]; simp only [List.mem_cons]
          by_cases e : x = g
          · subst e; simp [hm', hin', hg]
          · simp [e]
        · rw [this.2.1 x]; simp only [List.mem_cons]
          by_cases e : x = g
          · subst e; simp [hg, hm']
          · simp [e]
        · rw [this.2.2 x]; simp only [List.mem_cons]
          by_cases e : x = g
          · subst e; simp [hg, hin']
          · simp [e]

/-- the invariant: membership in every query-based group is exactly what its query says -/
def GroupInv (m : Nat → Bool) (qgroups : List Nat) (c : Contact) : Prop :=
  ∀ g ∈ qgroups, (g ∈ c.groups ↔ m g = true)

/-- **Re-evaluation establishes the invariant**, from any starting membership (including one that
is already wrong), for an active contact … -/
theorem reevaluate_establishes_active (isQuery m : Nat → Bool) (qs : List Nat) (hq : qs.Nodup)
    (c : Contact) (ha : c.status = .active) :
    GroupInv m qs (reevaluate isQuery m qs c).contact := by
  intro g hg
  have hs := (reevalLoop_spec m qs hq c.groups).1 g
  have hgroups : (reevaluate isQuery m qs c).contact.groups = (reevalLoop m c.groups qs).1 := by
    unfold reevaluate
    simp only [ha, ne_eq, not_true_eq_false, if_false]
    split <;> rfl
  rw [hgroups, hs]
  constructor
  · rintro (⟨_, h2⟩ | ⟨_, h2⟩)
    · cases hmg : m g with
      | true => rfl
      | false => exact absurd ⟨hg, hmg⟩ h2
    · exact h2
  · intro h; exact Or.inr ⟨hg, h⟩

/-- … and a non-active contact (for which no query matches) ends in no group at all, static
groups included. -/
theorem reevaluate_nonactive_leaves_all (isQuery m : Nat → Bool) (qs : List Nat) (c : Contact)
    (hna : c.status ≠ .active) :
    (reevaluate isQuery m qs c).contact.groups = [] := by
  unfold reevaluate
  simp only [hna, ne_eq, not_false_eq_true, if_true]
  split <;> rfl

theorem reevaluate_nonactive_inv (isQuery m : Nat → Bool) (qs : List Nat) (c : Contact)
    (hna : c.status ≠ .active) (hm : ∀ g, m g = false) :
    GroupInv m qs (reevaluate isQuery m qs c).contact := by
  intro g _
  rw [reevaluate_nonactive_leaves_all isQuery m qs c hna, hm g]
  simp

/-- **Every membership change made is reported**: replaying the emitted event over the groups as
they were gives exactly the new membership (as a set), for an active contact. -/
theorem reevaluate_events_replay_active (isQuery m : Nat → Bool) (qs : List Nat) (hq : qs.Nodup)
    (c : Contact) (ha : c.status = .active) (x : Nat) :
    x ∈ (replayAll c (reevaluate isQuery m qs c).events).groups ↔
    x ∈ (reevaluate isQuery m qs c).contact.groups := by
  have hs := reevalLoop_spec m qs hq c.groups
  unfold reevaluate
  simp only [ha, ne_eq, not_true_eq_false, if_false]
  split
  · simp only [replayAll, List.foldl_cons, List.foldl_nil, replay, List.mem_append, List.mem_filter,
      Bool.not_eq_true', List.contains_eq_mem, decide_eq_false_iff_not, decide_eq_true_eq]
    rw [hs.1 x, hs.2.1 x, hs.2.2 x]
    by_cases h1 : x ∈ c.groups <;> by_cases h2 : x ∈ qs <;> cases hm : m x <;> simp [h1, h2, hm]
  · rename_i hnone
    simp only [not_or, ne_eq, Decidable.not_not] at hnone
    simp only [replayAll, List.foldl_nil]
    rw [hs.1 x]
    have ha' := hs.2.1 x
    have hr' := hs.2.2 x
    rw [hnone.1] at ha'
    rw [hnone.2] at hr'
    simp only [List.not_mem_nil, false_iff] at ha' hr'
    by_cases h1 : x ∈ c.groups <;> by_cases h2 : x ∈ qs <;> cases hm : m x <;> simp_all

/-- modified ⇔ an event was emitted ⇔ some membership changed -/
theorem reevaluate_modified_iff_event (isQuery m : Nat → Bool) (qs : List Nat) (c : Contact) :
    (reevaluate isQuery m qs c).modified = true ↔ (reevaluate isQuery m qs c).events ≠ [] := by
  unfold reevaluate
  simp only
  split <;> split <;> simp

/-! ## Every hand-back

What the engine does to the contact in one call (`NewSession` / `Resume`), as far as groups are
concerned: the trigger or resume changes the contact in some way, **then the groups are
re-evaluated** (`session.start`, `session.tryToResume`: unconditional calls, pinned below from the
source); then any number of modifiers are applied by actions, each through `modifiers.Apply`, which
**re-evaluates when the modifier reports a change** — and a modifier that reports no change has not
changed the contact (C03).  `M c g` is what group `g`'s query says of contact `c`
(`Group.CheckQueryBasedMembership`: false for a contact that is not active); queries cannot refer to
group membership itself (`group` is not allowed in the query of a group), so changing the groups
does not change `M`. -/

/-- **The re-evaluation sites are the ones `handBack` assumes** (census of flows/** regenerated from the
source on every run): `start` re-evaluates unconditionally right after the trigger initialised the
session; `tryToResume` unconditionally right after `resume.Apply`; `visitNode` after a trigger
initialised a run (a message trigger sets `last_seen_on`); `modifiers.Apply` whenever the modifier
reported a change; the two remaining rows are the helpers themselves.  A re-evaluation that is moved
under a condition, behind another statement or dropped changes this table. -/
theorem reevaluation_sites_as_modelled :
    Gen.Reeval.sites = [
      ("flows/engine/session.go", "start", [], "if err := s.trigger.Initialize(s, sprint.logEvent); err != nil { return sprint, err }"),
      ("flows/engine/session.go", "tryToResume", [], "resume.Apply(waitingRun, logEvent)"),
      ("flows/engine/session.go", "visitNode", ["if trigger != nil"], "if err := trigger.InitializeRun(run, logEvent); err != nil { return step, nil, \"\", nil }"),
      ("flows/engine/session.go", "ensureQueryBasedGroups", [], "if s.contact == nil { return }"),
      ("flows/modifiers/base.go", "Apply", ["if modified"], "-"),
      ("flows/modifiers/base.go", "ReevaluateGroups", [], "-")] := by
  decide

/-- what one modifier application did: the contact after it and the flag it returned -/
structure ModStep where
  apply : Contact → Contact
  modified : Contact → Bool

/-- `modifiers.Apply` -/
def applyMod (isQuery : Nat → Bool) (M : Contact → Nat → Bool) (qs : List Nat) (c : Contact) (s : ModStep) : Contact :=
  if s.modified c then (reevaluate isQuery (M (s.apply c)) qs (s.apply c)).contact else s.apply c

/-- one call of the engine: state change by the trigger / resume, re-evaluation, modifiers -/
def handBack (isQuery : Nat → Bool) (M : Contact → Nat → Bool) (qs : List Nat) (stateChange : Contact → Contact)
    (mods : List ModStep) (c : Contact) : Contact :=
  mods.foldl (applyMod isQuery M qs) (reevaluate isQuery (M (stateChange c)) qs (stateChange c)).contact

theorem reevaluate_only_groups (isQuery m : Nat → Bool) (qs : List Nat) (c : Contact) :
    ∃ gs, (reevaluate isQuery m qs c).contact = { c with groups := gs } := by
  unfold reevaluate
  simp only
  split <;> split <;> exact ⟨_, rfl⟩

/-- the invariant for a contact of any status -/
def Inv (M : Contact → Nat → Bool) (qs : List Nat) (c : Contact) : Prop := GroupInv (M c) qs c

theorem reevaluate_inv (isQuery : Nat → Bool) (M : Contact → Nat → Bool) (qs : List Nat) (hq : qs.Nodup)
    (hM : ∀ c gs, M { c with groups := gs } = M c) (hna : ∀ c g, c.status ≠ .active → M c g = false) (c : Contact) :
    Inv M qs (reevaluate isQuery (M c) qs c).contact := by
  obtain ⟨gs, hgs⟩ := reevaluate_only_groups isQuery (M c) qs c
  unfold Inv
  have hm : M (reevaluate isQuery (M c) qs c).contact = M c := by rw [hgs]; exact hM c gs
  rw [hm]
  by_cases ha : c.status = .active
  · exact reevaluate_establishes_active isQuery (M c) qs hq c ha
  · exact reevaluate_nonactive_inv isQuery (M c) qs c ha (fun g => hna c g ha)

/-- **Whenever the engine hands the session back the invariant holds** — whatever the contact and
its stored membership were, whatever the trigger or resume did to it, whatever modifiers the
actions applied — provided a modifier that reports no change made none. -/
theorem handBack_inv (isQuery : Nat → Bool) (M : Contact → Nat → Bool) (qs : List Nat) (hq : qs.Nodup)
    (hM : ∀ c gs, M { c with groups := gs } = M c) (hna : ∀ c g, c.status ≠ .active → M c g = false)
    (stateChange : Contact → Contact) (mods : List ModStep)
    (hmods : ∀ s ∈ mods, ∀ c, s.modified c = false → s.apply c = c) (c : Contact) :
    Inv M qs (handBack isQuery M qs stateChange mods c) := by
  unfold handBack
  have h0 := reevaluate_inv isQuery M qs hq hM hna (stateChange c)
  generalize (reevaluate isQuery (M (stateChange c)) qs (stateChange c)).contact = c0 at h0
  induction mods generalizing c0 with
  | nil => simpa using h0
  | cons s rest ih =>
    simp only [List.foldl_cons]
    apply ih (fun s' hs' => hmods s' (by simp [hs']))
    unfold applyMod
    cases hmod : s.modified c0 with
    | true => simpa using reevaluate_inv isQuery M qs hq hM hna (s.apply c0)
    | false =>
      rw [hmods s (by simp) c0 hmod]
      simpa using h0

/-- the hypothesis about modifiers is needed: a modifier that changes the name without saying so
leaves a name-based group wrong (the model's counterpart of a dropped re-evaluation) -/
example :
    let M : Contact → Nat → Bool := fun c _ => c.status == .active && c.name == ['B']
    let c : Contact := ⟨['A'], 0, .active, 0, [], [], [], none, none⟩
    let s : ModStep := ⟨fun c => { c with name := ['B'] }, fun _ => false⟩
    ¬ Inv M [7] (handBack (fun _ => true) M [7] id [s] c) := by
  intro M c s
  unfold Inv GroupInv
  decide

end GoflowModel.Props.C06
