import GoflowModel.Engine.Migrate
import GoflowModel.Gen.Migrations
import GoflowModel.Props.C11
/-!
# C16 — Definition migration yields valid, equivalent, stable flows

About the migration driver, for every set of registered versions, every per-version function and
every definition: a definition at or past the newest registered version is returned untouched;
migrating in steps is migrating in one go; migrating again changes nothing; and whatever every
per-version function preserves (the flow's UUID, its nodes, exits and destinations) the whole
migration preserves.  About 13.6: limiting a name is idempotent and establishes the limit.
Regenerated from the source on every run: the migration functions with their versions, and every
key they write — none of them is a key that carries the flow's identity or connectivity.
The one rewrite of expressions a migration makes (13.3: `@webhook` becomes `@webhook.json`) keeps what
every expression evaluates to (`rewrite_13_3_preserves_value`, the renaming theorem of C11 at that
instance).  The other per-version functions, the legacy migration and the rejection clause are decided on
the implementation (monitors over the repository's stored definitions, generated definitions at
every source version, and mutated/hostile inputs).
-/
namespace GoflowModel.Props.C16
open GoflowModel.Migrate List

theorem filter_sorted_eq (l : List Nat) (h : l.Pairwise (fun a b => a ≤ b)) :
    l.mergeSort (fun a b => decide (a ≤ b)) = l :=
  mergeSort_of_pairwise (by simpa using h)

theorem pending_sorted (reg : List Nat) (a b : Nat) : (pending reg a b).Pairwise (fun x y => x ≤ y) := by
  have := pairwise_mergeSort (le := fun a b => decide (a ≤ b))
    (by intro a b c; simp; omega) (by intro a b; simp; omega) (reg.filter fun v => decide (a < v) && decide (v ≤ b))
  simpa [pending] using this

theorem mem_pending (reg : List Nat) (a b v : Nat) : v ∈ pending reg a b ↔ v ∈ reg ∧ a < v ∧ v ≤ b := by
  simp [pending, mem_mergeSort, and_assoc]

/-- **A definition already at (or past) the newest registered version is returned untouched.** -/
theorem current_untouched {P : Type} (ms : Nat → P → P) (reg : List Nat) (to : Nat) (d : Def P)
    (h : ∀ v ∈ reg, v ≤ d.version) : migrateTo ms reg to d = d := by
  have : pending reg d.version to = [] := by
    apply List.eq_nil_iff_forall_not_mem.2
    intro v hv
    have := (mem_pending reg d.version to v).1 hv
    have := h v this.1
    omega
  simp [migrateTo, this]

/-- the version after migrating is the last version applied, or the original -/
theorem foldl_version {P : Type} (ms : Nat → P → P) (l : List Nat) (d : Def P) :
    (l.foldl (fun d v => (⟨v, ms v d.payload⟩ : Def P)) d).version = (l.getLast?).getD d.version := by
  induction l generalizing d with
  | nil => rfl
  | cons v l ih =>
    simp only [List.foldl_cons]
    rw [ih]
    cases l with
    | nil => simp
    | cons w l =>
      have : ((w :: l).getLast?).isSome = true := by simp
      cases hgl : (w :: l).getLast? with
      | none => simp [hgl] at this
      | some z => simp [List.getLast?_cons_cons, hgl]

/-- two sorted lists of naturals with the same members and no duplicates are equal -/
theorem sorted_nodup_ext (l₁ l₂ : List Nat) (h₁ : l₁.Pairwise (· < ·)) (h₂ : l₂.Pairwise (· < ·))
    (h : ∀ v, v ∈ l₁ ↔ v ∈ l₂) : l₁ = l₂ := by
  apply Perm.eq_of_pairwise (le := fun a b => a ≤ b)
  · intro a b _ _ hab hba; omega
  · exact h₁.imp (fun h => Nat.le_of_lt h)
  · exact h₂.imp (fun h => Nat.le_of_lt h)
  · exact (perm_ext_iff_of_nodup (h₁.imp (fun h => Nat.ne_of_lt h)) (h₂.imp (fun h => Nat.ne_of_lt h))).2 h

theorem pending_strict (reg : List Nat) (hn : reg.Nodup) (a b : Nat) : (pending reg a b).Pairwise (· < ·) := by
  have hs := pending_sorted reg a b
  have hnd : (pending reg a b).Nodup := by
    unfold pending
    exact (mergeSort_perm _ _).nodup_iff.2 (hn.filter _)
  have : (pending reg a b).Pairwise (fun x y => x ≤ y ∧ x ≠ y) := hs.and hnd
  exact this.imp (fun h => by omega)

/-- the pending versions up to `c` are those up to `b` followed by those after `b` -/
theorem pending_split (reg : List Nat) (hn : reg.Nodup) (a b c : Nat) (hab : a ≤ b) (hbc : b ≤ c) :
    pending reg a c = pending reg a b ++ pending reg b c := by
  apply sorted_nodup_ext _ _ (pending_strict reg hn a c)
  · rw [List.pairwise_append]
    refine ⟨pending_strict reg hn a b, pending_strict reg hn b c, ?_⟩
    intro x hx y hy
    have := (mem_pending reg a b x).1 hx
    have := (mem_pending reg b c y).1 hy
    omega
  · intro v
    simp only [List.mem_append, mem_pending]
    constructor
    · intro h
      by_cases hv : v ≤ b
      · exact Or.inl ⟨h.1, h.2.1, hv⟩
      · exact Or.inr ⟨h.1, by omega, h.2.2⟩
    · intro h
      rcases h with h | h
      · exact ⟨h.1, h.2.1, by omega⟩
      · exact ⟨h.1, by omega, h.2.2⟩

theorem getLast_ge_of_sorted (l : List Nat) (h : l.Pairwise (· < ·)) (z : Nat) (hz : l.getLast? = some z) :
    ∀ v ∈ l, v ≤ z := by
  induction l with
  | nil => simp
  | cons a l ih =>
    intro v hv
    cases l with
    | nil => simp at hz hv; omega
    | cons b l =>
      rw [List.getLast?_cons_cons] at hz
      have h' := List.pairwise_cons.1 h
      have hb : b ≤ z := ih h'.2 hz b (by simp)
      simp only [List.mem_cons] at hv
      rcases hv with rfl | hv
      · have := h'.1 b (by simp); omega
      · exact ih h'.2 hz v (by simpa using hv)

/-- after migrating to `b`, what is still pending up to `c` is exactly what was pending after `b` -/
theorem pending_after {P : Type} (ms : Nat → P → P) (reg : List Nat) (hn : reg.Nodup) (b c : Nat) (d : Def P)
    (hab : d.version ≤ b) : pending reg (migrateTo ms reg b d).version c = pending reg b c := by
  unfold migrateTo
  rw [foldl_version]
  cases hl : (pending reg d.version b).getLast? with
  | none =>
    -- nothing was applied: no registered version lies in (version, b]
    have hnil : pending reg d.version b = [] := by simpa using hl
    simp only [Option.getD_none]
    apply sorted_nodup_ext _ _ (pending_strict reg hn _ c) (pending_strict reg hn b c)
    intro v
    simp only [mem_pending]
    constructor
    · intro h
      refine ⟨h.1, ?_, h.2.2⟩
      by_cases hv : v ≤ b
      · have : v ∈ pending reg d.version b := (mem_pending _ _ _ _).2 ⟨h.1, h.2.1, hv⟩
        rw [hnil] at this; cases this
      · omega
    · intro h; exact ⟨h.1, by omega, h.2.2⟩
  | some z =>
    simp only [Option.getD_some]
    have hzmem : z ∈ pending reg d.version b := List.mem_of_getLast? hl
    have hz := (mem_pending _ _ _ _).1 hzmem
    have hmax := getLast_ge_of_sorted _ (pending_strict reg hn d.version b) z hl
    apply sorted_nodup_ext _ _ (pending_strict reg hn z c) (pending_strict reg hn b c)
    intro v
    simp only [mem_pending]
    constructor
    · intro h
      refine ⟨h.1, ?_, h.2.2⟩
      by_cases hv : v ≤ b
      · have := hmax v ((mem_pending _ _ _ _).2 ⟨h.1, by omega, hv⟩)
        omega
      · omega
    · intro h; exact ⟨h.1, by omega, h.2.2⟩

/-- **Stepwise is in one go**: migrating to `b` and then to `c` is migrating to `c`. -/
theorem migrate_compose {P : Type} (ms : Nat → P → P) (reg : List Nat) (hn : reg.Nodup) (b c : Nat) (d : Def P)
    (hab : d.version ≤ b) (hbc : b ≤ c) :
    migrateTo ms reg c (migrateTo ms reg b d) = migrateTo ms reg c d := by
  have h1 := pending_after ms reg hn b c d hab
  have h2 := pending_split reg hn d.version b c hab hbc
  calc migrateTo ms reg c (migrateTo ms reg b d)
      = (pending reg (migrateTo ms reg b d).version c).foldl (fun d v => (⟨v, ms v d.payload⟩ : Def P)) (migrateTo ms reg b d) := rfl
    _ = (pending reg b c).foldl (fun d v => (⟨v, ms v d.payload⟩ : Def P)) (migrateTo ms reg b d) := by rw [h1]
    _ = (pending reg b c).foldl (fun d v => (⟨v, ms v d.payload⟩ : Def P))
          ((pending reg d.version b).foldl (fun d v => (⟨v, ms v d.payload⟩ : Def P)) d) := rfl
    _ = (pending reg d.version b ++ pending reg b c).foldl (fun d v => (⟨v, ms v d.payload⟩ : Def P)) d := by rw [List.foldl_append]
    _ = (pending reg d.version c).foldl (fun d v => (⟨v, ms v d.payload⟩ : Def P)) d := by rw [h2]
    _ = migrateTo ms reg c d := rfl

/-- **Migrating again changes nothing.** -/
theorem migrate_idem {P : Type} (ms : Nat → P → P) (reg : List Nat) (hn : reg.Nodup) (c : Nat) (d : Def P)
    (h : d.version ≤ c) : migrateTo ms reg c (migrateTo ms reg c d) = migrateTo ms reg c d :=
  migrate_compose ms reg hn c c d h (Nat.le_refl c)

/-- non-vacuity: versions 1…6 registered, a definition at 2 gets 3, 4, 5, 6 in that order -/
example : (migrateTo (fun v (p : List Nat) => p ++ [v]) [1, 2, 3, 4, 5, 6] 6 ⟨2, []⟩).payload = [3, 4, 5, 6] := by
  have : pending [1, 2, 3, 4, 5, 6] 2 6 = [3, 4, 5, 6] := by
    unfold pending
    rw [show List.filter (fun v => decide (2 < v) && decide (v ≤ 6)) [1, 2, 3, 4, 5, 6] = [3, 4, 5, 6] from by decide]
    exact filter_sorted_eq _ (by decide)
  simp [migrateTo, this]

/-- whatever every per-version function preserves, the migration preserves -/
theorem invariant_preserved {P I : Type} (ms : Nat → P → P) (inv : P → I) (hinv : ∀ v x, inv (ms v x) = inv x)
    (reg : List Nat) (to : Nat) (d : Def P) : inv (migrateTo ms reg to d).payload = inv d.payload := by
  unfold migrateTo
  generalize pending reg d.version to = l
  induction l generalizing d with
  | nil => rfl
  | cons v l ih => simp only [List.foldl_cons]; rw [ih]; exact hinv v d.payload

/-! ### 13.6: names -/

theorem dropWhile_length_le {α : Type} (p : α → Bool) (l : List α) : (l.dropWhile p).length ≤ l.length := by
  induction l with
  | nil => simp
  | cons a l ih => simp only [List.dropWhile_cons]; split <;> simp <;> omega

theorem trimSpace_length_le (s : List Char) : (trimSpace s).length ≤ s.length := by
  unfold trimSpace
  have a := dropWhile_length_le isSpace s
  have b := dropWhile_length_le isSpace (s.dropWhile isSpace).reverse
  simp only [List.length_reverse] at b ⊢
  omega

/-- **The limit holds after the migration** … -/
theorem limitName_length (max : Nat) (s : List Char) : (limitName max s).length ≤ max := by
  unfold limitName
  split
  · have := trimSpace_length_le (s.take max)
    have : (s.take max).length ≤ max := by simp [List.length_take]; omega
    omega
  · omega

/-- … **and migrating again changes nothing.** -/
theorem limitName_idem (max : Nat) (s : List Char) : limitName max (limitName max s) = limitName max s := by
  have h := limitName_length max s
  generalize limitName max s = t at h
  unfold limitName
  rw [if_neg (by omega)]

/-- a name within the limit is not touched -/
theorem limitName_short (max : Nat) (s : List Char) (h : s.length ≤ max) : limitName max s = s := by
  unfold limitName; rw [if_neg (by omega)]

/-! ### regenerated from the source on every run -/

/-- **The 13.3 rewrite preserves what expressions evaluate to**: `ContextRefRename("webhook",
"webhook.json")` applied to any expression — the whole language, anonymous functions that rebind
the name included — evaluates, in a context where the value has moved from `webhook` to
`webhook.json`, to what the original evaluated to; for every value domain and scope.  (`fresh`:
the new name does not already occur; `hm`: a name missing from the context is the same failure
under either name.) -/
theorem rewrite_13_3_preserves_value {V : Type} (S : Expr.Sem V)
    (hm : S.missing (Expr.lowerName "webhook.json".toList) = S.missing (Expr.lowerName "webhook".toList))
    (e : Expr.Expr) (ρ ρ' : Expr.Env V) (h : C11.Moved "webhook".toList "webhook.json".toList ρ ρ')
    (hf : Expr.fresh (Expr.lowerName "webhook.json".toList) e) :
    Expr.eval S ρ' (Expr.rename "webhook".toList "webhook.json".toList e) = Expr.eval S ρ e :=
  C11.rename_eval S "webhook".toList "webhook.json".toList hm e ρ ρ' h hf

/-- one function per version 13.1 … 13.6, each declaring its own version -/
theorem migration_functions_pinned :
    Gen.Migrations.functions =
      [("Migrate13_6", "13.6"), ("Migrate13_5", "13.5"), ("Migrate13_4", "13.4"), ("Migrate13_3", "13.3"),
       ("Migrate13_2", "13.2"), ("Migrate13_1", "13.1")] := by decide

/-- the keys that carry a flow's identity and connectivity -/
def graphKeys : List String := ["nodes", "exits", "destination_uuid", "exit_uuid", "category_uuid", "default_category_uuid", "actions", "router", "cases", "categories"]

/-- **No migration writes a key that carries the flow's identity or connectivity**; the only `uuid`
written or deleted is the templating object's own -/
theorem migrations_keep_graph_keys :
    Gen.Migrations.writes.all (fun w => !graphKeys.contains w.2.2 && (w.2.2 != "uuid" || w.2.1 == "templating")) = true := by
  decide

/-! ## Legacy flows: the entry node comes first -/

section LegacyOrder
open GoflowModel.Migrate

theorem leY_trans (a b c : LNode) (h1 : leY a b = true) (h2 : leY b c = true) : leY a c = true := by
  simp only [leY, decide_eq_true_eq] at *; omega

theorem leY_total (a b : LNode) : (leY a b || leY b a) = true := by
  simp only [leY, Bool.or_eq_true, decide_eq_true_eq]; omega

/-- **The entry node is the first node of the migrated flow** whenever the legacy flow has it. -/
theorem legacy_entry_first (entry : Nat) (nodes : List LNode) (h : entry ∈ nodes.map (·.1)) :
    ((legacyOrder entry nodes).head?).map (·.1) = some entry := by
  unfold legacyOrder entryPart
  have hne : nodes.filter (fun n => n.1 == entry) ≠ [] := by
    simp only [List.mem_map] at h
    obtain ⟨n, hn, he⟩ := h
    intro e
    have : n ∈ nodes.filter (fun n => n.1 == entry) := by simp [List.mem_filter, hn, he]
    rw [e] at this; cases this
  cases hl : (nodes.filter (fun n => n.1 == entry)).getLast? with
  | none => exact absurd (List.getLast?_eq_none_iff.1 hl) hne
  | some n =>
    have hm : n ∈ nodes.filter (fun n => n.1 == entry) := List.mem_of_getLast? hl
    simp only [List.mem_filter, beq_iff_eq] at hm
    simp [hm.2]

/-- **No node is lost or duplicated** (node UUIDs are distinct): the migrated order is a
rearrangement of the nodes. -/
theorem legacy_order_perm (entry : Nat) (nodes : List LNode) (hd : (nodes.map (·.1)).Nodup) :
    (legacyOrder entry nodes).Perm nodes := by
  unfold legacyOrder
  have hf : (nodes.filter (fun n => n.1 == entry)).length ≤ 1 := by
    induction nodes with
    | nil => simp
    | cons x xs ih =>
      simp only [List.map_cons, List.nodup_cons] at hd
      simp only [List.filter_cons]
      split
      · rename_i hx
        have : xs.filter (fun n => n.1 == entry) = [] := by
          rw [List.filter_eq_nil_iff]
          intro y hy hye
          simp only [beq_iff_eq] at hx hye
          exact hd.1 (by rw [hx, ← hye]; exact List.mem_map_of_mem hy)
        simp [this]
      · exact ih hd.2
  have hsplit : ((nodes.filter (fun n => n.1 == entry)) ++ nodes.filter (fun n => !(n.1 == entry))).Perm nodes :=
    List.filter_append_perm _ nodes
  have he : entryPart entry nodes = nodes.filter (fun n => n.1 == entry) := by
    unfold entryPart
    cases hl : nodes.filter (fun n => n.1 == entry) with
    | nil => rfl
    | cons a t =>
      rw [hl] at hf
      cases t with
      | nil => rfl
      | cons b t' => simp at hf
  rw [he]
  exact (List.Perm.append_left _ (List.mergeSort_perm _ leY)).trans hsplit

/-- **The other nodes follow by their vertical position** … -/
theorem legacy_others_sorted (entry : Nat) (nodes : List LNode) :
    ((nodes.filter (fun n => !(n.1 == entry))).mergeSort leY).Pairwise (fun a b => a.2 ≤ b.2) := by
  have := List.pairwise_mergeSort leY_trans leY_total (nodes.filter (fun n => !(n.1 == entry)))
  exact this.imp (by intro a b h; simpa [leY] using h)

/-- … **stably**: nodes that were already in the order of their positions keep their relative order
(in particular nodes at the same height stay in the order they were given). -/
theorem legacy_others_stable (entry : Nat) (nodes ys : List LNode) (hs : ys.Pairwise (fun a b => leY a b = true))
    (hsub : ys.Sublist (nodes.filter (fun n => !(n.1 == entry)))) :
    ys.Sublist ((nodes.filter (fun n => !(n.1 == entry))).mergeSort leY) :=
  List.sublist_mergeSort leY_trans leY_total hs hsub

/-- the premises are met by a legacy flow whose entry is neither listed first nor the topmost node:
`[a (y = 50), entry (y = 200), b (y = 10)]` -/
example : (7 : Nat) ∈ ([(1, 50), (7, 200), (2, 10)] : List LNode).map (·.1) ∧
    (([(1, 50), (7, 200), (2, 10)] : List LNode).map (·.1)).Nodup := by decide

end LegacyOrder

end GoflowModel.Props.C16
