import GoflowModel.Lemmas.CQL
/-!
# C15 — Contact query evaluation is total and logically consistent

Model: `ContactQL.eval` (boolean skeleton of `evaluateNode`), `simplify` (`Simplify()`),
`combineVals` (the any/all combination of `evaluateCondition`), `numCmp` / `dateCmp`
(`numberComparison` / `dateComparison`, `none` = the Go `panic`).  Numbers are integers at a
common scale and instants are integers; the day range `[s, e)` of the query value is a
parameter with `s < e` (computed by `dates.DayToUTCRange`, which is outside the model).
-/
namespace GoflowModel.Props.C15
open GoflowModel ContactQL

/-- AND / OR are conjunction / disjunction of the children's results. -/
theorem eval_and (q : Cond → Bool) (cs : List Node) :
    eval q (.comb true cs) = cs.all (eval q) := by
  simp only [eval]
  induction cs with
  | nil => rfl
  | cons n ns ih => simp [evalAll, ih]

theorem eval_or (q : Cond → Bool) (cs : List Node) :
    eval q (.comb false cs) = cs.any (eval q) := by
  simp only [eval]
  induction cs with
  | nil => rfl
  | cons n ns ih => simp [evalAny, ih]

mutual
/-- Simplification of a query in which every combination has at least one child (parsed
queries have at least two) returns a query of the same value, whatever the conditions mean. -/
theorem simplify_spec (q : Cond → Bool) : (n : Node) → NonEmpty n = true →
    ∃ m, simplify n = some m ∧ wellShaped m = true ∧ eval q m = eval q n
  | .cond c, _ => ⟨.cond c, rfl, rfl, rfl⟩
  | .comb a cs, h => by
    simp only [NonEmpty, Bool.and_eq_true, Bool.not_eq_true', List.isEmpty_eq_false_iff] at h
    obtain ⟨hsh, hall, hany, hlen⟩ := simplifyList_spec q cs h.2
    have hne : simplifyList cs ≠ [] := by
      intro e; rw [e] at hlen; simp at hlen; exact h.1 (List.eq_nil_of_length_eq_zero hlen.symm)
    have hp := promote_ne_nil a (simplifyList cs) hne hsh
    have hw := promote_ws a (simplifyList cs) hsh
    simp only [simplify]
    cases hpr : promote a (simplifyList cs) with
    | nil => exact absurd hpr hp
    | cons x r =>
      cases r with
      | nil =>
        refine ⟨x, rfl, ?_, ?_⟩
        · rw [hpr] at hw; simpa [wellShapedList] using hw
        · cases a
          · have := evalAny_promote q (simplifyList cs)
            rw [hpr] at this
            simp only [evalAny, Bool.or_false] at this
            simp only [eval]; rw [this, hany]
          · have := evalAll_promote q (simplifyList cs)
            rw [hpr] at this
            simp only [evalAll, Bool.and_true] at this
            simp only [eval]; rw [this, hall]
      | cons y r =>
        refine ⟨.comb a (x :: y :: r), rfl, by rw [hpr] at hw; simp [wellShaped, hw], ?_⟩
        cases a
        · have := evalAny_promote q (simplifyList cs)
          rw [hpr] at this
          simp only [eval]; rw [this, hany]
        · have := evalAll_promote q (simplifyList cs)
          rw [hpr] at this
          simp only [eval]; rw [this, hall]
theorem simplifyList_spec (q : Cond → Bool) : (cs : List Node) → nonEmptyList cs = true →
    wellShapedList (simplifyList cs) = true ∧ evalAll q (simplifyList cs) = evalAll q cs ∧
    evalAny q (simplifyList cs) = evalAny q cs ∧ (simplifyList cs).length = cs.length
  | [], _ => by simp [simplifyList, wellShapedList]
  | n :: ns, h => by
    simp only [nonEmptyList, Bool.and_eq_true] at h
    obtain ⟨m, hm, hs, he⟩ := simplify_spec q n h.1
    obtain ⟨ih1, ih2, ih3, ih4⟩ := simplifyList_spec q ns h.2
    simp only [simplifyList, hm]
    refine ⟨?_, ?_, ?_, ?_⟩
    · simp [wellShapedList, hs, ih1]
    · simp [evalAll, he, ih2]
    · simp [evalAny, he, ih3]
    · simp [ih4]
end

/-- `eval (simplify q) = eval q` -/
theorem eval_simplify (q : Cond → Bool) (n : Node) (h : NonEmpty n = true) :
    ∃ m, simplify n = some m ∧ eval q m = eval q n := by
  obtain ⟨m, h1, _, h3⟩ := simplify_spec q n h
  exact ⟨m, h1, h3⟩

/-- non-vacuity: a parsed-shape query satisfies the hypothesis and is really restructured -/
example : NonEmpty (.comb true [.comb true [.cond default, .cond default], .cond default]) = true ∧
    simplify (.comb true [.comb true [.cond default, .cond default], .cond default]) =
      some (.comb true [.cond default, .cond default, .cond default]) := ⟨by rfl, by rfl⟩

/-- an empty-valued `=` tests absence, an empty-valued `!=` presence -/
theorem empty_eq_absent (rs : List Bool) : combineVals .eq true rs = rs.isEmpty := by
  simp [combineVals]

theorem empty_neq_present (rs : List Bool) : combineVals .neq true rs = !rs.isEmpty := by
  simp [combineVals]

/-- `!=` (all values differ) is the negation of `=` (some value equals), for any number of values -/
theorem neq_negation_multi (eqs : List Bool) :
    combineVals .neq false (eqs.map (!·)) = !combineVals .eq false eqs := by
  have key : (eqs.map (!·)).all id = !(eqs.any id) := by
    induction eqs with
    | nil => rfl
    | cons b bs ih => simp only [List.map_cons, List.all_cons, List.any_cons, id, ih]; cases b <;> simp
  simp [combineVals, key]

/-- numbers: exactly one of `<`, `=`, `>` holds -/
theorem num_trichotomy (obj qv : Int) :
    (numCmp obj .lt qv = some true ∧ numCmp obj .eq qv = some false ∧ numCmp obj .gt qv = some false) ∨
    (numCmp obj .lt qv = some false ∧ numCmp obj .eq qv = some true ∧ numCmp obj .gt qv = some false) ∨
    (numCmp obj .lt qv = some false ∧ numCmp obj .eq qv = some false ∧ numCmp obj .gt qv = some true) := by
  simp only [numCmp, Option.some.injEq, decide_eq_true_eq, decide_eq_false_iff_not, beq_iff_eq, beq_eq_false_iff_ne]
  omega

theorem num_le_union (obj qv : Int) :
    numCmp obj .lte qv = some (obj < qv || obj == qv) := by
  simp only [numCmp, Option.some.injEq]
  rw [Bool.eq_iff_iff]; simp; omega

theorem num_ge_union (obj qv : Int) :
    numCmp obj .gte qv = some (obj > qv || obj == qv) := by
  simp only [numCmp, Option.some.injEq]
  rw [Bool.eq_iff_iff]; simp; omega

theorem num_neq_negation (obj qv : Int) :
    numCmp obj .neq qv = (numCmp obj .eq qv).map (!·) := by
  simp [numCmp, bne]

/-- dates, compared by the calendar day `[s, e)` of the query value: the same algebra -/
theorem date_trichotomy (obj s e : Int) (hse : s < e) :
    (dateCmp obj .lt s e = some true ∧ dateCmp obj .eq s e = some false ∧ dateCmp obj .gt s e = some false) ∨
    (dateCmp obj .lt s e = some false ∧ dateCmp obj .eq s e = some true ∧ dateCmp obj .gt s e = some false) ∨
    (dateCmp obj .lt s e = some false ∧ dateCmp obj .eq s e = some false ∧ dateCmp obj .gt s e = some true) := by
  simp only [dateCmp, Option.some.injEq, decide_eq_true_eq, decide_eq_false_iff_not, Bool.and_eq_true, Bool.and_eq_false_iff]
  omega

theorem date_le_union (obj s e : Int) (hse : s < e) :
    dateCmp obj .lte s e = some (obj < s || (s ≤ obj && obj < e)) := by
  simp only [dateCmp, Option.some.injEq]
  rw [Bool.eq_iff_iff]; simp; omega

theorem date_ge_union (obj s e : Int) (hse : s < e) :
    dateCmp obj .gte s e = some (e ≤ obj || (s ≤ obj && obj < e)) := by
  simp only [dateCmp, Option.some.injEq]
  rw [Bool.eq_iff_iff]; simp; omega

theorem date_neq_negation (obj s e : Int) :
    dateCmp obj .neq s e = (dateCmp obj .eq s e).map (!·) := by
  simp [dateCmp]

/-- the day-range hypothesis is needed: with an empty range `=` and `<`/`>` are not exhaustive -/
example : dateCmp 5 .lt 5 5 = some false ∧ dateCmp 5 .eq 5 5 = some false ∧ dateCmp 5 .gt 5 5 = some true := by
  decide

/-- validation admits `~` only for text (name / URN) properties, so the comparison primitives
never reach their panicking default. -/
theorem validated_no_panic (obj qv s e : Int) (op : Op) (h : op ≠ .contains) :
    (numCmp obj op qv).isSome ∧ (dateCmp obj op s e).isSome := by
  cases op <;> simp_all [numCmp, dateCmp]

end GoflowModel.Props.C15
