import GoflowModel.Props.C16Steps
/-!
# C16 — what the per-version functions establish for the whole definition

`Props/C16Steps` states what each function does to one action.  Here the statements are lifted to
every action object of every node object of the definition (`allActions`), for every document:
after 13.5 no `send_msg` action has a templating object any more; after 13.1 every templating object
has a `uuid`; after 13.6 every `set_run_result` action's name has at most 64 characters and its
category at most 36.  These are the parts of "the migrated definition loads at the current version"
that the migrations are responsible for.
-/
namespace GoflowModel.Props.C16Whole
open GoflowModel.Json GoflowModel.Migrate GoflowModel.Migrate.Steps

/-- every element of the array that is an object satisfies `P` -/
def allObjs (P : JO → Prop) : JL → Prop
  | .nil => True
  | .cons (.obj o) rest => P o ∧ allObjs P rest
  | .cons _ rest => allObjs P rest

theorem allObjs_mapObjs {S : Type} (f : S → JO → S × JO) (P : JO → Prop) (h : ∀ s o, P (f s o).2) :
    (s : S) → (l : JL) → allObjs P (mapObjs f s l).2
  | _, .nil => by simp [mapObjs, allObjs]
  | s, .cons x rest => by
    cases x with
    | obj o => exact ⟨h s o, allObjs_mapObjs f P h (f s o).1 rest⟩
    | null => exact allObjs_mapObjs f P h s rest
    | bool b => exact allObjs_mapObjs f P h s rest
    | num d => exact allObjs_mapObjs f P h s rest
    | str t => exact allObjs_mapObjs f P h s rest
    | arr a => exact allObjs_mapObjs f P h s rest

/-- every action object of the node -/
def nodeActions (P : JO → Prop) (n : JO) : Prop :=
  match get "actions".toList n with
  | some (.arr l) => allObjs P l
  | _ => True

/-- every action object of every node object of the definition -/
def allActions (P : JO → Prop) (f : JO) : Prop :=
  match get "nodes".toList f with
  | some (.arr ns) => allObjs (nodeActions P) ns
  | _ => True

theorem nodeActions_onKeyArr {S : Type} (g : S → JO → S × JO) (P : JO → Prop) (h : ∀ s a, P (g s a).2) (s : S) (n : JO) :
    nodeActions P (onKeyArr "actions".toList g s n).2 := by
  unfold onKeyArr
  split
  · rename_i l hl
    simp only [nodeActions]
    rw [get_set_eq]
    exact allObjs_mapObjs g P h s l
  · rename_i hne
    unfold nodeActions
    split
    · rename_i l hl; exact absurd hl (hne l)
    · trivial

/-- a traversal of all actions by a function whose every result satisfies `P` leaves a definition all of whose actions satisfy `P` -/
theorem allActions_onActions {S : Type} (g : S → JO → S × JO) (P : JO → Prop) (h : ∀ s a, P (g s a).2) (s : S) (f : JO) :
    allActions P (onActions g s f).2 := by
  unfold onActions onKeyArr
  split
  · rename_i ns hns
    simp only [allActions]
    rw [get_set_eq]
    exact allObjs_mapObjs _ _ (nodeActions_onKeyArr g P h) s ns
  · rename_i hne
    unfold allActions
    split
    · rename_i ns hns; exact absurd hns (hne ns)
    · trivial

theorem allActions_set_other (P : JO → Prop) (k : Str) (v : J) (f : JO) (h : k ≠ "nodes".toList) :
    allActions P (set k v f) ↔ allActions P f := by
  unfold allActions
  rw [get_set_ne _ _ _ h]

theorem allActions_putLocalization (P : JO → Prop) (l : Option JO) (f : JO) :
    allActions P (putLocalization l f) ↔ allActions P f := by
  unfold putLocalization
  cases l with
  | none => exact Iff.rfl
  | some l => exact allActions_set_other P _ _ f (by decide)

/-! ## 13.5: no templating object is left -/

def NoTemplating (a : JO) : Prop := isType "send_msg" a = true → ∀ t, get "templating".toList a ≠ some (.obj t)

theorem act13_5_noTemplating (loc : Option JO) (a : JO) : NoTemplating (act13_5 loc a).2 := by
  unfold act13_5
  split
  · split
    · intro _ t ht
      rw [get_del_eq] at ht
      cases ht
    · rename_i hne
      intro _ t ht
      exact hne t ht
  · rename_i hty
    intro h
    exact absurd h hty

/-- **After 13.5 no `send_msg` action of the definition has a templating object.** -/
theorem mig13_5_noTemplating (f : JO) : allActions NoTemplating (mig13_5 f) := by
  unfold mig13_5
  simp only
  rw [allActions_putLocalization]
  exact allActions_onActions act13_5 NoTemplating act13_5_noTemplating _ f

/-! ## 13.1: every templating object has a uuid -/

def TemplatingHasUUID (a : JO) : Prop :=
  isType "send_msg" a = true → ∀ t, get "templating".toList a = some (.obj t) → ∃ u, get "uuid".toList t = some (.str u)

theorem act13_1_hasUUID (gen : Nat → Str) (n : Nat) (a : JO) : TemplatingHasUUID (act13_1 gen n a).2 := by
  unfold act13_1
  split
  · split
    · intro _ t ht
      rw [get_set_eq] at ht
      cases ht
      exact ⟨_, get_set_eq _ _ _⟩
    · rename_i hne
      intro _ t ht
      exact absurd ht (hne t)
  · rename_i hty
    intro h
    exact absurd h hty

/-- **After 13.1 every templating object of a `send_msg` action has a `uuid`.** -/
theorem mig13_1_hasUUID (gen : Nat → Str) (n : Nat) (f : JO) : allActions TemplatingHasUUID (mig13_1 gen n f).2 :=
  allActions_onActions (act13_1 gen) TemplatingHasUUID (act13_1_hasUUID gen) n f

/-! ## 13.4: every templating object has its components and neither `uuid` nor `variables` -/

def TemplatingHasComponents (a : JO) : Prop :=
  isType "send_msg" a = true → ∀ t, get "templating".toList a = some (.obj t) →
    get "uuid".toList t = none ∧ get "variables".toList t = none ∧ ∃ cs, get "components".toList t = some (.arr cs)

theorem act13_4_hasComponents (gen : Nat → Str) (s : Nat × Option JO) (a : JO) : TemplatingHasComponents (act13_4 gen s a).2 := by
  by_cases hty : isType "send_msg" a = true
  · by_cases hobj : ∃ t, get "templating".toList a = some (.obj t)
    · obtain ⟨t, ht⟩ := hobj
      obtain ⟨t', h1, h2, h3, h4⟩ := C16Steps.act13_4_shape gen s a t hty ht
      intro _ t'' ht''
      rw [h1] at ht''
      cases ht''
      exact ⟨h2, h3, _, h4⟩
    · have : act13_4 gen s a = (s, a) := by
        unfold act13_4
        rw [if_pos hty]
        split
        · rename_i t ht; exact absurd ⟨t, ht⟩ hobj
        · rfl
      rw [this]
      intro _ t ht
      exact absurd ⟨t, ht⟩ hobj
  · have : act13_4 gen s a = (s, a) := by
      unfold act13_4; rw [if_neg hty]
    rw [this]
    intro h
    exact absurd h hty

/-- **After 13.4 every templating object of a `send_msg` action has a component list and neither `uuid` nor `variables`.** -/
theorem mig13_4_hasComponents (gen : Nat → Str) (n : Nat) (f : JO) : allActions TemplatingHasComponents (mig13_4 gen n f).2 := by
  unfold mig13_4
  simp only
  rw [allActions_putLocalization]
  exact allActions_onActions (act13_4 gen) TemplatingHasComponents (act13_4_hasComponents gen) _ f

/-! ## 13.6: names and categories of `set_run_result` actions within the limits -/

def NamesWithinLimits (a : JO) : Prop :=
  isType "set_run_result" a = true →
    (∀ n, get "name".toList a = some (.str n) → n.length ≤ 64) ∧ (∀ c, get "category".toList a = some (.str c) → c.length ≤ 36)

theorem limKey_within (k : Str) (max : Nat) (o : JO) (s : Str) (h : get k (limKey k max o) = some (.str s)) : s.length ≤ max := by
  by_cases hs : ∃ s0, get k o = some (.str s0)
  · obtain ⟨s0, hs0⟩ := hs
    rw [C16Steps.get_limKey k max o s0 hs0] at h
    cases h
    exact C16Steps.limit_length max s0
  · have : limKey k max o = o := C16Steps.limKey_not_str k max o (fun s0 h0 => hs ⟨s0, h0⟩)
    rw [this] at h
    exact absurd ⟨s, h⟩ hs

theorem act13_6_within (a : JO) : NamesWithinLimits (act13_6 a) := by
  unfold act13_6
  split
  · intro _
    constructor
    · intro n hn
      rw [C16Steps.get_limKey_ne _ _ _ _ (by decide)] at hn
      exact limKey_within _ 64 a n hn
    · intro c hc
      exact limKey_within _ 36 _ c hc
  · rename_i hty
    intro h
    exact absurd h hty

/-- **After 13.6 every `set_run_result` action's name has at most 64 characters and its category at most 36.** -/
theorem mig13_6_within (f : JO) : allActions NamesWithinLimits (mig13_6 f) := by
  unfold mig13_6 onKeyArr
  split
  · rename_i ns hns
    simp only [allActions]
    rw [get_set_eq]
    apply allObjs_mapObjs
    intro _ n
    simp only [node13_6]
    have h := nodeActions_onKeyArr (fun (_ : Unit) a => ((), act13_6 a)) NamesWithinLimits (fun _ a => act13_6_within a) () n
    split
    · unfold nodeActions at h ⊢
      rw [get_set_ne _ _ _ (by decide)]
      exact h
    · exact h
  · rename_i hne
    unfold allActions
    split
    · rename_i ns hns; exact absurd hns (hne ns)
    · trivial

/-! ## 13.6: routers — result name and category names within the limits, for every node -/

/-- every node object of the definition -/
def allNodes (P : JO → Prop) (f : JO) : Prop :=
  match get "nodes".toList f with
  | some (.arr ns) => allObjs P ns
  | _ => True

def CategoryNameWithin (c : JO) : Prop := ∀ n, get "name".toList c = some (.str n) → n.length ≤ 36

/-- the node's router, when it is an object: its result name has at most 64 characters and each of its category objects' names at most 36 -/
def RouterWithinLimits (n : JO) : Prop :=
  ∀ r, get "router".toList n = some (.obj r) →
    (∀ rn, get "result_name".toList r = some (.str rn) → rn.length ≤ 64) ∧
    (∀ cs, get "categories".toList r = some (.arr cs) → allObjs CategoryNameWithin cs)

theorem router13_6_within (r : JO) :
    (∀ rn, get "result_name".toList (router13_6 r) = some (.str rn) → rn.length ≤ 64) ∧
    (∀ cs, get "categories".toList (router13_6 r) = some (.arr cs) → allObjs CategoryNameWithin cs) := by
  unfold router13_6
  simp only
  split
  · rename_i cats hcats
    constructor
    · intro rn hrn
      rw [get_set_ne _ _ _ (by decide)] at hrn
      exact limKey_within _ 64 r rn hrn
    · intro cs hcs
      rw [get_set_eq] at hcs
      cases hcs
      exact allObjs_mapObjs _ CategoryNameWithin (fun _ c n hn => limKey_within _ 36 c n hn) () cats
  · rename_i hne
    constructor
    · intro rn hrn
      exact limKey_within _ 64 r rn hrn
    · intro cs hcs
      exact absurd hcs (hne cs)

theorem node13_6_router (n : JO) : RouterWithinLimits (node13_6 n) := by
  intro r hr
  simp only [node13_6] at hr
  split at hr
  · rw [get_set_eq] at hr
    cases hr
    exact router13_6_within _
  · rename_i hne
    exact absurd hr (hne r)

/-- **After 13.6 every router's result name and category names are within the limits.** -/
theorem mig13_6_routers (f : JO) : allNodes RouterWithinLimits (mig13_6 f) := by
  unfold mig13_6 onKeyArr
  split
  · rename_i ns hns
    simp only [allNodes]
    rw [get_set_eq]
    exact allObjs_mapObjs _ RouterWithinLimits (fun _ n => node13_6_router n) () ns
  · rename_i hne
    unfold allNodes
    split
    · rename_i ns hns; exact absurd hns (hne ns)
    · trivial

/-- the statements are not vacuous: a definition with one node and an over-long `set_run_result` name -/
def sample : JO :=
  .cons "nodes".toList (.arr (.cons (.obj (.cons "actions".toList (.arr (.cons (.obj
    (.cons "type".toList (.str "set_run_result".toList) (.cons "name".toList (.str (List.replicate 70 'n')) .nil))) .nil)) .nil)) .nil)) .nil

example : ¬ allActions NamesWithinLimits sample := by
  intro h
  have := (h.1.1 rfl).1 (List.replicate 70 'n') rfl
  simp at this

end GoflowModel.Props.C16Whole
