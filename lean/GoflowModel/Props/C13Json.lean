import GoflowModel.Lemmas.Json
import GoflowModel.Lemmas.JsonString
/-!
# C13, JSON clause — a document read with `parse_json` and written back with `json()` is
JSON-equivalent to the original

Model: `Basic/Json.lean` (`rt` = `json ∘ parse_json` on documents: objects become maps — the last
member of a name wins, the member `__default__` is taken for the object's default and not written
back, members are written in the order of their names; numbers are read as decimals and written as
they render).  JSON-equivalence is equality of what documents denote (`sem`): numbers by value,
strings by their characters, arrays by position, objects as maps from names to values.

Kept apart from `Props/C13.lean` because the proof uses that file's number round trip.
The tie to the code is the correspondence `jsonrt` (the implementation's output, token by token,
against `rt`) over generated documents incl. duplicate and `__default__` members.
-/
namespace GoflowModel.Props.C13Json
open GoflowModel.Json GoflowModel.Dec

/-- **JSON round trip**: for every document of any size and nesting whose objects have no member
named `__default__` (numbers being digit strings with any exponent): written back, it denotes the
same. -/
theorem json_roundtrip (j : J) (h1 : NoDefault j) (h2 : NumsOK j) : sem (rt j) = sem j :=
  sem_rt j h1 h2

/-- duplicate members: the last one counts, before and after -/
theorem json_duplicate_members (k : List Char) (a b : J) (hk : k ≠ dflt)
    (ha : NoDefault a) (hb : NoDefault b) (na : NumsOK a) (nb : NumsOK b) :
    sem (rt (.obj (.cons k a (.cons k b .nil)))) = sem (.obj (.cons k b .nil)) := by
  have h1 : NoDefault (.obj (.cons k a (.cons k b .nil))) := by
    simp only [NoDefault, NoDefaultO]; exact ⟨hk, ha, hk, hb, trivial⟩
  have h2 : NumsOK (.obj (.cons k a (.cons k b .nil))) := by
    simp only [NumsOK, NumsOKO]; exact ⟨na, nb, trivial⟩
  rw [json_roundtrip _ h1 h2]
  simp only [sem]
  congr 1
  funext q
  simp only [semO]
  by_cases hq : k = q <;> simp [hq]

theorem semO_noDefault : ∀ l : JO, NoDefaultO l → semO l dflt = none
  | .nil, _ => rfl
  | .cons k v rest, h => by
    simp only [NoDefaultO] at h
    simp only [semO, semO_noDefault rest h.2.2, h.1, if_false]

/-- the hypothesis is needed — the open finding F-C13-c: an object with a member named
`__default__` (e.g. `{"__default__": null, "Foo": [-12]}`) is written back without it, which does
not denote the same -/
theorem json_default_member_dropped (v : J) (rest : JO) (h1 : NoDefaultO rest) (h2 : NumsOKO rest) :
    sem (rt (.obj (.cons dflt v rest))) ≠ sem (.obj (.cons dflt v rest)) := by
  intro h
  simp only [sem, rt, rtO, if_true] at h
  have := congrFun (X.obj.inj h) dflt
  rw [semO_rtO .nil rest h1 h2] at this
  simp only [semO, semO_noDefault rest h1, if_true] at this
  cases this

/-- non-vacuity: a nested document with a duplicate member, an exponent and a negative zero is
written back with its members in order, the duplicate gone, numbers as they render -/
example :
    rt (.obj (.cons ['b'] (.num ⟨false, ['1', '5'], 3⟩) (.cons ['a'] (.arr (.cons (.num ⟨true, ['0'], 0⟩) (.cons (.str ['x']) .nil)))
      (.cons ['b'] (.num ⟨false, ['2', '5', '0'], -2⟩) .nil)))) =
    .obj (.cons ['a'] (.arr (.cons (.num ⟨false, ['0'], 0⟩) (.cons (.str ['x']) .nil))) (.cons ['b'] (.num ⟨false, ['2', '5'], -1⟩) .nil)) := by
  rfl

example : NoDefault (.obj (.cons ['b'] (.num ⟨false, ['1', '5'], 3⟩) (.cons ['a'] (.arr (.cons (.num ⟨true, ['0'], 0⟩) .nil)) .nil))) ∧
    NumsOK (.obj (.cons ['b'] (.num ⟨false, ['1', '5'], 3⟩) (.cons ['a'] (.arr (.cons (.num ⟨true, ['0'], 0⟩) .nil)) .nil))) := by
  simp only [NoDefault, NoDefaultO, NoDefaultL, NumsOK, NumsOKO, NumsOKL, NumOK]
  decide

/-! ## Strings: the literal that is written denotes the string

`Basic/JsonString`: the string encoder goflow writes JSON with (`jsonx.Marshal`: quotes, backslashes,
control characters, U+2028 / U+2029 escaped; everything else as it is) and the decoder it reads it
with (`json.Valid`, then `jsonparser.ParseString`, then `encoding/json` where that refuses: all escapes of
RFC 8259, surrogate pairs, U+FFFD for lone surrogates; raw control characters and unknown escapes are errors).  Tied to the code by the correspondence `jsonstr` (both
directions, incl. damaged literals). -/

/-- **Every text survives its JSON form**: reading the literal that is written for a string gives
that string — any characters, any length. -/
theorem json_string_roundtrip (s : List Char) : JsonString.decode (JsonString.encode s) = some s :=
  JsonString.decode_encode s

/-- the readers' other paths, on witnesses: a surrogate pair is one character; a lone high surrogate is
refused by `jsonparser` and read by `encoding/json` as U+FFFD; `\\/` is a slash; a raw control
character, an unknown escape and an unterminated literal are errors; and the one place where the two
readers differ on a literal both accept — two low surrogates in a row are *combined* by `jsonparser`
into one (invalid, hence replaced) character where `encoding/json` would read two -/
theorem json_string_decoder_witnesses :
    JsonString.decode "\"\\ud83d\\ude00\"".toList = some [Char.ofNat 0x1F600] ∧
    JsonString.decode "\"a\\ud83dz\"".toList = some ['a', Char.ofNat 0xFFFD, 'z'] ∧
    JsonString.decode "\"\\ude00\"".toList = some [Char.ofNat 0xFFFD] ∧
    JsonString.decode "\"\\/\"".toList = some ['/'] ∧
    JsonString.decode ['"', '\x01', '"'] = none ∧
    JsonString.decode "\"\\x41\"".toList = none ∧
    JsonString.decode "\"abc".toList = none ∧
    JsonString.decode "\"\\ude00\\ude00\"".toList = some [Char.ofNat 0xFFFD] ∧
    JsonString.decodeStd "\"\\ude00\\ude00\"".toList = some [Char.ofNat 0xFFFD, Char.ofNat 0xFFFD] := by
  decide

/-- what is escaped when writing: the quote, the backslash, control characters, the two line
separators — and nothing else (`<`, `>`, `&` are written as they are: HTML escaping is off) -/
theorem json_string_encoder_witnesses :
    JsonString.encode "a\"b\\c".toList = "\"a\\\"b\\\\c\"".toList ∧
    JsonString.encode ['\n', '\x01', '\x7f'] = "\"\\n\\u0001\x7f\"".toList ∧
    JsonString.encode [Char.ofNat 0x2028, '<', '>', '&', 'é'] = "\"\\u2028<>&é\"".toList := by
  decide

end GoflowModel.Props.C13Json
