import GoflowModel.Lemmas.CQL
import GoflowModel.Lemmas.CQLParse
import GoflowModel.Lemmas.CQLLex
import GoflowModel.Basic.Tables
import GoflowModel.Gen.Grammar
/-!
# C14 — Contact queries round-trip through text and cannot be injected into

Model: `ContactQL.Lexer` (the whole ContactQL lexer as a longest-match tokenizer),
`ContactQL.Ast` (`Condition.String`, `BoolCombination.String`, `Stringify`, `Simplify`,
`quoteValue` = `flows.ContactQueryEscaping`), `Quote` (`strconv`), `ContactQL.Parser` (the parser
ANTLR generates from `ContactQL.g4` with the visitor, as precedence climbing over the tokens).

* `value_is_one_token`, `value_denotes`: a value occupies exactly one `STRING` token whatever
  surrounds it and denotes itself — what "cannot add, drop or alter conditions" rests on.
* `print_parse_query`: **every simplified query, of any size and nesting, printed and parsed
  again, is the same query** — conditions with every operator, quoted and bare values,
  `AND`/`OR` combinations of any length with parenthesised sub-combinations.  It goes through a
  relational reading of the parser (sound against the executable one) and the lemma that
  `Simplify` flattens the left-nested tree the parser builds for `a AND b AND c`.  The statement is
  about the printed *tokens*; that the printed text lexes to them is `value_is_one_token` for values
  and the lexer correspondence for the rest.
* the parser model is tied to the generated parser by the correspondence `qparse` (real lexer
  tokens → simplified tree, incl. juxtaposition, mixed precedence and syntax errors).
-/
namespace GoflowModel.Props.C14
open GoflowModel ContactQL Quote LexText

/-- (no injection) Wherever the lexer stands at the start of an escaped value, the next token is
a `STRING` token that is exactly that escaped value, for **every** value and **every**
continuation of the query text. -/
theorem value_is_one_token (cls : Cls) (pr : Char → Bool) (v rest : List Char) :
    tokenAt cls (quoteValue pr v ++ rest) = some (⟨.string, quoteValue pr v⟩, rest) := by
  have h := textEnd_definitive (valueBody pr v) rest false 0 none (valueBody_QEsc pr v) (valueBody_endsBS pr v)
  have e : quoteValue pr v ++ rest = '"' :: (valueBody pr v ++ '"' :: rest) := by
    rw [quoteValue_eq]; simp
  have e2 : valueBody pr v ++ '"' :: rest = (valueBody pr v ++ ['"']) ++ rest := by simp
  have hl : (valueBody pr v ++ ['"']).length = 0 + (valueBody pr v).length + 1 := by simp
  rw [e]
  simp only [tokenAt, h]
  rw [e2, ← hl, List.take_left, List.drop_left, quoteValue_eq]

/-- white space before the value changes nothing (`nextToken` skips it) -/
theorem value_is_next_token (cls : Cls) (pr : Char → Bool) (v rest : List Char) :
    nextToken cls (' ' :: (quoteValue pr v ++ rest)) = some (⟨.string, quoteValue pr v⟩, rest) := by
  have : (' ' :: (quoteValue pr v ++ rest)).dropWhile isWS = quoteValue pr v ++ rest := by
    rw [quoteValue_eq]; simp [isWS]
  simp only [nextToken, this, value_is_one_token]

/-- …and the token denotes exactly the value (`VisitStringLiteral` = `strconv.Unquote`). -/
theorem value_denotes (pr : Char → Bool) (hpr : pr '\n' = false) (v : List Char) :
    literalValue (quoteValue pr v) = some v := by
  rw [quoteValue_eq]
  simp only [literalValue, unquote, valueBody_unq pr hpr v]

/-- The defect repaired by the `fix:` commits: with plain `strconv.Quote` the statement is
false — the value `a\` swallows the condition that follows it. -/
theorem strconv_quote_counterexample :
    tokenAt ⟨fun _ => false, fun _ => false⟩ (quote (fun _ => true) ['a', '\\'] ++ " OR x = \"M\"".toList) ≠
      some (⟨.string, quote (fun _ => true) ['a', '\\']⟩, " OR x = \"M\"".toList) := by
  decide

/-- `Stringify` removes exactly the enclosing parentheses of a top-level combination. -/
theorem stringify_comb (pr : Char → Bool) (a : Bool) (cs : List Node) :
    stringify pr (some (.comb a cs)) =
      joinSep (if a then " AND ".toList else " OR ".toList) (nodesString pr cs) := by
  have key : ∀ body : List Char,
      (if (['('] ++ body ++ [')']).head? = some '(' ∧ (['('] ++ body ++ [')']).getLast? = some ')' then
        ((['('] ++ body ++ [')']).drop 1).dropLast else ['('] ++ body ++ [')']) = body := by
    intro body
    have h1 : (['('] ++ body ++ [')']).head? = some '(' := by simp
    have h2 : (['('] ++ body ++ [')']).getLast? = some ')' := by
      rw [List.getLast?_append]; simp
    rw [if_pos ⟨h1, h2⟩]
    simp
  simp only [stringify, nodeString]
  exact key _

theorem stringify_nil (pr : Char → Bool) : stringify pr none = [] := rfl

/-- the value of a printed condition is the bare number or the escaped value -/
theorem cond_value_form (pr : Char → Bool) (c : Cond) :
    ∃ p, condString pr c = p ++ [' '] ++ c.op.text ++ [' '] ++
      (if isNumber c.value then c.value else quoteValue pr c.value) := by
  exact ⟨_, rfl⟩

/-- **Round trip of every simplified query**: printed by `Stringify` and parsed by `ParseQuery`
(then simplified), it is the same query.  `Simp`: every combination has at least two children, none
of them a combination of the same operator (what `Simplify` leaves); every condition's property
text is lower-case and resolves to its own type (`fields.…`, `urns.…`, or a known attribute). -/
theorem print_parse_query (env : PEnv) (pr : Char → Bool) (hpr : pr '\n' = false) (n : Node) (h : Simp env n) :
    ∃ f0, ∀ f, f0 ≤ f → (parseExpr env f 0 (queryToks pr n)).map (fun p => (simplify p.1, p.2)) = some (some n, []) := by
  obtain ⟨t, hp, hs⟩ := query_printed env pr hpr n h
  obtain ⟨f0, hf0⟩ := run_of_qparses hp
  refine ⟨f0, fun f hf => ?_⟩
  have := hf0 f hf
  simp only [run] at this
  rw [this]
  simp [hs]

/-- **The printed text lexes to the printed tokens**: for every query whose keys are made of key
characters (field keys, URN schemes and attribute names are) the text `Stringify` writes is read by
the lexer — longest match, rule order, keywords, white space — as exactly the tokens of the printer
model, whatever the values are. -/
theorem printed_text_lexes (cls : Cls) (ok : ClsOK cls) (pr : Char → Bool) (n : Node) (h : LexOK cls n) :
    lexAll cls (stringify pr (some n)) = queryToks pr n := lex_stringify ok pr n h

/-- **Round trip through text**: the text of every simplified query, lexed and parsed (and simplified
as `ParseQuery` does), is the same query — values included, whatever characters they contain: no
value can end its own token, start another condition or change the grouping. -/
theorem print_lex_parse_query (env : PEnv) (cls : Cls) (ok : ClsOK cls) (pr : Char → Bool) (hpr : pr '\n' = false)
    (n : Node) (h : Simp env n) (hl : LexOK cls n) :
    ∃ f0, ∀ f, f0 ≤ f →
      (parseExpr env f 0 (lexAll cls (stringify pr (some n)))).map (fun p => (simplify p.1, p.2)) = some (some n, []) := by
  rw [printed_text_lexes cls ok pr n hl]
  exact print_parse_query env pr hpr n h

/-- the ASCII letters and digits as character classes meet `ClsOK` (the Unicode classes of the real
lexer agree with them on ASCII) -/
def asciiCls : Cls :=
  ⟨fun c => (decide ('a' ≤ c) && decide (c ≤ 'z')) || (decide ('A' ≤ c) && decide (c ≤ 'Z')), isAsciiDigit⟩

theorem asciiCls_ok : ClsOK asciiCls := by
  refine ⟨by decide, by decide, by decide, by decide, ?_⟩
  intro c h
  refine ⟨h, ?_⟩
  simp only [isAsciiDigit, decide_eq_true_eq] at h
  have h1 : ¬ 'a' ≤ c := fun ha => absurd (Char.le_trans ha h.2) (by decide)
  have h2 : ¬ 'A' ≤ c := fun ha => absurd (Char.le_trans ha h.2) (by decide)
  simp [asciiCls, h1, h2]

/-- the character classes of the real lexer: `UnicodeLetter` / `UnicodeDigit` of LexUnicode.g4, regenerated
from the grammar source on every run (the classes the correspondence K:qlex runs the model with) -/
def grammarCls : Cls :=
  { letter := fun c => Tables.inRanges Gen.Grammar.antlrLetter c.toNat,
    digit := fun c => Tables.inRanges Gen.Grammar.antlrDigit c.toNat }

/-- **…and they meet `ClsOK`**, so the two theorems above hold of the lexer as the grammar defines it. -/
theorem grammarCls_ok : ClsOK grammarCls :=
  ClsOK.of_finite grammarCls (by decide +kernel) (by decide +kernel) (by decide +kernel) (by decide +kernel) (by decide +kernel)

/-- non-vacuity of the lexing premise, on the query of the next example -/
example : LexOK asciiCls
    (.comb true [.cond ⟨.attr, "name".toList, .eq, "Bob".toList⟩,
      .comb false [.cond ⟨.field, "age".toList, .gt, "10".toList⟩, .cond ⟨.urn, "tel".toList, .contains, "x y".toList⟩],
      .cond ⟨.attr, "id".toList, .eq, "5".toList⟩]) := by
  simp only [LexOK, LexOKL, KeyOK, kwFree, ne_eq, reduceCtorEq, not_false_eq_true, true_and, and_true,
    true_implies, false_implies]
  refine ⟨⟨by decide, by decide, by decide⟩, ⟨⟨by decide, by decide⟩, by decide, by decide⟩, by decide, by decide, by decide⟩

/-- non-vacuity: `name = "Bob" AND (fields.age > 10 OR urns.tel ~ "x y") AND id = 5` is simplified -/
example : Simp ⟨fun k => k = "name".toList || k = "id".toList, fun _ => false, fun v => ⟨.attr, "name".toList, .contains, v⟩, id⟩
    (.comb true [.cond ⟨.attr, "name".toList, .eq, "Bob".toList⟩,
      .comb false [.cond ⟨.field, "age".toList, .gt, "10".toList⟩, .cond ⟨.urn, "tel".toList, .contains, "x y".toList⟩],
      .cond ⟨.attr, "id".toList, .eq, "5".toList⟩]) := by
  simp only [Simp, SimpL, CondOK, sameOp, propText, id]
  decide

/-- simplification is needed: the parser builds `a AND b AND c` as `(a AND b) AND c` -/
example :
    (parseExpr ⟨fun _ => true, fun _ => false, fun v => ⟨.attr, ['?'], .eq, v⟩, id⟩ 20 0
      [⟨.property, ['a']⟩, ⟨.comparator, ['=']⟩, ⟨.property, ['1']⟩, ⟨.and, "AND".toList⟩,
       ⟨.property, ['b']⟩, ⟨.comparator, ['=']⟩, ⟨.property, ['2']⟩, ⟨.and, "and".toList⟩,
       ⟨.property, ['c']⟩, ⟨.comparator, ['=']⟩, ⟨.property, ['3']⟩]).map (fun p => (p.1, p.2.length)) =
    some (.comb true [.comb true [.cond ⟨.attr, ['a'], .eq, ['1']⟩, .cond ⟨.attr, ['b'], .eq, ['2']⟩], .cond ⟨.attr, ['c'], .eq, ['3']⟩], 0) := by
  rfl

/-- tie to the grammar source: the `STRING` rule and the order of the lexer rules are the ones
the model transcribes (regenerated from `antlr/ContactQL.g4` on every run). -/
theorem string_rule_as_modelled :
    Gen.Grammar.contactqlRules.lookup "STRING" = some "'\"' (~[\"] | '\\\\\"')* '\"'" := by decide

theorem lexer_rules_as_modelled :
    (Gen.Grammar.contactqlRules.map (·.1)).take 14 =
      ["HAS", "IS", "PROPTYPE", "PROPKEY", "LPAREN", "RPAREN", "AND", "OR", "COMPARATOR", "STRING",
       "PROPERTY", "TEXT", "WS", "ERROR"] ∧
    Gen.Grammar.contactqlRules.lookup "PROPERTY" = some "(PROPTYPE '.')? PROPKEY" ∧
    Gen.Grammar.contactqlRules.lookup "COMPARATOR" = some "( '=' | '!=' | '~' | '>=' | '<=' | '>' | '<' | HAS | IS )" ∧
    Gen.Grammar.contactqlRules.lookup "TEXT" =
      some "( UnicodeLetter | UnicodeDigit | '_' | '.' | '-' | '+' | '/' | '\\'' | '@' | ':' )+" := by
  decide

end GoflowModel.Props.C14
