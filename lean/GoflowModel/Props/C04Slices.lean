import GoflowModel.Excellent.SliceGuards
import GoflowModel.Gen.Slices
/-!
# C04 — slices of texts in built-in functions and router tests stay in range

Besides `word`, `word_slice` and `field` (`Props/C04`): the two places where a text is sliced by a
computed bound.  `has_beginning` slices the first `len(beginning)` *bytes* of the text after testing
that the text has at least that many bytes; `read_chars` slices bytes at offsets counted in
*characters*, which is in range because a text has at least as many bytes as characters.  The census of
slice expressions in both files, with the conditions that guard them, is regenerated from the source
and pinned: a new slice, or a changed guard, fails `slice_sites_as_modelled` until it is looked at.
-/
namespace GoflowModel.Props.C04Slices
open GoflowModel.SliceGuards

/-- **`has_beginning`: `hayStack[:e]` is only reached with `e ≤ len(hayStack)`**, for all lengths -/
theorem beginning_in_range (h p e : Nat) (he : beginningEnd h p = some e) : e ≤ h ∧ e = p := by
  unfold beginningEnd at he
  split at he
  · cases he
  · split at he
    · cases he
    · cases he; omega

/-- a guard on character counts does not protect the byte slice: the text `ok` (2 bytes, 2 characters)
against the beginning `да` (4 bytes, 2 characters) slices `[:4]` of 2 bytes — the panic of seeded change
`c04-has-beginning-rune-count`, as a theorem -/
theorem rune_guard_out_of_range : beginningEndByRunes 2 2 4 = some 4 ∧ ¬ (4 ≤ 2) := by decide

/-- **`read_chars`: every byte range sliced is inside the text**, for every text (`runes ≤ bytes` holds of every
text: each character takes at least one byte) -/
theorem read_chars_in_range (runes bytes : Nat) (h : runes ≤ bytes) :
    ∀ s ∈ readCharsSlices runes, s.1 ≤ s.2 ∧ s.2 ≤ bytes := by
  intro s hs
  unfold readCharsSlices at hs
  split at hs
  · rename_i h3
    simp only [List.mem_map, List.mem_range] at hs
    obtain ⟨k, hk, rfl⟩ := hs
    simp only
    omega
  · split at hs
    · rename_i h4
      simp only [List.mem_map, List.mem_range] at hs
      obtain ⟨k, hk, rfl⟩ := hs
      simp only
      omega
    · cases hs

/-- the ranges are the loop's: for six characters `[0,3)` and `[3,6)`, for eight `[0,4)` and `[4,8)`, none for seven -/
example : readCharsSlices 6 = [(0, 3), (3, 6)] ∧ readCharsSlices 8 = [(0, 4), (4, 8)] ∧ readCharsSlices 7 = [] := by decide

/-- **The slice expressions of both files, and the guards of the two modelled here, are the ones
transcribed.**  `Word`/`WordSlice`/`Field` are `Props/C04`'s; `Max`, `Min`, `ExtractObject`, `ForEach`,
`ForEachValue` slice their argument list after the arity check of their wrapper; `RemoveFirstWord`
slices at the position of a word found in the text (monitor only). -/
theorem slice_sites_as_modelled :
    Gen.Slices.sites.map (fun s => (s.2.1, s.2.2.1)) =
      [("RemoveFirstWord", "s[w1Start+len(words[0]):]"), ("RemoveFirstWord", "s[w2Start:]"),
       ("WordSlice", "words[start:end]"), ("WordSlice", "words[start:]"),
       ("Max", "values[1:]"), ("Min", "values[1:]"), ("ExtractObject", "args[1:]"), ("ForEach", "args[2:]"), ("ForEachValue", "args[2:]"),
       ("ReadChars", "val.Native()[i : i+3]"), ("ReadChars", "val.Native()[i : i+4]"),
       ("HasBeginning", "hayStack[:len(pinCushion)]")] ∧
    (Gen.Slices.sites.filter (fun s => s.2.1 == "HasBeginning" || s.2.1 == "ReadChars")).map (fun s => s.2.2.2) =
      [["length%3 == 0", "i < length", "i > 0"],
       ["length%3 == 0", "i < length", "i > 0", "length%4 == 0", "i < length", "i > 0"],
       ["hayStack == \"\" || pinCushion == \"\"", "len(hayStack) < len(pinCushion)"]] := by
  constructor <;> decide

/-! ## numbers with huge exponents are refused where numbers are read with an exponent -/

/-- **An accepted number's exponent is at most 10000 in magnitude (JSON) / 1000 (contact queries)**, for every way of writing it -/
theorem accepted_exponents_bounded (fractionDigits : Nat) (e : Int) :
    (jsonNumberOk fractionDigits e = true → (decimalExponent fractionDigits e).natAbs ≤ 10000) ∧
    (queryNumberOk fractionDigits e = true → (decimalExponent fractionDigits e).natAbs ≤ 1000) := by
  simp only [jsonNumberOk, queryNumberOk, decide_eq_true_eq]
  constructor <;> intro h <;> omega

/-- the numbers of the repaired findings F-C04-g and F-C15-c are refused, ordinary ones written with an exponent are not -/
example : jsonNumberOk 0 30000000 = false ∧ queryNumberOk 0 999999999 = false ∧ queryNumberOk 0 (-30000000) = false ∧
    jsonNumberOk 1 400 = true ∧ queryNumberOk 2 5 = true ∧ queryNumberOk 1 1001 = true ∧ queryNumberOk 0 1001 = false := by decide

end GoflowModel.Props.C04Slices
