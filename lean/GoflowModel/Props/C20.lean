import GoflowModel.Engine.Inspect
import GoflowModel.Gen.Actions
import GoflowModel.Gen.ActionRefs
import GoflowModel.Lemmas.Engine
/-!
# C20 — Flow inspection over-approximates what a run can do

Results: in the engine a result is saved only by an action's `saveResult`/`saveWebhookResult`
or by a router's `routeToCategory`; inspection lists what actions declare
(`ResultContainer.Results`) and every router with a result name.  The two facts per action
type are regenerated from the source on every run (`Gen/Actions.lean`).
-/
namespace GoflowModel.Props.C20
open GoflowModel.Inspect

/-- If every action kind used saves only what it declares, every key a run can save on any
node is listed by inspection. -/
theorem results_declared (f : Flow) (h : Sound f) : ∀ k ∈ saved f, k ∈ declared f := by
  intro k hk
  simp only [saved, declared, List.mem_flatMap] at hk ⊢
  obtain ⟨n, hn, hkn⟩ := hk
  refine ⟨n, hn, ?_⟩
  simp only [nodeSaved, nodeDeclared, List.mem_append, List.mem_filterMap] at hkn ⊢
  rcases hkn with ⟨a, ha, hka⟩ | hr
  · left
    refine ⟨a, ha, ?_⟩
    by_cases hs : a.saves = true
    · simp only [hs, if_true] at hka
      simp [h n hn a ha hs, hka]
    · simp [hs] at hka
  · right; exact hr

/-- The regenerated table: every action type that saves a result declares it — except
`open_ticket` (known finding F-C20-a; its testdata pins an empty `results` list, so the repair
cannot pass the unedited suite).  A new action that saves without declaring breaks this. -/
theorem table_sound_partial :
    Gen.Actions.actionResults.all (fun r => !r.2.1 || r.2.2 || r.1 == "open_ticket") = true := by
  decide

/-- the full statement is false on the current tree: the witness row -/
theorem open_ticket_undeclared : ("open_ticket", true, false) ∈ Gen.Actions.actionResults := by
  decide

/-- **Categories**: every category an action's code saves a result with (the constants passed to
`saveResult`, the values of the status table behind `saveWebhookResult`) is among the categories
its `Results` method declares to inspection, or the declaration leaves the categories open —
regenerated from flows/actions on every run; `open_ticket` declares nothing (F-C20-a). -/
theorem categories_declared_partial :
    Gen.Actions.actionCategories.all (fun r =>
      r.2.2.contains "*" || r.2.1.all (fun c => r.2.2.contains c) || r.1 == "open_ticket") = true := by
  decide

/-- the table is not empty: the webhook-like actions and the classifier are in it with fixed categories -/
theorem categories_table_covers :
    (Gen.Actions.actionCategories.map (·.1)) =
      ["call_classifier", "call_resthook", "call_webhook", "open_ticket", "set_run_result", "transfer_airtime"] ∧
    Gen.Actions.actionCategories.lookup "call_resthook" = some (["Failure", "Success"], ["Failure", "Success"]) := by
  decide

/-- **Dependencies**: every field of every registered action type that can hold a fixed asset
reference — found by reflection through embedded and nested structs and slices, each filled with a
reference of its own — is reported by inspection's dependency extraction (`inspect.Dependencies`);
regenerated on every run by executing the linked code.  A reference field that inspection does
not walk (unexported, behind a type it does not descend into, skipped by a condition) shows as
`false`. -/
theorem reference_fields_reported : Gen.ActionRefs.fields.all (fun r => r.2.2.2) = true := by decide

/-- the census is not empty and names the asset kinds the statement lists -/
theorem reference_fields_cover :
    (Gen.ActionRefs.fields.map (fun r => r.2.2.1)).eraseDups =
      ["group", "label", "classifier", "flow", "user", "topic", "optin", "contact", "template", "channel", "field"] := by
  decide

/-- the registered action and router types are the ones the models know -/
theorem registries_as_modelled :
    Gen.Actions.actionResults.map (·.1) =
      ["add_contact_groups", "add_contact_urn", "add_input_labels", "call_classifier", "call_resthook",
       "call_webhook", "enter_flow", "open_ticket", "play_audio", "remove_contact_groups", "request_optin",
       "say_msg", "send_broadcast", "send_email", "send_msg", "set_contact_channel", "set_contact_field",
       "set_contact_language", "set_contact_name", "set_contact_status", "set_contact_timezone",
       "set_run_result", "start_session", "transfer_airtime"] ∧
    Gen.Actions.routerTypes = ["random", "switch"] := by decide

/-- Every exit of a node whose router has a wait is a waiting exit. -/
theorem wait_node_exits_listed (f : Flow) (n : Node) (r : Router) (hn : n ∈ f.nodes)
    (hr : n.router = some r) (hw : r.hasWait = true) : ∀ e ∈ n.exits, e ∈ waitingExits f := by
  intro e he
  simp only [waitingExits, List.mem_flatMap]
  exact ⟨n, hn, by simp [hr, hw, he]⟩

open GoflowModel.Engine in
/-- Engine side: a resume is only carried out at a node whose router has a wait, so the exit by
which the resumed run leaves is an exit of such a node.  (Whatever `resume` does beyond the
rejections and `failSession`, it does after this check.) -/
theorem resume_only_at_wait_node (a : Assets) (o : Opts) (orc : Oracle) (s : Session) (k : ResumeKind)
    (w : Nat) (step : StepRef) (node : Engine.Node)
    (hs : s.status = .waiting) (hw : waitingRun s = some w)
    (hf : (getFlow a (((s.runs[w]?).map (·.flow)).getD 0)).isNone = false)
    (hc : ¬ ((countWaits s : Int) ≥ o.maxResumes))
    (hl : pathLocation a s w = some (step, node))
    (hnw : (if node.hasRouter then node.wait else none) = none) :
    resume a o orc s k = .ok (failSession ⟨s, []⟩ w) := by
  unfold resume
  simp [hs, hw, hf, hc, hl, hnw]

end GoflowModel.Props.C20
