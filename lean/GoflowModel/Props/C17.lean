import GoflowModel.Excellent.Legacy
/-!
# C17 — Legacy expression migration preserves meaning

For the operator core of the legacy language — references, numbers, booleans, negation,
parentheses, the binary operators that migrate to themselves and the functions that migrate to
operator expressions (`SUM`, `CONCATENATE`, `POWER`, `EXP`), nested in one another to any depth —
the migrated expression (`migE`, the model of the text the visitor assembles with `operand`):

* `mig_core`: has the shape the new parser produces, so
* `mig_parses`: its printed tokens parse back to exactly that tree (by C11's round trip), and
* `mig_grouping`: that tree, parentheses aside, is the tree the legacy expression denotes — every
  operator has the operands it had, in the order it had them.

`naive_regroups` is the kernel-checked witness that the migration before the repair (operands
substituted as they are) regrouped `SUM(1, 2) * 3`.  Functions that migrate to calls, date
arithmetic, `+`/`-` (which migrate to `legacy_add` calls) and literals are decided on the
implementation against the fully parenthesised translation of the same tree (monitor) — the
parser theorem does not cover calls.
-/
namespace GoflowModel.Props.C17
open GoflowModel.Expr GoflowModel.Legacy

theorem level_le_14 (e : Expr) : level e ≤ 14 := by
  cases e <;> simp [level]
  exact Nat.le_trans (prec_le_12 _) (by omega)

theorem wrapTo_core {e : Expr} (h : Core e) (lvl : Nat) (hl : lvl ≤ 14) :
    Core (wrapTo lvl e) ∧ lvl ≤ level (wrapTo lvl e) := by
  unfold wrapTo
  split
  · exact ⟨.paren h, by simp [level]; exact hl⟩
  · exact ⟨h, by omega⟩

theorem strip_wrapTo (lvl : Nat) (e : Expr) : strip (wrapTo lvl e) = strip e := by
  unfold wrapTo; split <;> simp [strip]

theorem eConst_normal : numValue eConst = eConst := by decide

mutual
  theorem mig_core : ∀ l : L, LWF l → Core (migE l)
    | .ref n, h => by simp only [LWF] at h; exact .ref h
    | .num s, h => by simp only [LWF] at h; exact .num h
    | .bool true, _ => .tru
    | .bool false, _ => .fls
    | .neg e, h => by
      simp only [LWF] at h
      have := wrapTo_core (mig_core e h) 13 (by omega)
      exact .neg this.1 this.2
    | .paren e, h => by simp only [LWF] at h; exact .paren (mig_core e h)
    | .bin o l r, h => by
      simp only [LWF] at h
      have a := wrapTo_core (mig_core l h.1) o.prec (Nat.le_trans (prec_le_12 o) (by omega))
      have b := wrapTo_core (mig_core r h.2) (o.prec + 1) (by have := prec_le_12 o; omega)
      exact .bin a.1 b.1 a.2 b.2
    | .sum args, h => by simp only [LWF] at h; exact join_core .add args h
    | .concat args, h => by simp only [LWF] at h; exact join_core .amp args h
    | .power a b, h => by
      simp only [LWF] at h
      have x := wrapTo_core (mig_core a h.1) 12 (by omega)
      have y := wrapTo_core (mig_core b h.2) 13 (by omega)
      exact .bin x.1 y.1 (by simpa [BinOp.prec] using x.2) (by simpa [BinOp.prec] using y.2)
    | .exp a, h => by
      simp only [LWF] at h
      have y := wrapTo_core (mig_core a h) 13 (by omega)
      exact .bin (.num eConst_normal) y.1 (by simp [level, BinOp.prec]) (by simpa [BinOp.prec] using y.2)
  theorem join_core (o : BinOp) : ∀ args : LArgs, LWFArgs args → Core (joinE o args)
    | .one e, h => by
      simp only [LWFArgs] at h
      exact (wrapTo_core (mig_core e h) o.prec (Nat.le_trans (prec_le_12 o) (by omega))).1
    | .cons e rest, h => by
      simp only [LWFArgs] at h
      have a := wrapTo_core (mig_core e h.1) o.prec (Nat.le_trans (prec_le_12 o) (by omega))
      exact joinRest_core o _ a.1 a.2 rest h.2
  theorem joinRest_core (o : BinOp) (acc : Expr) (ha : Core acc) (hl : o.prec ≤ level acc) :
      ∀ args : LArgs, LWFArgs args → Core (joinRest o acc args)
    | .one e, h => by
      simp only [LWFArgs] at h
      have b := wrapTo_core (mig_core e h) (o.prec + 1) (by have := prec_le_12 o; omega)
      exact .bin ha b.1 hl b.2
    | .cons e rest, h => by
      simp only [LWFArgs] at h
      have b := wrapTo_core (mig_core e h.1) (o.prec + 1) (by have := prec_le_12 o; omega)
      exact joinRest_core o _ (.bin ha b.1 hl b.2) (by simp [level]) rest h.2
end

/-- **The migrated text parses to the migrated tree** — in any position an expression can stand. -/
theorem mig_parses (l : L) (h : LWF l) :
    ∃ f0, ∀ f, f0 ≤ f → parseExpr f 0 (toks (migE l)) = some (migE l, []) := by
  have hp : Parses (.expr 0) (toks (migE l) ++ []) (migE l) [] :=
    parses_toks (mig_core l h) 0 [] _ [] (Nat.zero_le _) (by simp [quiet]) (by intro q tl hh; cases hh) (.stop (by simp [stops]))
  rw [List.append_nil] at hp
  exact run_of_parses hp

mutual
  /-- **Grouping and argument order are kept**: parentheses aside, the migrated tree is the tree the
  legacy expression denotes. -/
  theorem mig_grouping : ∀ l : L, strip (migE l) = sem l
    | .ref _ => by simp [migE, sem, strip]
    | .num _ => by simp [migE, sem, strip]
    | .bool _ => by simp [migE, sem, strip]
    | .neg e => by simp only [migE, sem, strip, strip_wrapTo, mig_grouping e]
    | .paren e => by simp only [migE, sem, strip, mig_grouping e]
    | .bin o l r => by simp only [migE, sem, strip, strip_wrapTo, mig_grouping l, mig_grouping r]
    | .sum args => by simp only [migE, sem, join_grouping .add args]
    | .concat args => by simp only [migE, sem, join_grouping .amp args]
    | .power a b => by simp only [migE, sem, strip, strip_wrapTo, mig_grouping a, mig_grouping b]
    | .exp a => by simp only [migE, sem, strip, strip_wrapTo, mig_grouping a]
  theorem join_grouping (o : BinOp) : ∀ args : LArgs, strip (joinE o args) = semJoin o args
    | .one e => by simp only [joinE, semJoin, strip_wrapTo, mig_grouping e]
    | .cons e rest => by
      simp only [joinE, semJoin]
      exact joinRest_grouping o _ _ (by rw [strip_wrapTo, mig_grouping e]) rest
  theorem joinRest_grouping (o : BinOp) (acc acc' : Expr) (h : strip acc = acc') :
      ∀ args : LArgs, strip (joinRest o acc args) = semRest o acc' args
    | .one e => by simp only [joinRest, semRest, strip, strip_wrapTo, mig_grouping e, h]
    | .cons e rest => by
      simp only [joinRest, semRest]
      exact joinRest_grouping o _ _ (by simp only [strip, strip_wrapTo, mig_grouping e, h]) rest
end

/-- `SUM(1, 2) * 3`: before the repair the text was `1 + 2 * 3`, which the parser groups as
`1 + (2 * 3)`; the repaired migration writes `(1 + 2) * 3`. -/
theorem naive_regroups :
    let l := L.bin .mul (.sum (.cons (.num ['1']) (.one (.num ['2'])))) (.num ['3'])
    grouped (sem l) = "((1 + 2) * 3)".toList ∧
    render (migNaive l) = "1 + 2 * 3".toList ∧
    (parse (toks (migNaive l))).map grouped = some "(1 + (2 * 3))".toList ∧
    render (migE l) = "(1 + 2) * 3".toList ∧
    (parse (toks (migE l))).map grouped = some "((1 + 2) * 3)".toList := by
  decide

end GoflowModel.Props.C17
