import GoflowModel.Excellent.Legacy
import GoflowModel.Excellent.LegacyTable
import GoflowModel.Lemmas.LegacyFull
import GoflowModel.Gen.LegacyFuncs
import GoflowModel.Lemmas.LegacyRefs
import GoflowModel.Gen.LegacyRefs
/-!
# C17 — Legacy expression migration preserves meaning

For the operator core of the legacy language — references, numbers, booleans, negation,
parentheses, the binary operators that migrate to themselves and the functions that migrate to
operator expressions (`SUM`, `CONCATENATE`, `POWER`, `EXP`), nested in one another to any depth —
the migrated expression (`migE`, the model of the text the visitor assembles with `operand`):

* `mig_core`: has the shape the new parser produces, so
* `mig_parses`: its printed tokens parse back to exactly that tree (by C11's round trip), and
* `mig_grouping`: that tree, parentheses aside, is the tree the legacy expression denotes — every
  operator has the operands it had, in the order it had them.

`naive_regroups` is the kernel-checked witness that the migration before the repair (operands
substituted as they are) regrouped `SUM(1, 2) * 3`.

**The whole visitor** (second half of this file; model `Excellent/LegacyFull`, table
`Excellent/LegacyTable`): dotted context references, text literals, every form of `+`/`-` the type
inference can pick (two numbers, datetime ± days, date ± days with or without `format_date`,
datetime ± time, date + time, the `legacy_add` fallback) and **every function call through the
migration table** — kept, renamed, joined, written through a template with operator positions, or
through per-parameter migrators with defaults (decremented positions, the `by_spaces` flag):

* `migF_shape` / `migF_parses`: for every well-formed legacy expression, of any size and nesting, the
  migrated text's tokens parse back to exactly the tree the migration meant (C11's round trip for
  the whole language) — nothing is regrouped by the new parser's precedence rules;
* `migF_grouping`: that tree, parentheses aside, is the denoted tree (`semF`): every operator and
  call has the operands it had, in the order the table prescribes;
* `table_matches_source`: the model's table, described back in the terms of the source, **is** the
  `callMigrators` table regenerated from functions.go on every run (constructor, template text, new
  names, levels, parameter migrators, defaults); `table_wellformed`: every entry's template is
  written so that the parser reads it as meant whatever the parameters (`TOK`), hence
  `table_calls_wellformed`: a call of any table function with a number of parameters its migrator
  accepts is well formed.

Not theorems: which form of `+`/`-` is picked (`inferType` works on text; the correspondence
K:legmigf sends the form an independent reading of the operand texts gives and compares the whole
migrated text), the mapping of context references (`MigrateContextReference`), and the value of a
decremented literal beyond `decr` (monitors M-meaning, M-golden).
-/
namespace GoflowModel.Props.C17
open GoflowModel.Expr GoflowModel.Legacy

theorem level_le_14 (e : Expr) : level e ≤ 14 := by
  cases e <;> simp [level]
  exact Nat.le_trans (prec_le_12 _) (by omega)

theorem wrapTo_core {e : Expr} (h : Core e) (lvl : Nat) (hl : lvl ≤ 14) :
    Core (wrapTo lvl e) ∧ lvl ≤ level (wrapTo lvl e) := by
  unfold wrapTo
  split
  · exact ⟨.paren h, by simp [level]; exact hl⟩
  · exact ⟨h, by omega⟩

theorem strip_wrapTo (lvl : Nat) (e : Expr) : strip (wrapTo lvl e) = strip e := by
  unfold wrapTo; split <;> simp [strip]

theorem eConst_normal : numValue eConst = eConst := by decide

mutual
  theorem mig_core : ∀ l : L, LWF l → Core (migE l)
    | .ref n, h => by simp only [LWF] at h; exact .ref h
    | .num s, h => by simp only [LWF] at h; exact .num h
    | .bool true, _ => .tru
    | .bool false, _ => .fls
    | .neg e, h => by
      simp only [LWF] at h
      have := wrapTo_core (mig_core e h) 13 (by omega)
      exact .neg this.1 this.2
    | .paren e, h => by simp only [LWF] at h; exact .paren (mig_core e h)
    | .bin o l r, h => by
      simp only [LWF] at h
      have a := wrapTo_core (mig_core l h.1) o.prec (Nat.le_trans (prec_le_12 o) (by omega))
      have b := wrapTo_core (mig_core r h.2) (o.prec + 1) (by have := prec_le_12 o; omega)
      exact .bin a.1 b.1 a.2 b.2
    | .sum args, h => by simp only [LWF] at h; exact join_core .add args h
    | .concat args, h => by simp only [LWF] at h; exact join_core .amp args h
    | .power a b, h => by
      simp only [LWF] at h
      have x := wrapTo_core (mig_core a h.1) 12 (by omega)
      have y := wrapTo_core (mig_core b h.2) 13 (by omega)
      exact .bin x.1 y.1 (by simpa [BinOp.prec] using x.2) (by simpa [BinOp.prec] using y.2)
    | .exp a, h => by
      simp only [LWF] at h
      have y := wrapTo_core (mig_core a h) 13 (by omega)
      exact .bin (.num eConst_normal) y.1 (by simp [level, BinOp.prec]) (by simpa [BinOp.prec] using y.2)
  theorem join_core (o : BinOp) : ∀ args : LArgs, LWFArgs args → Core (joinE o args)
    | .one e, h => by
      simp only [LWFArgs] at h
      exact (wrapTo_core (mig_core e h) o.prec (Nat.le_trans (prec_le_12 o) (by omega))).1
    | .cons e rest, h => by
      simp only [LWFArgs] at h
      have a := wrapTo_core (mig_core e h.1) o.prec (Nat.le_trans (prec_le_12 o) (by omega))
      exact joinRest_core o _ a.1 a.2 rest h.2
  theorem joinRest_core (o : BinOp) (acc : Expr) (ha : Core acc) (hl : o.prec ≤ level acc) :
      ∀ args : LArgs, LWFArgs args → Core (joinRest o acc args)
    | .one e, h => by
      simp only [LWFArgs] at h
      have b := wrapTo_core (mig_core e h) (o.prec + 1) (by have := prec_le_12 o; omega)
      exact .bin ha b.1 hl b.2
    | .cons e rest, h => by
      simp only [LWFArgs] at h
      have b := wrapTo_core (mig_core e h.1) (o.prec + 1) (by have := prec_le_12 o; omega)
      exact joinRest_core o _ (.bin ha b.1 hl b.2) (by simp [level]) rest h.2
end

/-- **The migrated text parses to the migrated tree** — in any position an expression can stand. -/
theorem mig_parses (l : L) (h : LWF l) :
    ∃ f0, ∀ f, f0 ≤ f → parseExpr f 0 (toks (migE l)) = some (migE l, []) := by
  have hp : Parses (.expr 0) (toks (migE l) ++ []) (migE l) [] :=
    parses_toks (mig_core l h) 0 [] _ [] (Nat.zero_le _) (by simp [quiet]) (by intro q tl hh; cases hh) (.stop (by simp [stops]))
  rw [List.append_nil] at hp
  exact run_of_parses hp

mutual
  /-- **Grouping and argument order are kept**: parentheses aside, the migrated tree is the tree the
  legacy expression denotes. -/
  theorem mig_grouping : ∀ l : L, strip (migE l) = sem l
    | .ref _ => by simp [migE, sem, strip]
    | .num _ => by simp [migE, sem, strip]
    | .bool _ => by simp [migE, sem, strip]
    | .neg e => by simp only [migE, sem, strip, strip_wrapTo, mig_grouping e]
    | .paren e => by simp only [migE, sem, strip, mig_grouping e]
    | .bin o l r => by simp only [migE, sem, strip, strip_wrapTo, mig_grouping l, mig_grouping r]
    | .sum args => by simp only [migE, sem, join_grouping .add args]
    | .concat args => by simp only [migE, sem, join_grouping .amp args]
    | .power a b => by simp only [migE, sem, strip, strip_wrapTo, mig_grouping a, mig_grouping b]
    | .exp a => by simp only [migE, sem, strip, strip_wrapTo, mig_grouping a]
  theorem join_grouping (o : BinOp) : ∀ args : LArgs, strip (joinE o args) = semJoin o args
    | .one e => by simp only [joinE, semJoin, strip_wrapTo, mig_grouping e]
    | .cons e rest => by
      simp only [joinE, semJoin]
      exact joinRest_grouping o _ _ (by rw [strip_wrapTo, mig_grouping e]) rest
  theorem joinRest_grouping (o : BinOp) (acc acc' : Expr) (h : strip acc = acc') :
      ∀ args : LArgs, strip (joinRest o acc args) = semRest o acc' args
    | .one e => by simp only [joinRest, semRest, strip, strip_wrapTo, mig_grouping e, h]
    | .cons e rest => by
      simp only [joinRest, semRest]
      exact joinRest_grouping o _ _ (by simp only [strip, strip_wrapTo, mig_grouping e, h]) rest
end

/-- `SUM(1, 2) * 3`: before the repair the text was `1 + 2 * 3`, which the parser groups as
`1 + (2 * 3)`; the repaired migration writes `(1 + 2) * 3`. -/
theorem naive_regroups :
    let l := L.bin .mul (.sum (.cons (.num ['1']) (.one (.num ['2'])))) (.num ['3'])
    grouped (sem l) = "((1 + 2) * 3)".toList ∧
    render (migNaive l) = "1 + 2 * 3".toList ∧
    (parse (toks (migNaive l))).map grouped = some "(1 + (2 * 3))".toList ∧
    render (migE l) = "(1 + 2) * 3".toList ∧
    (parse (toks (migE l))).map grouped = some "((1 + 2) * 3)".toList := by
  decide

/-! ## The whole visitor -/

section Full
open GoflowModel.LegacyFull GoflowModel.Expr.Full

/-- The migrated tree of a well-formed legacy expression is in the shape the new parser produces. -/
theorem migF_shape (l : LF) (h : LegacyFull.LWF l) : Shape (.e (migF l)) := (good_migF l h).1

/-- **The migrated text parses to the migrated tree**, for the whole legacy language. -/
theorem migF_parses (l : LF) (h : LegacyFull.LWF l) :
    ∃ f0, ∀ f, f0 ≤ f → parseExpr f 0 (toks (migF l)) = some (migF l, []) := by
  have hp : Full.Parses (.expr 0) (toks (migF l) ++ []) (.e (migF l)) [] :=
    (complete_of_shape (migF_shape l h)).1 0 [] (.e (migF l)) [] (Nat.zero_le _) (by simp [Full.quiet])
      (by intro q tl hh; cases hh) (.stop (by simp [Full.stops]))
  rw [List.append_nil] at hp
  exact holds_of_parses hp

/-- …and as a parameter or in parentheses, i.e. wherever the migration of an enclosing call puts it:
before `)`, `,` or the end. -/
theorem migF_parses_in_context (l : LF) (h : LegacyFull.LWF l) (rest : List Tok) (hq : Full.quiet rest)
    (hs : ∀ q tl, rest ≠ .op q :: tl) :
    ∃ f0, ∀ f, f0 ≤ f → parseExpr f 0 (toks (migF l) ++ rest) = some (migF l, rest) := by
  have hp : Full.Parses (.expr 0) (toks (migF l) ++ rest) (.e (migF l)) rest :=
    (complete_of_shape (migF_shape l h)).1 0 rest (.e (migF l)) rest (Nat.zero_le _) hq
      (fun q tl hh => absurd hh (hs q tl)) (.stop (stops_of 0 rest (fun q tl hh => absurd hh (hs q tl))))
  exact holds_of_parses hp

/-- **Grouping and argument order are kept**, for the whole legacy language. -/
theorem migF_grouping (l : LF) : LegacyFull.strip (migF l) = semF l := strip_migF l

/-- the two together: the tokens of the migrated text parse to a tree that, parentheses aside, is the
tree the legacy expression denotes -/
theorem migF_meaning (l : LF) (h : LegacyFull.LWF l) :
    ∃ f0, ∀ f, f0 ≤ f → (parseExpr f 0 (toks (migF l))).map (fun p => LegacyFull.strip p.1) = some (semF l) := by
  obtain ⟨f0, hf⟩ := migF_parses l h
  exact ⟨f0, fun f hle => by rw [hf f hle]; simp [migF_grouping]⟩

abbrev Row := List Char × List Char × List (List Char) × List Nat

def srcRow (x : String × String × List String × List Nat) : Row :=
  (x.1.toList, x.2.1.toList, x.2.2.1.map String.toList, x.2.2.2)

def modelRow (e : Entry) : Row := (e.name.toList, describe e)

/-- **The model's table is the source's table** (regenerated from functions.go on every run): same
functions, same migrator constructors, same template texts, new names, levels, parameter migrators
and defaults. -/
theorem table_matches_source : table.map modelRow = Gen.LegacyFuncs.callMigrators.map srcRow := by decide

/-- every template of the table keeps its operator positions whatever the parameters; names are
lower case; defaults are canonical numbers -/
theorem table_wellformed : table.all entryOK = true := by decide

/-- the numbers of parameters a migrator accepts without an error or garbage -/
def accepts : Mig → Nat → Bool
  | .call _, _ => true
  | .join _, k => decide (1 ≤ k)
  | .tmpl _ arity, k => decide (k = arity)
  | .params _ pms minArgs _, k => decide (minArgs ≤ k) && decide (k ≤ pms.length)

theorem migOK_of_entryOK (e : Entry) (h : entryOK e = true) (k : Nat) (ha : accepts e.mig k = true) :
    MigOK e.mig k = true := by
  unfold entryOK at h
  cases hm : e.mig with
  | call n => rw [hm] at h; simpa [MigOK] using h
  | join o => rw [hm] at ha; simpa [MigOK, accepts] using ha
  | tmpl t arity =>
    rw [hm] at h ha
    simp only [MigOK, accepts, Bool.and_eq_true, decide_eq_true_eq] at h ha ⊢
    exact ⟨h.1, ha⟩
  | params n pms minArgs defaults =>
    rw [hm] at h ha
    simp only [MigOK, accepts, Bool.and_eq_true, decide_eq_true_eq] at h ha ⊢
    exact ⟨⟨⟨⟨h.1.1.1.1, ha.1⟩, ha.2⟩, h.1.2⟩, h.2⟩

/-- **Every call of a table function with an accepted number of well-formed parameters is well
formed**, so the three theorems above apply to it. -/
theorem table_calls_wellformed (e : Entry) (he : e ∈ table) (args : LFArgs) (ha : accepts e.mig args.length = true)
    (hargs : LegacyFull.LWFArgs args) : LegacyFull.LWF (.fn e.mig args) := by
  simp only [LegacyFull.LWF]
  exact ⟨migOK_of_entryOK e (List.all_eq_true.1 table_wellformed e he) _ ha, hargs⟩

/-- a function the table does not know is kept as a call of the same (lower-cased) name -/
theorem unknown_function_kept (name : List Char) (hn : lowerName name = name) (args : LFArgs)
    (hargs : LegacyFull.LWFArgs args) : LegacyFull.LWF (.fn (.call name) args) := by
  simp only [LegacyFull.LWF, MigOK, beq_iff_eq]
  exact ⟨hn, hargs⟩

/-- the premises are met by real expressions, and the texts are the ones the Go code writes:
`RIGHT(contact.name, 2 ^ 2)`, `WORD(flow.x, contact.n + 1)`, `contact.age - (1 + 2)` (nothing known about
the operands), `SUM(1, 2) * WEEKDAY(NOW())` -/
example :
    let a := LF.fn (migOf "right") (.cons (.path "contact".toList ["name".toList]) (.cons (.bin .exp (.num ['2']) (.num ['2'])) .nil))
    let b := LF.fn (migOf "word") (.cons (.path "results".toList ["x".toList])
      (.cons (.arith .fallback false (.path "fields".toList ["n".toList]) (.num ['1'])) .nil))
    let c := LF.arith .fallback true (.path "fields".toList ["age".toList]) (.paren (.bin .add (.num ['1']) (.num ['2'])))
    let d := LF.bin .mul (.fn (migOf "sum") (.cons (.num ['1']) (.cons (.num ['2']) .nil))) (.fn (migOf "weekday") (.cons (.fn (migOf "now") .nil) .nil))
    render (migF a) = "text_slice(contact.name, -(2 ^ 2))".toList ∧
    render (migF b) = "word(results.x, legacy_add(fields.n, 1) - 1)".toList ∧
    render (migF c) = "legacy_add(fields.age, -(1 + 2))".toList ∧
    render (migF d) = "(1 + 2) * (weekday(now()) + 1)".toList := by
  decide

end Full

/-! ## Context references -/

section Refs
open GoflowModel.LegacyRefs GoflowModel.Expr.Full

/-- **A migrated context reference parses back to itself** (names as the printer writes them): for
every legacy reference — any segments, matched by any rule of the table or by none — the tokens of
the migrated text parse to the tree the rule means.  (`IndexOK`: an attachment index is a number as
it renders.) -/
theorem reference_migration_parses (schemes : List Seg) (raw : Bool) (segs : List Seg) (hi : IndexOK segs) :
    ∃ f0, ∀ f, f0 ≤ f →
      parseExpr f 0 (toks (migRef schemes raw segs)) = some (norm (migRef schemes raw segs), []) := by
  have hs : Shape (.e (norm (migRef schemes raw segs))) := (ga_migRef schemes raw segs hi).1
  have hp : Full.Parses (.expr 0) (toks (norm (migRef schemes raw segs)) ++ []) (.e (norm (migRef schemes raw segs))) [] :=
    (complete_of_shape hs).1 0 [] _ [] (Nat.zero_le _) (by simp [Full.quiet]) (by intro q tl hh; cases hh)
      (.stop (by simp [Full.stops]))
  rw [List.append_nil, toks_norm] at hp
  exact holds_of_parses hp

/-- **…and is an atom**: wherever the visitor substitutes it, `operand(·, level)` leaves it alone,
and no operator around it can regroup it. -/
theorem reference_never_wrapped (schemes : List Seg) (raw : Bool) (segs : List Seg) (hi : IndexOK segs) (lvl : Nat)
    (hl : lvl ≤ 14) : LegacyFull.wrapTo lvl (migRef schemes raw segs) = migRef schemes raw segs := by
  have ha := (ga_migRef schemes raw segs hi).2
  have := (atom_level ha).1
  unfold LegacyFull.wrapTo
  rw [if_neg (by omega)]

/-- **The rules the model transcribes are the table of the source**, in its order (regenerated from
context.go on every run; `<schemesRe>` stands for the alternation of the URN schemes), and the schemes
are those of the linked gocommon. -/
theorem reference_table_as_modelled :
    Gen.LegacyRefs.mappings = [
  ("^(?:(?:flow|step)\\.)?((?:parent|child)\\.)?contact$", "${1}contact", false),
  ("^(?:(?:flow|step)\\.)?((?:parent|child)\\.)?contact\\.uuid$", "${1}contact.uuid", false),
  ("^(?:(?:flow|step)\\.)?((?:parent|child)\\.)?contact\\.id$", "${1}contact.id", false),
  ("^(?:(?:flow|step)\\.)?((?:parent|child)\\.)?contact\\.name$", "${1}contact.name", false),
  ("^(?:(?:flow|step)\\.)?((?:parent|child)\\.)?contact\\.first_name$", "${1}contact.first_name", false),
  ("^(?:(?:flow|step)\\.)?((?:parent|child)\\.)?contact\\.created_on$", "${1}contact.created_on", false),
  ("^(?:(?:flow|step)\\.)?((?:parent|child)\\.)?contact\\.language$", "${1}contact.language", false),
  ("^(?:(?:flow|step)\\.)?((?:parent|child)\\.)?contact\\.groups$", "join(${1}contact.groups, \",\")", false),
  ("^(?:(?:flow|step)\\.)?((?:parent|child)\\.)?contact\\.tel_e164$", "default(urn_parts(${1}urns.tel).path, \"\")", false),
  ("^(?:(?:flow|step)\\.)?((?:parent|child)\\.)?contact\\.tel$", "format_urn(${1}urns.tel)", false),
  ("^(?:(?:flow|step)\\.)?((?:parent|child)\\.)?contact\\.(<schemesRe>)$", "default(urn_parts(${1}urns.$2).path, \"\")", false),
  ("^(?:(?:flow|step)\\.)?((?:parent|child)\\.)?contact\\.(<schemesRe>)\\.display$", "format_urn(${1}urns.$2)", false),
  ("^(?:(?:flow|step)\\.)?((?:parent|child)\\.)?contact\\.(<schemesRe>)\\.path$", "urn_parts(${1}urns.$2).path", false),
  ("^(?:(?:flow|step)\\.)?((?:parent|child)\\.)?contact\\.(<schemesRe>)\\.scheme$", "urn_parts(${1}urns.$2).scheme", false),
  ("^(?:(?:flow|step)\\.)?((?:parent|child)\\.)?contact\\.(<schemesRe>)\\.urn$", "${1}urns.$2", false),
  ("^(?:(?:flow|step)\\.)?((?:parent|child)\\.)?contact\\.(\\w+)$", "${1}fields.$2", false),
  ("^flow$", "results", false),
  ("^flow\\.(\\w+)$", "results.$1", false),
  ("^flow\\.(\\w+)\\.value$", "results.$1.value", false),
  ("^flow\\.(\\w+)\\.category$", "results.$1.category_localized", false),
  ("^flow\\.(\\w+)\\.text$", "results.$1.input", false),
  ("^flow\\.(\\w+)\\.time$", "results.$1.created_on", false),
  ("^child$", "child.results", false),
  ("^child\\.(\\w+)$", "child.results.$1", false),
  ("^child\\.(\\w+)\\.value$", "child.results.$1.value", false),
  ("^child\\.(\\w+)\\.category$", "child.results.$1.category_localized", false),
  ("^child\\.(\\w+)\\.text$", "child.results.$1.input", false),
  ("^child\\.(\\w+)\\.time$", "child.results.$1.created_on", false),
  ("^(?:parent|extra\\.flow)$", "parent.results", false),
  ("^(?:parent|extra\\.flow)\\.(\\w+)$", "parent.results.$1", false),
  ("^(?:parent|extra\\.flow)\\.(\\w+)\\.value$", "parent.results.$1.value", false),
  ("^(?:parent|extra\\.flow)\\.(\\w+)\\.category$", "parent.results.$1.category_localized", false),
  ("^(?:parent|extra\\.flow)\\.(\\w+)\\.text$", "parent.results.$1.input", false),
  ("^(?:parent|extra\\.flow)\\.(\\w+)\\.time$", "parent.results.$1.created_on", false),
  ("^step(\\.value)?$", "input", false),
  ("^step\\.text$", "input.text", false),
  ("^step\\.time$", "input.created_on", false),
  ("^step\\.attachments$", "foreach(foreach(input.attachments, attachment_parts), extract, \"url\")", false),
  ("^step\\.attachments\\.(\\d+)$", "attachment_parts(input.attachments[$1]).url", false),
  ("^channel$", "contact.channel.address", false),
  ("^channel\\.(address|tel|tel_e164)$", "contact.channel.address", false),
  ("^channel\\.name$", "contact.channel.name", false),
  ("^date(\\.now)?$", "now()", false),
  ("^date\\.today$", "today()", true),
  ("^date\\.tomorrow$", "datetime_add(now(), 1, \"D\")", true),
  ("^date\\.yesterday$", "datetime_add(now(), -1, \"D\")", true),
  ("^extra$", "legacy_extra", false),
  ("^extra\\.([\\w\\.]+)$", "legacy_extra.${1}", false)
] ∧
    Gen.LegacyRefs.schemes = ["discord", "mailto", "ext", "facebook", "fcm", "freshchat", "instagram", "jiochat", "line", "tel", "rocketchat", "slack", "telegram", "twitter", "twitterid", "viber", "vk", "webchat", "wechat", "whatsapp"] := by
  decide

/-- the premise is met and the texts are the ones the Go code writes -/
example :
    let sch := Gen.LegacyRefs.schemes.map String.toList
    render (migRef sch false ["flow".toList, "contact".toList, "tel".toList]) = "format_urn(urns.tel)".toList ∧
    render (migRef sch false ["step".toList, "attachments".toList, "0".toList]) = "attachment_parts(input.attachments[0]).url".toList ∧
    render (migRef sch true ["child".toList, "color".toList, "category".toList]) = "child.results.color.category_localized".toList ∧
    render (migRef sch false ["parent".toList, "contact".toList, "twitterid".toList, "urn".toList]) = "parent.urns.twitterid".toList ∧
    IndexOK ["step".toList, "attachments".toList, "0".toList] := by
  refine ⟨by decide, by decide, by decide, by decide, ?_⟩
  intro d hd _
  simp only [List.mem_cons, List.not_mem_nil, or_false] at hd
  rcases hd with rfl | rfl | rfl <;> decide

end Refs

end GoflowModel.Props.C17
