import GoflowModel.Engine.Concurrent
import GoflowModel.Gen.FieldWrites
/-!
# C09 — Sessions can run concurrently over shared assets

For every number of threads and every schedule (no bound on either):

* the flow cache (`flowAssets`): threads exclude each other between Lock and Unlock, which is
  where the cache map is read and written; every `Get` returns what the same `Get` returns when it
  runs alone (`load (key t)`); each flow is read and migrated at most once;
* lazy initialisation behind `sync.Once` (the repaired `XObject`): the initialiser runs at most
  once, nobody reads the fields while it runs, and nobody reads them before it has finished;
* the lazy initialisation as it was before the repair has a two-step schedule that ends in a race
  (kernel-checked witness).
-/
namespace GoflowModel.Props.C09
open GoflowModel.Concurrent

/-! ## the flow cache -/
section Cache
open Cache

structure Inv (key load : Nat → Nat) (s : St) : Prop where
  excl : ∀ t, critical s t ↔ s.holder = some t
  cached : ∀ k v, s.cache k = some v → v = load k
  loaded : ∀ t v, s.pc t = .loaded v → v = load (key t) ∧ s.cache (key t) = none
  done : ∀ t v, s.pc t = .done v → v = load (key t)
  nodup : s.loads.Nodup
  hist : ∀ k, k ∈ s.loads → s.cache k = some (load k) ∨ ∃ t, s.pc t = .loaded (load k) ∧ key t = k

theorem inv_init (key load : Nat → Nat) : Inv key load init := by
  refine ⟨?_, ?_, ?_, ?_, ?_, ?_⟩ <;> simp [init, critical]

theorem inv_step (key load : Nat → Nat) (s : St) (t : Nat) (h : Inv key load s) :
    Inv key load (step key load s t) := by
  unfold step
  cases hpc : s.pc t with
  | start =>
    simp only
    by_cases hh : s.holder = none
    · simp only [hh, if_true]
      refine ⟨?_, h.cached, ?_, ?_, h.nodup, ?_⟩
      · intro u
        by_cases hu : u = t
        · subst hu; simp [critical]
        · have := (h.excl u)
          simp only [critical, upd_other _ _ _ _ hu] at this ⊢
          rw [this, hh]; simp; exact fun e => hu e.symm
      · intro u v hv
        by_cases hu : u = t
        · subst hu; simp at hv
        · simp only [upd_other _ _ _ _ hu] at hv; exact h.loaded u v hv
      · intro u v hv
        by_cases hu : u = t
        · subst hu; simp at hv
        · simp only [upd_other _ _ _ _ hu] at hv; exact h.done u v hv
      · intro k hk
        rcases h.hist k hk with hc | ⟨u, hu, hku⟩
        · exact Or.inl hc
        · refine Or.inr ⟨u, ?_, hku⟩
          have : u ≠ t := by intro e; subst e; rw [hpc] at hu; cases hu
          simp only [upd_other _ _ _ _ this]; exact hu
    · simp only [hh, if_false]; exact h
  | locked =>
    have hhold : s.holder = some t := (h.excl t).1 (Or.inl hpc)
    have others : ∀ u, u ≠ t → ¬ critical s u := by
      intro u hu hc
      have := (h.excl u).1 hc
      rw [hhold] at this; cases this; exact hu rfl
    simp only
    cases hc : s.cache (key t) with
    | some v =>
      simp only
      refine ⟨?_, h.cached, ?_, ?_, h.nodup, ?_⟩
      · intro u
        by_cases hu : u = t
        · subst hu; simp [critical]
        · simp only [critical, upd_other _ _ _ _ hu]
          constructor
          · intro hcr; exact absurd hcr (others u hu)
          · intro e; cases e
      · intro u w hw
        by_cases hu : u = t
        · subst hu; simp at hw
        · simp only [upd_other _ _ _ _ hu] at hw; exact h.loaded u w hw
      · intro u w hw
        by_cases hu : u = t
        · subst hu; simp at hw; subst hw; exact h.cached _ _ hc
        · simp only [upd_other _ _ _ _ hu] at hw; exact h.done u w hw
      · intro k hk
        rcases h.hist k hk with hc' | ⟨u, hu, hku⟩
        · exact Or.inl hc'
        · have : u ≠ t := by intro e; subst e; rw [hpc] at hu; cases hu
          exact absurd (Or.inr ⟨_, hu⟩) (others u this)
    | none =>
      simp only
      have hnew : key t ∉ s.loads := by
        intro hk
        rcases h.hist _ hk with hc' | ⟨u, hu, _⟩
        · rw [hc] at hc'; cases hc'
        · have : u ≠ t := by intro e; subst e; rw [hpc] at hu; cases hu
          exact absurd (Or.inr ⟨_, hu⟩) (others u this)
      refine ⟨?_, h.cached, ?_, ?_, List.nodup_cons.2 ⟨hnew, h.nodup⟩, ?_⟩
      · intro u
        by_cases hu : u = t
        · subst hu; simp [critical, hhold]
        · simp only [critical, upd_other _ _ _ _ hu]
          exact h.excl u
      · intro u w hw
        by_cases hu : u = t
        · subst hu; simp at hw; subst hw; exact ⟨rfl, hc⟩
        · simp only [upd_other _ _ _ _ hu] at hw; exact h.loaded u w hw
      · intro u w hw
        by_cases hu : u = t
        · subst hu; simp at hw
        · simp only [upd_other _ _ _ _ hu] at hw; exact h.done u w hw
      · intro k hk
        simp only [List.mem_cons] at hk
        rcases hk with rfl | hk
        · exact Or.inr ⟨t, by simp, rfl⟩
        · rcases h.hist k hk with hc' | ⟨u, hu, hku⟩
          · exact Or.inl hc'
          · have : u ≠ t := by intro e; subst e; rw [hpc] at hu; cases hu
            exact absurd (Or.inr ⟨_, hu⟩) (others u this)
  | loaded v =>
    have hhold : s.holder = some t := (h.excl t).1 (Or.inr ⟨v, hpc⟩)
    have others : ∀ u, u ≠ t → ¬ critical s u := by
      intro u hu hc
      have := (h.excl u).1 hc
      rw [hhold] at this; cases this; exact hu rfl
    have hv := h.loaded t v hpc
    simp only
    refine ⟨?_, ?_, ?_, ?_, h.nodup, ?_⟩
    · intro u
      by_cases hu : u = t
      · subst hu; simp [critical]
      · simp only [critical, upd_other _ _ _ _ hu]
        constructor
        · intro hcr; exact absurd hcr (others u hu)
        · intro e; cases e
    · intro k w hw
      by_cases hk : k = key t
      · subst hk; simp at hw; rw [← hw]; exact hv.1
      · simp only [upd_other _ _ _ _ hk] at hw; exact h.cached k w hw
    · intro u w hw
      by_cases hu : u = t
      · subst hu; simp at hw
      · simp only [upd_other _ _ _ _ hu] at hw
        exact absurd (Or.inr ⟨_, hw⟩) (others u hu)
    · intro u w hw
      by_cases hu : u = t
      · subst hu; simp at hw; rw [← hw]; exact hv.1
      · simp only [upd_other _ _ _ _ hu] at hw; exact h.done u w hw
    · intro k hk
      by_cases hkk : k = key t
      · subst hkk; left; simp [hv.1]
      · rcases h.hist k hk with hc' | ⟨u, hu, hku⟩
        · left; simp only [upd_other _ _ _ _ hkk]; exact hc'
        · by_cases hut : u = t
          · subst hut; exact absurd hku.symm hkk
          · exact absurd (Or.inr ⟨_, hu⟩) (others u hut)
  | done v => simp only; exact h

/-- the invariant holds after every schedule -/
theorem run_inv (key load : Nat → Nat) (sched : List Nat) (s : St) (h : Inv key load s) :
    Inv key load (run key load sched s) := by
  induction sched generalizing s with
  | nil => exact h
  | cons t sched ih => exact ih _ (inv_step key load s t h)

/-- **Mutual exclusion**: under every schedule, at most one thread is between Lock and Unlock —
the only place the cache map is read or written. -/
theorem cache_exclusive (key load : Nat → Nat) (sched : List Nat) (t u : Nat)
    (ht : critical (run key load sched init) t) (hu : critical (run key load sched init) u) : t = u := by
  have h := run_inv key load sched init (inv_init key load)
  have a := (h.excl t).1 ht
  have b := (h.excl u).1 hu
  rw [a] at b; cases b; rfl

/-- **Same result as alone**: under every schedule, whatever a `Get` returns is what the source
and migration give for that flow … -/
theorem get_returns_load (key load : Nat → Nat) (sched : List Nat) (t v : Nat)
    (h : (run key load sched init).pc t = .done v) : v = load (key t) :=
  (run_inv key load sched init (inv_init key load)).done t v h

/-- … which is what it returns when the thread runs alone over fresh assets. -/
theorem get_alone (key load : Nat → Nat) (t : Nat) :
    (run key load [t, t, t] init).pc t = .done (load (key t)) := by
  simp [run, step, init, upd]

/-- **Loaded at most once**: no flow is read from the source and migrated twice, whatever the
schedule. -/
theorem loads_nodup (key load : Nat → Nat) (sched : List Nat) : (run key load sched init).loads.Nodup :=
  (run_inv key load sched init (inv_init key load)).nodup

end Cache

/-! ## lazy initialisation -/
section Lazy

/-- before the repair: two threads, two steps, and both are about to write the same fields -/
theorem lazy_unsynchronised_races :
    Lazy.race (Lazy.run [0, 1] Lazy.init) 0 1 = true := by decide

open Once

def storingCount (s : St) : Nat :=
  match s.holder with
  | some h => if s.pc h = .storing then 1 else 0
  | none => 0

structure OInv (s : St) : Prop where
  excl : ∀ t, (s.pc t = .holding ∨ s.pc t = .initialising ∨ s.pc t = .storing) ↔ s.holder = some t
  initClear : ∀ t, (s.pc t = .initialising ∨ s.pc t = .storing) → s.flag = false
  readSet : ∀ t, s.pc t = .reading → s.flag = true
  count : s.inits = (if s.flag then 1 else 0) + storingCount s

theorem oinv_init : OInv Once.init := by
  refine ⟨?_, ?_, ?_, ?_⟩ <;> simp [Once.init, storingCount]

theorem oinv_step (s : St) (t : Nat) (h : OInv s) : OInv (Once.step s t) := by
  obtain ⟨h1, h2, h3, h4⟩ := h
  have b1 := h1 t; have b2 := h2 t; have b3 := h3 t
  unfold Once.step
  cases hpc : s.pc t with
  | start =>
    simp only
    cases hf : s.flag <;> simp only [if_true, if_false, Bool.false_eq_true]
    all_goals
      refine ⟨?_, ?_, ?_, ?_⟩
      · intro u; have a1 := h1 u; by_cases hu : u = t <;> simp_all [upd]
      · intro u; have a2 := h2 u; by_cases hu : u = t <;> simp_all [upd]
      · intro u; have a3 := h3 u; by_cases hu : u = t <;> simp_all [upd]
      · simp only [storingCount] at h4 ⊢
        cases hh : s.holder with
        | none => simp_all
        | some w =>
          have a1 := h1 w
          by_cases hw : w = t <;> simp_all [upd]
  | wantLock =>
    simp only
    cases hh0 : s.holder with
    | some w => simp only [reduceCtorEq, if_false]; exact ⟨h1, h2, h3, h4⟩
    | none =>
      simp only [if_true]
      refine ⟨?_, ?_, ?_, ?_⟩
      · intro u; have a1 := h1 u; by_cases hu : u = t <;> simp_all [upd]
        exact fun e => hu e.symm
      · intro u; have a2 := h2 u; by_cases hu : u = t <;> simp_all [upd]
      · intro u; have a3 := h3 u; by_cases hu : u = t <;> simp_all [upd]
      · simp_all [storingCount, upd]
  | holding =>
    have hhold : s.holder = some t := b1.1 (Or.inl hpc)
    simp only
    cases hf : s.flag <;> simp only [if_true, if_false, Bool.false_eq_true]
    · refine ⟨?_, ?_, ?_, ?_⟩
      · intro u; have a1 := h1 u; by_cases hu : u = t <;> simp_all [upd]
      · intro u; have a2 := h2 u; by_cases hu : u = t <;> simp_all [upd]
      · intro u; have a3 := h3 u; by_cases hu : u = t <;> simp_all [upd]
      · simp_all [storingCount, upd]
    · refine ⟨?_, ?_, ?_, ?_⟩
      · intro u; have a1 := h1 u; by_cases hu : u = t <;> simp_all [upd]
        intro e; exact hu e.symm
      · intro u; have a2 := h2 u; by_cases hu : u = t <;> simp_all [upd]
      · intro u; have a3 := h3 u; by_cases hu : u = t <;> simp_all [upd]
      · simp_all [storingCount, upd]
  | initialising =>
    have hhold : s.holder = some t := b1.1 (Or.inr (Or.inl hpc))
    have hfl : s.flag = false := b2 (Or.inl hpc)
    simp only
    refine ⟨?_, ?_, ?_, ?_⟩
    · intro u; have a1 := h1 u; by_cases hu : u = t <;> simp_all [upd]
    · intro u; have a2 := h2 u; by_cases hu : u = t <;> simp_all [upd]
    · intro u; have a3 := h3 u; by_cases hu : u = t <;> simp_all [upd]
    · simp_all [storingCount, upd]
  | storing =>
    have hhold : s.holder = some t := b1.1 (Or.inr (Or.inr hpc))
    have hfl : s.flag = false := b2 (Or.inr hpc)
    simp only
    refine ⟨?_, ?_, ?_, ?_⟩
    · intro u; have a1 := h1 u; by_cases hu : u = t <;> simp_all [upd]
      intro e; exact hu e.symm
    · intro u; by_cases hu : u = t
      · subst hu; simp [upd]
      · simp only [upd_other _ _ _ _ hu]; intro hc
        have := (h1 u).1 (Or.inr hc); rw [hhold] at this; cases this; exact absurd rfl hu
    · intro u; have a3 := h3 u; by_cases hu : u = t <;> simp_all [upd]
    · simp_all [storingCount, upd]
  | reading => simp only; exact ⟨h1, h2, h3, h4⟩

theorem orun_inv (sched : List Nat) (s : St) (h : OInv s) : OInv (Once.run sched s) := by
  induction sched generalizing s with
  | nil => exact h
  | cons t sched ih => exact ih _ (oinv_step s t h)

/-- **The initialiser runs at most once**, whatever the schedule and however many threads. -/
theorem once_at_most_once (sched : List Nat) : (Once.run sched Once.init).inits ≤ 1 := by
  have h := orun_inv sched _ oinv_init
  rw [h.count]
  unfold storingCount
  cases hh : (Once.run sched Once.init).holder with
  | none => simp; split <;> omega
  | some w =>
    simp only
    by_cases hs : (Once.run sched Once.init).pc w = .storing
    · have := h.initClear w (Or.inr hs); simp [hs, this]
    · simp [hs]; split <;> omega

/-- **Nobody reads the fields while the initialiser writes them** … -/
theorem once_no_read_during_init (sched : List Nat) (t u : Nat)
    (hw : writing (Once.run sched Once.init) t) : ¬ readingFields (Once.run sched Once.init) u := by
  have h := orun_inv sched _ oinv_init
  intro hr
  have a := h.initClear t (Or.inl hw)
  have b := h.readSet u hr
  rw [a] at b; cases b

/-- … there is one writer at a time … -/
theorem once_single_writer (sched : List Nat) (t u : Nat)
    (ht : writing (Once.run sched Once.init) t) (hu : writing (Once.run sched Once.init) u) : t = u := by
  have h := orun_inv sched _ oinv_init
  have a := (h.excl t).1 (Or.inr (Or.inl ht))
  have b := (h.excl u).1 (Or.inr (Or.inl hu))
  rw [a] at b; cases b; rfl

/-- … and whoever reads the fields reads them after the one initialisation has completed. -/
theorem once_read_after_init (sched : List Nat) (t : Nat)
    (hr : readingFields (Once.run sched Once.init) t) :
    (Once.run sched Once.init).flag = true ∧ (Once.run sched Once.init).inits = 1 := by
  have h := orun_inv sched _ oinv_init
  have hf := h.readSet t hr
  refine ⟨hf, ?_⟩
  rw [h.count, hf]
  unfold storingCount
  cases hh : (Once.run sched Once.init).holder with
  | none => simp
  | some w =>
    simp only
    by_cases hs : (Once.run sched Once.init).pc w = .storing
    · have := h.initClear w (Or.inr hs); rw [hf] at this; cases this
    · simp [hs]

/-- the protocol is live on a simple schedule: two threads both get to read, after one initialisation -/
example : (Once.run [0, 1, 0, 1, 0, 0, 0, 1, 1] Once.init).pc 0 = .reading ∧
    (Once.run [0, 1, 0, 1, 0, 0, 0, 1, 1] Once.init).pc 1 = .reading ∧
    (Once.run [0, 1, 0, 1, 0, 0, 0, 1, 1] Once.init).inits = 1 := by decide

end Lazy

/-! ## where the code writes shared state (regenerated from the source on every run) -/

/-- The writes the two machines model are synchronised the way the machines assume: the flow
cache is written only in methods that begin by locking the assets' mutex and defer the unlock,
the lazily built fields of `XObject` only inside the `sync.Once`. -/
theorem shared_writes_synchronised :
    (Gen.FieldWrites.writes.filter fun w => w.1 == "definition.flowAssets").map (fun w => (w.2.1, w.2.2.1, w.2.2.2)) =
      [("cache", "FindByName", "mutex"), ("cache", "Get", "mutex")] ∧
    (Gen.FieldWrites.writes.filter fun w => w.1 == "types.XObject" && w.2.2.2 != "none").map (fun w => (w.2.1, w.2.2.1, w.2.2.2)) =
      [("def", "ensureInitialized", "once"), ("props", "ensureInitialized", "once")] := by
  decide

/-- Types with a field write outside any lock, each with the reason its values are never written
by two sessions at once.  A type that is not listed here and gains such a write breaks
`unsynchronised_types_confined`. -/
def confined : List (String × String) := [
  ("assets.UserReference", "written while it is unmarshalled, before it is published"),
  ("contactql.QueryError", "an error value under construction"),
  ("contactql.errorListener", "one per parse"),
  ("contactql.visitor", "one per parse"),
  ("definition.exit", "written while the flow is unmarshalled, inside flowAssets' lock, before it is published"),
  ("definition.node", "written while the flow is unmarshalled, inside flowAssets' lock, before it is published"),
  ("engine.Builder", "builder: used before the engine exists"),
  ("engine.session", "a session belongs to the one goroutine driving it"),
  ("engine.sprint", "belongs to its session"),
  ("envs.EnvironmentBuilder", "builder: used before the environment exists"),
  ("envs.LocationHierarchy", "initializeFromRoot is called by the constructors only"),
  ("events.BaseEvent", "an event belongs to the sprint that created it"),
  ("events.MsgWaitEvent", "written while it is unmarshalled"),
  ("excellent.ErrorListener", "one per parse"),
  ("excellent.TemplateErrors", "one per template evaluation"),
  ("excellent.Warnings", "one per template evaluation"),
  ("excellent.visitor", "one per evaluation"),
  ("excellent.xinput", "one per scan"),
  ("excellent.xscanner", "one per scan"),
  ("flows.BaseMsg", "a message belongs to the session or host that created it"),
  ("flows.Call", "written while it is unmarshalled"),
  ("flows.Contact", "a contact belongs to its session (resumes hand over a clone)"),
  ("flows.ContactURN", "belongs to its contact"),
  ("flows.GroupList", "belongs to its contact"),
  ("flows.HTTPLogger", "created by the host per call"),
  ("flows.MsgIn", "a message belongs to the session or host that created it"),
  ("inputs.baseInput", "written while it is unmarshalled"),
  ("legacy.GroupReference", "written while a legacy definition is unmarshalled"),
  ("legacy.LabelReference", "written while a legacy definition is unmarshalled"),
  ("legacy.TypedEnvelope", "written while a legacy definition is unmarshalled"),
  ("legacy.UI", "built during one legacy migration"),
  ("po.PO", "built during one export"),
  ("resumes.baseResume", "written while it is unmarshalled"),
  ("routers.SwitchRouter", "written while the flow is unmarshalled, before it is published"),
  ("routers.baseRouter", "written while the flow is unmarshalled, before it is published"),
  ("runs.legacyExtra", "belongs to its run"),
  ("runs.run", "belongs to its session"),
  ("runs.step", "belongs to its run"),
  ("smtpx.MockSender", "test double"),
  ("static.Flow", "written while the assets are unmarshalled, before the source is published"),
  ("triggers.ChannelBuilder", "builder"),
  ("triggers.FlowActionBuilder", "builder"),
  ("triggers.ManualBuilder", "builder"),
  ("triggers.MsgBuilder", "builder"),
  ("triggers.baseTrigger", "written while it is unmarshalled"),
  ("types.XArray", "lazy arrays are built per evaluation (JSON values, run contexts); the shared XArrayEmpty is built eagerly"),
  ("types.XObject", "SetMarshalOptions is applied to objects built for one evaluation; the shared objects are only read once built"),
  ("types.baseValue", "SetDeprecated is applied while a context object is built"),
  ("waits.baseWait", "written while it is unmarshalled")
]

theorem unsynchronised_types_confined :
    Gen.FieldWrites.unsynchronisedTypes.all (fun t => confined.any (·.1 == t)) = true := by
  decide

/-- package-level variables are written only by the registration functions that `init` calls -/
theorem globals_written_by_registration_only :
    Gen.FieldWrites.globalWrites.all (fun g =>
      g.2 == "registerType" || g.2 == "RegisterXTest" || g.2 == "RegisterXFunction" || g.2 == "registerMigration" ||
      g.2 == "RegisterValidatorAlias" || g.2 == "RegisterValidatorTag" || g == ("smtpx.currentSender", "SetSender")) = true := by
  decide

end GoflowModel.Props.C09
