import GoflowModel.Engine.ResultSpecs
/-!
# C20 — merging the extracted results loses nothing

Inspection lists a flow's results by merging what its actions and routers declare (`flows.NewResultSpecs`).  For every
list of extracted results: every key is listed; every category any of them declares is listed under its key (up to case,
which is how the merge compares); every node is listed under the key; and no key is listed twice.  Together with
`results_declared` (each action and router declares what it saves) this is "every result a run saves appears in the
inspection's results under the same key, its category among the listed ones".
-/
namespace GoflowModel.Props.C20Specs
open GoflowModel.ResultSpecs

/-- what a list of specs covers of one extracted result -/
def Covers (lower : String → String) (specs : List Spec) (r : Extracted) : Prop :=
  ∃ s ∈ specs, s.key = r.key ∧ (∀ c ∈ r.cats, hasCat lower s.cats c = true) ∧ r.node ∈ s.nodes

theorem hasCat_append (lower : String → String) (cs more : List String) (c : String) (h : hasCat lower cs c = true) :
    hasCat lower (cs ++ more) c = true := by
  unfold hasCat at *; simp only [List.any_append, h, Bool.true_or]

theorem hasCat_self (lower : String → String) (cs : List String) (c : String) : hasCat lower (cs ++ [c]) c = true := by
  unfold hasCat; simp

/-- `addCats` keeps what the list has … -/
theorem addCats_keeps (lower : String → String) (new cs : List String) (c : String) (h : hasCat lower cs c = true) :
    hasCat lower (addCats lower cs new) c = true := by
  induction new generalizing cs with
  | nil => exact h
  | cons x rest ih =>
    simp only [addCats]
    apply ih
    split
    · exact h
    · exact hasCat_append lower cs [x] c h

/-- … and has every new category afterwards -/
theorem addCats_has (lower : String → String) (new cs : List String) : ∀ c ∈ new, hasCat lower (addCats lower cs new) c = true := by
  induction new generalizing cs with
  | nil => intro c hc; cases hc
  | cons x rest ih =>
    intro c hc
    simp only [addCats]
    rcases List.mem_cons.1 hc with rfl | hc
    · apply addCats_keeps
      split
      · assumption
      · exact hasCat_self lower cs c
    · exact ih _ c hc

theorem mergeInto_covers_new (lower : String → String) (s : Spec) (r : Extracted) (hk : s.key = r.key) :
    Covers lower [mergeInto lower s r] r := by
  refine ⟨mergeInto lower s r, by simp, hk, addCats_has lower r.cats s.cats, ?_⟩
  simp only [mergeInto]
  split
  · rename_i h; simpa using h
  · simp

/-- merging keeps what the spec covered of an earlier result -/
theorem mergeInto_keeps (lower : String → String) (s : Spec) (r r0 : Extracted)
    (h : s.key = r0.key ∧ (∀ c ∈ r0.cats, hasCat lower s.cats c = true) ∧ r0.node ∈ s.nodes) :
    (mergeInto lower s r).key = r0.key ∧ (∀ c ∈ r0.cats, hasCat lower (mergeInto lower s r).cats c = true) ∧ r0.node ∈ (mergeInto lower s r).nodes := by
  refine ⟨h.1, fun c hc => addCats_keeps lower r.cats s.cats c (h.2.1 c hc), ?_⟩
  simp only [mergeInto]
  split
  · exact h.2.2
  · exact List.mem_append_left _ h.2.2

theorem step_covers_new (lower : String → String) (specs : List Spec) (r : Extracted) : Covers lower (step lower specs r) r := by
  induction specs with
  | nil =>
    refine ⟨⟨r.key, r.name, r.cats, [r.node]⟩, by simp [step], rfl, ?_, by simp⟩
    intro c hc
    unfold hasCat
    simp only [List.any_eq_true]
    exact ⟨c, hc, by simp⟩
  | cons s rest ih =>
    simp only [step]
    split
    · rename_i hk
      obtain ⟨t, ht, h⟩ := mergeInto_covers_new lower s r hk
      exact ⟨t, by simp at ht; simp [ht], h⟩
    · obtain ⟨t, ht, h⟩ := ih
      exact ⟨t, List.mem_cons_of_mem _ ht, h⟩

theorem step_keeps (lower : String → String) (specs : List Spec) (r r0 : Extracted) (h : Covers lower specs r0) :
    Covers lower (step lower specs r) r0 := by
  induction specs with
  | nil => obtain ⟨t, ht, _⟩ := h; cases ht
  | cons s rest ih =>
    obtain ⟨t, ht, hcov⟩ := h
    simp only [step]
    split
    · rcases List.mem_cons.1 ht with rfl | ht
      · exact ⟨_, by simp, mergeInto_keeps lower t r r0 hcov⟩
      · exact ⟨t, List.mem_cons_of_mem _ ht, hcov⟩
    · rcases List.mem_cons.1 ht with rfl | ht
      · exact ⟨t, by simp, hcov⟩
      · obtain ⟨u, hu, hc⟩ := ih ⟨t, ht, hcov⟩
        exact ⟨u, List.mem_cons_of_mem _ hu, hc⟩

theorem foldl_covers (lower : String → String) (rs : List Extracted) (specs : List Spec) (r0 : Extracted)
    (h : Covers lower specs r0 ∨ r0 ∈ rs) : Covers lower (rs.foldl (step lower) specs) r0 := by
  induction rs generalizing specs with
  | nil =>
    rcases h with h | h
    · exact h
    · cases h
  | cons r rest ih =>
    simp only [List.foldl_cons]
    apply ih
    rcases h with h | h
    · exact Or.inl (step_keeps lower specs r r0 h)
    · rcases List.mem_cons.1 h with rfl | h
      · exact Or.inl (step_covers_new lower specs r0)
      · exact Or.inr h

/-- **Nothing is lost in the merge**: for every extracted result, the inspection's results have a spec with its key that
lists every one of its categories (up to case) and its node. -/
theorem merge_loses_nothing (lower : String → String) (rs : List Extracted) :
    ∀ r ∈ rs, Covers lower (newResultSpecs lower rs) r :=
  fun r hr => foldl_covers lower rs [] r (Or.inr hr)

/-! ### no key is listed twice -/

theorem step_keys (lower : String → String) (specs : List Spec) (r : Extracted) :
    (step lower specs r).map (·.key) = if r.key ∈ specs.map (·.key) then specs.map (·.key) else specs.map (·.key) ++ [r.key] := by
  induction specs with
  | nil => simp [step]
  | cons s rest ih =>
    simp only [step]
    split
    · rename_i hk; simp [mergeInto, hk]
    · rename_i hk
      simp only [List.map_cons, ih, List.mem_cons]
      have : ¬ r.key = s.key := fun h => hk h.symm
      split <;> simp_all

theorem step_nodup (lower : String → String) (specs : List Spec) (r : Extracted) (h : (specs.map (·.key)).Nodup) :
    ((step lower specs r).map (·.key)).Nodup := by
  rw [step_keys]
  split
  · exact h
  · rename_i hn
    exact List.nodup_append.2 ⟨h, by simp, by intro a ha b hb; simp at hb; subst hb; intro hab; exact hn (hab ▸ ha)⟩

/-- **No key is listed twice.** -/
theorem keys_distinct (lower : String → String) (rs : List Extracted) : ((newResultSpecs lower rs).map (·.key)).Nodup := by
  unfold newResultSpecs
  suffices h : ∀ specs : List Spec, (specs.map (·.key)).Nodup → ((rs.foldl (step lower) specs).map (·.key)).Nodup from h [] (by simp)
  induction rs with
  | nil => intro specs h; exact h
  | cons r rest ih => intro specs h; exact ih _ (step_nodup lower specs r h)

/-- a router and an action of one node declaring the same key with different categories (the case of seeded change
`c20-result-categories-same-node`): all three categories are listed -/
example : (newResultSpecs id [⟨1, 1, ["Pending"], 7⟩, ⟨1, 1, ["Known", "Other"], 7⟩]) = [⟨1, 1, ["Pending", "Known", "Other"], [7]⟩] := by decide

end GoflowModel.Props.C20Specs
