import GoflowModel.Lemmas.EngineSteps
import GoflowModel.Lemmas.EngineTerm
import GoflowModel.Engine.Truncate
import GoflowModel.Gen.Engine
import GoflowModel.Props.C10
import GoflowModel.Props.C01
/-!
# C05 — Sprints terminate within the configured limits

Engine model as in C01.  Proved here, for every asset list, oracle, option value and history:
the number of steps a call creates never exceeds `max 0 MaxStepsPerSprint` (also when the call
returns a Go error); a resume attempted when the number of waits has reached
`MaxResumesPerSession` does nothing but fail the session; the truncation functions respect
their limits for **every** limit value (the `none` = panic case of `TruncateEllipsis` is
unreachable from `templateTruncate`).

Termination itself: the model's loop takes fuel, and `start_terminates` / `resume_terminates`
prove that the fuel `fuelFor` always suffices — for every graph (cycles, mutual and terminal
enters, empty and missing flows), every oracle and every option value, including zero and
negative step limits.  The measure: visiting a node uses up one of the `MaxStepsPerSprint`
steps; finishing a run moves to a run created earlier; past the limit only the unwinding of the
failed run's ancestors is left.  `start_limit_fails` / `resume_limit_fails`: a call in which some
iteration wants to go on but has used up its steps can only end with a failed session whose
sprint holds a failure event — never with a Go error caused by the limit, never by hanging.
The implementation's own termination is watched by the monitors under a wall-clock budget.
-/
namespace GoflowModel.Props.C05
open GoflowModel.Engine GoflowModel.Truncate

/-- A start creates at most `max 0 MaxStepsPerSprint` steps, whatever it returns. -/
theorem start_steps_bounded (a : Assets) (o : Opts) (orc : Oracle) (st : St)
    (h : start a o orc = .ok st ∨ start a o orc = .goErr st) :
    totalSteps st.s ≤ (max 0 o.maxSteps).toNat := by
  have := start_steps a o orc
  rcases h with h | h <;> rw [h] at this <;> exact this

/-- A resume adds at most `max 0 MaxStepsPerSprint` steps to the session, whatever it returns. -/
theorem resume_steps_bounded (a : Assets) (o : Opts) (orc : Oracle) (s : Session) (k : ResumeKind) (st : St)
    (h : resume a o orc s k = .ok st ∨ resume a o orc s k = .goErr st) :
    totalSteps st.s ≤ totalSteps s + (max 0 o.maxSteps).toNat := by
  have := resume_steps a o orc s k
  rcases h with h | h <;> rw [h] at this <;> exact this

/-- non-vacuity: with `MaxStepsPerSprint = 1` a self-looping node is visited once -/
example : ∃ st, start [some ⟨[⟨[some 0], false, none⟩]⟩] ⟨1, 500⟩
    { initEvents := [], initErr := false, initFlow := 0, applyBase := [], applyGroups := [],
      visit := fun _ _ => some ⟨[], none, .done, false, .exit (some 0)⟩, late := fun _ _ => none } = .ok st ∧
    totalSteps st.s = 1 ∧ st.s.status = .failed := by
  refine ⟨_, rfl, ?_, ?_⟩ <;> decide

/-- Once the waits logged in a session have reached `MaxResumesPerSession`, a resume is not
carried out: the session is failed (with a failure event), nothing else happens. -/
theorem resume_refused_at_limit (a : Assets) (o : Opts) (orc : Oracle) (s : Session) (k : ResumeKind) (w : Nat)
    (hs : s.status = .waiting) (hw : waitingRun s = some w)
    (hlim : (countWaits s : Int) ≥ o.maxResumes) :
    resume a o orc s k = .ok (failSession ⟨s, []⟩ w) :=
  C10.unrecoverable_fails a o orc s k w hs hw (Or.inr (Or.inl hlim))

/-- size limits: `Truncate` never exceeds its limit, for every limit -/
theorem truncate_len (s : List Char) (n : Nat) : (truncate s n).length ≤ n := by
  unfold truncate; split <;> simp_all <;> omega

/-- `TruncateEllipsis` respects the limit whenever it does not panic, and panics exactly when
`limit < 3` and the text is longer than the limit -/
theorem truncateEllipsis_len (s : List Char) (n : Nat) (t : List Char) (h : truncateEllipsis s n = some t) :
    t.length ≤ n := by
  unfold truncateEllipsis at h
  split at h
  · cases h; assumption
  · split at h
    · cases h
    · cases h; simp; omega

theorem truncateEllipsis_panics_iff (s : List Char) (n : Nat) :
    truncateEllipsis s n = none ↔ (n < s.length ∧ n < 3) := by
  unfold truncateEllipsis
  split
  · simp; omega
  · split <;> simp <;> omega

/-- the evaluated-template limit as applied by the engine: never a panic, never longer than
`MaxTemplateChars`, for every option value (negative values are clamped to zero) -/
theorem template_bounded (s : List Char) (maxTemplateChars : Int) :
    ∃ t, templateTruncate s (clampLimit maxTemplateChars) = some t ∧ t.length ≤ clampLimit maxTemplateChars := by
  unfold templateTruncate
  split
  · rename_i h
    cases ht : truncateEllipsis s (clampLimit maxTemplateChars) with
    | none => rw [truncateEllipsis_panics_iff] at ht; omega
    | some t => exact ⟨t, rfl, truncateEllipsis_len _ _ _ ht⟩
  · exact ⟨_, rfl, truncate_len _ _⟩

/-- quick replies: the constant limit 64 leaves room for the ellipsis -/
theorem quick_reply_bounded (s : List Char) :
    ∃ t, truncateEllipsis s maxQuickReplyLength = some t ∧ t.length ≤ 64 := by
  cases ht : truncateEllipsis s maxQuickReplyLength with
  | none => rw [truncateEllipsis_panics_iff] at ht; simp [maxQuickReplyLength] at ht
  | some t => exact ⟨t, rfl, truncateEllipsis_len _ _ _ ht⟩

/-- the defect repaired by the `fix:` commit: before it, `TruncateEllipsis` was applied for
every limit — e.g. `MaxTemplateChars = 2` panicked on a three-character text -/
theorem ellipsis_small_limit_witness : truncateEllipsis ['a', 'b', 'c'] 2 = none := by decide

/-- A start terminates: the fuel the model gives its loop always suffices. -/
theorem start_terminates (a : Assets) (o : Opts) (orc : Oracle) : start a o orc ≠ .outOfFuel :=
  Engine.start_terminates a o orc

/-- A resume of any session the engine can have handed back terminates. -/
theorem resume_terminates (a : Assets) (o : Opts) (orc : Oracle) (s : Session) (k : ResumeKind)
    (h : C01.Reachable a o s) : resume a o orc s k ≠ .outOfFuel := by
  have hw := C01.reachable_wellformed a o s h
  exact Engine.resume_terminates a o orc s k hw.2.1 hw.2.2 (C01.reachable_chain a o s h).1

/-- whether a start hits the step limit: some iteration of its loop has a node to go to and no
step left -/
def startLoop (orc : Oracle) : Loop :=
  { st := { s := { emptySession with pushed := some ⟨orc.initFlow, false⟩ },
            sp := (logSprintOnly ⟨emptySession, []⟩ orc.initEvents).sp },
    cur := none, exit := none, step := none, n := 0 }

def startHitsLimit (a : Assets) (o : Opts) (orc : Oracle) : Bool :=
  !orc.initErr && hitsLimit a o orc (fuelFor o emptySession) (startLoop orc)

/-- Hitting the limit ends the session as failed, with a failure event in the sprint. -/
theorem start_limit_fails (a : Assets) (o : Opts) (orc : Oracle) (st : St)
    (hh : startHitsLimit a o orc = true) (h : start a o orc = .ok st) :
    st.s.status = .failed ∧ ∃ se ∈ st.sp, se.ev.kind = failureKind := by
  unfold startHitsLimit at hh
  simp only [Bool.and_eq_true, Bool.not_eq_true'] at hh
  unfold start at h
  simp only [hh.1, Bool.false_eq_true, if_false] at h
  refine loop_hitsLimit a o orc 0 _ (startLoop orc) ?_ ?_ (LT_init o (startLoop orc) rfl (fun _ => rfl)) hh.2 st h
  · refine ⟨?_, ?_, by simp [startLoop]⟩
    · unfold SessOK; intro i x hx; simp [startLoop, emptySession] at hx
    · simp [startLoop, emptySession]
  · refine ⟨?_, by simp [startLoop]⟩
    simp [PBC, parents, startLoop, emptySession]

/-- The same for a resume of any session the engine can have handed back: `resumeLoop` is the
loop the resume enters once the resume has been accepted and applied. -/
theorem resume_limit_fails (a : Assets) (o : Opts) (orc : Oracle) (s : Session) (k : ResumeKind) (st : St)
    (hr : C01.Reachable a o s) (fuel : Nat) (l : Loop) (hl : resumeLoop a o orc s k = some (fuel, l))
    (hh : hitsLimit a o orc fuel l = true) (h : resume a o orc s k = .ok st) :
    st.s.status = .failed ∧ ∃ se ∈ st.sp, se.ev.kind = failureKind := by
  have hw := C01.reachable_wellformed a o s hr
  obtain ⟨h1, h2, h3, _⟩ := resumeLoop_inv a o orc s k fuel l hw.2.1 hw.2.2 (C01.reachable_chain a o s hr).1 hl
  rw [resume_eq_loop a o orc s k fuel l hl] at h
  exact loop_hitsLimit a o orc _ fuel l h1 h2 h3 hh st h

/-- non-vacuity: with `MaxStepsPerSprint = 1` the self-looping node hits the limit, and the
session ends failed -/
example : startHitsLimit [some ⟨[⟨[some 0], false, none⟩]⟩] ⟨1, 500⟩
    { initEvents := [], initErr := false, initFlow := 0, applyBase := [], applyGroups := [],
      visit := fun _ _ => some ⟨[], none, .done, false, .exit (some 0)⟩, late := fun _ _ => none } = true := by
  decide

/-- tie to the source: the option defaults the model assumes are the engine's -/
theorem option_defaults_as_modelled :
    Gen.Engine.defaultMaxSteps = 100 ∧ Gen.Engine.defaultMaxResumes = 500 ∧
    Gen.Engine.defaultMaxTemplateChars = 10000 ∧ Gen.Engine.defaultMaxFieldChars = 640 ∧
    Gen.Engine.defaultMaxResultChars = 640 := by decide

end GoflowModel.Props.C05
