import GoflowModel.Lemmas.Engine
import GoflowModel.Gen.Engine
/-!
# C10 — A rejected resume leaves the session untouched

Because the engine model preserves mutation order, `resume` returns the state *as mutated at
the point of return*; the theorems below are about that state.
-/
namespace GoflowModel.Props.C10
open GoflowModel.Engine

theorem iter_no_engineErr (a : Assets) (o : Opts) (orc : Oracle) (l : Loop) (c : Nat) (st : St) :
    iter a o orc l ≠ .inr (.engineErr c st) := by
  unfold iter noDest goDest
  simp only
  repeat' split
  all_goals simp

theorem loop_no_engineErr (a : Assets) (o : Opts) (orc : Oracle) (fuel : Nat) (l : Loop) (c : Nat) (st : St) :
    loop a o orc fuel l ≠ .engineErr c st := by
  induction fuel generalizing l with
  | zero => simp [loop]
  | succ fuel ih =>
    simp only [loop]
    split
    · exact ih _
    · rename_i r heq
      intro e; subst e
      exact iter_no_engineErr a o orc l c st heq

/-- A resume rejected with an engine error — session not waiting (101), no waiting run (102),
resume not accepted by the wait (103) — returns the session **exactly** as it was, with an
empty sprint: no event, no status change, nothing to undo before retrying. -/
theorem reject_untouched (a : Assets) (o : Opts) (orc : Oracle) (s : Session) (k : ResumeKind)
    (c : Nat) (st : St) (h : resume a o orc s k = .engineErr c st) :
    st.s = s ∧ st.sp = [] ∧ (c = 101 ∨ c = 102 ∨ c = 103) := by
  unfold resume at h
  simp only at h
  split at h
  · cases h; exact ⟨rfl, rfl, Or.inl rfl⟩
  · split at h
    · cases h; exact ⟨rfl, rfl, Or.inr (Or.inl rfl)⟩
    · split at h
      · cases h
      · split at h
        · cases h
        · split at h
          · cases h
          · split at h
            · cases h
            · split at h
              · cases h; exact ⟨rfl, rfl, Or.inr (Or.inr rfl)⟩
              · split at h
                · cases h
                · cases h
                · exact absurd h (loop_no_engineErr _ _ _ _ _ _ _)

/-- which resumes are rejected: exactly those the wait does not accept (when resumption is
otherwise possible) -/
theorem rejected_iff_not_accepted (a : Assets) (o : Opts) (orc : Oracle) (s : Session) (k : ResumeKind)
    (w : Nat) (step : StepRef) (node : Node) (wk : WaitKind)
    (hs : s.status = .waiting) (hw : waitingRun s = some w)
    (hf : (getFlow a (((s.runs[w]?).map (·.flow)).getD 0)).isNone = false)
    (hc : ¬ ((countWaits s : Int) ≥ o.maxResumes))
    (hl : pathLocation a s w = some (step, node))
    (hwait : (if node.hasRouter then node.wait else none) = some wk) :
    (∃ st, resume a o orc s k = .engineErr 103 st) ↔ accepts wk k = false := by
  unfold resume
  simp only [hs, hw, hf, hc, hl, hwait]
  simp only [ne_eq, not_true_eq_false, if_false, Bool.false_eq_true]
  cases hacc : accepts wk k with
  | true =>
    simp only [Bool.not_true, Bool.false_eq_true, if_false]
    constructor
    · rintro ⟨st, h⟩
      split at h
      · cases h
      · cases h
      · exact absurd h (loop_no_engineErr _ _ _ _ _ _ _)
    · intro h; cases h
  | false => simp

/-- Conditions that make resumption impossible end the session as failed — never a Go error:
missing flow asset, resume limit reached, a waiting node that no longer exists, a node without
a wait.  The result is the `failSession` state: a failure event on the waiting run and in the
sprint, every run that was active or waiting now failed, session failed. -/
theorem unrecoverable_fails (a : Assets) (o : Opts) (orc : Oracle) (s : Session) (k : ResumeKind) (w : Nat)
    (hs : s.status = .waiting) (hw : waitingRun s = some w)
    (hbad : (getFlow a (((s.runs[w]?).map (·.flow)).getD 0)).isNone = true ∨
            ((countWaits s : Int) ≥ o.maxResumes) ∨
            pathLocation a s w = none ∨
            (∃ step node, pathLocation a s w = some (step, node) ∧ (if node.hasRouter then node.wait else none) = none)) :
    resume a o orc s k = .ok (failSession ⟨s, []⟩ w) := by
  unfold resume
  simp only [hs, hw, ne_eq, not_true_eq_false, if_false]
  by_cases h1 : (getFlow a (((s.runs[w]?).map (·.flow)).getD 0)).isNone = true
  · simp [h1]
  · simp only [h1, Bool.false_eq_true, if_false]
    by_cases h2 : (countWaits s : Int) ≥ o.maxResumes
    · simp [h2]
    · simp only [h2, if_false]
      rcases hbad with h | h | h | ⟨step, node, h, hn⟩
      · exact absurd h h1
      · exact absurd h h2
      · simp [h]
      · simp [h, hn]

/-- what `failSession` leaves behind -/
theorem failSession_state (st : St) (w : Nat) :
    (failSession st w).s.status = .failed ∧
    (∀ (i : Nat) (x : Run), (failSession st w).s.runs[i]? = some x → x.status ≠ .active ∧ x.status ≠ .waiting) ∧
    (failSession st w).sp = st.sp ++ [⟨some w, ⟨failureKind, false, none⟩⟩] := by
  refine ⟨rfl, ?_, rfl⟩
  intro i x hx
  simp only [failSession, List.getElem?_map] at hx
  cases hi : (failRun st w none).s.runs[i]? with
  | none => simp [hi] at hx
  | some y =>
    simp only [hi, Option.map_some, Option.some.injEq] at hx
    subst hx
    split
    · simp
    · rename_i hn; simp only [not_or] at hn; exact hn

/-- tie to the source: the model's `accepts` is the table `Wait.Accepts` answers with
(regenerated by asking the linked code on every run) -/
def waitOf : String → Option WaitKind
  | "msg" => some (.msg false) | "msg+timeout" => some (.msg true) | "dial" => some .dial | _ => none
def resumeOf : String → Option ResumeKind
  | "msg" => some .msg | "wait_timeout" => some .timeout | "run_expiration" => some .expiration
  | "dial" => some .dial | _ => none

theorem accepts_matches_source :
    Gen.Engine.accepts.all (fun row =>
      match waitOf row.1, resumeOf row.2.1 with
      | some w, some r => accepts w r == row.2.2
      | _, _ => false) = true ∧ Gen.Engine.accepts.length = 12 ∧
    Gen.Engine.errorCodes = [101, 102, 103] := by decide

end GoflowModel.Props.C10
