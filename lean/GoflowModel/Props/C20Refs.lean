import GoflowModel.Engine.InspectRefs
import GoflowModel.Gen.ContextDoc
/-!
# C20 — references to contact fields and globals in templates

The part of "every fixed asset a run's templates touch is listed as a dependency" that is decided by
where inspection looks: a template reaches a contact's field values through every path of the
documented expression context that ends in a `fields` object, and a global through every path that
ends in the `globals` object.  From the regenerated context documentation (`@context` doc comments)
and the regenerated table `fieldRefPaths`:

* every documented path to a `fields` object is in the table (`documented_field_paths_recognised`),
  and the table has no entry the documentation does not know (`recognised_paths_documented`);
* the table before the repair F-C20-c missed one (`old_table_missed_run_contact`);
* for every table entry written in any case and every key, the path is classified as a reference to
  the field of that key, lower-cased (`field_ref_found`, for every key: not a table look-up);
* globals are reached through `globals` alone, which is what the classification tests.
-/
namespace GoflowModel.Props.C20Refs
open GoflowModel.InspectRefs GoflowModel.Gen

/-- **Every documented way to a contact's field values is one inspection recognises.** -/
theorem documented_field_paths_recognised :
    (pathsTo ContextDoc.types "fields" 8 "root").all (fun p => ContextDoc.fieldRefPaths.contains p) = true := by decide

/-- … and inspection recognises no path the documented context does not have -/
theorem recognised_paths_documented :
    ContextDoc.fieldRefPaths.all (fun p => (pathsTo ContextDoc.types "fields" 8 "root").contains p) = true := by decide

/-- the depth bound loses nothing: no path is longer than three properties -/
theorem field_paths_short : (pathsTo ContextDoc.types "fields" 8 "root").all (fun p => p.length ≤ 3) = true := by decide

/-- the table as it was before F-C20-c was repaired does not cover the documented context -/
theorem old_table_missed_run_contact :
    (pathsTo ContextDoc.types "fields" 8 "root").all
      (fun p => [["fields"], ["contact", "fields"], ["parent", "fields"], ["parent", "contact", "fields"], ["child", "fields"],
        ["child", "contact", "fields"]].contains p) = false := by decide

/-- **Globals are reached through `globals` alone.** -/
theorem globals_only_top_level : pathsTo ContextDoc.types "globals" 8 "root" = [["globals"]] := by decide

/-- the first table entry that matches gives the key; any other that matches gives the same -/
theorem isFieldRefPath_found (table : List (List String)) (lower : String → String) (p' : List String) (k : String)
    (hmem : p'.map lower ∈ table) : isFieldRefPath table lower (p' ++ [k]) = some (lower k) := by
  unfold isFieldRefPath
  induction table with
  | nil => cases hmem
  | cons q rest ih =>
    simp only [List.findSome?_cons]
    by_cases hq : (p' ++ [k]).length = q.length + 1 ∧ ((p' ++ [k]).take q.length).map lower = q
    · rw [if_pos hq]
      have hlen : p'.length = q.length := by
        have := hq.1; simp only [List.length_append, List.length_singleton] at this; omega
      have : (p' ++ [k]).drop q.length = [k] := by
        rw [← hlen]; simp
      simp [this]
    · rw [if_neg hq]
      simp only []
      rcases List.mem_cons.1 hmem with h | h
      · exfalso
        apply hq
        constructor
        · rw [← h]; simp
        · rw [← h]; simp
      · exact ih h

/-- no table entry starts with `globals`, is `parent` alone, or starts with `parent.results`: the two
earlier branches of the classification never take a path the table is meant for -/
theorem table_entries_reach_the_field_branch :
    ContextDoc.fieldRefPaths.all (fun q => q.head? != some "globals" && !(q.head? == some "parent" && q[1]? == some "results") &&
      !(q == ["parent"]) && !(q == [])) = true := by decide

/-- **A path that is a table entry (written in any case) followed by a key is a reference to the
field of that key**, for every key and every `lower`. -/
theorem field_ref_found (lower : String → String) (p' : List String) (k : String)
    (hmem : p'.map lower ∈ ContextDoc.fieldRefPaths) :
    classify ContextDoc.fieldRefPaths lower (p' ++ [k]) = .field (lower k) := by
  have hf := isFieldRefPath_found ContextDoc.fieldRefPaths lower p' k hmem
  have hq := (List.all_eq_true.1 table_entries_reach_the_field_branch) _ hmem
  simp only [Bool.and_eq_true, bne_iff_ne, ne_eq, Bool.not_eq_true', beq_eq_false_iff_ne, Bool.and_eq_false_iff] at hq
  obtain ⟨⟨⟨hg, hp⟩, hpar⟩, hne⟩ := hq
  cases p' with
  | nil => simp at hne
  | cons a t =>
    have hga : lower a ≠ "globals" := by
      intro h; apply hg; simp [h]
    cases t with
    | nil =>
      simp only [List.cons_append, List.nil_append] at hf ⊢
      have hpa : lower a ≠ "parent" := by
        intro h; apply hpar; simp [h]
      unfold classify
      simp only [hga, if_false]
      rw [if_neg (by intro h; exact hpa h.1), hf]
    | cons b t' =>
      simp only [List.cons_append] at hf ⊢
      have hpa : ¬(lower a = "parent" ∧ lower b = "results") := by
        intro h
        rcases hp with h1 | h1
        · apply h1; simp [h.1]
        · apply h1; simp [h.2]
      unfold classify
      simp only [hga, if_false]
      rw [if_neg (by intro h; exact hpa ⟨h.1, h.2.1⟩), hf]

/-- **… also when the chain goes on after the key** (`@fields.age.foo`, `@(contact.fields.joined.year)`): the parser reports
every prefix of the chain, the one that ends in the key among them. -/
theorem chain_reports_field (lower : String → String) (p' : List String) (k : String) (more : List String)
    (hmem : p'.map lower ∈ ContextDoc.fieldRefPaths) :
    Ref.field (lower k) ∈ chainRefs ContextDoc.fieldRefPaths lower (p' ++ k :: more) := by
  unfold chainRefs
  rw [List.mem_filter]
  refine ⟨?_, by simp⟩
  rw [List.mem_map]
  refine ⟨p'.length, ?_, ?_⟩
  · simp [List.mem_range]
  · have : ∀ (q : List String), (q ++ k :: more).take (q.length + 1) = q ++ [k] := by
      intro q
      induction q with
      | nil => simp
      | cons a t ih => simp [ih]
    have := this p'
    rw [this]
    exact field_ref_found lower p' k hmem

/-- the premises are met: `@RUN.Contact.fields.Age` with ASCII lower-casing of these very words -/
example : (["run", "contact", "fields"] : List String) ∈ ContextDoc.fieldRefPaths := by decide

end GoflowModel.Props.C20Refs
