import GoflowModel.Props.C16Steps
/-!
# C16 — 13.4 followed by 13.5 carries a template's variables, and their translations, over

The two migrations re-shape the `templating` object of a `send_msg` action twice (variables → one
`body` component with params → `template_variables` on the action).  What the message will be sent
with must not change on the way: for every action, every list of variables and every translation of
them, after both steps `template_variables` holds the variables (as strings) and the language's
translation of `template_variables` under the action's UUID is the translation `variables` had under
the templating's UUID.
-/
namespace GoflowModel.Props.C16Vars
open GoflowModel.Json GoflowModel.Migrate GoflowModel.Migrate.Steps GoflowModel.Props.C16Steps

/-- **The variables arrive**: a `send_msg` action with a templating object, migrated by 13.4 and then
13.5 (any generated UUID, any localization), has `template_variables` = its variables as strings, and
`template` = the templating's template. -/
theorem variables_carried (gen : Nat → Str) (s : Nat × Option JO) (loc5 : Option JO) (a t : JO)
    (ht : isType "send_msg" a = true) (h : get "templating".toList a = some (.obj t)) :
    let a4 := (act13_4 gen s a).2
    get "template_variables".toList (act13_5 loc5 a4).2 = some (.arr (strArr (strs (varsOf t)))) ∧
    get "template".toList (act13_5 loc5 a4).2 = some ((get "template".toList t).getD .null) := by
  intro a4
  obtain ⟨t', h1, _, _, h4⟩ := act13_4_shape gen s a t ht h
  have ht4 : isType "send_msg" a4 = true := by
    show isType "send_msg" (act13_4 gen s a).2 = true
    unfold act13_4
    rw [if_pos ht, h]
    simp only []
    unfold isType at ht ⊢
    rw [get_set_ne _ _ _ (by decide)]
    exact ht
  have hshape := act13_5_shape loc5 a4 t' ht4 h1
  refine ⟨?_, ?_⟩
  · rw [hshape.2.2, h4]
    simp [compsOf, Steps.get]
  · rw [hshape.2.1]
    -- the template member of the templating object is not touched by 13.4
    have : get "template".toList t' = get "template".toList t := by
      have hh : get "templating".toList (act13_4 gen s a).2 = some (.obj t') := h1
      unfold act13_4 at hh
      rw [if_pos ht, h] at hh
      simp only [] at hh
      rw [get_set_eq] at hh
      cases hh
      rw [get_del_ne _ _ (by decide), get_del_ne _ _ (by decide), get_set_ne _ _ _ (by decide)]
    rw [this]

/-- **From 13.0 to 13.5**: a `send_msg` action with a templating object that goes through 13.1 (a UUID is put on the templating
object), 13.4 and 13.5 ends with `template_variables` = the variables it started with, as strings, and `template` = the templating's
template — whatever UUIDs are generated and whatever the localization holds. -/
theorem variables_carried_from_13_0 (gen : Nat → Str) (n : Nat) (s : Nat × Option JO) (loc5 : Option JO) (a t : JO)
    (ht : isType "send_msg" a = true) (h : get "templating".toList a = some (.obj t)) :
    let a1 := (act13_1 gen n a).2
    let a4 := (act13_4 gen s a1).2
    get "template_variables".toList (act13_5 loc5 a4).2 = some (.arr (strArr (strs (varsOf t)))) ∧
    get "template".toList (act13_5 loc5 a4).2 = some ((get "template".toList t).getD .null) := by
  intro a1 a4
  -- after 13.1: the same action with a `uuid` on the templating object
  have h1 : a1 = set "templating".toList (.obj (set "uuid".toList (.str (gen n)) t)) a := by
    show (act13_1 gen n a).2 = _
    unfold act13_1
    rw [if_pos ht, h]
  have ht1 : isType "send_msg" a1 = true := by
    rw [h1]; unfold isType at ht ⊢; rw [get_set_ne _ _ _ (by decide)]; exact ht
  have hg1 : get "templating".toList a1 = some (.obj (set "uuid".toList (.str (gen n)) t)) := by
    rw [h1]; exact get_set_eq _ _ _
  have := variables_carried gen s loc5 a1 _ ht1 hg1
  simp only [varsOf, get_set_ne _ _ _ (show "uuid".toList ≠ "variables".toList by decide),
    get_set_ne _ _ _ (show "uuid".toList ≠ "template".toList by decide)] at this
  exact this

/-! ## translations -/

theorem itGet_set (it : JO) (prop : Str) (vs : List Str) : itGet (set prop (.arr (strArr vs)) it) prop = some vs := by
  unfold itGet
  rw [get_set_eq]
  simp [strs_strArr]

theorem getTranslation_setTranslation (lt : JO) (u prop : Str) (vs : List Str) :
    getTranslation (setTranslation lt u prop vs) u prop = some vs := by
  unfold getTranslation setTranslation
  rw [get_set_eq]
  exact itGet_set _ prop vs

theorem get_deleteTranslation_ne (lt : JO) (u u' prop : Str) (h : u ≠ u') :
    get u' (deleteTranslation lt u prop) = get u' lt := by
  unfold deleteTranslation
  split
  · simp only []
    split
    · exact get_del_ne _ _ h lt
    · exact get_set_ne _ _ _ h lt
  · rfl

/-- **A language's translation of the variables arrives as the translation of `template_variables`
under the action's UUID**: `tv` translated `variables` under the templating's UUID `tu`; `body` is the
UUID 13.4 generates (not `tu`); the action's UUID
is `au`. -/
theorem translation_carried (lt : JO) (tu body au : Str) (tv ps : List Str)
    (hne : tu ≠ body)
    (htv : getTranslation lt tu "variables".toList = some tv) :
    getTranslation (lang13_5 [(body, ps)] au (lang13_4 tu body lt)) au "template_variables".toList = some tv := by
  unfold lang13_4
  rw [htv]
  simp only
  -- after 13.4 the body component's params are the translation
  have hb : getTranslation (deleteTranslation (setTranslation lt body "params".toList tv) tu "variables".toList) body "params".toList = some tv := by
    unfold getTranslation
    rw [get_deleteTranslation_ne _ _ _ _ hne]
    have := getTranslation_setTranslation lt body "params".toList tv
    unfold getTranslation at this
    exact this
  unfold lang13_5
  simp only [List.foldl_cons, List.foldl_nil, hb, List.nil_append]
  exact getTranslation_setTranslation _ au _ tv

/-- the premises are met: a French translation of two variables under the templating's UUID -/
example : getTranslation (.cons "T".toList (.obj (.cons "variables".toList (.arr (strArr ["un".toList, "deux".toList])) .nil)) .nil)
    "T".toList "variables".toList = some ["un".toList, "deux".toList] := by decide

end GoflowModel.Props.C16Vars
