import GoflowModel.Engine.Determinism
import GoflowModel.Gen.MapRanges
/-!
# C08 — Engine output is a deterministic function of its inputs

The runtime chooses the order in which a `range` over a map yields its entries.  A loop over a map
is modelled as a function of the list of entries in the order yielded; "the output does not depend
on map iteration order" is "the function gives the same result on every permutation of that list".

* Each loop shape the engine uses is proved permutation-invariant below.
* Every `range` over a map in the engine's sources is regenerated on every run (`Gen/MapRanges`,
  by type-checking the tree) with a syntactic classification of its body; `sites_accounted` is the
  obligation that each site either has one of the proved shapes or is in the reviewed list with
  the reason it cannot influence the outputs the property names.  A new order-visible loop breaks
  this obligation.
* `getFirst_order_dependent` is the witness that the pre-repair `XObject.Get` was not invariant.
-/
namespace GoflowModel.Props.C08
open GoflowModel.Determinism List

/-- collect-then-sort does not depend on the order collected in -/
theorem collectSorted_perm {α β : Type} (le : β → β → Bool) (f : α → β)
    (trans : ∀ a b c, le a b → le b c → le a c) (total : ∀ a b, le a b || le b a)
    (antisymm : ∀ a b, le a b → le b a → a = b)
    (o₁ o₂ : List α) (p : o₁ ~ o₂) : collectSorted le f o₁ = collectSorted le f o₂ := by
  unfold collectSorted
  apply Perm.eq_of_pairwise (le := fun a b => le a b = true)
  · intro a b _ _ h1 h2; exact antisymm a b h1 h2
  · exact pairwise_mergeSort trans total _
  · exact pairwise_mergeSort trans total _
  · exact (mergeSort_perm _ le).trans ((p.map f).trans (mergeSort_perm _ le).symm)

/-- visiting in key order does not depend on the order `range` yielded -/
theorem forSorted_perm {α σ : Type} (le : α → α → Bool) (step : σ → α → σ) (init : σ)
    (trans : ∀ a b c, le a b → le b c → le a c) (total : ∀ a b, le a b || le b a)
    (antisymm : ∀ a b, le a b → le b a → a = b)
    (o₁ o₂ : List α) (p : o₁ ~ o₂) : forSorted le step init o₁ = forSorted le step init o₂ := by
  have := collectSorted_perm le id trans total antisymm o₁ o₂ p
  simp only [collectSorted, List.map_id] at this
  simp only [forSorted, this]

/-- each entry writing its own key: the resulting map does not depend on the order -/
theorem writeAll_perm {V : Type} (o₁ o₂ : List (Nat × V)) (m : Nat → Option V)
    (hk : ∀ x ∈ o₁, ∀ y ∈ o₁, x.1 = y.1 → x = y) (p : o₁ ~ o₂) : writeAll o₁ m = writeAll o₂ m := by
  unfold writeAll
  apply Perm.foldl_eq' p
  intro x hx y hy z
  funext k
  by_cases hxy : x.1 = y.1
  · rw [hk x hx y hy hxy]
  · by_cases h1 : k = x.1 <;> by_cases h2 : k = y.1 <;> simp_all

/-- accumulating with an operation that commutes does not depend on the order -/
theorem accumulate_perm {α σ : Type} (op : σ → α → σ) (init : σ)
    (comm : ∀ z x y, op (op z x) y = op (op z y) x) (o₁ o₂ : List α) (p : o₁ ~ o₂) :
    accumulate op init o₁ = accumulate op init o₂ :=
  Perm.foldl_eq' p (fun x _ y _ z => comm z x y) init

/-- a search whose answer is only "is there one" does not depend on the order -/
theorem any_perm {α : Type} (q : α → Bool) (o₁ o₂ : List α) (p : o₁ ~ o₂) : o₁.any q = o₂.any q := by
  have h : ∀ l : List α, l.any q = accumulate (fun b x => b || q x) false l := by
    intro l
    have : ∀ (b : Bool), l.foldl (fun b x => b || q x) b = (b || l.any q) := by
      induction l with
      | nil => simp
      | cons a l ih => intro b; simp [ih, Bool.or_assoc]
    simp [accumulate, this]
  rw [h, h]
  exact accumulate_perm _ _ (by intro z x y; cases z <;> cases q x <;> cases q y <;> rfl) _ _ p

theorem str_trichotomy {a b : String} (h : a ≠ b) : a < b ∨ b < a := by
  by_cases h1 : a < b
  · exact Or.inl h1
  · by_cases h2 : b < a
    · exact Or.inr h2
    · exact absurd (String.le_antisymm (String.not_lt.1 h2) (String.not_lt.1 h1)) h

/-- **`XObject.Get`** (after the repair) does not depend on the order the properties are yielded
in: for every object (one value per name), every key and every two iteration orders. -/
theorem getCI_perm {V : Type} (lower : String → String) (o₁ o₂ : List (String × V)) (key : String)
    (hk : ∀ x ∈ o₁, ∀ y ∈ o₁, x.1 = y.1 → x = y) (p : o₁ ~ o₂) :
    getCI lower o₁ key = getCI lower o₂ key := by
  unfold getCI
  apply Perm.foldl_eq' p
  intro x hx y hy z
  by_cases hxy : x.1 = y.1
  · rw [hk x hx y hy hxy]
  · rcases str_trichotomy hxy with hlt | hlt
    · have hn : ¬ y.1 < x.1 := String.lt_asymm hlt
      by_cases mx : lower x.1 = lower key <;> by_cases my : lower y.1 = lower key <;> simp only [mx, my, if_true, if_false]
      cases z with
      | none => simp [hlt, hn]
      | some b =>
        by_cases hxb : x.1 < b.1 <;> by_cases hyb : y.1 < b.1 <;> simp only [hxb, hyb, hlt, hn, if_true, if_false]
        exact absurd (String.lt_trans hlt hyb) hxb
    · have hn : ¬ x.1 < y.1 := String.lt_asymm hlt
      by_cases mx : lower x.1 = lower key <;> by_cases my : lower y.1 = lower key <;> simp only [mx, my, if_true, if_false]
      cases z with
      | none => simp [hlt, hn]
      | some b =>
        by_cases hxb : x.1 < b.1 <;> by_cases hyb : y.1 < b.1 <;> simp only [hxb, hyb, hlt, hn, if_true, if_false]
        exact absurd (String.lt_trans hlt hxb) hyb

/-- the lookup before the repair was order dependent: the same object, two orders, two answers -/
def lowerFoo (s : String) : String := if s = "Foo" then "foo" else s

theorem getFirst_order_dependent :
    [("Foo", 1), ("foo", 2)] ~ [("foo", 2), ("Foo", 1)] ∧
    getFirst lowerFoo [("Foo", 1), ("foo", 2)] "foo" ≠ getFirst lowerFoo [("foo", 2), ("Foo", 1)] "foo" := by
  refine ⟨Perm.swap _ _ _, by decide⟩

/-- …and the repaired one answers the same on both -/
example : getCI lowerFoo [("Foo", 1), ("foo", 2)] "foo" = getCI lowerFoo [("foo", 2), ("Foo", 1)] "foo" := by decide

/-! ### every `range` over a map in the engine's sources -/

/-- Order-visible by syntax, reviewed by hand: (file, function, ranged expression, digest of the
loop's text as reviewed) and why the order cannot reach the outputs the property names.  An
edit to a reviewed loop changes its digest and asks for the review again.  The external service
adapters under `services/` are not scanned: what they return is an input of the engine. -/
def reviewed : List (String × String × String × String × String) := [
  ("excellent/functions/builtin.go", "init", "builtin", "edb8026612dd", "registers each function under its own name: write-each-key"),
  ("flows/routers/cases/tests.go", "init", "builtin", "28e2d20f94f3", "registers each test under its own name: write-each-key"),
  ("excellent/types/object.go", "*XObject.Get", "x.properties()", "e602c543c991", "keeps the match whose name sorts first: getCI_perm"),
  ("excellent/types/object.go", "*XObject.ensureInitialized", "props", "49af7fd454e3", "copies each property under its own name; one key is the default: write-each-key"),
  ("flows/definition/assets.go", "*flowAssets.FindByName", "a.cache", "c9c200dbb893", "first cached flow whose name matches ignoring case; flow names are unique within a workspace's assets (asset precondition)"),
  ("flows/definition/legacy/definition.go", "migrateAction", "media", "96ab62ace8a6", "rewrites media[lang] in place: write-each-key"),
  ("flows/definition/legacy/definition.go", "migrateRuleSet", "countryConfigs", "7cd9a801a3fd", "write-each-key by currency; two entries for one currency raise the same constant error in any order"),
  ("flows/definition/legacy/utils.go", "TransformTranslations", "items[i]", "f122d89718cc", "writes slot i of each language's own slice: write-each-key"),
  ("flows/definition/legacy/v13.go", "migratedLocalization.addTranslationMap", "mapped", "404377fc7906", "adds a translation under each language's own key: write-each-key"),
  ("flows/definition/legacy/v13.go", "migratedLocalization.addTranslationMultiMap", "mapped", "3d621ffa4ae5", "adds a translation under each language's own key: write-each-key"),
  ("flows/definition/localization.go", "languageTranslation.Enumerate", "t", "063887de2082", "no caller in the engine"),
  ("flows/definition/localization.go", "languageTranslation.Enumerate", "it", "3f5f17f625f3", "no caller in the engine"),
  ("flows/definition/migrations/13_x.go", "Migrate13_5", "localizedVariables", "d39a74dff870", "sets each language's own translation: write-each-key"),
  ("flows/field.go", "NewFieldValues", "values", "a40c4dc58427", "calls the host's missing-asset callback per unknown key; the callback is not one of the outputs (events, segments, session JSON)"),
  ("utils/jsonpath/path.go", "visit", "typed", "ed766070decf", "rewrites typed[k] per key with the template rewriter (its only caller, pure per value), or descends: write-each-key")
]

def isReviewed (file fn expr digest : String) : Bool :=
  reviewed.any fun r => r.1 == file && r.2.1 == fn && r.2.2.1 == expr && r.2.2.2.1 == digest

/-- **Every map iteration is accounted for.** -/
theorem sites_accounted :
    Gen.MapRanges.sites.all (fun s => s.2.2.2.2.2.1 || isReviewed s.1 s.2.1 s.2.2.1 s.2.2.2.2.2.2) = true := by
  decide

/-- the scan is not empty and still sees the sites the repairs touched, as sorted loops -/
theorem repaired_sites_sorted :
    (Gen.MapRanges.sites.filter fun s => s.2.2.2.2.1 == "sorted-after").map (fun s => (s.2.1, s.2.2.1)) ⊇
      [("*CallWebhookAction.headerNames", "a.Headers"), ("localization.Languages", "l"), ("Localization.Languages", "l"),
       ("Check", "RegisteredTypes"), ("extractTemplates", "typed"), ("*TemplateTranslation.Preview", "compVars")] := by
  decide

end GoflowModel.Props.C08
