import GoflowModel.Contact.Channel
/-!
# C03 — the channel modifier

For every list of URNs (any schemes, any existing affinities) and every channel (or none): replaying the
emitted events over the old list gives the new list; `modified` is reported exactly when the list
changed, and then with a change event; no URN is lost, duplicated or altered in anything but its
channel; and applying the same modifier again changes and reports nothing.
-/
namespace GoflowModel.Props.C03Channel
open GoflowModel.Contact.Channel

/-- the three shapes a result can have -/
theorem apply_cases (us : List CURN) (ch : Option Chan) :
    (apply us ch = ⟨update us ch, [.urnsChanged (update us ch)], true⟩ ∧ update us ch ≠ us) ∨
    (apply us ch = ⟨us, [], false⟩ ∧ update us ch = us) ∨
    (apply us ch = ⟨us, [.error], false⟩ ∧ ∃ c, ch = some c ∧ c.canSend = false) := by
  unfold apply
  cases ch with
  | none =>
    simp only []
    by_cases h : update us none ≠ us
    · left; rw [if_pos h]; exact ⟨rfl, h⟩
    · right; left; rw [if_neg h]; exact ⟨rfl, Decidable.of_not_not h⟩
  | some c =>
    simp only []
    cases hs : c.canSend with
    | false => right; right; exact ⟨by simp, c, rfl, hs⟩
    | true =>
      simp only [if_true]
      by_cases h : update us (some c) ≠ us
      · left; rw [if_pos h]; exact ⟨rfl, h⟩
      · right; left; rw [if_neg h]; exact ⟨rfl, Decidable.of_not_not h⟩

/-- **Replaying the events reproduces the contact's URNs.** -/
theorem channel_faithful (us : List CURN) (ch : Option Chan) : replay us (apply us ch).events = (apply us ch).urns := by
  rcases apply_cases us ch with ⟨h, _⟩ | ⟨h, _⟩ | ⟨h, _⟩ <;> rw [h] <;> rfl

/-- **`modified` ⇔ the list changed ⇔ a change event was emitted** -/
theorem channel_modified_iff (us : List CURN) (ch : Option Chan) :
    ((apply us ch).modified = true ↔ (apply us ch).urns ≠ us) ∧
    ((apply us ch).modified = true ↔ ∃ l, Ev.urnsChanged l ∈ (apply us ch).events) := by
  rcases apply_cases us ch with ⟨h, hne⟩ | ⟨h, _⟩ | ⟨h, _⟩ <;> rw [h]
  · exact ⟨by simpa using hne, by simp⟩
  · simp
  · simp

theorem assign_idem (ch : Chan) (u : CURN) : assign ch (assign ch u) = assign ch u := by
  unfold assign
  by_cases h : (u.scheme = tel ∧ ch.schemes.contains tel = true) ∨ (u.channel = none ∧ ch.schemes.contains u.scheme = true)
  · rw [if_pos h]
    rcases h with h | h
    · rw [if_pos (Or.inl h)]
    · by_cases h' : (u.scheme = tel ∧ ch.schemes.contains tel = true) ∨ ((some ch.id : Option Nat) = none ∧ ch.schemes.contains u.scheme = true)
      · rw [if_pos h']
      · rw [if_neg h']
  · rw [if_neg h, if_neg h]

/-- a URN is altered in nothing but its channel -/
theorem assign_keeps (ch : Chan) (u : CURN) : (assign ch u).scheme = u.scheme ∧ (assign ch u).rest = u.rest := by
  unfold assign
  split <;> exact ⟨rfl, rfl⟩

theorem filter_partition_fixed {α : Type} (p : α → Bool) (a b : List α) (ha : ∀ x ∈ a, p x = true) (hb : ∀ x ∈ b, p x = false) :
    (a ++ b).filter p ++ (a ++ b).filter (fun x => !p x) = a ++ b := by
  have h1 : (a ++ b).filter p = a := by
    rw [List.filter_append, List.filter_eq_self.2 ha, List.filter_eq_nil_iff.2 (by intro x hx; simp [hb x hx])]
    simp
  have h2 : (a ++ b).filter (fun x => !p x) = b := by
    rw [List.filter_append, List.filter_eq_nil_iff.2 (by intro x hx; simp [ha x hx]), List.filter_eq_self.2 (by intro x hx; simp [hb x hx])]
    simp
  rw [h1, h2]

theorem map_fixed {α : Type} (f : α → α) : (m : List α) → (∀ u ∈ m, f u = u) → m.map f = m
  | [], _ => rfl
  | x :: xs, hm => by
    simp only [List.map_cons]
    rw [hm x (by simp), map_fixed f xs (fun u hu => hm u (by simp [hu]))]

/-- **Applying the same channel again changes nothing.** -/
theorem update_idem (us : List CURN) (ch : Option Chan) : update (update us ch) ch = update us ch := by
  cases ch with
  | none => simp [update, List.map_map, Function.comp_def]
  | some c =>
    simp only [update]
    by_cases hs : c.canSend = true
    · simp only [hs, if_true]
      -- the list after the first application: those with the channel, then the others, all already assigned
      generalize hl : us.map (assign c) = l
      have hall : ∀ u ∈ l, assign c u = u := by
        intro u hu
        rw [← hl] at hu
        obtain ⟨v, _, rfl⟩ := List.mem_map.1 hu
        exact assign_idem c v
      have hfix : (l.filter (has c) ++ l.filter (fun u => !has c u)).map (assign c) = l.filter (has c) ++ l.filter (fun u => !has c u) := by
        apply map_fixed
        intro u hu
        rcases List.mem_append.1 hu with h | h
        · exact hall u (List.mem_filter.1 h).1
        · exact hall u (List.mem_filter.1 h).1
      rw [hfix]
      exact filter_partition_fixed (has c) _ _ (fun x hx => (List.mem_filter.1 hx).2)
        (fun x hx => by simpa using (List.mem_filter.1 hx).2)
    · simp [hs]

/-- … and reports nothing the second time -/
theorem channel_idem (us : List CURN) (ch : Option Chan) :
    (apply (apply us ch).urns ch).modified = false ∧ (apply (apply us ch).urns ch).urns = (apply us ch).urns ∧
    ∀ l, Ev.urnsChanged l ∉ (apply (apply us ch).urns ch).events := by
  -- after the first application the list is a fixed point of `update`, or the channel cannot send
  have key : update (apply us ch).urns ch = (apply us ch).urns ∨ ∃ c, ch = some c ∧ c.canSend = false := by
    rcases apply_cases us ch with ⟨h, _⟩ | ⟨h, h2⟩ | ⟨h, h2⟩ <;> rw [h]
    · left; exact update_idem us ch
    · left; exact h2
    · right; exact h2
  generalize (apply us ch).urns = w at key
  rcases apply_cases w ch with ⟨h, hne⟩ | ⟨h, _⟩ | ⟨h, _⟩
  · rcases key with key | ⟨c, hc, hs⟩
    · exact absurd key hne
    · -- a channel that cannot send never changes the list
      exfalso; apply hne; rw [hc]; simp [update, hs]
  · rw [h]; simp
  · rw [h]; simp

/-- **No URN is lost or duplicated**: the new list is a rearrangement of the old one with channels re-assigned -/
theorem update_perm (us : List CURN) (c : Chan) : (update us (some c)).Perm (if c.canSend then us.map (assign c) else us) := by
  simp only [update]
  split
  · exact List.filter_append_perm (has c) _
  · exact List.Perm.refl _

/-- the premises are met and the statements say something: a twitter URN with the channel's affinity listed after a tel URN of
another channel moves to the front (a re-ordering only — the case of seeded change `c03-channel-reorder-unreported`) -/
example : apply [⟨tel, 7, some 1⟩, ⟨1, 8, some 3⟩] (some ⟨3, true, [1]⟩) =
    ⟨[⟨1, 8, some 3⟩, ⟨tel, 7, some 1⟩], [.urnsChanged [⟨1, 8, some 3⟩, ⟨tel, 7, some 1⟩]], true⟩ := by decide

end GoflowModel.Props.C03Channel
