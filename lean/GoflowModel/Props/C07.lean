import GoflowModel.Engine.Router
import GoflowModel.Lemmas.Engine
/-!
# C07 — Routers take the exit their definition prescribes

Decision logic stated outright over `Engine/Router.lean`.  Test semantics is an oracle
(`TestOutcome` per case); all theorems quantify over every router, operand and outcome list.
-/
namespace GoflowModel.Props.C07
open GoflowModel.Router

/-- no earlier case matched -/
def NoneMatched (os : List TestOutcome) : Prop := ∀ o ∈ os, ∀ m, o ≠ .matched m

theorem matchCase_first (pre : List TestOutcome) (m : List Char) (post : List TestOutcome)
    (cs : List Nat) (h : NoneMatched pre) (hl : pre.length < cs.length) :
    matchCase cs (pre ++ .matched m :: post) = some (m, cs[pre.length]'hl) := by
  induction pre generalizing cs with
  | nil =>
    cases cs with
    | nil => simp at hl
    | cons c cs => simp [matchCase]
  | cons o pre ih =>
    cases cs with
    | nil => simp at hl
    | cons c cs =>
      have ho : ∀ m, o ≠ .matched m := h o (by simp)
      have hpre : NoneMatched pre := fun x hx => h x (by simp [hx])
      have hl' : pre.length < cs.length := by simpa using hl
      cases o with
      | matched m' => exact absurd rfl (ho m')
      | noMatch => simp only [List.cons_append, matchCase, List.length_cons, List.getElem_cons_succ]; exact ih cs hpre hl'
      | error => simp only [List.cons_append, matchCase, List.length_cons, List.getElem_cons_succ]; exact ih cs hpre hl'

theorem matchCase_none (cs : List Nat) (os : List TestOutcome) (h : NoneMatched os) :
    matchCase cs os = none := by
  induction os generalizing cs with
  | nil => cases cs <;> simp [matchCase]
  | cons o os ih =>
    have ho : ∀ m, o ≠ .matched m := h o (by simp)
    have hos : NoneMatched os := fun x hx => h x (by simp [hx])
    cases cs with
    | nil => simp [matchCase]
    | cons c cs =>
      cases o with
      | matched m' => exact absurd rfl (ho m')
      | noMatch => simp only [matchCase]; exact ih cs hos
      | error => simp only [matchCase]; exact ih cs hos

/-- A switch router leaves by the exit of the category of the **first** case, in definition
order, whose test matched — erroring and non-matching earlier cases are skipped — saving that
category's name, the test's match as value and the operand as input. -/
theorem switch_first_match (r : Switch) (operand : List Char) (pre post : List TestOutcome)
    (m : List Char) (h : NoneMatched pre) (hl : pre.length < r.cases.length) (c : Category)
    (hc : r.categories[r.cases[pre.length]'hl]? = some c) :
    routeSwitch r operand (pre ++ .matched m :: post) =
      ⟨c.exit, r.resultName.map fun n => ⟨n, m, c.name, operand⟩⟩ := by
  simp only [routeSwitch, matchCase_first pre m post r.cases h hl, routeToCategory, hc]

/-- an erroring earlier case neither matches nor stops the scan (instance of the above) -/
theorem switch_error_case_skipped (r : Switch) (operand m : List Char) (post : List TestOutcome)
    (hl : 1 < r.cases.length) (c : Category) (hc : r.categories[r.cases[1]'hl]? = some c) :
    (routeSwitch r operand (.error :: .matched m :: post)).exit = c.exit := by
  have := switch_first_match r operand [.error] post m (by intro o ho; simp at ho; subst ho; simp) hl c hc
  simpa using congrArg Routed.exit this

/-- Otherwise the default category's exit, with the operand itself as value. -/
theorem switch_default (r : Switch) (operand : List Char) (os : List TestOutcome) (h : NoneMatched os)
    (d : Nat) (hd : r.default = some d) (c : Category) (hc : r.categories[d]? = some c) :
    routeSwitch r operand os = ⟨c.exit, r.resultName.map fun n => ⟨n, operand, c.name, operand⟩⟩ := by
  simp only [routeSwitch, matchCase_none r.cases os h, hd, routeToCategory, hc]

/-- A router that selects no category selects no exit and saves nothing: the engine then fails
the run (`pickNodeExit` with `RouteChoice.noCategory`) instead of choosing arbitrarily. -/
theorem no_category_no_exit (r : Switch) (operand : List Char) (os : List TestOutcome) (h : NoneMatched os)
    (hd : r.default = none) : routeSwitch r operand os = ⟨none, none⟩ := by
  simp only [routeSwitch, matchCase_none r.cases os h, hd, routeToCategory]

open GoflowModel.Engine in
theorem no_category_fails_run (st : St) (r : Nat) (node : Node) (step : StepRef) (evs : List EvK)
    (hr : node.hasRouter = true) (x : Run) (hx : st.s.runs[r]? = some x) :
    pickNodeExit st r node step evs .noCategory =
      .ok (failRun (logEvents st r (some step) evs) r (some step)) none ∧
    runStatus (failRun (logEvents st r (some step) evs) r (some step)).s r = some .failed := by
  refine ⟨by simp [pickNodeExit, hr], ?_⟩
  unfold failRun
  rw [runStatus_logEvent]
  have hl := (logEvents_props st r (some step) evs).2.1 r
  simp only [runStatus] at hl
  rw [hx] at hl
  simp only [exitRun, runStatus_modifyRun]
  cases h : (logEvents st r (some step) evs).s.runs[r]? with
  | none => simp [h] at hl
  | some y => simp

/-- A timeout resume leaves by the wait's timeout category. -/
theorem timeout_category (cats : List Category) (rn : Option (List Char)) (t : Nat) (ts : List Char)
    (c : Category) (hc : cats[t]? = some c) :
    routeTimeout cats rn t ts = ⟨c.exit, rn.map fun n => ⟨n, ts, c.name, []⟩⟩ := by
  simp [routeTimeout, routeToCategory, hc]

/-- A random router takes category `⌊r·n⌋`, which is a valid category index for `0 ≤ r < 1`. -/
theorem random_floor (num den n : Nat) (hd : 0 < den) (hr : num < den) (hn : 0 < n) :
    randomIndex num den n < n ∧
    randomIndex num den n * den ≤ num * n ∧ num * n < (randomIndex num den n + 1) * den := by
  unfold randomIndex
  refine ⟨?_, Nat.div_mul_le_self _ _, ?_⟩
  · apply Nat.div_lt_of_lt_mul
    exact Nat.mul_lt_mul_of_pos_right hr hn
  · have := Nat.lt_mul_div_succ (num * n) hd
    rw [Nat.mul_comm den] at this; exact this

/-- A node without a router leaves by its first exit. -/
theorem no_router_first_exit (n : Nat) (h : 0 < n) : routeNoRouter n = some 0 := by
  simp [routeNoRouter]; omega

/-- the exit taken is always the selected category's own exit (`exit_is_category_exit`), and a
result is saved exactly when a result name is set and a category was selected -/
theorem routed_exit_is_category_exit (cats : List Category) (rn : Option (List Char)) (ci : Nat)
    (m op : List Char) (c : Category) (hc : cats[ci]? = some c) :
    (routeToCategory cats rn (some ci) m op).exit = c.exit ∧
    ((routeToCategory cats rn (some ci) m op).result.isSome ↔ rn.isSome) := by
  simp [routeToCategory, hc]

end GoflowModel.Props.C07
