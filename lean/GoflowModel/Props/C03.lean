import GoflowModel.Contact.Model
/-!
# C03 — Every contact change is announced by an event that reproduces it

Per modifier `k` over `Contact/Model.lean`:
`…_replay` (replaying the emitted events over the contact as it was reproduces the contact
afterwards), `…_modified_iff` (modified ⇔ the contact changed), `…_event_iff` (modified ⇔ a change
event was emitted), `…_idem` (a second application changes and reports nothing).
-/
namespace GoflowModel.Props.C03
open GoflowModel.Contact

/-- the three facts shared by every modifier -/
def Faithful (c : Contact) (o : Out) : Prop :=
  replayAll c o.events = o.contact ∧ (o.modified = true ↔ o.contact ≠ c) ∧
  (o.modified = true ↔ o.events.any Ev.isChange = true)

theorem name_faithful (c : Contact) (n : List Char) : Faithful c (applyName c n) := by
  unfold applyName Faithful
  split
  · rename_i h
    refine ⟨rfl, ?_, by simp [Ev.isChange]⟩
    simp only [true_iff]
    intro e; apply h; rw [← e]
  · simp [replayAll]

theorem name_idem (c : Contact) (n : List Char) :
    applyName (applyName c n).contact n = ⟨(applyName c n).contact, [], false⟩ := by
  unfold applyName; split <;> simp_all

theorem language_faithful (c : Contact) (l : Nat) : Faithful c (applyLanguage c l) := by
  unfold applyLanguage Faithful
  split
  · rename_i h
    refine ⟨rfl, ?_, by simp [Ev.isChange]⟩
    simp only [true_iff]
    intro e; apply h; rw [← e]
  · simp [replayAll]

theorem language_idem (c : Contact) (l : Nat) :
    applyLanguage (applyLanguage c l).contact l = ⟨(applyLanguage c l).contact, [], false⟩ := by
  unfold applyLanguage; split <;> simp_all

theorem status_faithful (c : Contact) (s : Status) : Faithful c (applyStatus c s) := by
  unfold applyStatus Faithful
  split
  · rename_i h
    refine ⟨rfl, ?_, by simp [Ev.isChange]⟩
    simp only [true_iff]
    intro e; apply h; rw [← e]
  · simp [replayAll]

theorem status_idem (c : Contact) (s : Status) :
    applyStatus (applyStatus c s).contact s = ⟨(applyStatus c s).contact, [], false⟩ := by
  unfold applyStatus; split <;> simp_all

theorem timezone_faithful (c : Contact) (t : Nat) : Faithful c (applyTimezone c t) := by
  unfold applyTimezone Faithful
  split
  · rename_i h
    refine ⟨rfl, ?_, by simp [Ev.isChange]⟩
    simp only [true_iff]
    intro e; apply h; rw [← e]
  · simp [replayAll]

theorem timezone_idem (c : Contact) (t : Nat) :
    applyTimezone (applyTimezone c t).contact t = ⟨(applyTimezone c t).contact, [], false⟩ := by
  unfold applyTimezone; split <;> simp_all

theorem ticket_faithful (c : Contact) (t : Nat) : Faithful c (applyTicket c t) := by
  unfold applyTicket Faithful
  cases h : c.ticket with
  | some x => simp [replayAll]
  | none =>
    refine ⟨rfl, ?_, by simp [Ev.isChange]⟩
    simp only [true_iff]
    intro e
    have := congrArg Contact.ticket e
    simp [h] at this

theorem ticket_idem (c : Contact) (t : Nat) :
    applyTicket (applyTicket c t).contact t = ⟨(applyTicket c t).contact, [], false⟩ := by
  unfold applyTicket
  cases h : c.ticket <;> simp [h]

theorem getField_setField (fs : List (Nat × Nat)) (k : Nat) (v : Option Nat) :
    getField (setField fs k v) k = v := by
  unfold getField setField
  have hnone : (fs.filter (·.1 ≠ k)).lookup k = none := by
    rw [List.lookup_eq_none_iff]
    intro p hp
    simp only [List.mem_filter, decide_eq_true_eq] at hp
    simp only [bne_iff_ne, ne_eq]
    exact fun e => hp.2 e.symm
  cases v with
  | none => exact hnone
  | some x => rw [List.lookup_append, hnone]; simp

theorem field_faithful (c : Contact) (k : Nat) (v : Option Nat) : Faithful c (applyField c k v) := by
  unfold applyField Faithful
  split
  · rename_i h
    refine ⟨rfl, ?_, by simp [Ev.isChange]⟩
    simp only [true_iff]
    intro e
    apply h
    have := congrArg (fun c => getField c.fields k) e
    simp only [getField_setField] at this
    exact this
  · simp [replayAll]

theorem field_idem (c : Contact) (k : Nat) (v : Option Nat) :
    applyField (applyField c k v).contact k v = ⟨(applyField c k v).contact, [], false⟩ := by
  unfold applyField
  split
  · simp only [getField_setField, ne_eq, not_true_eq_false, if_false]
  · rename_i h; simp only [if_neg h]

/-- URNs: every URN the modifier names is handled in order; error events do not change the
contact; the `contact_urns_changed` event carries the whole resulting list -/
theorem replay_errors (c : Contact) (evs : List Ev) (h : ∀ e ∈ evs, e = .error) : replayAll c evs = c := by
  induction evs generalizing c with
  | nil => rfl
  | cons e evs ih =>
    have he := h e (by simp)
    subst he
    simp only [replayAll, List.foldl_cons, replay]
    exact ih c (fun e he => h e (by simp [he]))

theorem urnsLoop_errors (m : URNsMod) (us : List URN) (l : List (Option URN)) :
    ∀ e ∈ (urnsLoop m us l).2, e = .error := by
  induction l generalizing us with
  | nil => simp [urnsLoop]
  | cons x l ih =>
    cases x with
    | none => simp only [urnsLoop]; intro e he; simp at he; rcases he with rfl | he; rfl; exact ih us e he
    | some u =>
      simp only [urnsLoop]
      cases m <;> simp only <;> exact ih _

theorem replayAll_append (c : Contact) (a b : List Ev) : replayAll c (a ++ b) = replayAll (replayAll c a) b := by
  simp [replayAll, List.foldl_append]

theorem urns_faithful (c : Contact) (m : URNsMod) (urns : List (Option URN)) :
    Faithful c (applyURNs c m urns) := by
  have herr : ∀ e ∈ (urnsResult c m urns).2, e = .error := urnsLoop_errors m _ urns
  unfold applyURNs Faithful
  split
  · rename_i h
    refine ⟨?_, ?_, ?_⟩
    · simp only; rw [replayAll_append, replay_errors c _ herr]; rfl
    · simp only [true_iff]; intro e
      exact h (by have := congrArg Contact.urns e; simpa using this)
    · simp [Ev.isChange]
  · rename_i h
    refine ⟨replay_errors c _ herr, by simp, ?_⟩
    simp only [Bool.false_eq_true, false_iff, Bool.not_eq_true]
    rw [List.any_eq_false]
    intro e he; rw [herr e he]; simp [Ev.isChange]

/-- `set` is idempotent outright: its result depends only on the modifier -/
theorem urns_set_idem (c : Contact) (urns : List (Option URN)) :
    (applyURNs (applyURNs c .set urns).contact .set urns).modified = false ∧
    (applyURNs (applyURNs c .set urns).contact .set urns).contact = (applyURNs c .set urns).contact := by
  have hr : ∀ c' : Contact, urnsResult c' .set urns = urnsResult c .set urns := by
    intro c'; simp [urnsResult]
  by_cases h : (urnsResult c .set urns).1 ≠ c.urns
  · have h1 : applyURNs c .set urns = ⟨{ c with urns := (urnsResult c .set urns).1 },
        (urnsResult c .set urns).2 ++ [.urnsChanged (urnsResult c .set urns).1], true⟩ := by
      unfold applyURNs; rw [if_pos h]
    rw [h1]
    simp only
    unfold applyURNs
    rw [hr]
    simp
  · have h1 : applyURNs c .set urns = ⟨c, (urnsResult c .set urns).2, false⟩ := by
      unfold applyURNs; rw [if_neg h]
    rw [h1]
    simp only
    rw [h1]
    simp

/-! #### append and remove are idempotent too -/

theorem hasURN_append_left (us : List URN) (x u : URN) (h : hasURN us u = true) : hasURN (us ++ [x]) u = true := by
  simp only [hasURN] at h ⊢
  simp only [List.any_append, h, Bool.true_or]

/-- appending keeps what is there -/
theorem urnsLoop_append_mono (us : List URN) (l : List (Option URN)) (u : URN) (h : hasURN us u = true) :
    hasURN (urnsLoop .append us l).1 u = true := by
  induction l generalizing us with
  | nil => simpa [urnsLoop] using h
  | cons x l ih =>
    cases x with
    | none => simp only [urnsLoop]; exact ih us h
    | some v =>
      simp only [urnsLoop]
      apply ih
      split
      · exact h
      · exact hasURN_append_left us v u h

/-- after appending, every URN of the modifier is there -/
theorem urnsLoop_append_has (us : List URN) (l : List (Option URN)) :
    ∀ u, some u ∈ l → hasURN (urnsLoop .append us l).1 u = true := by
  induction l generalizing us with
  | nil => intro u hu; cases hu
  | cons x l ih =>
    intro u hu
    cases x with
    | none =>
      simp only [urnsLoop]
      exact ih us u (by simpa using hu)
    | some v =>
      simp only [urnsLoop]
      simp only [List.mem_cons, Option.some.injEq] at hu
      rcases hu with rfl | hu
      · apply urnsLoop_append_mono
        split
        · assumption
        · simp [hasURN]
      · exact ih _ u hu

/-- appending URNs that are all there changes nothing -/
theorem urnsLoop_append_fixed (us : List URN) (l : List (Option URN))
    (h : ∀ u, some u ∈ l → hasURN us u = true) : (urnsLoop .append us l).1 = us := by
  induction l with
  | nil => rfl
  | cons x l ih =>
    cases x with
    | none => simp only [urnsLoop]; exact ih (fun u hu => h u (by simp [hu]))
    | some v =>
      simp only [urnsLoop, h v (by simp), if_true]
      exact ih (fun u hu => h u (by simp [hu]))

theorem urns_append_idem (c : Contact) (urns : List (Option URN)) :
    (applyURNs (applyURNs c .append urns).contact .append urns).modified = false ∧
    (applyURNs (applyURNs c .append urns).contact .append urns).contact = (applyURNs c .append urns).contact := by
  -- the contact after the first application has exactly the first result as its URNs
  have hfirst : (applyURNs c .append urns).contact.urns = (urnsResult c .append urns).1 := by
    unfold applyURNs
    split
    · rfl
    · rename_i h; simp only [ne_eq, Decidable.not_not] at h; exact h.symm
  have hfix : (urnsResult (applyURNs c .append urns).contact .append urns).1 = (applyURNs c .append urns).contact.urns := by
    simp only [urnsResult, reduceCtorEq, if_false]
    rw [hfirst]
    simp only [urnsResult, reduceCtorEq, if_false]
    exact urnsLoop_append_fixed _ urns (urnsLoop_append_has c.urns urns)
  generalize applyURNs c .append urns = o at hfix
  unfold applyURNs
  rw [if_neg (by simp [hfix])]
  exact ⟨rfl, rfl⟩

theorem filter_filter_id (us : List URN) (v u : URN) (h : hasURN us u = false) :
    hasURN (us.filter (·.identity ≠ v.identity)) u = false := by
  simp only [hasURN, List.any_eq_false, List.mem_filter] at h ⊢
  intro x hx; exact h x hx.1

/-- removing keeps absent what is absent -/
theorem urnsLoop_remove_mono (us : List URN) (l : List (Option URN)) (u : URN) (h : hasURN us u = false) :
    hasURN (urnsLoop .remove us l).1 u = false := by
  induction l generalizing us with
  | nil => simpa [urnsLoop] using h
  | cons x l ih =>
    cases x with
    | none => simp only [urnsLoop]; exact ih us h
    | some v => simp only [urnsLoop]; exact ih _ (filter_filter_id us v u h)

theorem urnsLoop_remove_gone (us : List URN) (l : List (Option URN)) :
    ∀ u, some u ∈ l → hasURN (urnsLoop .remove us l).1 u = false := by
  induction l generalizing us with
  | nil => intro u hu; cases hu
  | cons x l ih =>
    intro u hu
    cases x with
    | none => simp only [urnsLoop]; exact ih us u (by simpa using hu)
    | some v =>
      simp only [urnsLoop]
      simp only [List.mem_cons, Option.some.injEq] at hu
      rcases hu with rfl | hu
      · apply urnsLoop_remove_mono
        simp [hasURN, List.any_eq_false]
      · exact ih _ u hu

theorem urnsLoop_remove_fixed (us : List URN) (l : List (Option URN))
    (h : ∀ u, some u ∈ l → hasURN us u = false) : (urnsLoop .remove us l).1 = us := by
  induction l with
  | nil => rfl
  | cons x l ih =>
    cases x with
    | none => simp only [urnsLoop]; exact ih (fun u hu => h u (by simp [hu]))
    | some v =>
      simp only [urnsLoop]
      have hv := h v (by simp)
      have : us.filter (·.identity ≠ v.identity) = us := by
        rw [List.filter_eq_self]
        intro x hx
        simp only [hasURN, List.any_eq_false] at hv
        have := hv x hx
        simpa using this
      rw [this]
      exact ih (fun u hu => h u (by simp [hu]))

theorem urns_remove_idem (c : Contact) (urns : List (Option URN)) :
    (applyURNs (applyURNs c .remove urns).contact .remove urns).modified = false ∧
    (applyURNs (applyURNs c .remove urns).contact .remove urns).contact = (applyURNs c .remove urns).contact := by
  have hfirst : (applyURNs c .remove urns).contact.urns = (urnsResult c .remove urns).1 := by
    unfold applyURNs
    split
    · rfl
    · rename_i h; simp only [ne_eq, Decidable.not_not] at h; exact h.symm
  have hfix : (urnsResult (applyURNs c .remove urns).contact .remove urns).1 = (applyURNs c .remove urns).contact.urns := by
    simp only [urnsResult, reduceCtorEq, if_false]
    rw [hfirst]
    simp only [urnsResult, reduceCtorEq, if_false]
    exact urnsLoop_remove_fixed _ urns (urnsLoop_remove_gone c.urns urns)
  generalize applyURNs c .remove urns = o at hfix
  unfold applyURNs
  rw [if_neg (by simp [hfix])]
  exact ⟨rfl, rfl⟩

/-- contacts that are not active are refused; the refusal changes nothing -/
theorem groups_refused (isQuery : Nat → Bool) (c : Contact) (add : Bool) (gs : List Nat)
    (h : c.status ≠ .active) :
    applyGroups isQuery c add gs = ⟨c, [.error], false⟩ := by
  simp [applyGroups, h]

/-! #### adding to and removing from groups is idempotent -/

theorem addLoop_mono (isQuery : Nat → Bool) (l gs : List Nat) (g : Nat) (h : g ∈ gs) :
    g ∈ (groupsAddLoop isQuery gs l).1 := by
  induction l generalizing gs with
  | nil => simpa [groupsAddLoop] using h
  | cons x l ih =>
    simp only [groupsAddLoop]
    split
    · exact ih gs h
    · split
      · exact ih gs h
      · exact ih _ (by simp [h])

theorem addLoop_has (isQuery : Nat → Bool) (l gs : List Nat) :
    ∀ g ∈ l, isQuery g = false → g ∈ (groupsAddLoop isQuery gs l).1 := by
  induction l generalizing gs with
  | nil => intro g hg; cases hg
  | cons x l ih =>
    intro g hg hq
    simp only [List.mem_cons] at hg
    simp only [groupsAddLoop]
    split
    · rename_i hx
      rcases hg with rfl | hg
      · rw [hq] at hx; cases hx
      · exact ih gs g hg hq
    · split
      · rename_i hc
        rcases hg with rfl | hg
        · exact addLoop_mono isQuery l gs g (by simpa using hc)
        · exact ih gs g hg hq
      · rcases hg with rfl | hg
        · exact addLoop_mono isQuery l _ g (by simp)
        · exact ih _ g hg hq

theorem addLoop_fixed (isQuery : Nat → Bool) (l gs : List Nat) (h : ∀ g ∈ l, isQuery g = true ∨ g ∈ gs) :
    (groupsAddLoop isQuery gs l).1 = gs ∧ (groupsAddLoop isQuery gs l).2.1 = [] ∧
    ∀ e ∈ (groupsAddLoop isQuery gs l).2.2, e = .error := by
  induction l with
  | nil => simp [groupsAddLoop]
  | cons x l ih =>
    have ih' := ih (fun g hg => h g (by simp [hg]))
    simp only [groupsAddLoop]
    split
    · refine ⟨ih'.1, ih'.2.1, ?_⟩
      intro e he
      simp only [List.mem_cons] at he
      rcases he with rfl | he
      · rfl
      · exact ih'.2.2 e he
    · rename_i hx
      have := h x (by simp)
      have hm : x ∈ gs := by
        rcases this with h1 | h1
        · exact absurd h1 hx
        · exact h1
      have hc : gs.contains x = true := by simpa using hm
      simp only [hc, if_true]
      exact ih'

theorem remLoop_anti (isQuery : Nat → Bool) (l gs : List Nat) (g : Nat) (h : g ∉ gs) :
    g ∉ (groupsRemoveLoop isQuery gs l).1 := by
  induction l generalizing gs with
  | nil => simpa [groupsRemoveLoop] using h
  | cons x l ih =>
    simp only [groupsRemoveLoop]
    split
    · exact ih gs h
    · split
      · exact ih gs h
      · exact ih _ (by simp [h])

theorem remLoop_gone (isQuery : Nat → Bool) (l gs : List Nat) :
    ∀ g ∈ l, isQuery g = false → g ∉ (groupsRemoveLoop isQuery gs l).1 := by
  induction l generalizing gs with
  | nil => intro g hg; cases hg
  | cons x l ih =>
    intro g hg hq
    simp only [List.mem_cons] at hg
    simp only [groupsRemoveLoop]
    split
    · rename_i hx
      rcases hg with rfl | hg
      · rw [hq] at hx; cases hx
      · exact ih gs g hg hq
    · split
      · rename_i hc
        rcases hg with rfl | hg
        · exact remLoop_anti isQuery l gs g (by simpa using hc)
        · exact ih gs g hg hq
      · rcases hg with rfl | hg
        · exact remLoop_anti isQuery l _ g (by simp)
        · exact ih _ g hg hq

theorem remLoop_fixed (isQuery : Nat → Bool) (l gs : List Nat) (h : ∀ g ∈ l, isQuery g = true ∨ g ∉ gs) :
    (groupsRemoveLoop isQuery gs l).1 = gs ∧ (groupsRemoveLoop isQuery gs l).2.1 = [] ∧
    ∀ e ∈ (groupsRemoveLoop isQuery gs l).2.2, e = .error := by
  induction l with
  | nil => simp [groupsRemoveLoop]
  | cons x l ih =>
    have ih' := ih (fun g hg => h g (by simp [hg]))
    simp only [groupsRemoveLoop]
    split
    · refine ⟨ih'.1, ih'.2.1, ?_⟩
      intro e he
      simp only [List.mem_cons] at he
      rcases he with rfl | he
      · rfl
      · exact ih'.2.2 e he
    · rename_i hx
      have := h x (by simp)
      have hm : x ∉ gs := by
        rcases this with h1 | h1
        · exact absurd h1 hx
        · exact h1
      have hc : (!gs.contains x) = true := by simpa using hm
      simp only [hc, if_true]
      exact ih'

/-- if the loop reports nothing added, the groups are as they were -/
theorem addLoop_fixed_of_none (isQuery : Nat → Bool) (l gs : List Nat)
    (h : (groupsAddLoop isQuery gs l).2.1 = []) : (groupsAddLoop isQuery gs l).1 = gs := by
  induction l generalizing gs with
  | nil => simp [groupsAddLoop]
  | cons x l ih =>
    simp only [groupsAddLoop] at h ⊢
    split
    · rename_i hx; simp only [hx, if_true] at h; exact ih gs h
    · rename_i hx
      simp only [hx] at h
      split
      · rename_i hc; simp only [hc, if_true] at h; exact ih gs h
      · rename_i hc
        have hm : x ∉ gs := by simpa using hc
        simp [hm] at h

theorem remLoop_fixed_of_none (isQuery : Nat → Bool) (l gs : List Nat)
    (h : (groupsRemoveLoop isQuery gs l).2.1 = []) : (groupsRemoveLoop isQuery gs l).1 = gs := by
  induction l generalizing gs with
  | nil => simp [groupsRemoveLoop]
  | cons x l ih =>
    simp only [groupsRemoveLoop] at h ⊢
    split
    · rename_i hx; simp only [hx, if_true] at h; exact ih gs h
    · rename_i hx
      simp only [hx] at h
      split
      · rename_i hc; simp only [hc, if_true] at h; exact ih gs h
      · rename_i hc
        have hm : x ∈ gs := by simpa using hc
        simp [hm] at h

/-- **Idempotence of the groups modifier**: applied a second time it leaves the contact as it is,
reports `modified = false` and emits nothing but the errors for query-based groups (which it
refuses every time). -/
theorem groups_idem (isQuery : Nat → Bool) (c : Contact) (add : Bool) (gs : List Nat) :
    (applyGroups isQuery (applyGroups isQuery c add gs).contact add gs).contact = (applyGroups isQuery c add gs).contact ∧
    (applyGroups isQuery (applyGroups isQuery c add gs).contact add gs).modified = false ∧
    ∀ e ∈ (applyGroups isQuery (applyGroups isQuery c add gs).contact add gs).events, e = .error := by
  by_cases hs : c.status ≠ .active
  · rw [groups_refused isQuery c add gs hs]
    simp only
    rw [groups_refused isQuery c add gs hs]
    simp
  · have hact : c.status = .active := by simpa using hs
    cases add with
    | true =>
      -- what the first application leaves
      have key : ∀ c' : Contact, c'.status = .active →
          (∀ g ∈ gs, isQuery g = true ∨ g ∈ c'.groups) →
          (applyGroups isQuery c' true gs).contact = c' ∧ (applyGroups isQuery c' true gs).modified = false ∧
          ∀ e ∈ (applyGroups isQuery c' true gs).events, e = .error := by
        intro c' hc' hall
        have hf := addLoop_fixed isQuery gs c'.groups hall
        simp only [applyGroups, hc', ne_eq, not_true_eq_false, if_false, if_true, hf.2.1]
        exact ⟨trivial, trivial, hf.2.2⟩
      have hall : ∀ g ∈ gs, isQuery g = true ∨ g ∈ (applyGroups isQuery c true gs).contact.groups := by
        intro g hg
        by_cases hq : isQuery g = true
        · exact Or.inl hq
        · right
          have hq' : isQuery g = false := by simpa using hq
          have hin := addLoop_has isQuery gs c.groups g hg hq'
          simp only [applyGroups, hact, ne_eq, not_true_eq_false, if_false, if_true]
          split
          · exact hin
          · rename_i hnone
            have hn : (groupsAddLoop isQuery c.groups gs).2.1 = [] := by simpa using hnone
            -- nothing was added: the group was there already
            have := addLoop_fixed_of_none isQuery gs c.groups hn
            rw [this] at hin; exact hin
      exact key _ (by simp only [applyGroups, hact, ne_eq, not_true_eq_false, if_false, if_true]; split <;> first | exact hact | rfl | simp [hact]) hall
    | false =>
      have key : ∀ c' : Contact, c'.status = .active →
          (∀ g ∈ gs, isQuery g = true ∨ g ∉ c'.groups) →
          (applyGroups isQuery c' false gs).contact = c' ∧ (applyGroups isQuery c' false gs).modified = false ∧
          ∀ e ∈ (applyGroups isQuery c' false gs).events, e = .error := by
        intro c' hc' hall
        have hf := remLoop_fixed isQuery gs c'.groups hall
        simp only [applyGroups, hc', ne_eq, not_true_eq_false, if_false, hf.2.1, Bool.false_eq_true]
        exact ⟨trivial, trivial, hf.2.2⟩
      have hall : ∀ g ∈ gs, isQuery g = true ∨ g ∉ (applyGroups isQuery c false gs).contact.groups := by
        intro g hg
        by_cases hq : isQuery g = true
        · exact Or.inl hq
        · right
          have hq' : isQuery g = false := by simpa using hq
          have hout := remLoop_gone isQuery gs c.groups g hg hq'
          simp only [applyGroups, hact, ne_eq, not_true_eq_false, if_false, Bool.false_eq_true]
          split
          · exact hout
          · rename_i hnone
            have hn : (groupsRemoveLoop isQuery c.groups gs).2.1 = [] := by simpa using hnone
            have := remLoop_fixed_of_none isQuery gs c.groups hn
            rw [this] at hout; exact hout
      exact key _ (by simp only [applyGroups, hact, ne_eq, not_true_eq_false, if_false, Bool.false_eq_true]; split <;> first | exact hact | rfl | simp [hact]) hall

theorem groups_modified_iff_event (isQuery : Nat → Bool) (c : Contact) (add : Bool) (gs : List Nat) :
    (applyGroups isQuery c add gs).modified = true ↔
    ∃ a r, Ev.groupsChanged a r ∈ (applyGroups isQuery c add gs).events := by
  have hadd : ∀ gs' l, ∀ e ∈ (groupsAddLoop isQuery gs' l).2.2, e = .error := by
    intro gs' l
    induction l generalizing gs' with
    | nil => simp [groupsAddLoop]
    | cons g l ih =>
      simp only [groupsAddLoop]
      split
      · intro e he; simp at he; rcases he with rfl | he; rfl; exact ih gs' e he
      · split
        · exact ih gs'
        · exact ih _
  have hrem : ∀ gs' l, ∀ e ∈ (groupsRemoveLoop isQuery gs' l).2.2, e = .error := by
    intro gs' l
    induction l generalizing gs' with
    | nil => simp [groupsRemoveLoop]
    | cons g l ih =>
      simp only [groupsRemoveLoop]
      split
      · intro e he; simp at he; rcases he with rfl | he; rfl; exact ih gs' e he
      · split
        · exact ih gs'
        · exact ih _
  unfold applyGroups
  split
  · simp
  · split
    · split
      · simp only [true_iff]
        exact ⟨(groupsAddLoop isQuery c.groups gs).2.1, [], by simp⟩
      · simp only [Bool.false_eq_true, false_iff, not_exists]
        intro a r hm
        have := hadd c.groups gs _ hm
        cases this
    · split
      · simp only [true_iff]
        exact ⟨[], (groupsRemoveLoop isQuery c.groups gs).2.1, by simp⟩
      · simp only [Bool.false_eq_true, false_iff, not_exists]
        intro a r hm
        have := hrem c.groups gs _ hm
        cases this

end GoflowModel.Props.C03
