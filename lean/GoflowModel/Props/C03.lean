import GoflowModel.Contact.Model
/-!
# C03 — Every contact change is announced by an event that reproduces it

Per modifier `k` over `Contact/Model.lean`:
`…_replay` (replaying the emitted events over the contact as it was reproduces the contact
afterwards), `…_modified_iff` (modified ⇔ the contact changed), `…_event_iff` (modified ⇔ a change
event was emitted), `…_idem` (a second application changes and reports nothing).
-/
namespace GoflowModel.Props.C03
open GoflowModel.Contact

/-- the three facts shared by every modifier -/
def Faithful (c : Contact) (o : Out) : Prop :=
  replayAll c o.events = o.contact ∧ (o.modified = true ↔ o.contact ≠ c) ∧
  (o.modified = true ↔ o.events.any Ev.isChange = true)

theorem name_faithful (c : Contact) (n : List Char) : Faithful c (applyName c n) := by
  unfold applyName Faithful
  split
  · rename_i h
    refine ⟨rfl, ?_, by simp [Ev.isChange]⟩
    simp only [true_iff]
    intro e; apply h; rw [← e]
  · simp [replayAll]

theorem name_idem (c : Contact) (n : List Char) :
    applyName (applyName c n).contact n = ⟨(applyName c n).contact, [], false⟩ := by
  unfold applyName; split <;> simp_all

theorem language_faithful (c : Contact) (l : Nat) : Faithful c (applyLanguage c l) := by
  unfold applyLanguage Faithful
  split
  · rename_i h
    refine ⟨rfl, ?_, by simp [Ev.isChange]⟩
    simp only [true_iff]
    intro e; apply h; rw [← e]
  · simp [replayAll]

theorem language_idem (c : Contact) (l : Nat) :
    applyLanguage (applyLanguage c l).contact l = ⟨(applyLanguage c l).contact, [], false⟩ := by
  unfold applyLanguage; split <;> simp_all

theorem status_faithful (c : Contact) (s : Status) : Faithful c (applyStatus c s) := by
  unfold applyStatus Faithful
  split
  · rename_i h
    refine ⟨rfl, ?_, by simp [Ev.isChange]⟩
    simp only [true_iff]
    intro e; apply h; rw [← e]
  · simp [replayAll]

theorem status_idem (c : Contact) (s : Status) :
    applyStatus (applyStatus c s).contact s = ⟨(applyStatus c s).contact, [], false⟩ := by
  unfold applyStatus; split <;> simp_all

theorem timezone_faithful (c : Contact) (t : Nat) : Faithful c (applyTimezone c t) := by
  unfold applyTimezone Faithful
  split
  · rename_i h
    refine ⟨rfl, ?_, by simp [Ev.isChange]⟩
    simp only [true_iff]
    intro e; apply h; rw [← e]
  · simp [replayAll]

theorem timezone_idem (c : Contact) (t : Nat) :
    applyTimezone (applyTimezone c t).contact t = ⟨(applyTimezone c t).contact, [], false⟩ := by
  unfold applyTimezone; split <;> simp_all

theorem ticket_faithful (c : Contact) (t : Nat) : Faithful c (applyTicket c t) := by
  unfold applyTicket Faithful
  cases h : c.ticket with
  | some x => simp [replayAll]
  | none =>
    refine ⟨rfl, ?_, by simp [Ev.isChange]⟩
    simp only [true_iff]
    intro e
    have := congrArg Contact.ticket e
    simp [h] at this

theorem ticket_idem (c : Contact) (t : Nat) :
    applyTicket (applyTicket c t).contact t = ⟨(applyTicket c t).contact, [], false⟩ := by
  unfold applyTicket
  cases h : c.ticket <;> simp [h]

theorem getField_setField (fs : List (Nat × Nat)) (k : Nat) (v : Option Nat) :
    getField (setField fs k v) k = v := by
  unfold getField setField
  have hnone : (fs.filter (·.1 ≠ k)).lookup k = none := by
    rw [List.lookup_eq_none_iff]
    intro p hp
    simp only [List.mem_filter, decide_eq_true_eq] at hp
    simp only [bne_iff_ne, ne_eq]
    exact fun e => hp.2 e.symm
  cases v with
  | none => exact hnone
  | some x => rw [List.lookup_append, hnone]; simp

theorem field_faithful (c : Contact) (k : Nat) (v : Option Nat) : Faithful c (applyField c k v) := by
  unfold applyField Faithful
  split
  · rename_i h
    refine ⟨rfl, ?_, by simp [Ev.isChange]⟩
    simp only [true_iff]
    intro e
    apply h
    have := congrArg (fun c => getField c.fields k) e
    simp only [getField_setField] at this
    exact this
  · simp [replayAll]

theorem field_idem (c : Contact) (k : Nat) (v : Option Nat) :
    applyField (applyField c k v).contact k v = ⟨(applyField c k v).contact, [], false⟩ := by
  unfold applyField
  split
  · simp only [getField_setField, ne_eq, not_true_eq_false, if_false]
  · rename_i h; simp only [if_neg h]

/-- URNs: every URN the modifier names is handled in order; error events do not change the
contact; the `contact_urns_changed` event carries the whole resulting list -/
theorem replay_errors (c : Contact) (evs : List Ev) (h : ∀ e ∈ evs, e = .error) : replayAll c evs = c := by
  induction evs generalizing c with
  | nil => rfl
  | cons e evs ih =>
    have he := h e (by simp)
    subst he
    simp only [replayAll, List.foldl_cons, replay]
    exact ih c (fun e he => h e (by simp [he]))

theorem urnsLoop_errors (m : URNsMod) (us : List URN) (l : List (Option URN)) :
    ∀ e ∈ (urnsLoop m us l).2, e = .error := by
  induction l generalizing us with
  | nil => simp [urnsLoop]
  | cons x l ih =>
    cases x with
    | none => simp only [urnsLoop]; intro e he; simp at he; rcases he with rfl | he; rfl; exact ih us e he
    | some u =>
      simp only [urnsLoop]
      cases m <;> simp only <;> exact ih _

theorem replayAll_append (c : Contact) (a b : List Ev) : replayAll c (a ++ b) = replayAll (replayAll c a) b := by
  simp [replayAll, List.foldl_append]

theorem urns_faithful (c : Contact) (m : URNsMod) (urns : List (Option URN)) :
    Faithful c (applyURNs c m urns) := by
  have herr : ∀ e ∈ (urnsResult c m urns).2, e = .error := urnsLoop_errors m _ urns
  unfold applyURNs Faithful
  split
  · rename_i h
    refine ⟨?_, ?_, ?_⟩
    · simp only; rw [replayAll_append, replay_errors c _ herr]; rfl
    · simp only [true_iff]; intro e
      exact h (by have := congrArg Contact.urns e; simpa using this)
    · simp [Ev.isChange]
  · rename_i h
    refine ⟨replay_errors c _ herr, by simp, ?_⟩
    simp only [Bool.false_eq_true, false_iff, Bool.not_eq_true]
    rw [List.any_eq_false]
    intro e he; rw [herr e he]; simp [Ev.isChange]

/-- `set` is idempotent outright: its result depends only on the modifier -/
theorem urns_set_idem (c : Contact) (urns : List (Option URN)) :
    (applyURNs (applyURNs c .set urns).contact .set urns).modified = false ∧
    (applyURNs (applyURNs c .set urns).contact .set urns).contact = (applyURNs c .set urns).contact := by
  have hr : ∀ c' : Contact, urnsResult c' .set urns = urnsResult c .set urns := by
    intro c'; simp [urnsResult]
  by_cases h : (urnsResult c .set urns).1 ≠ c.urns
  · have h1 : applyURNs c .set urns = ⟨{ c with urns := (urnsResult c .set urns).1 },
        (urnsResult c .set urns).2 ++ [.urnsChanged (urnsResult c .set urns).1], true⟩ := by
      unfold applyURNs; rw [if_pos h]
    rw [h1]
    simp only
    unfold applyURNs
    rw [hr]
    simp
  · have h1 : applyURNs c .set urns = ⟨c, (urnsResult c .set urns).2, false⟩ := by
      unfold applyURNs; rw [if_neg h]
    rw [h1]
    simp only
    rw [h1]
    simp

/-- contacts that are not active are refused; the refusal changes nothing -/
theorem groups_refused (isQuery : Nat → Bool) (c : Contact) (add : Bool) (gs : List Nat)
    (h : c.status ≠ .active) :
    applyGroups isQuery c add gs = ⟨c, [.error], false⟩ := by
  simp [applyGroups, h]

theorem groups_modified_iff_event (isQuery : Nat → Bool) (c : Contact) (add : Bool) (gs : List Nat) :
    (applyGroups isQuery c add gs).modified = true ↔
    ∃ a r, Ev.groupsChanged a r ∈ (applyGroups isQuery c add gs).events := by
  have hadd : ∀ gs' l, ∀ e ∈ (groupsAddLoop isQuery gs' l).2.2, e = .error := by
    intro gs' l
    induction l generalizing gs' with
    | nil => simp [groupsAddLoop]
    | cons g l ih =>
      simp only [groupsAddLoop]
      split
      · intro e he; simp at he; rcases he with rfl | he; rfl; exact ih gs' e he
      · split
        · exact ih gs'
        · exact ih _
  have hrem : ∀ gs' l, ∀ e ∈ (groupsRemoveLoop isQuery gs' l).2.2, e = .error := by
    intro gs' l
    induction l generalizing gs' with
    | nil => simp [groupsRemoveLoop]
    | cons g l ih =>
      simp only [groupsRemoveLoop]
      split
      · intro e he; simp at he; rcases he with rfl | he; rfl; exact ih gs' e he
      · split
        · exact ih gs'
        · exact ih _
  unfold applyGroups
  split
  · simp
  · split
    · split
      · simp only [true_iff]
        exact ⟨(groupsAddLoop isQuery c.groups gs).2.1, [], by simp⟩
      · simp only [Bool.false_eq_true, false_iff, not_exists]
        intro a r hm
        have := hadd c.groups gs _ hm
        cases this
    · split
      · simp only [true_iff]
        exact ⟨[], (groupsRemoveLoop isQuery c.groups gs).2.1, by simp⟩
      · simp only [Bool.false_eq_true, false_iff, not_exists]
        intro a r hm
        have := hrem c.groups gs _ hm
        cases this

end GoflowModel.Props.C03
