import GoflowModel.Excellent.Template
import GoflowModel.Lemmas.Scanner
import GoflowModel.Gen.Grammar
/-!
# C12 — Literal text and string literals are represented faithfully

Property theorems only (helper lemmas live in `GoflowModel/Lemmas`).

Model: `Scanner` (transcription of `excellent/scanner.go`), `LexText` (the ANTLR `TEXT` rule
with longest match), `Quote` (`strconv.Quote/Unquote`), `Template` (literal fragment of
`Evaluator.Template`).  Parameters: `pr` = `strconv.IsPrint`, `cfg.nc` = `isNameChar`,
`cfg.lower` = `strings.ToLower`, `cfg.tops` = allowed top levels.
-/
namespace GoflowModel.Props.C12
open GoflowModel Scanner LexText Quote Template

/-- (1a) The scanner loses nothing: with `@@` un-escaping off, re-rendering the tokens
(`BODY t ↦ t`, `IDENTIFIER t ↦ @t`, `EXPRESSION t ↦ @(t)`) gives back the template, for every
template, every name-character table and every set of allowed top levels. -/
theorem scan_render (cfg : Cfg) (hu : cfg.unesc = false) (tpl : List Char) :
    (scanAll cfg tpl).flatMap Token.render = tpl :=
  scanAllAux_render cfg hu _ tpl (by omega)

/-- (1b) Text without `@` passes through as one BODY token, unchanged. -/
theorem body_passthrough (cfg : Cfg) (s : List Char) (hne : s ≠ []) (h : '@' ∉ s) :
    scanAll cfg s = [⟨.body, s⟩] := by
  have hb : ∀ l : List Char, '@' ∉ l → scanBodyAux cfg.nc cfg.unesc l = (l, []) := by
    intro l hl
    fun_induction scanBodyAux cfg.nc cfg.unesc l <;> simp_all +zetaDelta
  cases s with
  | nil => exact absurd rfl hne
  | cons c r =>
    have hc : c ≠ '@' := by intro e; subst e; simp at h
    simp only [scanAll, scanAllAux, List.length_cons]
    have h1 : scanOne cfg (c :: r) = some (⟨.body, c :: r⟩, []) := by
      unfold scanOne
      split
      · rename_i heq; simp at heq
      · rename_i heq; simp only [List.cons.injEq] at heq; exact absurd heq.1 hc
      · rename_i heq; simp only [List.cons.injEq] at heq; exact absurd heq.1 hc
      · simp [hb (c :: r) h]
    rw [h1]
    simp [scanOne]

/-- (1c) `@@` yields `@`; an `@` before a rune that is neither `(`, `@` nor a name character
stays literal together with that rune. -/
theorem body_at_at (nc : Char → Bool) (r : List Char) :
    (scanBodyAux nc true ('@' :: '@' :: r)).1 = '@' :: (scanBodyAux nc true r).1 := by
  simp [scanBodyAux]

theorem body_at_other (nc : Char → Bool) (d : Char) (r : List Char)
    (h1 : d ≠ '(') (h2 : d ≠ '@') (h3 : nc d = false) :
    (scanBodyAux nc true ('@' :: d :: r)).1 = '@' :: d :: (scanBodyAux nc true r).1 := by
  simp [scanBodyAux, h1, h2, h3]

/-- (1d) `@name…` whose top level is not an allowed one (an e-mail address, a mention) is
returned as BODY text `@name…`, not as an identifier. -/
theorem disallowed_identifier_literal (cfg : Cfg) (d : Char) (r : List Char)
    (hd : d ≠ '@') (hn : cfg.nc d = true) (hp : d ≠ '(')
    (hnot : cfg.allowed (cfg.lower (topLevelOf (scanIdentAux cfg.nc (d :: r)).1)) = false) :
    scanOne cfg ('@' :: d :: r) =
      some (⟨.body, '@' :: (scanIdentAux cfg.nc (d :: r)).1⟩, (scanIdentAux cfg.nc (d :: r)).2) := by
  unfold scanOne
  split
  · rename_i heq; simp at heq
  · rename_i heq; simp only [List.cons.injEq, true_and] at heq; exact absurd heq.1 hp
  · rename_i d' r' _ heq
    simp only [List.cons.injEq, true_and] at heq
    obtain ⟨rfl, rfl⟩ := heq
    simp [hd, hn, hnot]
  · next _ h3 => exact absurd rfl (h3 d r)

/-- (2a) `strconv.Unquote ∘ strconv.Quote = id`, for every printable table that does not call
a newline printable. -/
theorem unquote_quote (pr : Char → Bool) (hpr : pr '\n' = false) (s : List Char) :
    unquote (quote pr s) = .ok s := Quote.unquote_quote pr hpr s

/-- (2b) The lexer reads the *safe* literal form of any string as exactly one `TEXT` token,
whatever follows it. -/
theorem lex_quoteSafe (pr : Char → Bool) (s rest : List Char) :
    lexText (quoteSafe pr s ++ rest) = some (quoteSafe pr s, rest) := by
  have h := textEnd_definitive (escBodySafe pr s) rest false 0 none
    (QEsc_escBodySafe pr false s) (endsBS_escBodySafe pr s)
  have := lexText_of_end (escBodySafe pr s) rest (by simpa using h)
  simpa [quoteSafe] using this

/-- (2c) The form the code base itself emits (`strconv.Quote`) lexes as one token when the
string does not end in a backslash, or when no further quote follows in the expression. -/
theorem lex_quote_go_partial (pr : Char → Bool) (s rest : List Char)
    (h : s.getLast? ≠ some '\\' ∨ '"' ∉ rest) :
    lexText (quote pr s ++ rest) = some (quote pr s, rest) := by
  have hq := QEsc_escBody pr false s
  have he := endsBS_escBody pr false s
  have key : textEnd (escBody pr s ++ '"' :: rest) false 0 none = some ((escBody pr s).length + 1) := by
    rcases h with h | h
    · have : endsBS false (escBody pr s) = false := by
        rw [he]
        cases hl : s.getLast? with
        | none => rfl
        | some c =>
          have : c ≠ '\\' := by intro e; subst e; exact h hl
          simp [this]
      simpa using textEnd_definitive _ rest false 0 none hq this
    · simpa using textEnd_candidate _ rest false 0 none hq h
  have := lexText_of_end (escBody pr s) rest key
  simpa [quote] using this

/-- Full-strength version of (2c) is false: witness `a\` followed by ` & "z"`. -/
theorem lex_quote_go_counterexample :
    lexText (quote (fun _ => true) ['a', '\\'] ++ " & \"z\"".toList) ≠
      some (quote (fun _ => true) ['a', '\\'], " & \"z\"".toList) := by
  decide

/-- (2d) A single safe literal as a whole template evaluates to the string itself. -/
theorem quoteSafe_template_roundtrip (cfg : Cfg) (pr : Char → Bool) (hpr : pr '\n' = false)
    (s : List Char) :
    evalLiteralTemplate cfg ('@' :: '(' :: (quoteSafe pr s ++ [')'])) = some s := by
  have hs := scanExpr_literal (escBodySafe pr s) [] (QEsc_escBodySafe pr false s) (endsBS_escBodySafe pr s)
  have hl := lex_quoteSafe pr s []
  have hu := unquote_quoteSafe pr hpr s
  simp only [List.append_nil] at hl
  have e : quoteSafe pr s ++ [')'] = '"' :: (escBodySafe pr s ++ '"' :: [')']) := by simp [quoteSafe]
  have hone : scanOne cfg ('@' :: '(' :: (quoteSafe pr s ++ [')'])) = some (⟨.expression, quoteSafe pr s⟩, []) := by
    simp only [scanOne, e, hs]
    simp [quoteSafe]
  simp only [evalLiteralTemplate, scanAll, scanAllAux, hone, List.length_cons]
  simp [scanOne, evalLiteralTokens, evalLiteralExpr, hl, literalValue, hu]

/-- (3a) The scanner's literal reader ends where the lexer's `TEXT` token ends whenever that
end is definitive (the closing quote is not preceded by a backslash). -/
theorem scanner_lexer_agree_literal (b rest : List Char)
    (hq : QEsc false b = true) (he : endsBS false b = false) :
    readLit (b ++ '"' :: rest) false = (b ++ ['"'], rest) ∧
    lexText ('"' :: (b ++ '"' :: rest)) = some ('"' :: (b ++ ['"']), rest) := by
  refine ⟨readLit_definitive b rest false hq he, ?_⟩
  exact lexText_of_end b rest (by simpa using textEnd_definitive b rest false 0 none hq he)

/-- (3b) Full agreement is false on the current code: for the literal `"a\\"` the lexer's token
ends at the last quote while the scanner's `escaped` flag (which does not toggle) runs on to
the end of input — the known finding F-C12-a. -/
theorem scanner_lexer_disagree_witness :
    lexText "\"a\\\\\")".toList = some ("\"a\\\\\"".toList, [')']) ∧
    (scanExpr "\"a\\\\\")".toList).2.1 = false := by
  decide

/-- tie to the grammar source (regenerated from `antlr/Excellent3.g4` on every run): the `TEXT`
rule is the one `LexText` transcribes. -/
theorem text_rule_as_modelled :
    Gen.Grammar.excellent3Rules.lookup "TEXT" = some "'\"' (~[\"] | '\\\\\"')* '\"'" := by decide

end GoflowModel.Props.C12
