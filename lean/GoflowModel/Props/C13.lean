import GoflowModel.Lemmas.Dec
import GoflowModel.Lemmas.DateText
import GoflowModel.Gen.Consts
/-!
# C13 — Values survive their stored text and JSON forms

Numbers (this file, proved): every decimal the implementation can hold renders
(`Decimal.String()`) to text that `newXNumberFromString` accepts and converts back to a number
with the same normal form, for every sign, coefficient and exponent (`num_roundtrip`); renderings are
canonical in both directions — equal renderings mean equal numbers (`render_injective`) and equal
numbers render equally (`render_canonical`) — which is what `=` on numbers relies on.
Dates, times and JSON are decided by the monitors and the function-level correspondence
(`envs.DateTimeFromString`, `XDateTime.Format`, `JSONToXValue`/`ToXJSON`); they are not theorems
in this revision.
-/
namespace GoflowModel.Props.C13
open GoflowModel.Dec

theorem takeWhile_digits_all (s : List Char) (h : ∀ c ∈ s, isDigit c = true) :
    s.takeWhile isDigit = s ∧ s.dropWhile isDigit = [] := by
  induction s with
  | nil => simp
  | cons c s ih =>
    have hc := h c (by simp)
    have := ih (fun x hx => h x (by simp [hx]))
    simp [List.takeWhile_cons, List.dropWhile_cons, hc, this]

theorem parseBody_int (s : List Char) (hne : s ≠ []) (h : ∀ c ∈ s, isDigit c = true) :
    parseBody s = some (s, 0) := by
  have := takeWhile_digits_all s h
  simp [parseBody, this, hne]

theorem split_at_dot (i f : List Char) (hi : ∀ c ∈ i, isDigit c = true) :
    (i ++ '.' :: f).takeWhile isDigit = i ∧ (i ++ '.' :: f).dropWhile isDigit = '.' :: f := by
  induction i with
  | nil => simp [isDigit]
  | cons c i ih =>
    have hc := hi c (by simp)
    have := ih (fun x hx => hi x (by simp [hx]))
    simp [hc, this]

theorem parseBody_frac (i f : List Char) (hi : ∀ c ∈ i, isDigit c = true)
    (hf : ∀ c ∈ f, isDigit c = true) (hfne : f ≠ []) :
    parseBody (i ++ '.' :: f) = some (i ++ f, -(f.length : Int)) := by
  have hs := split_at_dot i f hi
  have hall : f.all isDigit = true := by simpa [List.all_eq_true] using hf
  simp [parseBody, hs.1, hs.2, hfne, hall]

theorem digits_of_mem_trim (l : List Char) (h : ∀ c ∈ l, isDigit c = true) :
    ∀ c ∈ trimTrailingZeros l, isDigit c = true := by
  intro c hc
  have hd := trim_decomp l
  exact h c (by rw [hd]; simp [hc])

/-- a well-formed non-zero coefficient: digits only, first digit not zero -/
structure NZ (ds : List Char) : Prop where
  ne : ds ≠ []
  dig : ∀ c ∈ ds, isDigit c = true
  head : ds.head? ≠ some '0'

theorem NZ.trimLeading {ds : List Char} (h : NZ ds) : trimLeadingZeros ds = ds :=
  dropWhile_zero_of_head_ne ds h.head

theorem NZ.trim_ne {ds : List Char} (h : NZ ds) : trimTrailingZeros ds ≠ [] := by
  intro e
  have := (trimTrailing_eq_nil_iff ds).1 e
  cases ds with
  | nil => exact h.ne rfl
  | cons c ds =>
    have hh := h.head
    rw [this] at hh
    simp [List.replicate_succ] at hh

theorem NZ.append {ds : List Char} (h : NZ ds) (l : List Char) (hl : ∀ c ∈ l, isDigit c = true) : NZ (ds ++ l) := by
  refine ⟨by simp [h.ne], ?_, ?_⟩
  · intro c hc; simp at hc; rcases hc with hc | hc; exact h.dig c hc; exact hl c hc
  · cases ds with
    | nil => exact absurd rfl h.ne
    | cons c ds => simpa using h.head

/-- norm of a non-zero number -/
theorem norm_nz (neg : Bool) (ds : List Char) (e : Int) (h : NZ ds) :
    norm ⟨neg, ds, e⟩ = ⟨neg, trimTrailingZeros ds, e + trailingZeros ds⟩ := by
  simp only [norm, h.trimLeading, h.ne, if_false]

/-- **Round trip of a non-zero number**: rendering and parsing preserves the normal form. -/
theorem num_roundtrip_nz (neg : Bool) (ds : List Char) (e : Int) (h : NZ ds) :
    ∃ p, parse (render ⟨neg, ds, e⟩) = some p ∧ norm p = norm ⟨neg, ds, e⟩ := by
  rw [norm_nz neg ds e h]
  -- the sign: `parse` strips it and records it; the body never starts with `-`
  suffices hb : ∀ body, (render ⟨false, ds, e⟩ = body) →
      ∃ q : List Char × Int, parseBody body = some q ∧ body.head? ≠ some '-' ∧
        norm ⟨neg, q.1, q.2⟩ = ⟨neg, trimTrailingZeros ds, e + trailingZeros ds⟩ by
    obtain ⟨q, hq, hhead, hn⟩ := hb _ rfl
    have hrender : render ⟨neg, ds, e⟩ = if neg then '-' :: render ⟨false, ds, e⟩ else render ⟨false, ds, e⟩ := by
      cases neg <;> simp [render, h.trimLeading, h.ne]
    rw [hrender]
    cases neg with
    | true => exact ⟨⟨true, q.1, q.2⟩, by simp [parse, hq], hn⟩
    | false =>
      refine ⟨⟨false, q.1, q.2⟩, ?_, hn⟩
      simp only [Bool.false_eq_true, if_false]
      generalize hbody : render ⟨false, ds, e⟩ = body at hq hhead
      cases body with
      | nil => simp [parse, hq]
      | cons c r =>
        have hc : c ≠ '-' := by intro ec; subst ec; simp at hhead
        simp only [parse]
        split
        · rename_i heq; simp only [List.cons.injEq] at heq; exact absurd heq.1 hc
        · simp [hq]
  intro body hbody
  subst hbody
  simp only [render, Bool.false_eq_true, false_and, if_false, h.trimLeading, h.ne]
  by_cases he : e ≥ 0
  · -- an integer: the digits followed by `e` zeros
    simp only [he, if_true]
    have hz : ∀ c ∈ List.replicate e.toNat '0', isDigit c = true := by
      intro c hc; rw [List.mem_replicate] at hc; rw [hc.2]; decide
    have hnz := h.append _ hz
    refine ⟨(ds ++ List.replicate e.toNat '0', 0), parseBody_int _ hnz.ne hnz.dig, ?_, ?_⟩
    · cases ds with
      | nil => exact absurd rfl h.ne
      | cons c ds =>
        have := h.dig c (by simp)
        intro hh; simp at hh; subst hh; simp [isDigit] at this
    · rw [norm_nz neg _ 0 hnz, trimTrailing_append_zeros, trailingZeros_append_zeros]
      congr 1
      have : ((e.toNat : Nat) : Int) = e := Int.toNat_of_nonneg he
      omega
  · -- a fraction
    simp only [he, if_false]
    have hk : (-e).toNat ≥ 1 := by omega
    have hke : (((-e).toNat : Nat) : Int) = -e := Int.toNat_of_nonneg (by omega)
    generalize hkk : (-e).toNat = k at hk hke
    by_cases hlen : ds.length > k
    · simp only [hlen, if_true]
      -- integer part `i`, fractional digits `f0` (exactly `k` of them)
      have hsplit : ds = ds.take (ds.length - k) ++ ds.drop (ds.length - k) := (List.take_append_drop _ _).symm
      generalize hi : ds.take (ds.length - k) = i at hsplit
      generalize hf0 : ds.drop (ds.length - k) = f0 at hsplit
      have hf0len : f0.length = k := by rw [← hf0, List.length_drop]; omega
      have hidig : ∀ c ∈ i, isDigit c = true := fun c hc => h.dig c (by rw [hsplit]; simp [hc])
      have hfdig : ∀ c ∈ f0, isDigit c = true := fun c hc => h.dig c (by rw [hsplit]; simp [hc])
      have hinz : NZ i := by
        refine ⟨?_, hidig, ?_⟩
        · intro ei; rw [← hi, List.take_eq_nil_iff] at ei; rcases ei with ei | ei
          · omega
          · exact h.ne ei
        · rw [← hi]; cases ds with
          | nil => exact absurd rfl h.ne
          | cons c ds' =>
            have : (c :: ds').length - k = (ds'.length - k) + 1 := by simp at hlen ⊢; omega
            rw [this, List.take_succ_cons]; simpa using h.head
      have hhead : i.head? ≠ some '-' := by
        cases i with
        | nil => exact absurd rfl hinz.ne
        | cons c i' =>
          have := hidig c (by simp)
          intro hh; simp at hh; subst hh; simp [isDigit] at this
      by_cases hfe : trimTrailingZeros f0 = []
      · -- all fractional digits are zero: only the integer part is printed
        simp only [hfe, if_true]
        refine ⟨(i, 0), parseBody_int i hinz.ne hidig, hhead, ?_⟩
        have hz := (trimTrailing_eq_nil_iff f0).1 hfe
        rw [norm_nz neg i 0 hinz]
        rw [hsplit, hz, trimTrailing_append_zeros, trailingZeros_append_zeros, hf0len]
        congr 1; omega
      · simp only [hfe, if_false]
        have hfd := digits_of_mem_trim f0 hfdig
        refine ⟨(i ++ trimTrailingZeros f0, -((trimTrailingZeros f0).length : Int)),
          parseBody_frac i _ hidig hfd hfe, ?_, ?_⟩
        · cases i with
          | nil => exact absurd rfl hinz.ne
          | cons c i' => simpa using hhead
        · have hnz2 := hinz.append _ hfd
          rw [norm_nz neg _ _ hnz2]
          have h1 := trimTrailing_append_of_last_ne i (trimTrailingZeros f0) hfe (trim_last_ne f0)
          have h2 := trimTrailing_append i f0 hfe
          rw [h1.1, h1.2, hsplit, h2.1, h2.2]
          congr 1
          have hd := congrArg List.length (trim_decomp f0)
          simp only [List.length_append, List.length_replicate] at hd
          omega
    · -- fewer digits than decimal places: "0." then padding zeros then the digits
      simp only [hlen, if_false]
      have hpad : trimTrailingZeros (List.replicate (k - ds.length) '0' ++ ds) =
          List.replicate (k - ds.length) '0' ++ trimTrailingZeros ds ∧
          trailingZeros (List.replicate (k - ds.length) '0' ++ ds) = trailingZeros ds :=
        trimTrailing_append _ ds h.trim_ne
      have hne : trimTrailingZeros (List.replicate (k - ds.length) '0' ++ ds) ≠ [] := by
        rw [hpad.1]; simp [h.trim_ne]
      simp only [hne, if_false]
      rw [hpad.1]
      have hfd : ∀ c ∈ List.replicate (k - ds.length) '0' ++ trimTrailingZeros ds, isDigit c = true := by
        intro c hc
        simp only [List.mem_append, List.mem_replicate] at hc
        rcases hc with hc | hc
        · rw [hc.2]; decide
        · exact digits_of_mem_trim ds h.dig c hc
      refine ⟨(['0'] ++ (List.replicate (k - ds.length) '0' ++ trimTrailingZeros ds), _),
        parseBody_frac ['0'] _ (by simp [isDigit]) hfd (by simp [h.trim_ne]), by simp, ?_⟩
      -- leading zeros disappear in the normal form
      have hlead : trimLeadingZeros (['0'] ++ (List.replicate (k - ds.length) '0' ++ trimTrailingZeros ds)) =
          trimTrailingZeros ds := by
        have e1 : ['0'] ++ (List.replicate (k - ds.length) '0' ++ trimTrailingZeros ds) =
            List.replicate (k - ds.length + 1) '0' ++ trimTrailingZeros ds := by
          simp [List.replicate_succ]
        rw [e1]
        simp only [trimLeadingZeros, dropWhile_zero_replicate_append]
        apply dropWhile_zero_of_head_ne
        have hd := trim_decomp ds
        cases htr : trimTrailingZeros ds with
        | nil => exact absurd htr h.trim_ne
        | cons c r =>
          have hh := h.head
          rw [hd, htr] at hh
          simpa using hh
      simp only [norm, hlead, h.trim_ne, if_false, (trimTrailing_idem ds).1, (trimTrailing_idem ds).2]
      congr 1
      have hd := congrArg List.length (trim_decomp ds)
      simp only [List.length_append, List.length_replicate, List.length_cons, List.length_nil] at hd ⊢
      omega

/-- **Round trip of zero**: every representation of zero renders `0`, which parses back to zero. -/
theorem num_roundtrip_zero (e : Int) :
    render ⟨false, ['0'], e⟩ = ['0'] ∧ parse ['0'] = some ⟨false, ['0'], 0⟩ ∧
    norm ⟨false, ['0'], 0⟩ = norm ⟨false, ['0'], e⟩ := by
  refine ⟨?_, by decide, by simp [norm, trimLeadingZeros]⟩
  simp only [render, Bool.false_eq_true, false_and, if_false]
  by_cases he : e ≥ 0
  · simp [he, trimLeadingZeros]
  · simp only [he, if_false]
    have hk : (-e).toNat ≥ 1 := by omega
    generalize (-e).toNat = k at hk
    have hlen : ¬ (['0'] : List Char).length > k := by simp; omega
    simp only [hlen, if_false]
    have : ∀ n, trimTrailingZeros (List.replicate n '0' ++ ['0']) = [] := fun n => by
      rw [← List.replicate_succ']; exact trimTrailing_all_zero (n + 1)
    simp [this]


/-- trailing zeros of the coefficient can be moved into the exponent without changing the text -/
theorem render_zeros_shift (neg : Bool) (c : List Char) (hc : NZ c) (hl : c.getLast? ≠ some '0') (i : Nat) (e : Int) :
    render ⟨neg, c ++ List.replicate i '0', e⟩ = render ⟨neg, c, e + i⟩ := by
  have hz : ∀ x ∈ List.replicate i '0', isDigit x = true := by
    intro x hx; rw [List.mem_replicate] at hx; rw [hx.2]; decide
  have hci := hc.append _ hz
  -- the sign is decided by the same test on both sides
  have hs1 : trimLeadingZeros (c ++ List.replicate i '0') ≠ [] := by rw [hci.trimLeading]; exact hci.ne
  have hs2 : trimLeadingZeros c ≠ [] := by rw [hc.trimLeading]; exact hc.ne
  suffices hb : render ⟨false, c ++ List.replicate i '0', e⟩ = render ⟨false, c, e + i⟩ by
    cases neg with
    | false => exact hb
    | true =>
      simp only [render, hs1, hs2, ne_eq, not_false_eq_true, and_self, if_true, Bool.false_eq_true, false_and, if_false] at hb ⊢
      rw [hb]
  simp only [render, Bool.false_eq_true, false_and, if_false, hs1, hs2]
  by_cases he : e ≥ 0
  · -- both are integers
    have he2 : e + i ≥ 0 := by omega
    simp only [he, he2, if_true]
    rw [List.append_assoc, List.replicate_append_replicate]
    congr 2
    omega
  · simp only [he, if_false]
    have hk : (((-e).toNat : Nat) : Int) = -e := Int.toNat_of_nonneg (by omega)
    generalize hkk : (-e).toNat = k at hk
    have hk1 : k ≥ 1 := by omega
    by_cases hei : e + i ≥ 0
    · -- the zeros reach the decimal point: an integer on both sides
      have hki : k ≤ i := by omega
      have hlen : (c ++ List.replicate i '0').length > k := by
        have := hc.ne; have : c.length ≥ 1 := by cases c <;> simp_all
        simp only [List.length_append, List.length_replicate]; omega
      simp only [hei, hlen, if_true]
      have e1 : (c ++ List.replicate i '0').length - k = c.length + (i - k) := by
        simp only [List.length_append, List.length_replicate]; omega
      have hsplit : c ++ List.replicate i '0' = (c ++ List.replicate (i - k) '0') ++ List.replicate k '0' := by
        rw [List.append_assoc, List.replicate_append_replicate]; congr 2; omega
      have htake : (c ++ List.replicate i '0').take ((c ++ List.replicate i '0').length - k) = c ++ List.replicate (i - k) '0' := by
        rw [e1]; conv => lhs; rw [hsplit]
        rw [List.take_append_of_le_length (by simp)]
        rw [List.take_of_length_le (by simp)]
      have hdrop : (c ++ List.replicate i '0').drop ((c ++ List.replicate i '0').length - k) = List.replicate k '0' := by
        rw [e1]; conv => lhs; rw [hsplit]
        rw [List.drop_append_of_le_length (by simp)]
        rw [List.drop_of_length_le (by simp)]; simp
      rw [htake, hdrop, trimTrailing_all_zero]
      simp only [if_true]
      congr 2; omega
    · -- a fraction on both sides
      simp only [hei, if_false]
      have hk' : (((-(e + i)).toNat : Nat) : Int) = -(e + i) := Int.toNat_of_nonneg (by omega)
      generalize hkk' : (-(e + (i : Int))).toNat = k' at hk'
      have hkk2 : k = k' + i := by omega
      by_cases hlen : c.length > k'
      · have hlen1 : (c ++ List.replicate i '0').length > k := by
          simp only [List.length_append, List.length_replicate]; omega
        simp only [hlen, hlen1, if_true]
        have e1 : (c ++ List.replicate i '0').length - k = c.length - k' := by
          simp only [List.length_append, List.length_replicate]; omega
        have htake : (c ++ List.replicate i '0').take (c.length - k') = c.take (c.length - k') := by
          rw [List.take_append_of_le_length (by omega)]
        have hdrop : (c ++ List.replicate i '0').drop (c.length - k') = c.drop (c.length - k') ++ List.replicate i '0' := by
          rw [List.drop_append_of_le_length (by omega)]
        rw [e1, htake, hdrop, trimTrailing_append_zeros]
      · have hlen1 : ¬ (c ++ List.replicate i '0').length > k := by
          simp only [List.length_append, List.length_replicate]; omega
        simp only [hlen, hlen1, if_false]
        have e1 : k - (c ++ List.replicate i '0').length = k' - c.length := by
          simp only [List.length_append, List.length_replicate]; omega
        rw [e1, ← List.append_assoc, trimTrailing_append_zeros]

/-- **Equal numbers render equally** (what `=` relies on): two non-zero numbers with the same
normal form have the same text. -/
theorem render_canonical (a b : Dec) (ha : NZ a.digits) (hb : NZ b.digits) (h : norm a = norm b) :
    render a = render b := by
  have key : ∀ (d : Dec), NZ d.digits → render d = render (norm d) := by
    intro d hd
    obtain ⟨neg, ds, e⟩ := d
    rw [norm_nz neg ds e hd]
    have hdec := trim_decomp ds
    have hnz : NZ (trimTrailingZeros ds) := by
      refine ⟨hd.trim_ne, digits_of_mem_trim ds hd.dig, ?_⟩
      have hh := hd.head
      cases htr : trimTrailingZeros ds with
      | nil => exact absurd htr hd.trim_ne
      | cons x r => rw [hdec, htr] at hh; simpa using hh
    have := render_zeros_shift neg (trimTrailingZeros ds) hnz (trim_last_ne ds) (trailingZeros ds) e
    rw [← hdec] at this
    exact this
  rw [key a ha, key b hb, h]

/-- **Round trip of every number** the implementation can hold. -/
theorem num_roundtrip (d : Dec) (h : WellFormed d) :
    ∃ p, parse (render d) = some p ∧ norm p = norm d := by
  obtain ⟨hne, hdig, hhead, hzero⟩ := h
  by_cases hz : d.digits.head? = some '0'
  · have h0 := hhead hz
    have hn := hzero h0
    obtain ⟨neg, ds, e⟩ := d
    simp only at h0 hn; subst h0; subst hn
    have := num_roundtrip_zero e
    exact ⟨⟨false, ['0'], 0⟩, by rw [this.1]; exact this.2.1, this.2.2⟩
  · obtain ⟨neg, ds, e⟩ := d
    exact num_roundtrip_nz neg ds e ⟨hne, hdig, hz⟩

/-- the hypotheses are satisfiable: `-12300 × 10⁻²` renders `-123` -/
example : WellFormed ⟨true, "12300".toList, -2⟩ ∧ render ⟨true, "12300".toList, -2⟩ = "-123".toList := by
  refine ⟨⟨by decide, by decide, by decide, by decide⟩, by decide⟩

/-- **Equal renderings mean equal numbers**: comparing the canonical texts never identifies two
different numbers (the converse, that equal numbers render equally, is checked on the
implementation by monitor `M-eq-render`). -/
theorem render_injective (a b : Dec) (ha : WellFormed a) (hb : WellFormed b) (h : render a = render b) :
    norm a = norm b := by
  obtain ⟨p, hp, hpn⟩ := num_roundtrip a ha
  obtain ⟨q, hq, hqn⟩ := num_roundtrip b hb
  rw [h, hq] at hp
  cases hp
  rw [← hpn, ← hqn]

/-! ## Dates and times -/
section DateTime
open GoflowModel.DateText

theorem dropWhile_id {p : Char → Bool} (s : List Char) (h : ∀ c, s.head? = some c → p c = false) :
    s.dropWhile p = s := by
  cases s with
  | nil => rfl
  | cons c r => simp [List.dropWhile_cons, h c rfl]

theorem trim_id (s : List Char) (h1 : ∀ c, s.head? = some c → trimSet c = false)
    (h2 : ∀ c, s.getLast? = some c → trimSet c = false) : trim s = s := by
  unfold trim
  rw [dropWhile_id s h1, dropWhile_id s.reverse (by simpa [List.head?_reverse] using h2), List.reverse_reverse]

theorem atoi_nil : atoi [] = 0 := rfl

theorem trimSet_dg (n : Nat) : trimSet (dg n) = false := by
  have h := isDigit_dg n
  have h1 := digit_ne h ' ' (by decide)
  have h2 := digit_ne h '\n' (by decide)
  have h3 := digit_ne h '\r' (by decide)
  have h4 := digit_ne h '\t' (by decide)
  simp [trimSet, h1, h2, h3, h4]

/-- the value a time format can carry: seconds only when it prints them, never a fraction -/
def atPrecision (tf : TF) (t : TimeOfDay) : TimeOfDay :=
  match tf with
  | .hm | .hmAmPm => ⟨t.h, t.mi, 0, 0⟩
  | .hms | .hmsAmPm => ⟨t.h, t.mi, t.s, 0⟩

def timeInRange (t : TimeOfDay) : Prop := t.h < 24 ∧ t.mi < 60 ∧ t.s < 60
def dateInRange (x : Date) : Prop := 1 ≤ x.y ∧ x.y ≤ 9999 ∧ x.valid = true

theorem valid_bounds (x : Date) (h : x.valid = true) : 1 ≤ x.m ∧ x.m ≤ 12 ∧ 1 ≤ x.d ∧ x.d ≤ daysIn x.y x.m ∧ x.d ≤ 31 := by
  simp only [Date.valid, Bool.and_eq_true, decide_eq_true_eq] at h
  refine ⟨h.1.1.1, h.1.1.2, h.1.2, h.2, ?_⟩
  have : daysIn x.y x.m ≤ 31 := by unfold daysIn; split <;> (try split) <;> omega
  omega


theorem hourAmPm_hour12 : ∀ h, h < 24 → hourAmPm (hour12 h) (ampm h) = h := by decide

theorem timeOfFields_24h (h mi s : Nat) (hh : h < 24) (hm : mi < 60) (hs : s < 60) :
    timeOfFields h mi s [] [] = some ⟨h, mi, s, 0⟩ := by
  have h1 : hourAmPm h [] = h := by simp [hourAmPm]
  have h24 : h ≠ 24 := by omega
  have hr : ¬ (h > 24 ∨ mi > 60 ∨ s > 60) := by omega
  simp only [timeOfFields, h1, List.take_nil, atoi_nil, Nat.zero_mul, h24, false_and, if_false, if_neg hr]

theorem timeOfFields_12h (h mi s : Nat) (hh : h < 24) (hm : mi < 60) (hs : s < 60) :
    timeOfFields (hour12 h) mi s [] (ampm h) = some ⟨h, mi, s, 0⟩ := by
  have h24 : h ≠ 24 := by omega
  have hr : ¬ (h > 24 ∨ mi > 60 ∨ s > 60) := by omega
  simp only [timeOfFields, hourAmPm_hour12 h hh, List.take_nil, atoi_nil, Nat.zero_mul, h24, false_and, if_false, if_neg hr]

theorem map_lower_ampm (h : Nat) : (ampm h).map lower = ampm h := by
  unfold ampm; split <;> decide

/-- Lemma C: the remainder after the date — a space and the formatted time — parses to the time
at the format's precision. -/
theorem parseTime_fmtTime (tf : TF) (t : TimeOfDay) (ht : timeInRange t) :
    parseTime (' ' :: fmtTime tf t) = some (atPrecision tf t) := by
  obtain ⟨hh, hm, hs⟩ := ht
  have dh1 := isDigit_dg (t.h / 10); have dh2 := isDigit_dg t.h
  have dm1 := isDigit_dg (t.mi / 10); have dm2 := isDigit_dg t.mi
  have ds1 := isDigit_dg (t.s / 10); have ds2 := isDigit_dg t.s
  have a12 : hour12 t.h ≥ 1 ∧ hour12 t.h ≤ 12 := by unfold hour12; split <;> omega
  have dk1 := isDigit_dg (hour12 t.h / 10); have dk2 := isDigit_dg (hour12 t.h)
  have hap : ∃ x, (x = 'a' ∨ x = 'p') ∧ ampm t.h = [x, 'm'] := by
    unfold ampm; split
    · exact ⟨'p', Or.inr rfl, rfl⟩
    · exact ⟨'a', Or.inl rfl, rfl⟩
  obtain ⟨x, hx, hxm⟩ := hap
  have hlow := map_lower_ampm t.h
  cases tf with
  | hm =>
    simp only [parseTime, fmtTime, pad2, List.cons_append, List.nil_append, List.length_cons, List.length_nil]
    rw [find_hm _ _ _ _ _ dh1 dh2 dm1 dm2]
    simp only [timeFromMatches, cap, List.lookup, atPrecision, Option.getD, List.map_nil,
      show ((1 : Nat) == 2) = false from rfl, show ((1 : Nat) == 1) = true from rfl, show ((2 : Nat) == 2) = true from rfl,
      show ((3 : Nat) == 2) = false from rfl, show ((3 : Nat) == 1) = false from rfl,
      show ((4 : Nat) == 2) = false from rfl, show ((4 : Nat) == 1) = false from rfl,
      show ((5 : Nat) == 2) = false from rfl, show ((5 : Nat) == 1) = false from rfl,
      atoi_dg2 t.h (by omega), atoi_dg2 t.mi (by omega), atoi_nil]
    rw [timeOfFields_24h t.h t.mi 0 hh hm (by omega)]
  | hms =>
    simp only [parseTime, fmtTime, pad2, List.cons_append, List.nil_append, List.length_cons, List.length_nil]
    rw [find_hms _ _ _ _ _ _ _ dh1 dh2 dm1 dm2 ds1 ds2]
    simp only [timeFromMatches, cap, List.lookup, atPrecision, Option.getD, List.map_nil,
      show ((1 : Nat) == 3) = false from rfl, show ((1 : Nat) == 2) = false from rfl, show ((1 : Nat) == 1) = true from rfl,
      show ((2 : Nat) == 3) = false from rfl, show ((2 : Nat) == 2) = true from rfl,
      show ((3 : Nat) == 3) = true from rfl,
      show ((4 : Nat) == 3) = false from rfl, show ((4 : Nat) == 2) = false from rfl, show ((4 : Nat) == 1) = false from rfl,
      show ((5 : Nat) == 3) = false from rfl, show ((5 : Nat) == 2) = false from rfl, show ((5 : Nat) == 1) = false from rfl,
      atoi_dg2 t.h (by omega), atoi_dg2 t.mi (by omega), atoi_dg2 t.s (by omega)]
    rw [timeOfFields_24h t.h t.mi t.s hh hm hs]
  | hmAmPm =>
    by_cases h10 : hour12 t.h ≥ 10
    · simp only [parseTime, fmtTime, hour12Digits, hxm, h10, if_true, pad2, List.cons_append, List.nil_append,
        List.length_cons, List.length_nil]
      rw [find_hma2 _ _ _ _ _ x hx dk1 dk2 dm1 dm2]
      simp only [timeFromMatches, cap, List.lookup, atPrecision, Option.getD,
        show ((1 : Nat) == 5) = false from rfl, show ((1 : Nat) == 2) = false from rfl, show ((1 : Nat) == 1) = true from rfl,
        show ((2 : Nat) == 5) = false from rfl, show ((2 : Nat) == 2) = true from rfl,
        show ((3 : Nat) == 5) = false from rfl, show ((3 : Nat) == 2) = false from rfl, show ((3 : Nat) == 1) = false from rfl,
        show ((4 : Nat) == 5) = false from rfl, show ((4 : Nat) == 2) = false from rfl, show ((4 : Nat) == 1) = false from rfl,
        show ((5 : Nat) == 5) = true from rfl,
        atoi_dg2 (hour12 t.h) (by omega), atoi_dg2 t.mi (by omega), atoi_nil]
      rw [← hxm, hlow, timeOfFields_12h t.h t.mi 0 hh hm (by omega)]
    · simp only [parseTime, fmtTime, hour12Digits, hxm, h10, if_false, pad2, List.cons_append, List.nil_append,
        List.length_cons, List.length_nil]
      rw [find_hma1 _ _ _ _ x hx dk2 dm1 dm2]
      simp only [timeFromMatches, cap, List.lookup, atPrecision, Option.getD,
        show ((1 : Nat) == 5) = false from rfl, show ((1 : Nat) == 2) = false from rfl, show ((1 : Nat) == 1) = true from rfl,
        show ((2 : Nat) == 5) = false from rfl, show ((2 : Nat) == 2) = true from rfl,
        show ((3 : Nat) == 5) = false from rfl, show ((3 : Nat) == 2) = false from rfl, show ((3 : Nat) == 1) = false from rfl,
        show ((4 : Nat) == 5) = false from rfl, show ((4 : Nat) == 2) = false from rfl, show ((4 : Nat) == 1) = false from rfl,
        show ((5 : Nat) == 5) = true from rfl,
        atoi_dg1 (hour12 t.h) (by omega), atoi_dg2 t.mi (by omega), atoi_nil]
      rw [← hxm, hlow, timeOfFields_12h t.h t.mi 0 hh hm (by omega)]
  | hmsAmPm =>
    by_cases h10 : hour12 t.h ≥ 10
    · simp only [parseTime, fmtTime, hour12Digits, hxm, h10, if_true, pad2, List.cons_append, List.nil_append,
        List.length_cons, List.length_nil]
      rw [find_hmsa2 _ _ _ _ _ _ _ x hx dk1 dk2 dm1 dm2 ds1 ds2]
      simp only [timeFromMatches, cap, List.lookup, atPrecision, Option.getD,
        show ((1 : Nat) == 5) = false from rfl, show ((1 : Nat) == 3) = false from rfl, show ((1 : Nat) == 2) = false from rfl, show ((1 : Nat) == 1) = true from rfl,
        show ((2 : Nat) == 5) = false from rfl, show ((2 : Nat) == 3) = false from rfl, show ((2 : Nat) == 2) = true from rfl,
        show ((3 : Nat) == 5) = false from rfl, show ((3 : Nat) == 3) = true from rfl,
        show ((4 : Nat) == 5) = false from rfl, show ((4 : Nat) == 3) = false from rfl, show ((4 : Nat) == 2) = false from rfl, show ((4 : Nat) == 1) = false from rfl,
        show ((5 : Nat) == 5) = true from rfl,
        atoi_dg2 (hour12 t.h) (by omega), atoi_dg2 t.mi (by omega), atoi_dg2 t.s (by omega)]
      rw [← hxm, hlow, timeOfFields_12h t.h t.mi t.s hh hm hs]
    · simp only [parseTime, fmtTime, hour12Digits, hxm, h10, if_false, pad2, List.cons_append, List.nil_append,
        List.length_cons, List.length_nil]
      rw [find_hmsa1 _ _ _ _ _ _ x hx dk2 dm1 dm2 ds1 ds2]
      simp only [timeFromMatches, cap, List.lookup, atPrecision, Option.getD,
        show ((1 : Nat) == 5) = false from rfl, show ((1 : Nat) == 3) = false from rfl, show ((1 : Nat) == 2) = false from rfl, show ((1 : Nat) == 1) = true from rfl,
        show ((2 : Nat) == 5) = false from rfl, show ((2 : Nat) == 3) = false from rfl, show ((2 : Nat) == 2) = true from rfl,
        show ((3 : Nat) == 5) = false from rfl, show ((3 : Nat) == 3) = true from rfl,
        show ((4 : Nat) == 5) = false from rfl, show ((4 : Nat) == 3) = false from rfl, show ((4 : Nat) == 2) = false from rfl, show ((4 : Nat) == 1) = false from rfl,
        show ((5 : Nat) == 5) = true from rfl,
        atoi_dg1 (hour12 t.h) (by omega), atoi_dg2 t.mi (by omega), atoi_dg2 t.s (by omega)]
      rw [← hxm, hlow, timeOfFields_12h t.h t.mi t.s hh hm hs]

theorem fmtTime_last (tf : TF) (t : TimeOfDay) : ∀ c, (fmtTime tf t).getLast? = some c → trimSet c = false := by
  intro c hc
  have hm : trimSet 'm' = false := by decide
  cases tf <;> simp only [fmtTime, pad2, ampm, hour12Digits] at hc
  · simp at hc; rw [← hc]; exact trimSet_dg _
  · split at hc <;> split at hc <;> simp at hc <;> rw [← hc] <;> exact hm
  · simp at hc; rw [← hc]; exact trimSet_dg _
  · split at hc <;> split at hc <;> simp at hc <;> rw [← hc] <;> exact hm

theorem fmtTime_ne_nil (tf : TF) (t : TimeOfDay) : fmtTime tf t ≠ [] := by
  cases tf <;> simp [fmtTime, pad2, hour12Digits] <;> split <;> simp

/-- Lemma D: the formatted text has nothing to trim -/
theorem trim_fmt (df : DF) (tf : TF) (x : Date) (t : TimeOfDay) :
    trim (fmtDateTime df tf x t) = fmtDateTime df tf x t := by
  apply trim_id
  · intro c hc
    cases df <;> simp [fmtDateTime, fmtDate, pad2, pad4] at hc <;> rw [← hc] <;> exact trimSet_dg _
  · intro c hc
    have hne := fmtTime_ne_nil tf t
    have : (fmtDateTime df tf x t).getLast? = (fmtTime tf t).getLast? := by
      unfold fmtDateTime
      rw [List.getLast?_append]
      cases hT : fmtTime tf t with
      | nil => exact absurd hT hne
      | cons a r =>
        simp only [List.getLast?_cons_cons]
        cases hl : (a :: r).getLast? with
        | none => simp at hl
        | some z => rfl
    rw [this] at hc
    exact fmtTime_last tf t c hc

/-- Lemma B: formatted text is not taken for a full ISO timestamp -/
theorem isoFull_fmt (b : Bool) (df : DF) (x : Date) (T : List Char) :
    isoFull b (fmtDate df x ++ ' ' :: T) = none := by
  have h1 : DateText.isDigit '-' = false := by decide
  cases df
  · -- YYYY-MM-DD: the date reads, the `T` is missing
    have hp : ∀ R, isoFull.isoDatePrefixLoose (fmtDate .ymd x ++ R) =
        if atoi (pad2 x.m) = 0 ∨ atoi (pad2 x.m) > 12 ∨ atoi (pad2 x.d) = 0 ∨ atoi (pad2 x.d) > 31 then none
        else some (⟨atoi (pad4 x.y), atoi (pad2 x.m), atoi (pad2 x.d)⟩, R) := by
      intro R
      simp [isoFull.isoDatePrefixLoose, takeDigits, expect, fmtDate, pad2, pad4, isDigit_dg]
    unfold isoFull
    rw [hp]
    split
    · rfl
    · simp [expect]
  · simp [isoFull, isoFull.isoDatePrefixLoose, takeDigits, expect, fmtDate, pad2, pad4, isDigit_dg, h1]
  · simp [isoFull, isoFull.isoDatePrefixLoose, takeDigits, expect, fmtDate, pad2, pad4, isDigit_dg, h1]

/-- Lemma A: the date part, in each of the three date formats, followed by any text `R` that does
not continue the last number (a space and a time, or nothing) -/
theorem parseDate_fmt' (df : DF) (cy : Nat) (x : Date) (R : List Char) (hx : dateInRange x)
    (hR : wordOpt R.head? = false)
    (htrim : trim (fmtDate df x ++ R) = fmtDate df x ++ R) :
    parseDate df cy (fmtDate df x ++ R) = some (x, R) := by
  obtain ⟨hy1, hy2, hv⟩ := hx
  obtain ⟨hm1, hm2, hd1, hd2, hd3⟩ := valid_bounds x hv
  have h1 : DateText.isDigit '-' = false := by decide
  have ay := atoi_pad4 x.y (by omega)
  have am := atoi_pad2 x.m (by omega)
  have ad := atoi_pad2 x.d (by omega)
  simp only [pad4, pad2] at ay am ad
  unfold parseDate
  simp only [htrim]
  cases df
  · have hiso : isoDatePrefix ((fmtDate .ymd x ++ R).take 10) = some (x, []) := by
      simp [isoDatePrefix, takeDigits, expect, fmtDate, pad2, pad4, isDigit_dg, ay, am, ad, hv]
    have hasc : ((fmtDate .ymd x ++ R).take 10).all (·.toNat < 128) = true := by
      simp [fmtDate, pad2, pad4, dg_ascii]
    simp only [hasc, if_true, hiso]
    simp [fmtDate, pad2, pad4]
  · have hiso : isoDatePrefix ((fmtDate .mdy x ++ R).take 10) = none := by
      simp [isoDatePrefix, takeDigits, fmtDate, pad2, pad4, isDigit_dg, h1]
    have hrun := run_dmy' (dg (x.m / 10)) (dg x.m) (dg (x.d / 10)) (dg x.d) (dg (x.y / 1000)) (dg (x.y / 100)) (dg (x.y / 10)) (dg x.y) R hR
      (isDigit_dg _) (isDigit_dg _) (isDigit_dg _) (isDigit_dg _) (isDigit_dg _) (isDigit_dg _) (isDigit_dg _) (isDigit_dg _)
    have hs : fmtDate .mdy x ++ R = dg (x.m / 10) :: dg x.m :: '-' :: dg (x.d / 10) :: dg x.d :: '-' ::
        dg (x.y / 1000) :: dg (x.y / 100) :: dg (x.y / 10) :: dg x.y :: R := by
      simp [fmtDate, pad2, pad4]
    rw [hiso, hs]
    simp only [ite_self, List.length_cons, findAll, hrun]
    simp only [dateFromMatches, cap, List.lookup, Option.getD,
      show ((3 : Nat) == 3) = true from rfl, show ((2 : Nat) == 3) = false from rfl, show ((2 : Nat) == 2) = true from rfl,
      show ((1 : Nat) == 3) = false from rfl, show ((1 : Nat) == 2) = false from rfl, show ((1 : Nat) == 1) = true from rfl,
      ay, am, ad, List.length_cons, List.length_nil]
    have hr : ¬ (x.d = 0 ∨ x.d > 31 ∨ x.m = 0 ∨ x.m > 12 ∨ x.d > daysIn x.y x.m) := by omega
    simp [hr]
  · have hiso : isoDatePrefix ((fmtDate .dmy x ++ R).take 10) = none := by
      simp [isoDatePrefix, takeDigits, fmtDate, pad2, pad4, isDigit_dg, h1]
    have hrun := run_dmy' (dg (x.d / 10)) (dg x.d) (dg (x.m / 10)) (dg x.m) (dg (x.y / 1000)) (dg (x.y / 100)) (dg (x.y / 10)) (dg x.y) R hR
      (isDigit_dg _) (isDigit_dg _) (isDigit_dg _) (isDigit_dg _) (isDigit_dg _) (isDigit_dg _) (isDigit_dg _) (isDigit_dg _)
    have hs : fmtDate .dmy x ++ R = dg (x.d / 10) :: dg x.d :: '-' :: dg (x.m / 10) :: dg x.m :: '-' ::
        dg (x.y / 1000) :: dg (x.y / 100) :: dg (x.y / 10) :: dg x.y :: R := by
      simp [fmtDate, pad2, pad4]
    rw [hiso, hs]
    simp only [ite_self, List.length_cons, findAll, hrun]
    simp only [dateFromMatches, cap, List.lookup, Option.getD,
      show ((3 : Nat) == 3) = true from rfl, show ((2 : Nat) == 3) = false from rfl, show ((2 : Nat) == 2) = true from rfl,
      show ((1 : Nat) == 3) = false from rfl, show ((1 : Nat) == 2) = false from rfl, show ((1 : Nat) == 1) = true from rfl,
      ay, am, ad, List.length_cons, List.length_nil]
    have hr : ¬ (x.d = 0 ∨ x.d > 31 ∨ x.m = 0 ∨ x.m > 12 ∨ x.d > daysIn x.y x.m) := by omega
    simp [hr]

theorem parseDate_fmt (df : DF) (cy : Nat) (x : Date) (T : List Char) (hx : dateInRange x)
    (htrim : trim (fmtDate df x ++ ' ' :: T) = fmtDate df x ++ ' ' :: T) :
    parseDate df cy (fmtDate df x ++ ' ' :: T) = some (x, ' ' :: T) :=
  parseDate_fmt' df cy x (' ' :: T) hx (by simp [wordOpt]) htrim

/-- **Round trip of a date** through each environment date format (and `XDate.Render`, which is
the `YYYY-MM-DD` one). -/
theorem date_roundtrip (df : DF) (cy : Nat) (x : Date) (hx : dateInRange x) :
    parseDate df cy (fmtDate df x) = some (x, []) := by
  have htrim : trim (fmtDate df x ++ []) = fmtDate df x ++ [] := by
    apply trim_id
    · intro c hc
      cases df <;> simp [fmtDate, pad2, pad4] at hc <;> rw [← hc] <;> exact trimSet_dg _
    · intro c hc
      cases df <;> simp [fmtDate, pad2, pad4] at hc <;> rw [← hc] <;> exact trimSet_dg _
  have := parseDate_fmt' df cy x [] hx (by simp [wordOpt]) htrim
  simpa using this

/-- `XTime.Render`: `tt:mm:ss.ffffff` -/
def fmtTimeMicro (t : TimeOfDay) : List Char :=
  pad2 t.h ++ ':' :: pad2 t.mi ++ ':' :: pad2 t.s ++ '.' ::
    [dg (t.nanos / 1000 / 100000), dg (t.nanos / 1000 / 10000), dg (t.nanos / 1000 / 1000), dg (t.nanos / 1000 / 100),
     dg (t.nanos / 1000 / 10), dg (t.nanos / 1000)]

/-- **Round trip of a time of day** through its rendering, to the microsecond. -/
theorem time_roundtrip (t : TimeOfDay) (ht : timeInRange t) (hn : t.nanos < 1000000000) :
    parseTime (fmtTimeMicro t) = some ⟨t.h, t.mi, t.s, t.nanos / 1000 * 1000⟩ := by
  obtain ⟨hh, hm, hs⟩ := ht
  have au : atoi [dg (t.nanos / 1000 / 100000), dg (t.nanos / 1000 / 10000), dg (t.nanos / 1000 / 1000),
      dg (t.nanos / 1000 / 100), dg (t.nanos / 1000 / 10), dg (t.nanos / 1000)] = t.nanos / 1000 := by
    simp only [atoi, List.foldl_cons, List.foldl_nil, digitVal_dg]; omega
  simp only [parseTime, fmtTimeMicro, pad2, List.cons_append, List.nil_append, List.length_cons, List.length_nil]
  rw [find_time_micro _ _ _ _ _ _ _ _ _ _ _ _ _ (isDigit_dg _) (isDigit_dg _) (isDigit_dg _) (isDigit_dg _) (isDigit_dg _)
    (isDigit_dg _) (isDigit_dg _) (isDigit_dg _) (isDigit_dg _) (isDigit_dg _) (isDigit_dg _) (isDigit_dg _)]
  simp only [timeFromMatches, cap, List.lookup, Option.getD, List.map_nil,
    show ((1 : Nat) == 4) = false from rfl, show ((1 : Nat) == 3) = false from rfl, show ((1 : Nat) == 2) = false from rfl, show ((1 : Nat) == 1) = true from rfl,
    show ((2 : Nat) == 4) = false from rfl, show ((2 : Nat) == 3) = false from rfl, show ((2 : Nat) == 2) = true from rfl,
    show ((3 : Nat) == 4) = false from rfl, show ((3 : Nat) == 3) = true from rfl,
    show ((4 : Nat) == 4) = true from rfl,
    show ((5 : Nat) == 4) = false from rfl, show ((5 : Nat) == 3) = false from rfl, show ((5 : Nat) == 2) = false from rfl, show ((5 : Nat) == 1) = false from rfl,
    atoi_dg2 t.h (by omega), atoi_dg2 t.mi (by omega), atoi_dg2 t.s (by omega)]
  have h1 : hourAmPm t.h [] = t.h := by simp [hourAmPm]
  have h24 : t.h ≠ 24 := by omega
  have hr : ¬ (t.h > 24 ∨ t.mi > 60 ∨ t.s > 60) := by omega
  simp only [timeOfFields, h1, List.take, List.length_cons, List.length_nil, au, h24, false_and, if_false, if_neg hr]

/-- **Round trip of a datetime through each supported environment format.**  For every date with
a year 1–9999, every time of day and all twelve date-format × time-format pairs (and whatever
the current year is, which only two-digit years consult), the formatted text parses back to the
same date and the same time at the precision the format prints. -/
theorem datetime_roundtrip (df : DF) (tf : TF) (cy : Nat) (x : Date) (t : TimeOfDay)
    (hx : dateInRange x) (ht : timeInRange t) :
    parseDateTime df cy (fmtDateTime df tf x t) = some (.local x (atPrecision tf t)) := by
  have htrim := trim_fmt df tf x t
  unfold parseDateTime
  simp only [htrim]
  unfold fmtDateTime at htrim ⊢
  rw [isoFull_fmt, isoFull_fmt, parseDate_fmt df cy x _ hx htrim]
  simp only [parseTime_fmtTime tf t ht]

/-- the hypotheses are satisfiable, and the statement is not about a default: a leap day at
12:05:09 am in `DD-MM-YYYY h:mm:ss aa` -/
example : dateInRange ⟨2024, 2, 29⟩ ∧ timeInRange ⟨0, 5, 9, 0⟩ ∧
    fmtDateTime .dmy .hmsAmPm ⟨2024, 2, 29⟩ ⟨0, 5, 9, 0⟩ = "29-02-2024 12:05:09 am".toList := by
  refine ⟨by unfold dateInRange; decide, by unfold timeInRange; decide, by decide⟩

/-- outside the guard the real code does lose the value: a year below 1000 printed by the engine
before the repair (`%d`) is not read back — kept as a regression witness of the model's parser -/
example : parseDateTime .dmy 2026 "01-02-476 10:30".toList = none := by decide

/-! ### ISO form -/

theorem atoi_6 (n : Nat) (h : n < 1000000) :
    atoi [dg (n / 100000), dg (n / 10000), dg (n / 1000), dg (n / 100), dg (n / 10), dg n] = n := by
  simp only [atoi, List.foldl_cons, List.foldl_nil, digitVal_dg]; omega

/-- the zone suffix `Z` / `±hh:mm` reads back as the offset -/
theorem isoZone_fmt (off : Int) (ho : off.natAbs < 24 * 60) :
    isoZone (zoneText off) = some off := by
  unfold zoneText
  by_cases h0 : off = 0
  · simp [h0, isoZone]
  · have a1 := atoi_pad2 (off.natAbs / 60) (by omega)
    have a2 := atoi_pad2 (off.natAbs % 60) (by omega)
    simp only [pad2] at a1 a2
    by_cases hneg : off < 0
    · simp [h0, hneg, isoZone, takeDigits, expect, pad2, isDigit_dg, a1, a2]
      omega
    · simp [h0, hneg, isoZone, takeDigits, expect, pad2, isDigit_dg, a1, a2]
      omega

/-- **Round trip of a datetime through its ISO rendering** (`XDateTime.Render`, what contact
fields, results and JSON carry): the same date, time of day to the microsecond and offset, in
whatever environment it is read. -/
theorem iso_roundtrip (df : DF) (cy : Nat) (x : Date) (t : TimeOfDay) (off : Int)
    (hx : dateInRange x) (ht : timeInRange t) (hn : t.nanos < 1000000000) (ho : off.natAbs < 24 * 60) :
    parseDateTime df cy (fmtISO x t off) = some (.iso x ⟨t.h, t.mi, t.s, t.nanos / 1000 * 1000⟩ off) := by
  obtain ⟨hy1, hy2, hv⟩ := hx
  obtain ⟨hm1, hm2, hd1, hd2, hd3⟩ := valid_bounds x hv
  obtain ⟨hh, hmi, hs⟩ := ht
  have ay := atoi_pad4 x.y (by omega)
  have am := atoi_pad2 x.m (by omega)
  have ad := atoi_pad2 x.d (by omega)
  have ah := atoi_pad2 t.h (by omega)
  have ami := atoi_pad2 t.mi (by omega)
  have as := atoi_pad2 t.s (by omega)
  have au := atoi_6 (t.nanos / 1000) (by omega)
  simp only [pad4, pad2] at ay am ad ah ami as
  have hzone := isoZone_fmt off ho
  have hzdef : zoneText off = (if off = 0 then ['Z']
      else (if off < 0 then '-' else '+') :: pad2 (off.natAbs / 60) ++ ':' :: pad2 (off.natAbs % 60)) := rfl
  generalize hz : zoneText off = zone at hzone hzdef
  have hz : (if off = 0 then ['Z']
      else (if off < 0 then '-' else '+') :: pad2 (off.natAbs / 60) ++ ':' :: pad2 (off.natAbs % 60)) = zone := hzdef.symm
  have hfmt0 : fmtISO x t off = pad4 x.y ++ '-' :: pad2 x.m ++ '-' :: pad2 x.d ++ 'T' :: pad2 t.h ++ ':' :: pad2 t.mi ++ ':' :: pad2 t.s ++
    '.' :: [dg (t.nanos / 1000 / 100000), dg (t.nanos / 1000 / 10000), dg (t.nanos / 1000 / 1000), dg (t.nanos / 1000 / 100),
      dg (t.nanos / 1000 / 10), dg (t.nanos / 1000)] ++ zone := by
    unfold fmtISO; rw [‹zoneText off = zone›]
  -- the zone suffix starts with a character that is not a digit and ends with one that is not blank
  have hzhead : zone.takeWhile DateText.isDigit = [] ∧ zone.dropWhile DateText.isDigit = zone := by
    rw [← hz]; split
    · decide
    · split <;> simp [List.takeWhile_cons, List.dropWhile_cons, show DateText.isDigit '+' = false from by decide,
        show DateText.isDigit '-' = false from by decide]
  have hzlast : ∀ c, zone.getLast? = some c → trimSet c = false := by
    intro c hc; rw [← hz] at hc
    split at hc
    · simp at hc; rw [← hc]; decide
    · simp [pad2] at hc; rw [← hc]; exact trimSet_dg _
  have hzne : zone ≠ [] := by rw [← hz]; split <;> simp
  have hfmt : fmtISO x t off = dg (x.y / 1000) :: dg (x.y / 100) :: dg (x.y / 10) :: dg x.y :: '-' ::
      dg (x.m / 10) :: dg x.m :: '-' :: dg (x.d / 10) :: dg x.d :: 'T' :: dg (t.h / 10) :: dg t.h :: ':' ::
      dg (t.mi / 10) :: dg t.mi :: ':' :: dg (t.s / 10) :: dg t.s :: '.' ::
      dg (t.nanos / 1000 / 100000) :: dg (t.nanos / 1000 / 10000) :: dg (t.nanos / 1000 / 1000) ::
      dg (t.nanos / 1000 / 100) :: dg (t.nanos / 1000 / 10) :: dg (t.nanos / 1000) :: zone := by
    rw [hfmt0]; simp [pad4, pad2]
  have htrim : trim (fmtISO x t off) = fmtISO x t off := by
    apply trim_id
    · intro c hc; rw [hfmt] at hc; simp at hc; rw [← hc]; exact trimSet_dg _
    · intro c hc; rw [hfmt] at hc
      cases hzn : zone with
      | nil => exact absurd hzn hzne
      | cons a r =>
        rw [hzn] at hc hzlast
        simp only [List.getLast?_cons_cons] at hc
        exact hzlast c hc
  unfold parseDateTime
  simp only [htrim]
  have hiso : isoFull true (fmtISO x t off) = some (x, ⟨t.h, t.mi, t.s, t.nanos / 1000 * 1000⟩, off) := by
    rw [hfmt]
    have hr1 : ¬ (x.m = 0 ∨ x.m > 12 ∨ x.d = 0 ∨ x.d > 31) := by omega
    have hr2 : ¬ (t.h ≥ 24 ∨ t.mi ≥ 60) := by omega
    have hr3 : ¬ (t.s ≥ 60) := by omega
    simp [isoFull, isoFull.isoDatePrefixLoose, takeDigits, takeNum12, expect, isDigit_dg, ay, am, ad, ah, ami, as, hr1, hr2, hr3,
      List.takeWhile_cons, List.dropWhile_cons, hzhead.1, hzhead.2, au, hzone, hv]
  rw [hiso]

/-! ### the texts the models were written from (regenerated from the source on every run) -/

theorem source_texts :
    Gen.Consts.decimalRegexp = "^-?(([0-9]+)|([0-9]+\\.[0-9]+)|(\\.[0-9]+))$" ∧
    Gen.Consts.patternDayMonthYear = "\\b([0-9]{1,2})[-.\\\\/_ ]([0-9]{1,2})[-.\\\\/_ ]([0-9]{4}|[0-9]{2})\\b" ∧
    Gen.Consts.patternMonthDayYear = Gen.Consts.patternDayMonthYear ∧
    Gen.Consts.patternYearMonthDay = "\\b([0-9]{4}|[0-9]{2})[-.\\\\/_ ]([0-9]{1,2})[-.\\\\/_ ]([0-9]{1,2})\\b" ∧
    Gen.Consts.patternTime = "\\b(\\d{1,2})(?:(?:\\:)?(\\d{2})(?:\\:(\\d{2})(?:\\.(\\d+))?)?)?\\W*([aApP][mM])?\\b" ∧
    Gen.Consts.iso8601Format = "2006-01-02T15:04:05Z07:00" ∧
    Gen.Consts.iso8601NoSecondsFormat = "2006-01-02T15:04Z07:00" ∧
    Gen.Consts.iso8601DateOnlyFormat = "2006-01-02" ∧
    [Gen.Consts.DateFormatYearMonthDay, Gen.Consts.DateFormatMonthDayYear, Gen.Consts.DateFormatDayMonthYear] =
      ["YYYY-MM-DD", "MM-DD-YYYY", "DD-MM-YYYY"] ∧
    [Gen.Consts.TimeFormatHourMinute, Gen.Consts.TimeFormatHourMinuteAmPm, Gen.Consts.TimeFormatHourMinuteSecond,
      Gen.Consts.TimeFormatHourMinuteSecondAmPm] = ["tt:mm", "h:mm aa", "tt:mm:ss", "h:mm:ss aa"] := by
  decide

end DateTime

end GoflowModel.Props.C13
