import GoflowModel.Engine.Localize
/-!
# C18 — Localized text is chosen by the documented language fallback
-/
namespace GoflowModel.Props.C18
open GoflowModel.Localize

/-- preference order: the contact's language iff it is allowed, then the environment default
(if different), then the flow's base language -/
theorem pref_order_contact_allowed (c : Cfg) (l : Lang) (hc : c.contactLang = some l)
    (ha : c.allowed.contains l = true) :
    languages c = [l] ++ (match c.allowed.head? with
      | some d => if d ≠ l then [d] else []
      | none => []) ++ [c.flowLang] := by
  simp only [languages, mergedDefault, envDefault, hc, ha, if_true, Option.toList_some]
  cases c.allowed.head? with
  | none => rfl
  | some d => by_cases h : d = l <;> simp [h]

theorem pref_order_contact_not_allowed (c : Cfg)
    (h : ∀ l, c.contactLang = some l → c.allowed.contains l = false) :
    languages c = c.allowed.head?.toList ++ [c.flowLang] := by
  have hm : mergedDefault c = c.allowed.head? := by
    unfold mergedDefault envDefault
    cases hc : c.contactLang with
    | none => rfl
    | some l => have := h l hc; simp only [this]; rfl
  simp only [languages, hm, envDefault]
  cases c.allowed.head? <;> simp

/-- the base language, when reached, ends the search with the base text -/
theorem base_language_wins (fl : Lang) (tr : Lang → Option (List Text)) (native : List Text) (ls : List Lang) :
    getTextIn fl tr native (fl :: ls) = (native, fl) := by
  simp [getTextIn]

/-- a language with a usable translation, when reached, wins -/
theorem translation_wins (fl l : Lang) (tr : Lang → Option (List Text)) (native t : List Text) (ls : List Lang)
    (hne : l ≠ fl) (hu : usable (tr l) = some t) :
    getTextIn fl tr native (l :: ls) = (t, l) := by
  simp [getTextIn, hne, hu]

/-- a language without one is skipped -/
theorem untranslated_skipped (fl l : Lang) (tr : Lang → Option (List Text)) (native : List Text) (ls : List Lang)
    (hne : l ≠ fl) (hu : usable (tr l) = none) :
    getTextIn fl tr native (l :: ls) = getTextIn fl tr native ls := by
  simp [getTextIn, hne, hu]

/-- first wins: the result is the text of the first preference that is the base language or
has a usable translation; with none, the base text (for every preference list) -/
theorem first_wins (fl : Lang) (tr : Lang → Option (List Text)) (native : List Text) (pre post : List Lang)
    (l : Lang) (hpre : ∀ x ∈ pre, x ≠ fl ∧ usable (tr x) = none)
    (hl : l = fl ∨ (usable (tr l)).isSome) :
    getTextIn fl tr native (pre ++ l :: post) =
      if l = fl then (native, fl) else ((usable (tr l)).getD native, l) := by
  induction pre with
  | nil =>
    by_cases h : l = fl
    · simp [getTextIn, h]
    · rcases hl with hl | hl
      · exact absurd hl h
      · cases hu : usable (tr l) with
        | none => simp [hu] at hl
        | some t => simp [getTextIn, h, hu]
  | cons x pre ih =>
    have hx := hpre x (by simp)
    rw [List.cons_append, untranslated_skipped fl x tr native _ hx.1 hx.2]
    exact ih (fun y hy => hpre y (by simp [hy]))

theorem fallback_base (fl : Lang) (tr : Lang → Option (List Text)) (native : List Text) (ls : List Lang)
    (h : ∀ x ∈ ls, x ≠ fl ∧ usable (tr x) = none) :
    getTextIn fl tr native ls = (native, fl) := by
  induction ls with
  | nil => rfl
  | cons x ls ih =>
    have hx := h x (by simp)
    rw [untranslated_skipped fl x tr native _ hx.1 hx.2]
    exact ih (fun y hy => h y (by simp [hy]))

/-- the `[""]` rule and the empty list count as no translation -/
theorem empty_translations_unusable : usable (some []) = none ∧ usable (some [[]]) = none ∧ usable none = none := by
  decide

/-- the reported language is the text's whenever there is text; for a text-less message the
attachments', then the quick replies' -/
theorem msg_locale_text (text atts qrs : List Text × Lang) (t : Text) (r : List Text)
    (h : text.1 = t :: r) (ht : t ≠ []) : msgLang text atts qrs = some text.2 := by
  simp [msgLang, h, ht]

theorem msg_locale_textless (text atts qrs : List Text × Lang) (r : List Text) (h : text.1 = [] :: r) :
    msgLang text atts qrs = if atts.1 ≠ [] then some atts.2 else if qrs.1 ≠ [] then some qrs.2 else none := by
  simp [msgLang, h]

/-- localized case arguments of a different length than the base arguments are ignored -/
theorem case_args_len_guard (base localized : List Text) :
    (caseArgs base localized).length = base.length := by
  unfold caseArgs; split <;> simp_all

/-- **A spoken message reports the language of its text**, whatever the recording's translations are:
the recording is localized on its own and does not enter the choice. -/
theorem say_msg_locale_is_text_language (c : Cfg) (trText trAudio trAudio' : Lang → Option (List Text))
    (text audio audio' : Text) :
    (sayMsg c trText trAudio text audio).2.2 = (getText c trText [text]).2 ∧
    (sayMsg c trText trAudio text audio).2.2 = (sayMsg c trText trAudio' text audio').2.2 ∧
    (sayMsg c trText trAudio text audio).1 = (sayMsg c trText trAudio' text audio').1 := by
  simp [sayMsg]

/-- …and the recording is chosen by the same fallback, independently of the text's translations -/
theorem say_msg_audio_independent (c : Cfg) (trText trText' trAudio : Lang → Option (List Text)) (text text' audio : Text) :
    (sayMsg c trText trAudio text audio).2.1 = (sayMsg c trText' trAudio text' audio).2.1 := by
  simp [sayMsg]

/-- text translated, recording not: the text's language is reported, the base recording is played -/
example :
    sayMsg ⟨some 2, [1, 2], 1⟩ (fun l => if l = 2 then some ["Bonjour".toList] else none) (fun _ => none)
      "Hello".toList "hello-eng.m4a".toList = ("Bonjour".toList, "hello-eng.m4a".toList, 2) := by
  decide

end GoflowModel.Props.C18
