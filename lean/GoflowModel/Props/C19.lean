import GoflowModel.Engine.Redaction
import GoflowModel.Gen.Redaction
/-!
# C19 — Redacted URNs are invisible to expressions

Noninterference at the level of the model of what the context exposes of a contact's URNs, for
every pair of contacts that differ only in URN paths and displays; the complementary fact that
without the policy the path is visible; contacts without a name are shown by id; contact queries
that compare a URN with a value are rejected.  The regenerated census (`Gen/Redaction`) pins every
use of the policy and every URN accessor called inside a function that returns expression values:
a new path from a URN into the context that does not go through `ContactURN.ToXValue` breaks
`urn_reads_go_through_ToXValue`.
-/
namespace GoflowModel.Props.C19
open GoflowModel.Redaction

theorem view_redacted_eq (u v : URN) (h : u.scheme = v.scheme) : view true u = view true v := by
  simp [view, h]

theorem map_view_redacted (as bs : List URN) (h : agree as bs) :
    as.map (view true) = bs.map (view true) := by
  induction as generalizing bs with
  | nil => cases bs with
    | nil => rfl
    | cons _ _ => exact absurd h (by simp [agree])
  | cons a as ih => cases bs with
    | nil => exact absurd h (by simp [agree])
    | cons b bs =>
      simp only [agree] at h
      simp [List.map_cons, view_redacted_eq a b h.1, ih bs h.2.2]

theorem find_view_redacted (q : Nat → Option Nat → Bool) (as bs : List URN) (h : agree as bs) :
    (as.find? fun u => q u.scheme u.channel).map (view true) = (bs.find? fun u => q u.scheme u.channel).map (view true) := by
  induction as generalizing bs with
  | nil => cases bs with
    | nil => rfl
    | cons _ _ => exact absurd h (by simp [agree])
  | cons a as ih => cases bs with
    | nil => exact absurd h (by simp [agree])
    | cons b bs =>
      simp only [agree] at h
      simp only [List.find?_cons, h.1, h.2.1]
      cases q b.scheme b.channel with
      | true => simp [view_redacted_eq a b h.1]
      | false => simpa using ih bs h.2.2

/-- **Noninterference.** With URNs redacted, the context of two contacts that differ only in the
path and display of their URNs is the same — default rendering, preferred URN, the URN list and
the per-scheme map — for every contact, URN list and channel configuration. -/
theorem redacted_noninterference (canSend : Nat → Option Nat → Bool) (a b : Contact) (h : sameButPaths a b) :
    contactCtx true canSend a = contactCtx true canSend b := by
  obtain ⟨hn, hi, hr, hu⟩ := h
  have h1 : format true a = format true b := by simp [format, hn, hi]
  have h2 := find_view_redacted canSend a.urns b.urns hu
  have h3 := map_view_redacted a.urns b.urns hu
  have h4 : ∀ s, (a.urns.find? (·.scheme = s)).map (view true) = (b.urns.find? (·.scheme = s)).map (view true) := by
    intro s
    have := find_view_redacted (fun sc _ => decide (sc = s)) a.urns b.urns hu
    simpa using this
  simp only [contactCtx, preferred, h1, h2, h3, hn, hi, hr]
  congr 1
  funext s; exact h4 s

/-- the pair is not vacuous: two such contacts exist and are different -/
example : sameButPaths ⟨[], 7, [⟨1, 100, 5, none⟩], 0⟩ ⟨[], 7, [⟨1, 200, 6, none⟩], 0⟩ ∧
    (⟨[], 7, [⟨1, 100, 5, none⟩], 0⟩ : Contact) ≠ ⟨[], 7, [⟨1, 200, 6, none⟩], 0⟩ := by
  refine ⟨⟨rfl, rfl, rfl, ?_⟩, by decide⟩
  simp [agree]

/-- **Without the policy the same expressions do see the URNs**: equal views mean equal paths and
displays. -/
theorem clear_view_injective (u v : URN) (h : view false u = view false v) :
    u.scheme = v.scheme ∧ u.path = v.path ∧ u.display = v.display := by
  simp [view] at h
  exact ⟨h.1, h.2.1, h.2.2⟩

/-- …and a nameless contact is then shown by its first URN, so two different paths show differently -/
theorem clear_default_shows_urn (c : Contact) (u : URN) (us : List URN) (hn : c.name = []) (hu : c.urns = u :: us) :
    format false c = .urn u.path := by simp [format, hn, hu]

/-- **Contacts without a name are shown by id** under the policy. -/
theorem redacted_nameless_by_id (c : Contact) (hn : c.name = []) : format true c = .id c.id := by
  simp [format, hn]

/-- **Queries on URNs are rejected**: under the policy a comparison on the `urn` attribute, a
scheme or `urns.<scheme>` is accepted only with the empty value (is-set / is-not-set). -/
theorem redacted_query_rejected (k : PropKind) (valueEmpty : Bool) (hk : k.isURN = true)
    (hacc : rejectsRedacted true k valueEmpty = false) : valueEmpty = true := by
  cases valueEmpty <;> simp_all [rejectsRedacted]

/-- a bare value never searches URNs under the policy -/
theorem redacted_implicit_not_urn (isNumber isURN isPhone : Bool) :
    implicit true isNumber isURN isPhone ≠ .urnEquals ∧ implicit true isNumber isURN isPhone ≠ .telContains := by
  cases isNumber <;> simp [implicit]

/-- without the policy nothing is rejected for redaction -/
theorem clear_never_rejects (k : PropKind) (e : Bool) : rejectsRedacted false k e = false := by
  simp [rejectsRedacted]

/-! ### regenerated from the source on every run -/

/-- where the policy is consulted: value rendering of a URN, the contact's default rendering, the
three comparison forms of a query, the implicit condition and the bare-number rewrite -/
theorem policy_uses_pinned :
    Gen.Redaction.policyUses =
      [("contactql/parser.go", "ParseQuery"),
       ("contactql/visitor.go", "*visitor.VisitCondition"), ("contactql/visitor.go", "*visitor.VisitCondition"),
       ("contactql/visitor.go", "*visitor.VisitCondition"), ("contactql/visitor.go", "*visitor.VisitImplicitCondition"),
       ("flows/contact.go", "*Contact.Format"), ("flows/urn.go", "*ContactURN.ToXValue")] := by
  decide

/-- inside functions that return expression values, a URN is only ever turned into a value by
`ContactURN.ToXValue` (→ `withoutQuery`, which takes the policy); the other reads are the scheme
in `MapContext` and the two functions that parse URN *text* they are given -/
theorem urn_reads_go_through_ToXValue :
    Gen.Redaction.urnReads.all (fun r =>
      r.2.2 == "ToXValue" ||
      r == ("*ContactURN.ToXValue", "flows.ContactURN", "withoutQuery") ||
      r == ("URNList.MapContext", "flows.ContactURN", "URN") || r == ("URNList.MapContext", "urns.URN", "Scheme") ||
      r == ("FormatURN", "urns.URN", "Format") || r == ("URNParts", "urns.URN", "ToParts")) = true := by
  decide

end GoflowModel.Props.C19
