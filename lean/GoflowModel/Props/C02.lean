import GoflowModel.Engine.Persist
import GoflowModel.Lemmas.EngineParents
import GoflowModel.Gen.Structs
import GoflowModel.Props.C01
/-!
# C02 — Persisting a session between waits is transparent

(1) Round trip at the level of the engine model: restoring a persisted session succeeds and
gives back the same session, for every session the engine can hand back — this rests on the
invariant that a run's parent is an earlier run (`PBC`, proved for every reachable session), which
is what makes `ReadRun`'s parent lookup among the runs already read succeed.
(2) Every in-memory field of `session`, `run` and `step` (regenerated from the source on every
run) is classified as persisted, derived or transient, and every envelope field is accounted
for; the engine model's `resume` is a function of the persisted state only (`pushed` is `none`
between calls), so the behaviour of a resume cannot depend on a transient field the model does
not have — the two-branch monitor checks exactly that on the implementation.
-/
namespace GoflowModel.Props.C02
open GoflowModel.Engine

/-- runs `0 … n-1` have been read and are known by position -/
def seenUpTo (n : Nat) : List (Nat × Nat) := (List.range n).map fun i => (i, i)

theorem seenUpTo_lookup (n u : Nat) (h : u < n) : (seenUpTo n).lookup u = some u := by
  induction n with
  | zero => omega
  | succ n ih =>
    simp only [seenUpTo, List.range_succ, List.map_append, List.map_cons, List.map_nil] at ih ⊢
    rw [List.lookup_append]
    by_cases hu : u < n
    · simp [ih hu, seenUpTo]
    · have : u = n := by omega
      subst this
      have hnone : (List.map (fun i => (i, i)) (List.range u)).lookup u = none := by
        rw [List.lookup_eq_none_iff]
        intro p hp
        simp only [List.mem_map, List.mem_range] at hp
        obtain ⟨i, hi, rfl⟩ := hp
        simp; omega
      simp [hnone]

theorem seenUpTo_succ (n : Nat) : seenUpTo n ++ [(n, (seenUpTo n).length)] = seenUpTo (n + 1) := by
  simp [seenUpTo, List.range_succ]

/-- restoring the persisted tail of a run list whose parents all point backwards -/
theorem restoreRuns_persistRuns (n : Nat) (rs : List Run)
    (h : ∀ (i : Nat) (p : Nat), (rs.map (·.parent))[i]? = some (some p) → p < n + i) :
    restoreRuns (seenUpTo n) (persistRuns n rs) = some rs := by
  induction rs generalizing n with
  | nil => rfl
  | cons r rs ih =>
    simp only [persistRuns, restoreRuns]
    have hih := ih (n + 1) (fun i p hp => by have := h (i + 1) p (by simpa using hp); omega)
    cases hp : r.parent with
    | none =>
      simp only
      rw [seenUpTo_succ, hih]
      simp only [Option.map_some]
      congr 2
      cases r; simp_all
    | some u =>
      have hu := h 0 u (by simp [hp])
      simp only [seenUpTo_lookup n u (by omega), Option.map_some]
      rw [seenUpTo_succ, hih]
      simp only [Option.map_some]
      congr 2
      cases r; simp_all

/-- **Round trip.** A session whose runs' parents are earlier runs and which has no pushed flow
is restored exactly from its persisted form. -/
theorem restore_persist (s : Session) (hp : PBC s) (hn : s.pushed = none) :
    restore (persist s) = some s := by
  simp only [restore, persist]
  have := restoreRuns_persistRuns 0 s.runs (fun i p h => by have := hp i p h; omega)
  simp only [seenUpTo, List.range_zero, List.map_nil] at this
  rw [this]
  cases s; simp_all

/-- …and persisting the restored session gives the same persisted form. -/
theorem persist_restore_persist (s : Session) (hp : PBC s) (hn : s.pushed = none) :
    (restore (persist s)).map persist = some (persist s) := by
  rw [restore_persist s hp hn]; rfl

/-- without the invariant the read fails: a run whose parent comes later cannot be restored -/
theorem restore_needs_parent_before_child :
    restore (persist ⟨[⟨0, some 1, .active, false, [], []⟩, ⟨0, none, .active, false, [], []⟩], .waiting, none⟩) = none := by
  decide

/-- every session the engine hands back satisfies both hypotheses -/
theorem reachable_restorable (a : Assets) (o : Opts) (s : Session) (h : C01.Reachable a o s) :
    PBC s ∧ s.pushed = none := by
  induction h with
  | start orc st hst =>
    refine ⟨?_, (C01.start_wellformed a o orc st hst).2.2⟩
    have := start_parents a o orc; rw [hst] at this; exact this
  | resume orc s k st _ hres ih =>
    refine ⟨?_, (C01.resume_wellformed a o orc s k st (C01.reachable_wellformed a o s ‹_›) hres).2.2⟩
    have := resume_parents a o orc s k ih.1; rw [hres] at this; exact this

theorem reachable_roundtrip (a : Assets) (o : Opts) (s : Session) (h : C01.Reachable a o s) :
    restore (persist s) = some s :=
  restore_persist s (reachable_restorable a o s h).1 (reachable_restorable a o s h).2

/-- **Restart transparency** at the level of the model: resuming the restored session is
resuming the original one — for every reachable session, resume and oracle. -/
theorem restart_transparent (a : Assets) (o : Opts) (orc : Oracle) (s : Session) (k : ResumeKind)
    (h : C01.Reachable a o s) :
    (restore (persist s)).map (fun s' => resume a o orc s' k) = some (resume a o orc s k) := by
  rw [reachable_roundtrip a o s h]; rfl

/-! ### classification of the in-memory fields (regenerated from the source) -/

/-- `session`: persisted through `sessionEnvelope`, derived on read, or transient -/
def sessionPersisted := ["uuid", "type_", "env", "trigger", "contact", "runs", "status", "input"]
def sessionDerived := ["assets", "engine", "runsByUUID", "parentRun"]
def sessionTransient := ["currentResume", "batchStart", "pushedFlow"]

def runPersisted := ["uuid", "flowRef", "parent", "results", "path", "events", "status", "createdOn", "modifiedOn", "exitedOn"]
def runDerived := ["session", "flow", "legacyExtra", "webhook"]

/-- every field of the three structs is classified, and the envelopes carry exactly the
persisted ones (`wait` in the session envelope is a legacy field that is read and ignored) -/
theorem fields_classified :
    Gen.Structs.sessionFields.map (·.1) =
      ["assets", "uuid", "type_", "env", "trigger", "currentResume", "contact", "runs", "status", "input",
       "batchStart", "runsByUUID", "pushedFlow", "parentRun", "engine"] ∧
    (Gen.Structs.sessionFields.map (·.1)).all
      (fun f => sessionPersisted.contains f || sessionDerived.contains f || sessionTransient.contains f) = true ∧
    Gen.Structs.sessionEnvelopeFields.map (·.2) =
      ["uuid", "type", "environment", "trigger", "contact", "runs", "status", "wait", "input"] ∧
    (Gen.Structs.runFields.map (·.1)).all (fun f => runPersisted.contains f || runDerived.contains f) = true ∧
    Gen.Structs.runFields.length = 14 ∧
    Gen.Structs.runEnvelopeFields.map (·.2) =
      ["uuid", "flow", "path", "events", "results", "status", "parent_uuid", "created_on", "modified_on", "exited_on"] ∧
    Gen.Structs.stepFields.map (·.1) = ["stepUUID", "nodeUUID", "exitUUID", "arrivedOn"] ∧
    Gen.Structs.stepEnvelopeFields.map (·.2) = ["uuid", "node_uuid", "exit_uuid", "arrived_on"] := by
  decide

end GoflowModel.Props.C02
