import GoflowModel.Lemmas.MigrateSteps
import GoflowModel.Props.C16
/-!
# C16 — the per-version migration functions

`Props/C16.lean` proves the migration driver correct for *any* per-version functions and shows that
whatever each of them preserves the whole migration preserves.  This file is about the functions
themselves as `13_x.go` writes them on generic JSON (`Migrate/Steps.lean`, tied to the code by the
correspondence `K:migstep`: every registered function run on the same documents): for **every**
document — valid or not — and every sequence of generated UUIDs,

* each of `Migrate13_1`, `13_2`, `13_4`, `13_5`, `13_6`, and the version stamp written after it, keeps the flow's
  `uuid`, the nodes in their order, and each node's `uuid` and `exits` (exit UUIDs and destinations)
  — `step_keeps_graph`;
* hence so does any migration from any 13.x version to any later one, given that the template
  rewrite of 13.3 does (it only replaces strings at template positions) — `migration_keeps_graph`;
* what each function establishes: 13.1 gives every templating object a `uuid`; 13.2 leaves a language
  of three bytes; 13.4 replaces `uuid`/`variables` by one `body` component; 13.5 removes `templating`
  and leaves a list of strings as `template_variables`; 13.6 leaves names within the limits, and
  applying it again changes nothing (`limit_idem`, `limKey_idem`).
-/
namespace GoflowModel.Props.C16Steps
open GoflowModel.Json GoflowModel.Migrate GoflowModel.Migrate.Steps

/-! ## identity and connectivity -/

theorem graph_13_1 (gen : Nat → Str) (n : Nat) (f : JO) : graph (mig13_1 gen n f).2 = graph f :=
  graph_onActions _ n f

theorem graph_13_2 (f : JO) : graph (mig13_2 f) = graph f := by
  unfold mig13_2
  split
  · simp only
    split
    · rw [graph_set_other _ _ _ (by decide) (by decide), graph_set_other _ _ _ (by decide) (by decide)]
    · exact graph_set_other _ _ _ (by decide) (by decide)
  · rfl

theorem graph_13_4 (gen : Nat → Str) (n : Nat) (f : JO) : graph (mig13_4 gen n f).2 = graph f := by
  unfold mig13_4
  simp only
  rw [graph_putLocalization]
  exact graph_onActions _ _ f

theorem graph_13_5 (f : JO) : graph (mig13_5 f) = graph f := by
  unfold mig13_5
  simp only
  rw [graph_putLocalization]
  exact graph_onActions _ _ f

theorem keepsNode_13_6 : KeepsNode (fun (_ : Unit) n => ((), node13_6 n)) := by
  intro s o
  simp only [node13_6]
  have h := keepsNode_onActions (fun (_ : Unit) a => ((), act13_6 a)) () o
  split
  · exact ⟨by rw [get_set_ne _ _ _ (by decide)]; exact h.1, by rw [get_set_ne _ _ _ (by decide)]; exact h.2⟩
  · exact h

theorem graph_13_6 (f : JO) : graph (mig13_6 f) = graph f :=
  graph_onNodes _ keepsNode_13_6 () f

/-- **Each per-version function, with the version stamp written after it, keeps the flow's UUID, its
nodes and how they are connected** — for every document and every generated UUID; `hm3`: the 13.3
template rewrite does (it replaces strings at template positions only). -/
theorem step_keeps_graph (gen : Nat → Str) (m3 : JO → JO) (hm3 : ∀ f, graph (m3 f) = graph f) (v : Nat) (p : Nat × JO) :
    graph (stepFn gen m3 v p).2 = graph p.2 := by
  unfold stepFn
  simp only
  rw [graph_set_other _ _ _ (by decide) (by decide)]
  unfold migFn
  split
  · exact graph_13_1 gen p.1 p.2
  · exact graph_13_2 p.2
  · exact hm3 p.2
  · exact graph_13_4 gen p.1 p.2
  · exact graph_13_5 p.2
  · exact graph_13_6 p.2
  · rfl

/-- **Migration from any version to any later one keeps the flow's UUID, its nodes and how they are
connected**: the driver of `Props/C16` run with the per-version functions as modelled. -/
theorem migration_keeps_graph (gen : Nat → Str) (m3 : JO → JO) (hm3 : ∀ f, graph (m3 f) = graph f)
    (reg : List Nat) (to : Nat) (d : Def (Nat × JO)) :
    graph (migrateTo (stepFn gen m3) reg to d).payload.2 = graph d.payload.2 :=
  C16.invariant_preserved (stepFn gen m3) (fun p => graph p.2) (step_keeps_graph gen m3 hm3) reg to d

/-- the entry node stays first: the first node's view is unchanged -/
theorem migration_keeps_entry (gen : Nat → Str) (m3 : JO → JO) (hm3 : ∀ f, graph (m3 f) = graph f)
    (reg : List Nat) (to : Nat) (d : Def (Nat × JO)) :
    (graph (migrateTo (stepFn gen m3) reg to d).payload.2).2.map List.head? = (graph d.payload.2).2.map List.head? := by
  rw [migration_keeps_graph gen m3 hm3]

/-- non-vacuity: a definition with two nodes, the second a router, has the view one expects, and 13.6
changes its over-long result name while keeping that view -/
def sample : JO :=
  .cons "uuid".toList (.str "F".toList) (.cons "nodes".toList (.arr
    (.cons (.obj (.cons "uuid".toList (.str "N1".toList) (.cons "exits".toList (.arr (.cons (.obj (.cons "uuid".toList (.str "E1".toList)
        (.cons "destination_uuid".toList (.str "N2".toList) .nil))) .nil)) .nil)))
    (.cons (.obj (.cons "uuid".toList (.str "N2".toList) (.cons "router".toList (.obj (.cons "result_name".toList
        (.str (List.replicate 70 'x')) .nil)) (.cons "exits".toList (.arr .nil) .nil)))) .nil))) .nil)

example : (graph sample).2.map List.length = some 2 := by decide

example : get "result_name".toList (router13_6 (.cons "result_name".toList (.str (List.replicate 70 'x')) .nil))
    = some (.str (List.replicate 64 'x')) := by rfl

/-! ## what each function establishes -/

/-- 13.1: a `send_msg` action with a templating object gets the next generated UUID on it -/
theorem act13_1_uuid (gen : Nat → Str) (n : Nat) (a t : JO) (ht : isType "send_msg" a = true)
    (h : get "templating".toList a = some (.obj t)) :
    ∃ t', get "templating".toList (act13_1 gen n a).2 = some (.obj t') ∧ get "uuid".toList t' = some (.str (gen n)) ∧
      (act13_1 gen n a).1 = n + 1 := by
  unfold act13_1
  rw [if_pos ht, h]
  simp only []
  exact ⟨_, get_set_eq _ _ _, get_set_eq _ _ _, trivial⟩

/-- … and nothing else is touched or drawn -/
theorem act13_1_other (gen : Nat → Str) (n : Nat) (a : JO)
    (h : isType "send_msg" a = false ∨ ∀ t, get "templating".toList a ≠ some (.obj t)) : act13_1 gen n a = (n, a) := by
  unfold act13_1
  rcases h with h | h
  · simp [h]
  · split
    · split
      · rename_i t ht; exact absurd ht (h t)
      · rfl
    · rfl

/-- 13.2: the language is three bytes long afterwards -/
theorem lang_13_2 (f : JO) : utf8Len (asStr (get "language".toList (mig13_2 f))) = 3 := by
  unfold mig13_2
  split
  · simp only
    split
    · rw [get_set_ne _ _ _ (by decide), get_set_eq]; decide
    · rw [get_set_eq]; decide
  · rename_i h; exact Decidable.of_not_not h

/-- 13.2: when the language is replaced by `und`, the localization (if there is one) has no section for `und` afterwards:
the flow's own language has no translations of itself -/
theorem lang_13_2_no_own_section (f l : JO) (h : utf8Len (asStr (get "language".toList f)) ≠ 3)
    (hl : get "localization".toList f = some (.obj l)) :
    ∃ l', get "localization".toList (mig13_2 f) = some (.obj l') ∧ get "und".toList l' = none := by
  unfold mig13_2
  rw [if_pos h]
  simp only
  have hloc : localization (set "language".toList (.str "und".toList) f) = some l := by
    unfold localization
    rw [get_set_ne _ _ _ (by decide), hl]
  rw [hloc]
  exact ⟨_, get_set_eq _ _ _, get_del_eq _ _⟩

/-- 13.2: … and a language that is three bytes long is left alone, with everything else -/
theorem lang_13_2_valid (f : JO) (h : utf8Len (asStr (get "language".toList f)) = 3) : mig13_2 f = f := by
  unfold mig13_2; rw [if_neg (fun hne => hne h)]

/-- 13.4: the templating object has one component list and neither `uuid` nor `variables` afterwards -/
theorem act13_4_shape (gen : Nat → Str) (s : Nat × Option JO) (a t : JO) (ht : isType "send_msg" a = true)
    (h : get "templating".toList a = some (.obj t)) :
    ∃ t', get "templating".toList (act13_4 gen s a).2 = some (.obj t') ∧
      get "uuid".toList t' = none ∧ get "variables".toList t' = none ∧
      get "components".toList t' = some (.arr (.cons (.obj (.cons "uuid".toList (.str (gen s.1))
        (.cons "name".toList (.str "body".toList) (.cons "params".toList (.arr (varsOf t)) .nil)))) .nil)) := by
  unfold act13_4
  rw [if_pos ht, h]
  simp only []
  refine ⟨_, get_set_eq _ _ _, ?_, ?_, ?_⟩
  · rw [get_del_ne _ _ (by decide), get_del_eq]
  · rw [get_del_eq]
  · rw [get_del_ne _ _ (by decide), get_del_ne _ _ (by decide), get_set_eq]

theorem strs_strArr : (l : List Str) → strs (strArr l) = l
  | [] => rfl
  | s :: rest => by simp [strArr, strs, asStr, strs_strArr rest]

/-- 13.5: the action has no `templating` afterwards, its `template` is the templating's, and
`template_variables` is a list of strings: the params of the components in order -/
theorem act13_5_shape (loc : Option JO) (a t : JO) (ht : isType "send_msg" a = true)
    (h : get "templating".toList a = some (.obj t)) :
    get "templating".toList (act13_5 loc a).2 = none ∧
    get "template".toList (act13_5 loc a).2 = some ((get "template".toList t).getD .null) ∧
    get "template_variables".toList (act13_5 loc a).2 = some (.arr (strArr ((match get "components".toList t with
      | some (.arr l) => compsOf l
      | _ => []).flatMap (fun (c : Str × List Str) => c.2)))) := by
  unfold act13_5
  rw [if_pos ht, h]
  simp only []
  refine ⟨get_del_eq _ _, ?_, ?_⟩
  · rw [get_del_ne _ _ (by decide), get_set_ne _ _ _ (by decide), get_set_eq]
  · rw [get_del_ne _ _ (by decide), get_set_eq]; rfl

/-! ### 13.6 -/

theorem length_le_utf8Len : (s : Str) → s.length ≤ utf8Len s
  | [] => by simp [utf8Len]
  | c :: rest => by
    have ih := length_le_utf8Len rest
    have := Char.utf8Size_pos c
    simp only [utf8Len, List.map_cons, List.sum_cons, List.length_cons] at ih ⊢
    omega

/-- **A limited name has at most `max` characters.** -/
theorem limit_length (max : Nat) (s : Str) : (limit max s).length ≤ max := by
  unfold limit
  split
  · have := C16.trimSpace_length_le (s.take max)
    have : (s.take max).length ≤ max := by simp [List.length_take]; omega
    omega
  · have := length_le_utf8Len s; omega

theorem dropWhile_eq_self_of_head {α : Type} (p : α → Bool) (l : List α) (h : ∀ a, l.head? = some a → p a = false) :
    l.dropWhile p = l := by
  cases l with
  | nil => rfl
  | cons a t => simp [List.dropWhile_cons, h a rfl]

theorem head_dropWhile_not {α : Type} (p : α → Bool) (l : List α) (a : α) (h : (l.dropWhile p).head? = some a) : p a = false := by
  induction l with
  | nil => simp at h
  | cons b t ih =>
    simp only [List.dropWhile_cons] at h
    split at h
    · exact ih h
    · rename_i hb; simp at h; subst h; simpa using hb

theorem trimSpace_idem (s : Str) : trimSpace (trimSpace s) = trimSpace s := by
  unfold trimSpace
  generalize ha : s.dropWhile isSpace = a
  have hhead : ∀ c, a.head? = some c → isSpace c = false := by
    intro c hc; rw [← ha] at hc; exact head_dropWhile_not _ _ _ hc
  generalize hc : a.reverse.dropWhile isSpace = c
  have hchead : ∀ x, c.head? = some x → isSpace x = false := by
    intro x hx; rw [← hc] at hx; exact head_dropWhile_not _ _ _ hx
  -- `c.reverse` is a prefix of `a`: its head, if any, is `a`'s head
  have hsuf : c <:+ a.reverse := by rw [← hc]; exact List.dropWhile_suffix _
  have hpre : c.reverse <+: a := by
    have := List.reverse_prefix.2 hsuf
    simpa using this
  have h1 : c.reverse.dropWhile isSpace = c.reverse := by
    apply dropWhile_eq_self_of_head
    intro x hx
    obtain ⟨t, ht⟩ := hpre
    apply hhead x
    rw [← ht]
    cases hcr : c.reverse with
    | nil => rw [hcr] at hx; simp at hx
    | cons y ys => rw [hcr] at hx; simp at hx ⊢; exact hx
  rw [h1, List.reverse_reverse, dropWhile_eq_self_of_head _ _ hchead]

/-- **Applying the limit again changes nothing.** -/
theorem limit_idem (max : Nat) (s : Str) : limit max (limit max s) = limit max s := by
  have hl := limit_length max s
  unfold limit at hl ⊢
  split
  · rename_i h
    rw [if_pos h] at hl
    split
    · rw [List.take_of_length_le hl, trimSpace_idem]
    · rfl
  · rfl

/-- a name within the byte limit is not touched -/
theorem limit_short (max : Nat) (s : Str) (h : utf8Len s ≤ max) : limit max s = s := by
  unfold limit; rw [if_neg (by omega)]

/-- `limKey` writes `limit` of the member when it is a string, and leaves the object alone otherwise -/
theorem get_limKey (k : Str) (max : Nat) (o : JO) (s : Str) (h : get k o = some (.str s)) :
    get k (limKey k max o) = some (.str (limit max s)) := by
  unfold limKey limit
  rw [h]
  simp only
  split
  · exact get_set_eq _ _ _
  · exact h

theorem limKey_not_str (k : Str) (max : Nat) (o : JO) (h : ∀ s, get k o ≠ some (.str s)) : limKey k max o = o := by
  unfold limKey
  split
  · rename_i s hs; exact absurd hs (h s)
  · rfl

theorem limKey_eq (k : Str) (max : Nat) (o : JO) (s : Str) (hs : get k o = some (.str s)) :
    limKey k max o = if utf8Len s > max then set k (.str (trimSpace (s.take max))) o else o := by
  unfold limKey; rw [hs]

theorem get_limKey_ne (k k' : Str) (max : Nat) (o : JO) (h : k ≠ k') : get k' (limKey k max o) = get k' o := by
  unfold limKey
  split
  · split
    · exact get_set_ne _ _ _ h o
    · rfl
  · rfl

/-- **13.6 applied to a name again changes nothing.** -/
theorem limKey_idem (k : Str) (max : Nat) (o : JO) : limKey k max (limKey k max o) = limKey k max o := by
  by_cases h : ∃ s, get k o = some (.str s)
  · obtain ⟨s, hs⟩ := h
    rw [limKey_eq k max o s hs]
    split
    · rename_i hgt
      have hlen : (trimSpace (List.take max s)).length ≤ max := by
        have := limit_length max s; unfold limit at this; rw [if_pos hgt] at this; exact this
      rw [limKey_eq k max _ _ (get_set_eq _ _ _)]
      split
      · rw [List.take_of_length_le hlen, trimSpace_idem, set_set]
      · rfl
    · rename_i hle
      rw [limKey_eq k max o s hs, if_neg hle]
  · have h' : ∀ s, get k o ≠ some (.str s) := fun s hs => h ⟨s, hs⟩
    rw [limKey_not_str k max o h']
    exact limKey_not_str k max o h'

/-- **After 13.6 a `set_run_result` action's name and category are within the limits** -/
theorem act13_6_limits (a : JO) (ht : isType "set_run_result" a = true) (n c : Str)
    (hn : get "name".toList a = some (.str n)) (hc : get "category".toList a = some (.str c)) :
    get "name".toList (act13_6 a) = some (.str (limit 64 n)) ∧ (limit 64 n).length ≤ 64 ∧
    get "category".toList (act13_6 a) = some (.str (limit 36 c)) ∧ (limit 36 c).length ≤ 36 := by
  unfold act13_6
  rw [if_pos ht]
  have h1 := get_limKey "name".toList 64 a n hn
  have hc1 : get "category".toList (limKey "name".toList 64 a) = some (.str c) := by
    rw [get_limKey_ne _ _ _ _ (by decide)]; exact hc
  have h2 := get_limKey "category".toList 36 _ c hc1
  have hn2 : get "name".toList (limKey "category".toList 36 (limKey "name".toList 64 a)) = some (.str (limit 64 n)) := by
    rw [get_limKey_ne _ _ _ _ (by decide)]; exact h1
  exact ⟨hn2, limit_length 64 n, h2, limit_length 36 c⟩

/-- **… and a router's result name** -/
theorem router13_6_result_name (r : JO) (n : Str) (hn : get "result_name".toList r = some (.str n)) :
    ∃ n', get "result_name".toList (router13_6 r) = some (.str n') ∧ n'.length ≤ 64 := by
  unfold router13_6
  have h1 := get_limKey "result_name".toList 64 r n hn
  simp only
  split
  · rw [get_set_ne _ _ _ (by decide)]; exact ⟨_, h1, limit_length 64 n⟩
  · exact ⟨_, h1, limit_length 64 n⟩

end GoflowModel.Props.C16Steps
