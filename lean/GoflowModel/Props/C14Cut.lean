import GoflowModel.Props.C14
/-!
# C14 — a query cut inside a quoted value is another query

`value_is_one_token` holds of the text the escaping writes *as a whole*.  The repaired defect F-C14-d
was that the evaluated query was afterwards truncated to the engine's limit on evaluated text
(`stringsx.TruncateEllipsis`: the first `max - 3` characters and `...`): here is, in the model's lexer,
what that did to a value that contains quotes — three tokens become four, the tail of the value is a
condition of its own.
-/
namespace GoflowModel.Props.C14Cut
open GoflowModel GoflowModel.ContactQL GoflowModel.Quote GoflowModel.Props.C14

/-- `stringsx.TruncateEllipsis` -/
def truncateEllipsis (max : Nat) (s : List Char) : List Char :=
  if s.length ≤ max then s else s.take (max - 3) ++ "...".toList

def value : List Char := "\" OR g = \"M\" OR n = \"zzzzzzzzzzzz".toList

/-- the query template `n = @value` evaluated with the escaping -/
def query : List Char := "n = ".toList ++ quote (fun _ => true) value

/-- **Whole, the value is one token**: property, comparator, string -/
theorem whole_is_three_tokens : (lexAll asciiCls query).map (·.kind) = [.property, .comparator, .string] := by decide

/-- **Cut to 40 characters, what is left of the value is a string followed by text**: the query has
gained a condition -/
theorem cut_is_four_tokens :
    (lexAll asciiCls (truncateEllipsis 40 query)).map (·.kind) = [.property, .comparator, .string, .text] := by decide

/-- a query within the limit is not touched -/
theorem short_untouched (max : Nat) (s : List Char) (h : s.length ≤ max) : truncateEllipsis max s = s := by
  unfold truncateEllipsis; rw [if_pos h]

end GoflowModel.Props.C14Cut
