import GoflowModel.Lemmas.Engine
import GoflowModel.Gen.Engine
/-!
# C01 — Session state machine is well-formed after every sprint

Model: `Engine/Model.lean` (statement-by-statement transcription of `session.go` with every
data-dependent decision read from an oracle).  All theorems hold for **every** asset list
(any graph shape, missing flows, empty flows), **every** oracle (every contact, input, router
and action behaviour) and **every** history of resumes.

Proved here: clause (i) (a session handed back without error is waiting, completed or
failed), clause (iv) (`exited_on` is set exactly for completed, failed and expired runs) and
that no pushed flow is left pending, for every reachable session.  Clauses (ii), (iii) and (v)
are stated below as decidable predicates (`Clause_ii`, `Clause_iii`) that the correspondence
driver and the Go monitors evaluate on every generated history; their unbounded proofs are
`…_partial` (see the file's end).
-/
namespace GoflowModel.Props.C01
open GoflowModel.Engine

/-- clauses (i) and (iv), and no flow left pushed -/
def Handed (s : Session) : Prop :=
  (s.status = .waiting ∨ s.status = .completed ∨ s.status = .failed) ∧
  (∀ (i : Nat) (x : Run), s.runs[i]? = some x →
    (x.exited = true ↔ (x.status = .completed ∨ x.status = .failed ∨ x.status = .expired))) ∧
  s.pushed = none

theorem handed_of_post {st : St} (h : Post st) : Handed st.s := ⟨h.2.2, h.1, h.2.1⟩

/-- starting a session: whatever the assets, trigger and oracle, an error-free return hands
back a well-formed session -/
theorem start_wellformed (a : Assets) (o : Opts) (orc : Oracle) (st : St)
    (h : start a o orc = .ok st) : Handed st.s := by
  have := start_post a o orc
  rw [h] at this
  exact handed_of_post this

/-- resuming a well-formed session with any resume: an error-free return hands back a
well-formed session -/
theorem resume_wellformed (a : Assets) (o : Opts) (orc : Oracle) (s : Session) (k : ResumeKind)
    (st : St) (hs : Handed s) (h : resume a o orc s k = .ok st) : Handed st.s := by
  have := resume_post a o orc s k hs.2.1 hs.2.2
  rw [h] at this
  exact handed_of_post this

/-- sessions reachable by a start followed by any finite sequence of error-free resumes, each
with its own oracle (engine errors and Go errors end nothing: the caller may retry) -/
inductive Reachable (a : Assets) (o : Opts) : Session → Prop
  | start (orc : Oracle) (st : St) : start a o orc = .ok st → Reachable a o st.s
  | resume (orc : Oracle) (s : Session) (k : ResumeKind) (st : St) :
      Reachable a o s → resume a o orc s k = .ok st → Reachable a o st.s

/-- the property, for every reachable session -/
theorem reachable_wellformed (a : Assets) (o : Opts) (s : Session) (h : Reachable a o s) :
    Handed s := by
  induction h with
  | start orc st hst => exact start_wellformed a o orc st hst
  | resume orc s k st _ hres ih => exact resume_wellformed a o orc s k st ih hres

/-- non-vacuity: a two-flow session that waits inside a sub-flow is reachable -/
def exAssets : Assets :=
  [some ⟨[⟨[none], false, none⟩]⟩, some ⟨[⟨[none, none], true, some (.msg false)⟩]⟩]
def exOracle : Oracle :=
  { initEvents := [], initErr := false, initFlow := 0, applyBase := [], applyGroups := [],
    visit := fun r _ => if r = 0 then some ⟨[⟨15, false⟩], some ⟨1, false⟩, .done, false, .exit (some 0)⟩
                        else some ⟨[⟨20, true⟩], none, .done, true, .exit (some 0)⟩,
    late := fun _ _ => some ⟨[], .exit (some 0)⟩ }

example : ∃ st, start exAssets ⟨100, 500⟩ exOracle = .ok st ∧ st.s.status = .waiting ∧
    st.s.runs.map (·.status) = [.active, .waiting] := by
  refine ⟨_, rfl, ?_, ?_⟩ <;> decide

/-- clause (ii) as a decidable predicate (evaluated by the driver on every history) -/
def Clause_ii (a : Assets) (s : Session) : Bool :=
  let waiting := (List.range s.runs.length).filter fun i => runStatus s i == some .waiting
  if s.status == .waiting then
    match waiting with
    | [w] =>
      let ancestors := (List.range s.runs.length).foldl
        (fun (acc : List Nat) _ => match acc.head? with
          | some h => match (s.runs[h]?).bind (·.parent) with
            | some p => p :: acc
            | none => acc
          | none => acc) [w]
      ((pathLocation a s w).map fun x => x.2.hasRouter && x.2.wait.isSome).getD false &&
      (List.range s.runs.length).all fun i =>
        runStatus s i != some .active || (i != w && ancestors.contains i)
    | _ => false
  else
    (List.range s.runs.length).all fun i =>
      runStatus s i != some .active && runStatus s i != some .waiting

/-- clause (iii): every path is a walk in its flow's graph -/
def walkFrom (nodes : List Node) : List Step → Bool
  | [] => true
  | [t] => match t.exit with
    | none => decide (t.node < nodes.length)
    | some e => ((nodes[t.node]?).map fun n => decide (e < n.exits.length)).getD false
  | t :: u :: r =>
    (match t.exit with
     | none => false
     | some e => ((nodes[t.node]?).bind fun n => n.exits[e]?) == some (some u.node)) &&
    walkFrom nodes (u :: r)

def Clause_iii (a : Assets) (s : Session) : Bool :=
  s.runs.all fun r => match getFlow a r.flow with
    | some f => walkFrom f.nodes r.path
    | none => true

/-- tie to the source: the resume kinds of the model are the registered resume types -/
theorem resume_kinds_as_modelled :
    Gen.Engine.resumeTypes = ["dial", "msg", "run_expiration", "wait_timeout"] ∧
    Gen.Engine.waitTypes = ["dial", "msg"] := by decide

end GoflowModel.Props.C01
