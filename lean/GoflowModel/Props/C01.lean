import GoflowModel.Lemmas.Engine
import GoflowModel.Lemmas.EngineChain
import GoflowModel.Lemmas.EngineWalk
import GoflowModel.Lemmas.EngineWait
import GoflowModel.Lemmas.EngineEvents
import GoflowModel.Gen.Engine
/-!
# C01 — Session state machine is well-formed after every sprint

Model: `Engine/Model.lean` (statement-by-statement transcription of `session.go` with every
data-dependent decision read from an oracle).  All theorems hold for **every** asset list
(any graph shape, missing flows, empty flows), **every** oracle (every contact, input, router
and action behaviour) and **every** history of resumes.

Proved here, for every reachable session: clause (i) (a session handed back without error is
waiting, completed or failed), clause (iv) (`exited_on` is set exactly for completed, failed and
expired runs), that no pushed flow is left pending, and the run-status part of clause (ii)
(`reachable_chain`: a waiting session has exactly one waiting run, every active run is a proper
ancestor of it and the active runs are closed towards it; any other session has no active or
waiting run; `reachable_waits_at_wait`: the waiting run is located on a node whose router has a
wait; `reachable_clause_ii`: both together) and clause (iii) (`reachable_walk`: every path is a
walk in its flow's graph) and clause (v) (`reachable_event_steps`: an event that names a step names
one of its own run; `start_events_in_sprint`, `resume_events_in_sprint`: what a run records during
a call is a subsequence of that call's sprint events).  `Clause_ii` and `Clause_iii` below are the
decidable forms the correspondence driver evaluates on every generated history.
-/
namespace GoflowModel.Props.C01
open GoflowModel.Engine

/-- clauses (i) and (iv), and no flow left pushed -/
def Handed (s : Session) : Prop :=
  (s.status = .waiting ∨ s.status = .completed ∨ s.status = .failed) ∧
  (∀ (i : Nat) (x : Run), s.runs[i]? = some x →
    (x.exited = true ↔ (x.status = .completed ∨ x.status = .failed ∨ x.status = .expired))) ∧
  s.pushed = none

theorem handed_of_post {st : St} (h : Post st) : Handed st.s := ⟨h.2.2, h.1, h.2.1⟩

/-- starting a session: whatever the assets, trigger and oracle, an error-free return hands
back a well-formed session -/
theorem start_wellformed (a : Assets) (o : Opts) (orc : Oracle) (st : St)
    (h : start a o orc = .ok st) : Handed st.s := by
  have := start_post a o orc
  rw [h] at this
  exact handed_of_post this

/-- resuming a well-formed session with any resume: an error-free return hands back a
well-formed session -/
theorem resume_wellformed (a : Assets) (o : Opts) (orc : Oracle) (s : Session) (k : ResumeKind)
    (st : St) (hs : Handed s) (h : resume a o orc s k = .ok st) : Handed st.s := by
  have := resume_post a o orc s k hs.2.1 hs.2.2
  rw [h] at this
  exact handed_of_post this

/-- sessions reachable by a start followed by any finite sequence of error-free resumes, each
with its own oracle (engine errors and Go errors end nothing: the caller may retry) -/
inductive Reachable (a : Assets) (o : Opts) : Session → Prop
  | start (orc : Oracle) (st : St) : start a o orc = .ok st → Reachable a o st.s
  | resume (orc : Oracle) (s : Session) (k : ResumeKind) (st : St) :
      Reachable a o s → resume a o orc s k = .ok st → Reachable a o st.s

/-- the property, for every reachable session -/
theorem reachable_wellformed (a : Assets) (o : Opts) (s : Session) (h : Reachable a o s) :
    Handed s := by
  induction h with
  | start orc st hst => exact start_wellformed a o orc st hst
  | resume orc s k st _ hres ih => exact resume_wellformed a o orc s k st ih hres

/-- clause (ii), run statuses: in a waiting session exactly one run waits, every active run is a
proper ancestor of it (`Anc`: reached from it by following `parent` at least once) and the runs
between an active ancestor and the waiting run are active too; in a session that is not waiting
no run is active or waiting -/
def Chain (s : Session) : Prop :=
  (s.status = .waiting →
    ∃ w, runStatus s w = some .waiting ∧ (∀ i, i ≠ w → runStatus s i ≠ some .waiting) ∧
      (∀ i, runStatus s i = some .active → Anc (parents s) w i) ∧
      (∀ m p, Anc (parents s) w m → (parents s)[m]? = some (some p) →
        runStatus s p = some .active → runStatus s m = some .active)) ∧
  (s.status ≠ .waiting → ∀ i, runStatus s i ≠ some .active ∧ runStatus s i ≠ some .waiting)

/-- the parent links of every reachable session point backwards, and clause (ii) holds of it -/
theorem reachable_chain (a : Assets) (o : Opts) (s : Session) (h : Reachable a o s) :
    PBC s ∧ Chain s := by
  induction h with
  | start orc st hst =>
    have h1 := start_parents a o orc
    have h2 := start_chain a o orc
    rw [hst] at h1 h2
    exact ⟨h1, h2.waiting, h2.done⟩
  | resume orc s k st hr hres ih =>
    have hw := reachable_wellformed a o s hr
    have h1 := resume_parents a o orc s k ih.1
    have h2 := resume_chain a o orc s k hw.2.1 hw.2.2 ih.1 ⟨ih.2.1, ih.2.2⟩
    rw [hres] at h1 h2
    exact ⟨h1, h2.waiting, h2.done⟩

/-- so in a reachable waiting session the waiting run comes after every live run: each active run
is a proper ancestor, and parents come earlier in `runs` -/
theorem reachable_waiting_last (a : Assets) (o : Opts) (s : Session) (h : Reachable a o s)
    (hw : s.status = .waiting) :
    ∃ w, runStatus s w = some .waiting ∧ ∀ i, runStatus s i = some .active → i < w := by
  obtain ⟨hp, hc, _⟩ := reachable_chain a o s h
  obtain ⟨w, h1, _, h3, _⟩ := hc hw
  exact ⟨w, h1, fun i hi => (h3 i hi).lt hp⟩

/-- clause (ii), location: a reachable waiting session's waiting run is located (`PathLocation`)
on a node that has a router with a wait -/
theorem reachable_waits_at_wait (a : Assets) (o : Opts) (s : Session) (h : Reachable a o s)
    (hw : s.status = .waiting) :
    ∃ w step node, runStatus s w = some .waiting ∧ pathLocation a s w = some (step, node) ∧
      node.hasRouter = true ∧ node.wait.isSome := by
  have key : s.status = .waiting → ∃ w, WaitsAt a s w := by
    cases h with
    | start orc st hst =>
      have := start_wait a o orc
      rw [hst] at this; exact this
    | resume orc s0 k st hr hres =>
      have hw0 := reachable_wellformed a o s0 hr
      have := resume_wait a o orc s0 k hw0.2.1 hw0.2.2 (reachable_chain a o s0 hr).1
      rw [hres] at this; exact this
  obtain ⟨w, node, h1, h2, h3, h4⟩ := key hw
  obtain ⟨step, hs⟩ := pathLocation_of_atNode h2
  exact ⟨w, step, node, h1, hs, h3, h4⟩

/-- the three parts of clause (ii) together: the waiting run of `reachable_waits_at_wait` is the
only waiting run and every active run is one of its proper ancestors -/
theorem reachable_clause_ii (a : Assets) (o : Opts) (s : Session) (h : Reachable a o s) :
    (s.status = .waiting →
      ∃ w step node, runStatus s w = some .waiting ∧ (∀ i, i ≠ w → runStatus s i ≠ some .waiting) ∧
        pathLocation a s w = some (step, node) ∧ node.hasRouter = true ∧ node.wait.isSome ∧
        (∀ i, runStatus s i = some .active → Anc (parents s) w i)) ∧
    (s.status ≠ .waiting → ∀ i, runStatus s i ≠ some .active ∧ runStatus s i ≠ some .waiting) := by
  obtain ⟨_, hc1, hc2⟩ := reachable_chain a o s h
  refine ⟨fun hw => ?_, hc2⟩
  obtain ⟨w, h1, h2, h3, _⟩ := hc1 hw
  obtain ⟨w', step, node, g1, g2, g3, g4⟩ := reachable_waits_at_wait a o s h hw
  have : w' = w := by
    by_cases e : w' = w
    · exact e
    · exact absurd g1 (h2 w' e)
  subst this
  exact ⟨w', step, node, h1, h2, g2, g3, g4, h3⟩

/-- non-vacuity: a two-flow session that waits inside a sub-flow is reachable -/
def exAssets : Assets :=
  [some ⟨[⟨[none], false, none⟩]⟩, some ⟨[⟨[none, none], true, some (.msg false)⟩]⟩]
def exOracle : Oracle :=
  { initEvents := [], initErr := false, initFlow := 0, applyBase := [], applyGroups := [],
    visit := fun r _ => if r = 0 then some ⟨[⟨15, false⟩], some ⟨1, false⟩, .done, false, .exit (some 0)⟩
                        else some ⟨[⟨20, true⟩], none, .done, true, .exit (some 0)⟩,
    late := fun _ _ => some ⟨[], .exit (some 0)⟩ }

example : ∃ st, start exAssets ⟨100, 500⟩ exOracle = .ok st ∧ st.s.status = .waiting ∧
    st.s.runs.map (·.status) = [.active, .waiting] := by
  refine ⟨_, rfl, ?_, ?_⟩ <;> decide

/-- non-vacuity of `reachable_chain`: in that reachable session run 0 is active and is the parent of
the waiting run 1 -/
example : ∃ st, start exAssets ⟨100, 500⟩ exOracle = .ok st ∧ runStatus st.s 0 = some .active ∧
    runStatus st.s 1 = some .waiting ∧ Anc (parents st.s) 1 0 := by
  refine ⟨_, rfl, by decide, by decide, .parent (by decide)⟩

/-- clause (ii) as a decidable predicate (evaluated by the driver on every history) -/
def Clause_ii (a : Assets) (s : Session) : Bool :=
  let waiting := (List.range s.runs.length).filter fun i => runStatus s i == some .waiting
  if s.status == .waiting then
    match waiting with
    | [w] =>
      let ancestors := (List.range s.runs.length).foldl
        (fun (acc : List Nat) _ => match acc.head? with
          | some h => match (s.runs[h]?).bind (·.parent) with
            | some p => p :: acc
            | none => acc
          | none => acc) [w]
      ((pathLocation a s w).map fun x => x.2.hasRouter && x.2.wait.isSome).getD false &&
      (List.range s.runs.length).all fun i =>
        runStatus s i != some .active || (i != w && ancestors.contains i)
    | _ => false
  else
    (List.range s.runs.length).all fun i =>
      runStatus s i != some .active && runStatus s i != some .waiting

/-- clause (iii): every path is a walk in its flow's graph (`Engine.walkFrom`: a step's exit
belongs to the step's node and leads to the next step's node; only the last step may lack one) -/
def Clause_iii (a : Assets) (s : Session) : Bool :=
  s.runs.all fun r => match getFlow a r.flow with
    | some f => walkFrom f.nodes r.path
    | none => true

/-- clause (iii) for every reachable session: whatever the flow graphs, the oracle and the
history of resumes, every run whose flow asset exists has a path that is a walk in that flow -/
theorem reachable_walk (a : Assets) (o : Opts) (s : Session) (h : Reachable a o s) :
    Clause_iii a s = true := by
  have key : WalkAllL a (pf s) := by
    induction h with
    | start orc st hst =>
      have := start_walk a o orc
      rw [hst] at this; exact this
    | resume orc s k st hr hres ih =>
      have hw := reachable_wellformed a o s hr
      have := resume_walk a o orc s k hw.2.1 hw.2.2 (reachable_chain a o s hr).1 ih
      rw [hres] at this; exact this
  simp only [Clause_iii, List.all_eq_true]
  intro r hr
  obtain ⟨i, hi, rfl⟩ := List.getElem_of_mem hr
  split
  · rename_i f hf
    exact key i _ _ (by simp [pf, List.getElem?_eq_getElem hi]) f hf
  · rfl

/-- non-vacuity: the reachable example session has non-empty paths, and `walkFrom` rejects a step
whose exit leads elsewhere -/
example : ∃ st, start exAssets ⟨100, 500⟩ exOracle = .ok st ∧
    st.s.runs.map (·.path) = [[⟨0, none⟩], [⟨0, none⟩]] ∧ Clause_iii exAssets st.s = true := by
  refine ⟨_, rfl, by decide, by decide⟩
example : walkFrom [⟨[some 1], false, none⟩, ⟨[], false, none⟩] [⟨0, some 0⟩, ⟨0, none⟩] = false := by decide
example : walkFrom [⟨[some 1], false, none⟩, ⟨[], false, none⟩] [⟨0, some 0⟩, ⟨1, none⟩] = true := by decide

/-- clause (v), first half: in every reachable session every event a run holds that names a step
names a step of that very run -/
theorem reachable_event_steps (a : Assets) (o : Opts) (s : Session) (h : Reachable a o s) :
    ∀ (r : Nat) (x : Run), s.runs[r]? = some x → ∀ e ∈ x.events, ∀ sr, e.step = some sr →
      sr.run = r ∧ sr.idx < x.path.length := by
  induction h with
  | start orc st hst =>
    have := start_ev a o orc
    rw [hst] at this; exact this.1
  | resume orc s k st _ hres ih =>
    have := resume_ev a o orc s k ih
    rw [hres] at this; exact this.1

/-- clause (v), second half, for a start: everything the runs hold is, in order, among the
sprint's events -/
theorem start_events_in_sprint (a : Assets) (o : Opts) (orc : Oracle) (st : St) (h : start a o orc = .ok st) :
    ∀ (r : Nat) (x : Run), st.s.runs[r]? = some x → List.Sublist x.events (st.sp.map (·.ev)) := by
  intro r x hx
  have := start_ev a o orc
  rw [h] at this
  obtain ⟨n, hn1, hn2⟩ := this.2.2.2 r x hx
  rw [hn1]; exact hn2

/-- clause (v), second half, for a resume of any reachable session: each run holds what it held
before the call followed by events that are, in order, among the sprint's events (a run created
during the call held nothing before) -/
theorem resume_events_in_sprint (a : Assets) (o : Opts) (orc : Oracle) (s : Session) (k : ResumeKind) (st : St)
    (hr : Reachable a o s) (h : resume a o orc s k = .ok st) :
    ∀ (r : Nat) (x : Run), st.s.runs[r]? = some x →
      ∃ new, x.events = ((s.runs[r]?).map (·.events)).getD [] ++ new ∧ List.Sublist new (st.sp.map (·.ev)) := by
  intro r x hx
  have := resume_ev a o orc s k (reachable_event_steps a o s hr)
  rw [h] at this
  exact this.2.2.2 r x hx

/-- non-vacuity: the reachable example session recorded events, each naming step 0 of its own run,
and its sprint lists them in order -/
example : ∃ st, start exAssets ⟨100, 500⟩ exOracle = .ok st ∧
    st.s.runs.map (fun x => x.events.map (fun e => (e.kind, e.step))) =
      [[(15, some ⟨0, 0⟩)], [(20, some ⟨1, 0⟩)]] ∧
    st.sp.map (fun se => (se.run, se.ev.kind)) = [(some 0, 15), (some 1, 20)] := by
  refine ⟨_, rfl, by decide, by decide⟩

/-- tie to the source: the resume kinds of the model are the registered resume types -/
theorem resume_kinds_as_modelled :
    Gen.Engine.resumeTypes = ["dial", "msg", "run_expiration", "wait_timeout"] ∧
    Gen.Engine.waitTypes = ["dial", "msg"] := by decide

end GoflowModel.Props.C01
