import GoflowModel.Excellent.Guards
import GoflowModel.Gen.Evaluate
/-!
# C04 — Expression and template evaluation is total

Evaluation of a syntax tree is a structural recursion over the tree — `evaluate_is_structural`
checks, on facts regenerated from `excellent/tree.go` on every run, that every `Evaluate` method
calls `Evaluate` only on the fields of its own node — except where an anonymous function is
called, which re-enters a function body.  That re-entry is bounded by the call bookkeeping, proved
here for every history of calls and returns: the nesting never exceeds 100, at most 100000 calls
go ahead in one evaluation.  The remaining sources of unbounded work found by the monitor are
bounded by guards whose arithmetic is proved: an accepted `repeat` produces at most 10 MB (the
guard divides instead of multiplying, so it cannot overflow), accepted rounding places survive the
conversion to int32 unchanged, an accepted exponent is at most 10000 in magnitude.
That every built-in function and operator returns on every argument tuple is decided on the
implementation (child-process monitor over every function at every arity on boundary values).
-/
namespace GoflowModel.Props.C04
open GoflowModel.Guards

/-- **`repeat`**: an accepted call produces exactly `len * count` bytes and never more than the limit -/
theorem repeat_bounded (len : Nat) (count : Int) (n : Nat) (h : repeatLen len count = some n) :
    n = len * count.toNat ∧ n ≤ maxRepeatOutput := by
  unfold repeatLen at h
  split at h
  · cases h
  · split at h
    · cases h
    · rename_i h1 h2
      cases h
      refine ⟨rfl, ?_⟩
      by_cases hc : count > 0
      · have hle : len ≤ maxRepeatOutput / count.toNat := by
          have := fun hh => h2 ⟨hc, hh⟩
          omega
        have hpos : 0 < count.toNat := by omega
        calc len * count.toNat ≤ (maxRepeatOutput / count.toNat) * count.toNat := Nat.mul_le_mul_right _ hle
          _ ≤ maxRepeatOutput := Nat.div_mul_le_self _ _
      · have : count.toNat = 0 := by omega
        simp [this]

/-- … and a call is refused only when the result really would be too long (or the count negative):
the guard is exact, not merely safe -/
theorem repeat_refused (len : Nat) (count : Int) (h : repeatLen len count = none) :
    count < 0 ∨ len * count.toNat > maxRepeatOutput := by
  unfold repeatLen at h
  split at h
  · left; assumption
  · split at h
    · rename_i h1 h2
      right
      have hpos : 0 < count.toNat := by omega
      have := h2.2
      exact (Nat.div_lt_iff_lt_mul hpos).1 this
    · cases h

/-- **Rounding places**: accepted places are the same number as an int32 (no wrap-around) -/
theorem places_no_wrap (p : Int) (h : placesOk p = true) : toInt32 p = p := by
  simp only [placesOk, maxRoundingPlaces, Bool.and_eq_true] at h
  have h1 : -1000 ≤ p := by have := of_decide_eq_true h.1; omega
  have h2 : p ≤ 1000 := by have := of_decide_eq_true h.2; omega
  unfold toInt32
  omega

/-- the wrap-around the guard excludes: -2^31 - 1 becomes 2^31 - 1 -/
example : toInt32 (-2147483649) = 2147483647 ∧ placesOk (-2147483649) = false := by decide

theorem exponent_bounded (e : Int) (h : exponentOk e = true) : e.natAbs ≤ 10000 := by
  simp only [exponentOk, maxExponent] at h
  exact of_decide_eq_true h

/-! ### anonymous-function calls -/

theorem step_inv (s : Calls) (e : Ev) (hd : s.depth ≤ maxDepth) (hc : s.count ≤ maxCalls) :
    (step s e).1.depth ≤ maxDepth ∧ (step s e).1.count ≤ maxCalls := by
  cases e with
  | enter => simp only [step]; split <;> simp_all <;> omega
  | leave => simp only [step]; omega

/-- **Nesting and number of calls are bounded**, for every history of attempted calls and returns:
the depth never exceeds 100 and the counter never exceeds 100000 … -/
theorem run_inv (s : Calls) (es : List Ev) (hd : s.depth ≤ maxDepth) (hc : s.count ≤ maxCalls) :
    (run s es).1.depth ≤ maxDepth ∧ (run s es).1.count ≤ maxCalls := by
  induction es generalizing s with
  | nil => exact ⟨hd, hc⟩
  | cons e es ih =>
    simp only [run]
    have := step_inv s e hd hc
    exact ih _ this.1 this.2

/-- … and the calls that went ahead are exactly what the counter counted, so there are at most
100000 of them in one evaluation, however the calls nest and whatever the expression -/
theorem run_count (s : Calls) (es : List Ev) : (run s es).1.count = s.count + (run s es).2 := by
  induction es generalizing s with
  | nil => simp [run]
  | cons e es ih =>
    simp only [run]
    rw [ih]
    cases e with
    | leave => simp [step]
    | enter =>
      simp only [step]
      split <;> simp <;> omega

theorem calls_bounded (es : List Ev) : (run ⟨0, 0⟩ es).2 ≤ maxCalls := by
  have h1 := run_count ⟨0, 0⟩ es
  have h2 := (run_inv ⟨0, 0⟩ es (by simp [maxDepth]) (by simp [maxCalls])).2
  simp only at h1
  omega

/-- a function that calls itself, 98 deep already: of 5 more attempts 2 go ahead, the others are refused -/
example : (run ⟨98, 98⟩ (List.replicate 5 .enter)).2 = 2 ∧ (run ⟨98, 98⟩ (List.replicate 5 .enter)).1.depth = 100 := by
  decide

/-! ### regenerated from the source on every run -/

/-- every `Evaluate` method of a syntax-tree node calls `Evaluate` only on that node's own fields,
and the only call that runs later, inside a closure, is the anonymous function's body — the
re-entry that the call bookkeeping bounds -/
theorem evaluate_is_structural :
    Gen.Evaluate.calls.all (fun c => c.2.2.1) = true ∧
    (Gen.Evaluate.calls.filter (fun c => c.2.2.2)).map (fun c => (c.1, c.2.1)) = [("AnonFunction", "x.Body")] := by
  decide

/-! ### indexing in the word and field functions never leaves the slice -/

/-- `words[offset]` is only reached with `0 ≤ offset < len(words)`, for every index — negative ones
count from the end, anything out of range is an error value -/
theorem word_offset_in_range (n : Nat) (index offset : Int) (h : wordOffset n index = some offset) :
    0 ≤ offset ∧ offset < n := by
  unfold wordOffset at h
  simp only at h
  by_cases hc : (0 ≤ (if index < 0 then index + n else index) ∧ (if index < 0 then index + n else index) < n)
  · rw [if_pos hc] at h; cases h; exact hc
  · rw [if_neg hc] at h; cases h

/-- `words[lo:hi]` is only reached with `0 ≤ lo ≤ hi ≤ len(words)`, for every start and end -/
theorem word_slice_in_range (n : Nat) (start stop lo hi : Int) (h : wordSliceBounds n start stop = some (lo, hi)) :
    0 ≤ lo ∧ lo ≤ hi ∧ hi ≤ n := by
  unfold wordSliceBounds at h
  simp only at h
  repeat' split at h
  all_goals first
    | (cases h; omega)
    | cases h

/-- `fields[index]` is only reached with `0 ≤ index < len(fields)` -/
theorem field_index_in_range (n : Nat) (index i : Int) (h : fieldIndex n index = some i) : 0 ≤ i ∧ i < n := by
  unfold fieldIndex at h
  repeat' split at h
  all_goals first
    | (cases h; omega)
    | cases h

/-- the guards are not vacuous: in-range requests go through, with the bounds one expects -/
example : wordOffset 3 (-1) = some 2 ∧ wordOffset 3 3 = none ∧ wordSliceBounds 5 1 (-1) = some (1, 5) ∧
    wordSliceBounds 5 1 3 = some (1, 3) ∧ wordSliceBounds 5 1 99 = some (1, 5) ∧ wordSliceBounds 5 3 2 = none ∧
    wordSliceBounds 5 1 0 = some (1, 5) ∧ fieldIndex 2 1 = some 1 ∧ fieldIndex 2 2 = none := by decide

end GoflowModel.Props.C04
