import GoflowModel.Lemmas.ExprParse
import GoflowModel.Lemmas.ExprParseShape
import GoflowModel.Lemmas.PrintNewline
import GoflowModel.Excellent.Eval
import GoflowModel.Gen.Grammar
/-!
# C11 — Printing and re-parsing an expression preserves its meaning

* `parse_print_parse`: **for every token list the parser accepts**, printing the tree and parsing
  the printed tokens gives the same tree with its reference names lowered (what printing does to
  them), whatever the expression: all twelve operators at every nesting, negation chains,
  parentheses, dot and index lookups, calls with any parameters, anonymous functions (also as the
  last operand of an operator), text and number literals — no bound on size.  It is the
  composition of `parser_shape` (the parser only returns trees of the shape `Shape`) and
  `print_parse` (the printed tokens of any such tree parse back to it, in any context an
  expression can stand in: `print_parse_in_context`).  `print_fixed_point`: printing the re-parsed
  tree gives the same tokens again.  `reparse_same_value`: it evaluates to the same value in every
  context and every value domain.  The statements are about token lists: that the printed text
  lexes to those tokens is C12's part (literals) and the correspondence's (names, numbers).
* `print_parse_core_partial` is the earlier, smaller version (operator core only), kept.
* `rename_eval`: renaming a context reference and moving its value evaluates to the same value,
  for the whole language and every value domain — references rebound by an anonymous function's
  parameter are left alone (the repaired `ContextRefRename`), which is what makes the statement
  true; `rename_capture_witness` is the kernel-checked counterexample for the pre-repair renaming.
* `rename_only_renamed`: an expression without the name is untouched.
-/
namespace GoflowModel.Props.C11
open GoflowModel.Expr

/-- **Round trip on the operator core** (partial: see the file header). -/
theorem print_parse_core_partial (e : Expr) (h : Core e) :
    ∃ f0, ∀ f, f0 ≤ f → parseExpr f 0 (toks e) = some (e, []) := by
  have hp : Parses (.expr 0) (toks e ++ []) e [] :=
    parses_toks h 0 [] e [] (Nat.zero_le _) (by simp [quiet]) (by intro q tl hh; cases hh) (.stop (by simp [stops]))
  rw [List.append_nil] at hp
  exact run_of_parses hp

/-- …embedded anywhere an expression can stand: before `)`, `,`, `]` or an operator that does
not bind tighter -/
theorem print_parse_core_in_context_partial (e : Expr) (h : Core e) (rest : List Tok) (hq : quiet rest)
    (hs : stops 0 rest) : ∃ f0, ∀ f, f0 ≤ f → parseExpr f 0 (toks e ++ rest) = some (e, rest) := by
  have hedge : ∀ q tl, rest = .op q :: tl → q.prec ≤ level e := by
    intro q tl hh; subst hh; simp [stops] at hs
  exact run_of_parses (parses_toks h 0 rest e rest (Nat.zero_le _) hq hedge (.stop hs))

/-- the parser's own output on `-a ^ 2 + (b - c) * d = true & null` is in the core, so the theorem
is about trees the parser produces: negation binds tighter than `^`, `*` tighter than `+`, `+`
tighter than `=`, `=` tighter than `&` -/
example :
    (parse [.op .sub, .name ['a'], .op .exp, .name ['n'], .op .add, .lparen, .name ['b'], .op .sub, .name ['c'], .rparen,
           .op .mul, .name ['d'], .op .eq, .tru, .op .amp, .null]).map toks =
      some (toks (.bin .amp (.bin .eq (.bin .add (.bin .exp (.neg (.ref ['a'])) (.ref ['n']))
        (.bin .mul (.paren (.bin .sub (.ref ['b']) (.ref ['c']))) (.ref ['d']))) (.bool true)) .null)) := by
  decide

example : Core (.bin .amp (.bin .eq (.bin .add (.bin .exp (.neg (.ref ['a'])) (.ref ['n']))
    (.bin .mul (.paren (.bin .sub (.ref ['b']) (.ref ['c']))) (.ref ['d']))) (.bool true)) .null) := by
  repeat' constructor
  all_goals decide

/-- left associativity is not optional: the right-nested tree is not what the printed text parses to -/
example : (parse (toks (.bin .sub (.ref ['a']) (.bin .sub (.ref ['b']) (.ref ['c']))))).map render =
    some (render (.bin .sub (.bin .sub (.ref ['a']) (.ref ['b'])) (.ref ['c']))) ∧
    render (.bin .sub (.bin .sub (.ref ['a']) (.ref ['b'])) (.ref ['c'])) = "a - b - c".toList := by decide

/-! ### the whole language -/
section Full
open GoflowModel.Expr.Full

/-- **The printed tokens of a well-shaped tree parse back to it.** -/
theorem print_parse (e : Expr) (h : Shape (.e e)) :
    ∃ f0, ∀ f, f0 ≤ f → parseExpr f 0 (toks e) = some (e, []) := by
  have hp : Full.Parses (.expr 0) (toks e ++ []) (.e e) [] :=
    (complete_of_shape h).1 0 [] (.e e) [] (Nat.zero_le _) (by simp [Full.quiet]) (by intro q tl hh; cases hh)
      (.stop (by simp [Full.stops]))
  rw [List.append_nil] at hp
  exact holds_of_parses hp

/-- …embedded anywhere an expression can stand: before `)`, `,`, `]` or the end -/
theorem print_parse_in_context (e : Expr) (h : Shape (.e e)) (rest : List Tok) (hq : Full.quiet rest)
    (hs : ∀ q tl, rest ≠ .op q :: tl) :
    ∃ f0, ∀ f, f0 ≤ f → parseExpr f 0 (toks e ++ rest) = some (e, rest) := by
  have hp : Full.Parses (.expr 0) (toks e ++ rest) (.e e) rest :=
    (complete_of_shape h).1 0 rest (.e e) rest (Nat.zero_le _) hq (fun q tl hh => absurd hh (hs q tl))
      (.stop (stops_of 0 rest (fun q tl hh => absurd hh (hs q tl))))
  exact holds_of_parses hp

/-- **Every parseable expression**: printing its tree and parsing the printed tokens yields the
same tree, names lowered. -/
theorem parse_print_parse (ts : List Tok) (e : Expr) (h : parse ts = some e) :
    ∃ f0, ∀ f, f0 ≤ f → parseExpr f 0 (toks e) = some (norm e, []) := by
  have hs : ShapeE e := by
    unfold parse at h
    split at h
    · cases h
    · split at h
      · rename_i e' heq
        cases h
        exact ((parser_shape Tables.isPrint_newline _).1 0 ts e [] heq (by omega)).1
      · cases h
  have := print_parse (norm e) hs
  rw [toks_norm] at this
  exact this

/-- printing is a fixed point after one round -/
theorem print_fixed_point (ts : List Tok) (e : Expr) (_ : parse ts = some e) : toks (norm e) = toks e :=
  toks_norm e

/-- the re-parsed tree evaluates to the same value, in every context and value domain -/
theorem reparse_same_value {V : Type} (S : Sem V) (ρ : Env V) (e : Expr) : eval S ρ (norm e) = eval S ρ e :=
  eval_norm S ρ e

/-- non-vacuity: the parser accepts `F(a.b[1], (x) => -x ^ 2).0 & 3.50`, and prints it so -/
example :
    (parse [.name ['F'], .lparen, .name ['a'], .dot, .name ['b'], .lbrack, .int ['1'], .rbrack, .comma,
            .lparen, .name ['x'], .rparen, .arrow, .op .sub, .name ['x'], .op .exp, .int ['2'],
            .rparen, .dot, .int ['0'], .op .amp, .dec ['3', '.', '5', '0']]).map render =
      some "f(a.b[1], (x) => -x ^ 2).0 & 3.5".toList := by
  decide

end Full

/-! ### renaming -/

section Rename
variable {V : Type} (S : Sem V) (src dst : List Char)

theorem bind_agree_off (ρ ρ' : Env V) (d : List Char) (h : ∀ n, n ≠ d → ρ' n = ρ n) :
    ∀ (args : List (List Char)) (vs : List V) (n : List Char), n ≠ d → bindArgs ρ' args vs n = bindArgs ρ args vs n := by
  intro args
  induction args with
  | nil => intro vs n hn; simp [bindArgs, h n hn]
  | cons a as ih =>
    intro vs n hn
    cases vs with
    | nil => simp [bindArgs, h n hn]
    | cons v vs =>
      simp only [bindArgs]
      split
      · rfl
      · exact ih vs n hn

mutual
  /-- coincidence: a name that does not occur does not matter -/
  theorem eval_fresh (d : List Char) : ∀ (e : Expr) (ρ ρ' : Env V), (∀ n, n ≠ d → ρ' n = ρ n) → fresh d e →
      eval S ρ' e = eval S ρ e
    | .ref n, ρ, ρ', h, hf => by simp only [fresh] at hf; simp only [eval, h _ hf]
    | .dot c l, ρ, ρ', h, hf => by simp only [fresh] at hf; simp only [eval, eval_fresh d c ρ ρ' h hf]
    | .idx c e, ρ, ρ', h, hf => by
      simp only [fresh] at hf; simp only [eval, eval_fresh d c ρ ρ' h hf.1, eval_fresh d e ρ ρ' h hf.2]
    | .call f ps, ρ, ρ', h, hf => by
      simp only [fresh] at hf; simp only [eval, eval_fresh d f ρ ρ' h hf.1, evalArgs_fresh d ps ρ ρ' h hf.2]
    | .lam args b, ρ, ρ', h, hf => by
      simp only [fresh] at hf
      simp only [eval]
      congr 1
      funext vs
      exact eval_fresh d b _ _ (bind_agree_off ρ ρ' d h args vs) hf.2
    | .bin o l r, ρ, ρ', h, hf => by
      simp only [fresh] at hf; simp only [eval, eval_fresh d l ρ ρ' h hf.1, eval_fresh d r ρ ρ' h hf.2]
    | .neg e, ρ, ρ', h, hf => by simp only [fresh] at hf; simp only [eval, eval_fresh d e ρ ρ' h hf]
    | .paren e, ρ, ρ', h, hf => by simp only [fresh] at hf; simp only [eval, eval_fresh d e ρ ρ' h hf]
    | .text _, _, _, _, _ => rfl
    | .num _, _, _, _, _ => rfl
    | .bool _, _, _, _, _ => rfl
    | .null, _, _, _, _ => rfl
  theorem evalArgs_fresh (d : List Char) : ∀ (ps : Args) (ρ ρ' : Env V), (∀ n, n ≠ d → ρ' n = ρ n) → freshArgs d ps →
      evalArgs S ρ' ps = evalArgs S ρ ps
    | .nil, _, _, _, _ => rfl
    | .cons e rest, ρ, ρ', h, hf => by
      simp only [freshArgs] at hf
      simp only [evalArgs, eval_fresh d e ρ ρ' h hf.1, evalArgs_fresh d rest ρ ρ' h hf.2]
end

/-- the two scopes the renaming relates: everything but `dst` is unchanged, and `dst` now holds what
`src` held -/
def Moved (ρ ρ' : Env V) : Prop :=
  (∀ n, n ≠ lowerName dst → ρ' n = ρ n) ∧ ρ' (lowerName dst) = ρ (lowerName src)

theorem bind_moved (ρ ρ' : Env V) (h : Moved src dst ρ ρ') :
    ∀ (args : List (List Char)) (vs : List V), (∀ a ∈ args, lowerName a ≠ lowerName src) →
      (∀ a ∈ args, lowerName a ≠ lowerName dst) → Moved src dst (bindArgs ρ args vs) (bindArgs ρ' args vs) := by
  intro args
  induction args with
  | nil => intro vs _ _; simpa [bindArgs] using h
  | cons a as ih =>
    intro vs hs hd
    cases vs with
    | nil => simpa [bindArgs] using h
    | cons v vs =>
      have ih' := ih vs (fun x hx => hs x (by simp [hx])) (fun x hx => hd x (by simp [hx]))
      have hsa := hs a (by simp)
      have hda := hd a (by simp)
      refine ⟨?_, ?_⟩
      · intro n hn
        simp only [bindArgs]
        split
        · rfl
        · exact ih'.1 n hn
      · simp only [bindArgs]
        rw [if_neg (fun e => hda e.symm), if_neg (fun e => hsa e.symm)]
        exact ih'.2

mutual
  /-- **Renaming preserves the value**: in a scope where the value has moved from `src` to `dst`
  (a name that does not occur), the renamed expression evaluates to what the original did — for
  the whole language, every value domain and every scope (`hm`: a name missing from the scope is
  the same failure under either name). -/
  theorem rename_eval (hm : S.missing (lowerName dst) = S.missing (lowerName src)) :
      ∀ (e : Expr) (ρ ρ' : Env V), Moved src dst ρ ρ' → fresh (lowerName dst) e →
      eval S ρ' (rename src dst e) = eval S ρ e
    | .ref n, ρ, ρ', h, hf => by
      simp only [fresh] at hf
      simp only [rename]
      split
      · rename_i hn
        simp only [eval, hn, h.2, hm]
      · simp only [eval, h.1 _ hf]
    | .dot c l, ρ, ρ', h, hf => by
      simp only [fresh] at hf; simp only [rename, eval, rename_eval hm c ρ ρ' h hf]
    | .idx c e, ρ, ρ', h, hf => by
      simp only [fresh] at hf; simp only [rename, eval, rename_eval hm c ρ ρ' h hf.1, rename_eval hm e ρ ρ' h hf.2]
    | .call f ps, ρ, ρ', h, hf => by
      simp only [fresh] at hf; simp only [rename, eval, rename_eval hm f ρ ρ' h hf.1, renameArgs_eval hm ps ρ ρ' h hf.2]
    | .lam args b, ρ, ρ', h, hf => by
      simp only [fresh] at hf
      simp only [rename]
      split
      · -- a parameter rebinds the name: the body is untouched and `dst` does not occur in it
        simp only [eval]
        congr 1
        funext vs
        exact eval_fresh S (lowerName dst) b _ _ (bind_agree_off ρ ρ' _ h.1 args vs) hf.2
      · rename_i hno
        simp only [eval]
        congr 1
        funext vs
        refine rename_eval hm b _ _ (bind_moved src dst ρ ρ' h args vs ?_ hf.1) hf.2
        intro a ha heq
        apply hno
        simp only [List.any_eq_true, beq_iff_eq]
        exact ⟨a, ha, heq⟩
    | .bin o l r, ρ, ρ', h, hf => by
      simp only [fresh] at hf; simp only [rename, eval, rename_eval hm l ρ ρ' h hf.1, rename_eval hm r ρ ρ' h hf.2]
    | .neg e, ρ, ρ', h, hf => by simp only [fresh] at hf; simp only [rename, eval, rename_eval hm e ρ ρ' h hf]
    | .paren e, ρ, ρ', h, hf => by simp only [fresh] at hf; simp only [rename, eval, rename_eval hm e ρ ρ' h hf]
    | .text _, _, _, _, _ => by simp only [rename, eval]
    | .num _, _, _, _, _ => by simp only [rename, eval]
    | .bool _, _, _, _, _ => by simp only [rename, eval]
    | .null, _, _, _, _ => by simp only [rename, eval]
  theorem renameArgs_eval (hm : S.missing (lowerName dst) = S.missing (lowerName src)) :
      ∀ (ps : Args) (ρ ρ' : Env V), Moved src dst ρ ρ' → freshArgs (lowerName dst) ps →
      evalArgs S ρ' (renameArgs src dst ps) = evalArgs S ρ ps
    | .nil, _, _, _, _ => by simp only [renameArgs, evalArgs]
    | .cons e rest, ρ, ρ', h, hf => by
      simp only [freshArgs] at hf
      simp only [renameArgs, evalArgs, rename_eval hm e ρ ρ' h hf.1, renameArgs_eval hm rest ρ ρ' h hf.2]
end

end Rename

mutual
  /-- **Exactly the renamed references change**: an expression in which the name does not occur is
  returned as it is. -/
  theorem rename_only_renamed (src dst : List Char) : ∀ e : Expr, fresh (lowerName src) e → rename src dst e = e
    | .ref n, hf => by simp only [fresh] at hf; simp [rename, hf]
    | .dot c l, hf => by simp only [fresh] at hf; simp only [rename, rename_only_renamed src dst c hf]
    | .idx c e, hf => by
      simp only [fresh] at hf; simp only [rename, rename_only_renamed src dst c hf.1, rename_only_renamed src dst e hf.2]
    | .call f ps, hf => by
      simp only [fresh] at hf; simp only [rename, rename_only_renamed src dst f hf.1, renameArgs_only_renamed src dst ps hf.2]
    | .lam args b, hf => by
      simp only [fresh] at hf
      simp only [rename, rename_only_renamed src dst b hf.2, ite_self]
    | .bin o l r, hf => by
      simp only [fresh] at hf; simp only [rename, rename_only_renamed src dst l hf.1, rename_only_renamed src dst r hf.2]
    | .neg e, hf => by simp only [fresh] at hf; simp only [rename, rename_only_renamed src dst e hf]
    | .paren e, hf => by simp only [fresh] at hf; simp only [rename, rename_only_renamed src dst e hf]
    | .text _, _ => by simp only [rename]
    | .num _, _ => by simp only [rename]
    | .bool _, _ => by simp only [rename]
    | .null, _ => by simp only [rename]
  theorem renameArgs_only_renamed (src dst : List Char) : ∀ ps : Args, freshArgs (lowerName src) ps → renameArgs src dst ps = ps
    | .nil, _ => by simp only [renameArgs]
    | .cons e rest, hf => by
      simp only [freshArgs] at hf
      simp only [renameArgs, rename_only_renamed src dst e hf.1, renameArgs_only_renamed src dst rest hf.2]
end

/-! ### the renaming before the repair captured parameters -/

mutual
  /-- `ContextRefRename` as it was: every reference with the name, bound or not -/
  def renameNaive (src dst : List Char) : Expr → Expr
    | .ref n => if lowerName n = lowerName src then .ref dst else .ref n
    | .dot c l => .dot (renameNaive src dst c) l
    | .idx c e => .idx (renameNaive src dst c) (renameNaive src dst e)
    | .call f ps => .call (renameNaive src dst f) (renameNaiveArgs src dst ps)
    | .lam args b => .lam args (renameNaive src dst b)
    | .bin o l r => .bin o (renameNaive src dst l) (renameNaive src dst r)
    | .neg e => .neg (renameNaive src dst e)
    | .paren e => .paren (renameNaive src dst e)
    | e => e
  def renameNaiveArgs (src dst : List Char) : Args → Args
    | .nil => .nil
    | .cons e rest => .cons (renameNaive src dst e) (renameNaiveArgs src dst rest)
end

/-- a tiny value domain: texts; a function value is shown by applying it to the text `p` -/
def S₀ : Sem (List Char) where
  binop _ a b := a ++ b
  neg a := a
  dot a _ := a
  idx a _ := a
  call f _ := f
  closure _ f := f [['p']]
  text v := v
  num s := s
  bool _ := []
  null := []
  missing _ := ['?']

/-- `(foo) => foo`, with `foo = c` in the context moved to `zed`: the original gives the argument;
renamed the old way it gives the context value, renamed the repaired way it still gives the argument -/
theorem rename_capture_witness :
    let e := Expr.lam [['f', 'o', 'o']] (.ref ['f', 'o', 'o'])
    let ρ : Env (List Char) := fun n => if n = ['f', 'o', 'o'] then some ['c'] else none
    let ρ' : Env (List Char) := fun n => if n = ['z', 'e', 'd'] then some ['c'] else none
    eval S₀ ρ e = ['p'] ∧
    eval S₀ ρ' (renameNaive ['f', 'o', 'o'] ['z', 'e', 'd'] e) = ['c'] ∧
    eval S₀ ρ' (rename ['f', 'o', 'o'] ['z', 'e', 'd'] e) = ['p'] := by
  decide

/-! ### the grammar the parser was written from (regenerated from the source on every run) -/

theorem grammar_rules_pinned :
    Gen.Grammar.excellent3Rules.lookup "expression" = some ("atom # atomReference | MINUS expression # negation | expression EXPONENT expression # exponent | " ++
      "expression op = (TIMES | DIVIDE) expression # multiplicationOrDivision | expression op = (PLUS | MINUS) expression # additionOrSubtraction | " ++
      "expression op = (LTE | LT | GTE | GT) expression # comparison | expression op = (EQ | NEQ) expression # equality | " ++
      "expression AMPERSAND expression # concatenation | LPAREN nameList RPAREN ARROW expression # anonFunction | TEXT # textLiteral | " ++
      "(INTEGER | DECIMAL) # numberLiteral | TRUE # true | FALSE # false | NULL # null") ∧
    Gen.Grammar.excellent3Rules.lookup "atom" = some ("atom LPAREN parameters? RPAREN # functionCall | atom DOT (NAME | INTEGER) # dotLookup | " ++
      "atom LBRACK expression RBRACK # arrayLookup | LPAREN expression RPAREN # parentheses | NAME # contextReference") ∧
    Gen.Grammar.excellent3Rules.lookup "parameters" = some "expression (COMMA expression)* # functionParameters" ∧
    Gen.Grammar.excellent3Rules.lookup "parse" = some "expression EOF" := by
  decide +kernel

end GoflowModel.Props.C11
