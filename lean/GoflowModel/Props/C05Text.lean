import GoflowModel.Props.C05
import GoflowModel.Gen.EvalText
/-!
# C05 — evaluated text is cut to the limit whatever the evaluation reported

`Props/C05` bounds what the truncation returns.  That every text `EvaluateTemplateText` hands back
*went through* it — also when the evaluation reported an error and the caller uses the partial text
all the same, as the actions that create messages do — is read off the function itself: its
statements, regenerated from flows/runs/run.go, are the ones modelled, and its only `return` comes
after the truncation.
-/
namespace GoflowModel.Props.C05Text
open GoflowModel.Truncate

/-- `run.EvaluateTemplateText`: the evaluated text (whole or partial) and whether the evaluation failed
come from the evaluator; an error is logged, warnings are logged, the text is cut when asked to, and text
and success are returned -/
def evaluateTemplateText (evaluated : List Char) (failed truncate : Bool) (maxTemplateChars : Nat) : Option (List Char) × Bool :=
  (if truncate then templateTruncate evaluated maxTemplateChars else some evaluated, !failed)

/-- **The text handed back is within the limit — also when the evaluation failed** (and no limit makes it panic) -/
theorem evaluated_text_bounded (evaluated : List Char) (failed : Bool) (maxTemplateChars : Int) :
    ∃ t, (evaluateTemplateText evaluated failed true (clampLimit maxTemplateChars)).1 = some t ∧ t.length ≤ clampLimit maxTemplateChars := by
  unfold evaluateTemplateText
  simp only [if_true]
  exact C05.template_bounded evaluated maxTemplateChars

/-- **The function's statements are the ones modelled**: evaluation, the two logging statements, the
truncation under `if truncate` with its two branches, and one `return` — the last statement, at the top level. -/
theorem evaluate_template_text_as_modelled :
    Gen.EvalText.statements =
      [(0, "ctx := types.NewXObject(r.RootContext(r.session.MergedEnvironment()))"),
       (0, "value, warnings, err := r.session.Engine().Evaluator().Template(r.session.MergedEnvironment(), ctx, template, escaping)"),
       (0, "if err != nil"),
       (1, "log(events.NewError(err))"),
       (0, "for range warnings"),
       (1, "log(events.NewWarning(w))"),
       (0, "if truncate"),
       (1, "max := r.Session().Engine().Options().MaxTemplateChars"),
       (1, "if max >= 3"),
       (2, "value = stringsx.TruncateEllipsis(value, max)"),
       (1, "else"),
       (2, "value = stringsx.Truncate(value, max)"),
       (0, "return value, err == nil")] := by decide

end GoflowModel.Props.C05Text
