/-
Definition migration.

`migrations.migrate`: collect the registered versions newer than the definition's and not newer
than the target, sort them, and apply each version's function in turn, stamping the version.
A definition is a version and a payload; the per-version functions are parameters.

`Migrate13_6` truncation: `strings.TrimSpace(stringsx.Truncate(s, max))` applied when the name is
longer than `max`.
-/
namespace GoflowModel.Migrate

structure Def (P : Type) where
  version : Nat
  payload : P

/-- the registered versions in (from, to], ascending (the code ranges over a map and sorts) -/
def pending (registered : List Nat) (frm to : Nat) : List Nat :=
  (registered.filter fun v => decide (frm < v) && decide (v ≤ to)).mergeSort (fun a b => decide (a ≤ b))

/-- `migrate(data, from, to)` -/
def migrateTo {P : Type} (ms : Nat → P → P) (registered : List Nat) (to : Nat) (d : Def P) : Def P :=
  (pending registered d.version to).foldl (fun d v => ⟨v, ms v d.payload⟩) d

/-! ### names (13.6) -/

/-- `unicode.IsSpace` (what `strings.TrimSpace` removes) -/
def isSpace (c : Char) : Bool := c == ' ' || c == '\t' || c == '\n' || c == '\r' || c.toNat == 0x0b || c.toNat == 0x0c ||
  c.toNat == 0x85 || c.toNat == 0xA0 || c.toNat == 0x1680 || (0x2000 ≤ c.toNat && c.toNat ≤ 0x200a) ||
  c.toNat == 0x2028 || c.toNat == 0x2029 || c.toNat == 0x202f || c.toNat == 0x205f || c.toNat == 0x3000
def trimSpace (s : List Char) : List Char := ((s.dropWhile isSpace).reverse.dropWhile isSpace).reverse

/-- the migration's `truncate` guarded by its length test (on characters; names are ASCII by the
result-name rule) -/
def limitName (max : Nat) (s : List Char) : List Char := if s.length > max then trimSpace (s.take max) else s

/-! ### order of the nodes of a migrated legacy flow (`legacy.migrateNodes`)

The migrated nodes (action sets, then rule sets, in the order given) are arranged with the flow's entry
node first — a flow starts at its first node — and the others after it by their vertical position on
the canvas, stably (`sort.SliceStable`). -/

/-- a migrated node: its UUID (an identifier) and its `y` -/
abbrev LNode := Nat × Int

def leY (a b : LNode) : Bool := decide (a.2 ≤ b.2)

/-- `entryNodes`: the (last) node with the entry's UUID, if there is one -/
def entryPart (entry : Nat) (nodes : List LNode) : List LNode :=
  match (nodes.filter (fun n => n.1 == entry)).getLast? with
  | some n => [n]
  | none => []

def legacyOrder (entry : Nat) (nodes : List LNode) : List LNode :=
  entryPart entry nodes ++ (nodes.filter (fun n => !(n.1 == entry))).mergeSort leY

end GoflowModel.Migrate
