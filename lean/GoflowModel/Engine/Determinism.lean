/-
Iteration over Go maps.

A Go map is a finite set of entries with one value per key; a `range` statement visits the
entries in an order the runtime chooses.  The model of a loop over a map is therefore a function
of a *list* of entries, and the loop is deterministic exactly when that function gives the same
result for every permutation of the list.  The definitions here are the loop shapes that occur in
the engine (classified per site by `gfmaps`, regenerated on every run): collect-then-sort,
visit-in-key-order (the shape of the repaired loops), write-each-key, accumulate, search — and
`XObject.Get`, the case-insensitive property lookup.
-/
namespace GoflowModel.Determinism

/-- collect one item per entry, then sort (`XObject.Properties`, `Results.format`, …) -/
def collectSorted {α β : Type} (le : β → β → Bool) (f : α → β) (order : List α) : List β :=
  (order.map f).mergeSort le

/-- visit the entries in key order and thread a state through (`headerNames`, `typeNames`,
sorted `Languages()` …): the visiting order is the sorted one, whatever `range` yielded -/
def forSorted {α σ : Type} (le : α → α → Bool) (step : σ → α → σ) (init : σ) (order : List α) : σ :=
  (order.mergeSort le).foldl step init

/-- every entry writes its own key of a result map -/
def writeAll {V : Type} (order : List (Nat × V)) (m : Nat → Option V) : Nat → Option V :=
  order.foldl (fun m kv => fun k => if k = kv.1 then some kv.2 else m k) m

/-- accumulate with an operation -/
def accumulate {α σ : Type} (op : σ → α → σ) (init : σ) (order : List α) : σ := order.foldl op init

/-- `XObject.Get` after the repair: among the properties whose lower-cased name is the
lower-cased key, the one whose name sorts first -/
def getCI {V : Type} (lower : String → String) (props : List (String × V)) (key : String) : Option (String × V) :=
  props.foldl (fun best p =>
    if lower p.1 = lower key then
      match best with
      | none => some p
      | some b => if p.1 < b.1 then some p else some b
    else best) none

/-- `XObject.Get` before the repair: the first match in iteration order -/
def getFirst {V : Type} (lower : String → String) (props : List (String × V)) (key : String) : Option (String × V) :=
  props.find? (fun p => lower p.1 = lower key)

def lowerAscii (s : String) : String := s.map Char.toLower

end GoflowModel.Determinism
