/-
URNs in the expression context.

A contact URN is scheme, path, display and a query part (channel affinity).  Every place the run
context exposes a URN goes through `ContactURN.ToXValue`, which under the `urns` redaction policy
yields `scheme:********` and otherwise scheme, path and display without the query
(`withoutQuery`).  The contact's default rendering (`Contact.Format`) is the name, else — under the
policy — the numeric id, else the first URN.  Which URN is "preferred" depends on which channels
can send to a scheme / were set as affinity, never on the path.
-/
namespace GoflowModel.Redaction

structure URN where
  scheme : Nat
  path : Nat
  display : Nat
  channel : Option Nat
deriving DecidableEq, Repr

/-- what an expression sees of one URN: the scheme, and path + display unless redacted -/
structure URNView where
  scheme : Nat
  clear : Option (Nat × Nat)
deriving DecidableEq, Repr

def view (redact : Bool) (u : URN) : URNView := ⟨u.scheme, if redact then none else some (u.path, u.display)⟩

structure Contact where
  name : List Char
  id : Nat
  urns : List URN
  rest : Nat        -- everything else about the contact (uuid, language, fields, groups …), as one value
deriving DecidableEq, Repr

inductive Shown where
  | name (n : List Char)
  | id (n : Nat)
  | urn (path : Nat)
  | nothing
deriving DecidableEq, Repr

/-- `Contact.Format` -/
def format (redact : Bool) (c : Contact) : Shown :=
  if c.name ≠ [] then .name c.name
  else if redact then .id c.id
  else match c.urns with
    | u :: _ => .urn u.path
    | [] => .nothing

/-- `PreferredURN`: the first URN some channel can send to (`canSend` looks at scheme and affinity) -/
def preferred (canSend : Nat → Option Nat → Bool) (c : Contact) : Option URN :=
  c.urns.find? fun u => canSend u.scheme u.channel

/-- the URN-bearing part of the contact context: `__default__`, `urn`, `urns`, and `@urns.<scheme>` -/
structure ContactCtx where
  default : Shown
  name : List Char
  id : Nat
  urn : Option URNView
  urns : List URNView
  byScheme : Nat → Option URNView
  rest : Nat

def contactCtx (redact : Bool) (canSend : Nat → Option Nat → Bool) (c : Contact) : ContactCtx :=
  { default := format redact c, name := c.name, id := c.id,
    urn := (preferred canSend c).map (view redact),
    urns := c.urns.map (view redact),
    byScheme := fun s => (c.urns.find? (·.scheme = s)).map (view redact),
    rest := c.rest }

/-- URN lists of the same length that agree, position by position, on scheme and channel affinity -/
def agree : List URN → List URN → Prop
  | [], [] => True
  | u :: us, v :: vs => u.scheme = v.scheme ∧ u.channel = v.channel ∧ agree us vs
  | _, _ => False

/-- two contacts that differ only in the identifying part of their URNs -/
def sameButPaths (a b : Contact) : Prop :=
  a.name = b.name ∧ a.id = b.id ∧ a.rest = b.rest ∧ agree a.urns b.urns

/-! ### contact queries -/

inductive PropKind where
  | attrURN        -- `urn`
  | scheme         -- `tel`, `twitter`, …
  | urnsPrefix     -- `urns.tel`, …
  | other          -- any other attribute or field
deriving DecidableEq, Repr

def PropKind.isURN : PropKind → Bool
  | .other => false
  | _ => true

/-- `VisitCondition`: the redaction error -/
def rejectsRedacted (redact : Bool) (k : PropKind) (valueEmpty : Bool) : Bool :=
  redact && k.isURN && !valueEmpty

/-- `VisitImplicitCondition` / `ParseQuery` preprocessing: what a bare value searches -/
inductive Implicit where
  | id | urnEquals | telContains | name
deriving DecidableEq, Repr

def implicit (redact isNumber isURN isPhone : Bool) : Implicit :=
  if redact then (if isNumber then .id else .name)
  else if isURN then .urnEquals else if isPhone then .telContains else .name

end GoflowModel.Redaction
