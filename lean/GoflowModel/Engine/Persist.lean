import GoflowModel.Engine.Model
/-
Persistence of a session: `session.MarshalJSON` / `readSession`, `run.MarshalJSON` / `ReadRun`
at the level of the engine model.  In JSON a run names its parent by UUID; `ReadRun` resolves it
with `session.GetRun` among the runs **already read**, and fails if it is not there.  Run UUIDs
are modelled as the run's position (they are unique).  `pushed` (the `pushedFlow` field) is not
persisted.
-/
namespace GoflowModel.Engine

structure PRun where
  uuid : Nat
  flow : Nat
  parentUUID : Option Nat
  status : RunStatus
  exited : Bool
  path : List Step
  events : List Ev
deriving Repr, DecidableEq

structure PSession where
  runs : List PRun
  status : SessStatus
deriving Repr, DecidableEq

def persistRuns : Nat → List Run → List PRun
  | _, [] => []
  | i, r :: rs => ⟨i, r.flow, r.parent, r.status, r.exited, r.path, r.events⟩ :: persistRuns (i + 1) rs

/-- `MarshalJSON` -/
def persist (s : Session) : PSession := ⟨persistRuns 0 s.runs, s.status⟩

/-- `readSession`: runs are read in order; a parent UUID must name a run read before -/
def restoreRuns : List (Nat × Nat) → List PRun → Option (List Run)
  | _, [] => some []
  | seen, p :: ps =>
    let parent : Option (Option Nat) :=
      match p.parentUUID with
      | none => some none
      | some u => (seen.lookup u).map some
    match parent with
    | none => none          -- "unable to find run with UUID"
    | some par =>
      (restoreRuns (seen ++ [(p.uuid, seen.length)]) ps).map fun rs =>
        ⟨p.flow, par, p.status, p.exited, p.path, p.events⟩ :: rs

def restore (p : PSession) : Option Session :=
  (restoreRuns [] p.runs).map fun rs => ⟨rs, p.status, none⟩

end GoflowModel.Engine
