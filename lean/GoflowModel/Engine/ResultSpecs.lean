/-
`flows.NewResultSpecs` (flows/info.go): the results extracted from a flow's actions and routers are merged by key into
the `results` of the flow's inspection.  A result whose key is new starts a spec of its own (with its name, its categories
as given and its node); one whose key has been seen adds to that spec the categories it does not have yet — compared
without regard to case (`strings.EqualFold`: `lower` stands for the case folding under which it compares) — and its node if it is new.
-/
namespace GoflowModel.ResultSpecs

structure Extracted where
  key : Nat
  name : Nat
  cats : List String
  node : Nat
deriving Repr, DecidableEq, Inhabited

structure Spec where
  key : Nat
  name : Nat
  cats : List String
  nodes : List Nat
deriving Repr, DecidableEq, Inhabited

def hasCat (lower : String → String) (cs : List String) (c : String) : Bool := cs.any fun x => lower x == lower c

/-- the loop over the new result's categories: each is added unless the (growing) list has it -/
def addCats (lower : String → String) (cs : List String) : List String → List String
  | [] => cs
  | c :: rest => addCats lower (if hasCat lower cs c then cs else cs ++ [c]) rest

def mergeInto (lower : String → String) (s : Spec) (r : Extracted) : Spec :=
  { s with cats := addCats lower s.cats r.cats, nodes := if s.nodes.contains r.node then s.nodes else s.nodes ++ [r.node] }

/-- one iteration: the first spec with the key is merged into, or a new spec is added at the end -/
def step (lower : String → String) : List Spec → Extracted → List Spec
  | [], r => [⟨r.key, r.name, r.cats, [r.node]⟩]
  | s :: rest, r => if s.key = r.key then mergeInto lower s r :: rest else s :: step lower rest r

def newResultSpecs (lower : String → String) (rs : List Extracted) : List Spec := rs.foldl (step lower) []

end GoflowModel.ResultSpecs
