/-
Routing decision logic: `SwitchRouter.Route` / `matchCase`, `baseRouter.routeToCategory`,
`RouteTimeout`, `RandomRouter.Route` and the no-router branch of `pickNodeExit`.

The semantics of the individual tests is an oracle: each case's outcome on the evaluated
operand and its localized, evaluated arguments is an input (`TestOutcome`), obtained by the
harness from the real `cases.XTESTS`.  What is modelled — and what C07 is about — is which
category, exit and result follow from those outcomes.
-/
namespace GoflowModel.Router

inductive TestOutcome where
  /-- the test returned a falsy result -/
  | noMatch
  /-- the test returned an error value (logged as an error event, then skipped) -/
  | error
  /-- the test matched; `m` is the text of its match -/
  | matched (m : List Char)
deriving Repr, DecidableEq, Inhabited

structure Category where
  name : List Char
  /-- index of the category's exit among the node's exits; `none` = empty exit UUID -/
  exit : Option Nat
deriving Repr, DecidableEq, Inhabited

structure Switch where
  categories : List Category
  /-- category index of each case, in definition order -/
  cases : List Nat
  default : Option Nat
  resultName : Option (List Char)
deriving Repr, DecidableEq, Inhabited

/-- a saved result: name, value, category, input -/
structure Result where
  name : List Char
  value : List Char
  category : List Char
  input : List Char
deriving Repr, DecidableEq, Inhabited

/-- what a routing yields: the exit to leave by (`none`: the router selected no category, or
its category has no exit — the engine then fails the run) and the result saved, if any -/
structure Routed where
  exit : Option Nat
  result : Option Result
deriving Repr, DecidableEq, Inhabited

/-- `matchCase`: the first case, in definition order, whose test matched -/
def matchCase : List Nat → List TestOutcome → Option (List Char × Nat)
  | c :: _, .matched m :: _ => some (m, c)
  | _ :: cs, _ :: os => matchCase cs os
  | _, _ => none

/-- `routeToCategory` -/
def routeToCategory (cats : List Category) (resultName : Option (List Char)) (cat : Option Nat)
    (match_ operand : List Char) : Routed :=
  match cat with
  | none => ⟨none, none⟩
  | some ci =>
    match cats[ci]? with
    | none => ⟨none, none⟩        -- not a valid category: a Go error (excluded by flow validation)
    | some c =>
      ⟨c.exit, resultName.map fun n => ⟨n, match_, c.name, operand⟩⟩

/-- `SwitchRouter.Route` given the operand as text and the outcome of each case's test -/
def routeSwitch (r : Switch) (operand : List Char) (outcomes : List TestOutcome) : Routed :=
  match matchCase r.cases outcomes with
  | some (m, c) => routeToCategory r.categories r.resultName (some c) m operand
  | none =>
    match r.default with
    | some d => routeToCategory r.categories r.resultName (some d) operand operand
    | none => routeToCategory r.categories r.resultName none [] operand

/-- `RouteTimeout`: the wait's timeout category, the time of the timeout as value -/
def routeTimeout (cats : List Category) (resultName : Option (List Char)) (timeoutCat : Nat)
    (timedOutOn : List Char) : Routed :=
  routeToCategory cats resultName (some timeoutCat) timedOutOn []

/-- `RandomRouter.Route`: category `⌊r·n⌋` for a draw `r = num / den`, `0 ≤ r < 1` -/
def randomIndex (num den n : Nat) : Nat := num * n / den

def routeRandom (cats : List Category) (resultName : Option (List Char)) (num den : Nat)
    (drawText indexText : List Char) : Routed :=
  routeToCategory cats resultName (some (randomIndex num den cats.length)) indexText drawText

/-- a node without a router leaves by its first exit -/
def routeNoRouter (numExits : Nat) : Option Nat := if numExits = 0 then none else some 0

end GoflowModel.Router
