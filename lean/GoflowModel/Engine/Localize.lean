/-
Language preference and localized text: `run.getLanguages`, `run.getText`,
`languageTranslation.getTextArray` (with its `[""]` rule), `sessionEnvironment.DefaultLanguage`,
`environment.DefaultLanguage`, the language choice of `evaluateMessage` and the length guard of
`SwitchRouter.matchCase` on localized arguments.  Languages are opaque identifiers.
-/
namespace GoflowModel.Localize

abbrev Lang := Nat
abbrev Text := List Char

structure Cfg where
  /-- the contact's language, if set -/
  contactLang : Option Lang
  /-- the environment's allowed languages; the first is its default -/
  allowed : List Lang
  /-- the flow's base language -/
  flowLang : Lang
deriving Repr, DecidableEq

/-- `environment.DefaultLanguage` -/
def envDefault (c : Cfg) : Option Lang := c.allowed.head?

/-- `sessionEnvironment.DefaultLanguage`: the contact's language if it is an allowed one -/
def mergedDefault (c : Cfg) : Option Lang :=
  match c.contactLang with
  | some l => if c.allowed.contains l then some l else envDefault c
  | none => envDefault c

/-- `run.getLanguages` -/
def languages (c : Cfg) : List Lang :=
  (mergedDefault c).toList ++
  (match envDefault c with
   | some d => if some d ≠ mergedDefault c then [d] else []
   | none => []) ++
  [c.flowLang]

/-- `getTextArray`: a translation that is missing, empty, or the single empty string counts as absent -/
def usable (t : Option (List Text)) : Option (List Text) :=
  match t with
  | some tr => if tr.isEmpty || tr == [[]] then none else some tr
  | none => none

/-- `run.getText` over an explicit preference list -/
def getTextIn (flowLang : Lang) (tr : Lang → Option (List Text)) (native : List Text) : List Lang → List Text × Lang
  | [] => (native, flowLang)
  | l :: ls =>
    if l = flowLang then (native, flowLang)
    else match usable (tr l) with
      | some t => (t, l)
      | none => getTextIn flowLang tr native ls

def getText (c : Cfg) (tr : Lang → Option (List Text)) (native : List Text) : List Text × Lang :=
  getTextIn c.flowLang tr native (languages c)

/-- the language reported for a created message: the text's, else the attachments', else the
quick replies' (`none` = no language: nothing to send) -/
def msgLang (text : List Text × Lang) (atts qrs : List Text × Lang) : Option Lang :=
  if text.1.head? ≠ some [] ∧ text.1 ≠ [] then some text.2
  else if atts.1 ≠ [] then some atts.2
  else if qrs.1 ≠ [] then some qrs.2
  else none

/-- localized case arguments are used only if as many as the base arguments -/
def caseArgs (base localized : List Text) : List Text :=
  if localized.length ≠ base.length then base else localized

/-- `SayMsgAction.Execute`: the text and the recording are localized independently; the message's
language is the one the **text** was taken from.  (spoken text, recording, language) -/
def sayMsg (c : Cfg) (trText trAudio : Lang → Option (List Text)) (text audio : Text) : Text × Text × Lang :=
  let t := getText c trText [text]
  let a := getText c trAudio [audio]
  (t.1.headD [], a.1.headD [], t.2)

end GoflowModel.Localize
