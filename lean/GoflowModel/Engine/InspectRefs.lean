/-
References that flow inspection reads off a template (`flows/inspect/templates.go`): every context
path of an expression (the parser reports them; a path whose first element names a function is left
out) is classified by `ExtractFromTemplate`'s callback — a global, a result of the parent run, a
contact field (`isFieldRefPath` over the table `fieldRefPaths`), or nothing.  `lower` is
`strings.ToLower`.

The documented expression context is a graph: a context type and its properties with their types
(the `@context` doc comments, regenerated).  `pathsTo` lists the property paths from a type that
end in a property of a given type.
-/
namespace GoflowModel.InspectRefs

inductive Ref where
  | global (key : String)
  | parentResult (key : String)
  | field (key : String)
  | none
deriving DecidableEq, Repr

/-- `isFieldRefPath`: the first table entry that is the path without its last element (lower-cased) -/
def isFieldRefPath (table : List (List String)) (lower : String → String) (path : List String) : Option String :=
  table.findSome? fun possible =>
    if path.length = possible.length + 1 ∧ (path.take possible.length).map lower = possible then
      (path.drop possible.length).head?.map lower
    else none

/-- the callback of `ExtractFromTemplate` -/
def classify (table : List (List String)) (lower : String → String) (path : List String) : Ref :=
  match path with
  | [] => .none
  | [_] => .none
  | p0 :: p1 :: rest =>
    if lower p0 = "globals" then .global (lower p1)
    else if lower p0 = "parent" ∧ lower p1 = "results" ∧ rest ≠ [] then
      match rest with
      | p2 :: _ => .parentResult (lower p2)
      | [] => .none
    else match isFieldRefPath table lower path with
      | some k => .field k
      | none => .none

/-- the parser reports every prefix of a dotted chain `a.b.c` (`[a]`, `[a, b]`, `[a, b, c]`); each is classified -/
def chainRefs (table : List (List String)) (lower : String → String) (chain : List String) : List Ref :=
  ((List.range chain.length).map fun i => classify table lower (chain.take (i + 1))).filter (· ≠ .none)

/-- the property paths from type `t` that end in a property of type `target` -/
def pathsTo (types : List (String × List (String × String))) (target : String) : Nat → String → List (List String)
  | 0, _ => []
  | fuel + 1, t =>
    match types.lookup t with
    | none => []
    | some props => props.flatMap fun p =>
        (if p.2 = target then [[p.1]] else []) ++ (pathsTo types target fuel p.2).map (p.1 :: ·)

end GoflowModel.InspectRefs
