/-
Inspection of results and waiting exits: `flow.extractResults` (`node.EnumerateResults`:
actions that implement `ResultContainer`, routers with a result name) and
`flow.extractExitsFromWaits`, against what a run can save (`saveResult` in actions,
`routeToCategory` in routers) and the exits by which a resumed run leaves a wait.
-/
namespace GoflowModel.Inspect

abbrev Key := List Char

/-- an action as far as results are concerned: its kind's two facts (from the regenerated
table) and the result name it is configured with -/
structure Action where
  kind : String
  saves : Bool
  declares : Bool
  resultName : Option Key
deriving Repr, DecidableEq

structure Router where
  resultName : Option Key
  categories : List (List Char)
  hasWait : Bool
deriving Repr, DecidableEq

structure Node where
  actions : List Action
  router : Option Router
  /-- exit identifiers -/
  exits : List Nat
deriving Repr, DecidableEq

structure Flow where
  nodes : List Node
deriving Repr, DecidableEq

/-- keys `Inspect().Results` lists for a node -/
def nodeDeclared (n : Node) : List Key :=
  (n.actions.filterMap fun a => if a.declares then a.resultName else none) ++
  (match n.router with
   | some r => r.resultName.toList
   | none => [])

/-- keys a run can save on a node -/
def nodeSaved (n : Node) : List Key :=
  (n.actions.filterMap fun a => if a.saves then a.resultName else none) ++
  (match n.router with
   | some r => r.resultName.toList
   | none => [])

def declared (f : Flow) : List Key := f.nodes.flatMap nodeDeclared
def saved (f : Flow) : List Key := f.nodes.flatMap nodeSaved

/-- `extractExitsFromWaits` -/
def waitingExits (f : Flow) : List Nat :=
  f.nodes.flatMap fun n => match n.router with
    | some r => if r.hasWait then n.exits else []
    | none => []

/-- every action kind in the flow that saves also declares -/
def Sound (f : Flow) : Prop := ∀ n ∈ f.nodes, ∀ a ∈ n.actions, a.saves = true → a.declares = true

end GoflowModel.Inspect
