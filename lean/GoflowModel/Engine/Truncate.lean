/-
`stringsx.Truncate` / `TruncateEllipsis` (gocommon) over runes, and the guarded uses in
`run.EvaluateTemplateText`, `run.SaveResult`, the name and field modifiers and
`evaluateMessage` (quick replies).  Limits are natural numbers: the engine builder clamps
negative option values to zero.
-/
namespace GoflowModel.Truncate

/-- `truncate(s, limit, "")`; total for every limit -/
def truncate (s : List Char) (limit : Nat) : List Char :=
  if s.length ≤ limit then s else s.take limit

/-- `truncate(s, limit, "...")`.  The Go function slices `runes[:limit-3]`, which panics for
`limit < 3` when the text is longer than the limit: `none` stands for that panic. -/
def truncateEllipsis (s : List Char) (limit : Nat) : Option (List Char) :=
  if s.length ≤ limit then some s
  else if limit < 3 then none
  else some (s.take (limit - 3) ++ ['.', '.', '.'])

/-- `EvaluateTemplateText(…, truncate = true, …)` after the fix: an ellipsis only when it fits -/
def templateTruncate (s : List Char) (maxTemplateChars : Nat) : Option (List Char) :=
  if maxTemplateChars ≥ 3 then truncateEllipsis s maxTemplateChars else some (truncate s maxTemplateChars)

/-- the engine builder's clamp of `WithMax…Chars(max)` -/
def clampLimit (max : Int) : Nat := max.toNat

def maxQuickReplyLength : Nat := 64

end GoflowModel.Truncate
