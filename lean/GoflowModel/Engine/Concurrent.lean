/-
Shared state under concurrent sessions.

Three small machines, each run by an arbitrary scheduler (a list of thread ids, one atomic step
per entry; a step that is not enabled is a no-op — the thread is blocked):

* `Cache` — `flowAssets.Get` / `FindByName`: the whole body runs under the assets' mutex; a flow
  that is not cached is read and migrated (`load`) and stored.
* `Lazy` — the lazy initialisation `XObject.ensureInitialized` had before the repair: test the
  field, build, store, with no synchronisation.
* `Once` — the same behind `sync.Once` (after the repair): an atomic done-flag, a mutex for the
  slow path, the initialiser run by whoever gets the mutex first while the flag is clear.
-/
namespace GoflowModel.Concurrent

def upd {β : Type} (f : Nat → β) (i : Nat) (v : β) : Nat → β := fun j => if j = i then v else f j

@[simp] theorem upd_same {β : Type} (f : Nat → β) (i : Nat) (v : β) : upd f i v i = v := by simp [upd]
theorem upd_other {β : Type} (f : Nat → β) (i j : Nat) (v : β) (h : j ≠ i) : upd f i v j = f j := by simp [upd, h]

namespace Cache

inductive Pc where
  | start              -- about to call Get
  | locked             -- holds the mutex, has not looked yet
  | loaded (v : Nat)   -- holds the mutex, has read and migrated the flow, has not stored it yet
  | done (v : Nat)     -- returned v
deriving DecidableEq, Repr

structure St where
  pc : Nat → Pc
  holder : Option Nat
  cache : Nat → Option Nat
  loads : List Nat       -- history: the keys read from the source so far

def init : St := ⟨fun _ => .start, none, fun _ => none, []⟩

/-- one atomic step of thread `t`, which wants flow `key t`; `load` is the source + migration -/
def step (key load : Nat → Nat) (s : St) (t : Nat) : St :=
  match s.pc t with
  | .start => if s.holder = none then { s with pc := upd s.pc t .locked, holder := some t } else s
  | .locked =>
    match s.cache (key t) with
    | some v => { s with pc := upd s.pc t (.done v), holder := none }
    | none => { s with pc := upd s.pc t (.loaded (load (key t))), loads := key t :: s.loads }
  | .loaded v => { s with pc := upd s.pc t (.done v), cache := upd s.cache (key t) (some v), holder := none }
  | .done _ => s

def run (key load : Nat → Nat) (sched : List Nat) (s : St) : St := sched.foldl (step key load) s

/-- the thread is between Lock and Unlock, where it reads and writes the cache map -/
def critical (s : St) (t : Nat) : Prop := s.pc t = .locked ∨ ∃ v, s.pc t = .loaded v

end Cache

namespace Lazy

inductive Pc where
  | start | sawNil | wroteDef | done
deriving DecidableEq, Repr

structure St where
  pc : Nat → Pc
  props : Bool      -- the field is set

def init : St := ⟨fun _ => .start, false⟩

def step (s : St) (t : Nat) : St :=
  match s.pc t with
  | .start => if s.props then { s with pc := upd s.pc t .done } else { s with pc := upd s.pc t .sawNil }
  | .sawNil => { s with pc := upd s.pc t .wroteDef }                       -- x.def = …
  | .wroteDef => { pc := upd s.pc t .done, props := true }                 -- x.props = …
  | .done => s

def run (sched : List Nat) (s : St) : St := sched.foldl step s

/-- the thread's next step writes the object's fields -/
def writing (s : St) (t : Nat) : Bool := s.pc t == .sawNil || s.pc t == .wroteDef
/-- the thread's next step reads the object's fields -/
def reading (s : St) (t : Nat) : Bool := s.pc t == .start

/-- two threads about to touch the same fields, one of them writing, with nothing ordering them -/
def race (s : St) (t u : Nat) : Bool := t != u && writing s t && (writing s u || reading s u)

end Lazy

namespace Once

inductive Pc where
  | start          -- about to call Do: will load the flag
  | wantLock       -- saw the flag clear: will lock
  | holding        -- has the mutex: will re-check the flag
  | initialising   -- has the mutex and saw the flag clear: runs the initialiser (writes the fields)
  | storing        -- has run the initialiser: will set the flag and unlock
  | reading        -- Do has returned: reads the fields
deriving DecidableEq, Repr

structure St where
  pc : Nat → Pc
  flag : Bool
  holder : Option Nat
  inits : Nat          -- how many times the initialiser has run

def init : St := ⟨fun _ => .start, false, none, 0⟩

def step (s : St) (t : Nat) : St :=
  match s.pc t with
  | .start => if s.flag then { s with pc := upd s.pc t .reading } else { s with pc := upd s.pc t .wantLock }
  | .wantLock => if s.holder = none then { s with pc := upd s.pc t .holding, holder := some t } else s
  | .holding =>
    if s.flag then { s with pc := upd s.pc t .reading, holder := none }
    else { s with pc := upd s.pc t .initialising }
  | .initialising => { s with pc := upd s.pc t .storing, inits := s.inits + 1 }
  | .storing => { s with pc := upd s.pc t .reading, flag := true, holder := none }
  | .reading => s

def run (sched : List Nat) (s : St) : St := sched.foldl step s

def writing (s : St) (t : Nat) : Prop := s.pc t = .initialising
def readingFields (s : St) (t : Nat) : Prop := s.pc t = .reading

end Once

end GoflowModel.Concurrent
