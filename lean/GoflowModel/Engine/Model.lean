/-
Engine model: `flows/engine/session.go` (`start`, `Resume`, `tryToResume`, `findResumeExit`,
`continueUntilWait`, `visitNode`, `pickNodeExit`, `failRun`, `countWaits`), `runs.run`
(`Exit`, `SetStatus`, `LogEvent`, `CreateStep`, `PathLocation`), the four `Resume.Apply`s and
the `Accepts` of the two waits, transcribed with mutation order preserved.

Everything data-dependent (what an action logs, whether it fails the run or pushes a flow,
whether a wait begins, which exit a router picks, whether Go returns an error) is read from an
**oracle** keyed by (run, step).  Theorems quantify over every oracle, hence over every contact,
input, template value and service response; the correspondence check reconstructs the oracle
from the implementation's own trace and the model must then reproduce the whole session.

Identifiers are indices: flows into the asset list, nodes into the flow, exits into the node,
runs into the session, steps into the run's path.
-/
namespace GoflowModel.Engine

inductive RunStatus where
  | active | waiting | completed | failed | expired
deriving Repr, DecidableEq, Inhabited

inductive SessStatus where
  | active | waiting | completed | failed
deriving Repr, DecidableEq, Inhabited

inductive WaitKind where
  | msg (hasTimeout : Bool)
  | dial
deriving Repr, DecidableEq, Inhabited

inductive ResumeKind where
  | msg | timeout | expiration | dial
deriving Repr, DecidableEq, Inhabited

structure Node where
  /-- destination node index of each exit (`none`: exit without destination) -/
  exits : List (Option Nat)
  hasRouter : Bool
  /-- the router's wait -/
  wait : Option WaitKind
deriving Repr, DecidableEq, Inhabited

structure Flow where
  nodes : List Node
deriving Repr, DecidableEq, Inhabited

/-- `none` = a flow asset that is missing (`run.Flow() == nil`) -/
abbrev Assets := List (Option Flow)

structure Step where
  node : Nat
  exit : Option Nat
deriving Repr, DecidableEq, Inhabited

structure StepRef where
  run : Nat
  idx : Nat
deriving Repr, DecidableEq, Inhabited

/-- an event: an opaque kind, whether its type name ends in `_wait` (what `countWaits` looks
at), and the step it names -/
structure Ev where
  kind : Nat
  isWait : Bool
  step : Option StepRef
deriving Repr, DecidableEq, Inhabited

structure Run where
  flow : Nat
  parent : Option Nat
  status : RunStatus
  exited : Bool
  path : List Step
  events : List Ev
deriving Repr, DecidableEq, Inhabited

/-- a sprint event and the run it was also logged to (`none`: logged to the sprint only) -/
structure SprintEv where
  run : Option Nat
  ev : Ev
deriving Repr, DecidableEq, Inhabited

structure Pushed where
  flow : Nat
  terminal : Bool
deriving Repr, DecidableEq, Inhabited

structure Session where
  runs : List Run
  status : SessStatus
  pushed : Option Pushed
deriving Repr, DecidableEq, Inhabited

structure Opts where
  maxSteps : Int
  maxResumes : Int
deriving Repr, DecidableEq, Inhabited

/-- kind code of the `failure` event the engine itself logs -/
def failureKind : Nat := 1

/-! ### tape -/

inductive RouteChoice where
  | goErr
  | noCategory
  | exit (e : Option Nat)
deriving Repr, DecidableEq, Inhabited

inductive ActionsResult where
  /-- an action returned a Go error -/
  | goErr
  /-- `trigger.InitializeRun` returned an error (swallowed by `visitNode`) -/
  | initErr
  /-- an action failed the run (`Exit(failed)` + a failure event among the logged events) -/
  | failed
  | done
deriving Repr, DecidableEq, Inhabited

structure EvK where
  kind : Nat
  isWait : Bool
deriving Repr, DecidableEq, Inhabited

/-- one `visitNode`: events logged by trigger-init, actions, wait and router in order; the last
`PushFlow`; how the action loop ended; `wait.Begin`; the route -/
structure VisitChoice where
  events : List EvK
  pushed : Option Pushed
  res : ActionsResult
  begin : Bool
  route : RouteChoice
deriving Repr, DecidableEq, Inhabited

/-- one `pickNodeExit` outside `visitNode` (resume, parent resume) -/
structure RouteRec where
  events : List EvK
  route : RouteChoice
deriving Repr, DecidableEq, Inhabited

structure Oracle where
  /-- `trigger.Initialize` + initial group re-evaluation: sprint-only events, error?, flow pushed -/
  initEvents : List EvK
  initErr : Bool
  initFlow : Nat
  /-- `baseResume.Apply`: environment / contact refresh events -/
  applyBase : List EvK
  /-- `ensureQueryBasedGroups` after the apply -/
  applyGroups : List EvK
  /-- the visit that creates step `i` of run `r` -/
  visit : Nat → Nat → Option VisitChoice
  /-- a later `pickNodeExit` at step `i` of run `r` -/
  late : Nat → Nat → Option RouteRec

/-! ### run and session primitives -/

def getFlow (a : Assets) (f : Nat) : Option Flow := (a[f]?).join
def getNode (a : Assets) (f n : Nat) : Option Node := (getFlow a f).bind (·.nodes[n]?)

def modifyRun (s : Session) (r : Nat) (f : Run → Run) : Session :=
  { s with runs := s.runs.modify r f }

/-- `run.Exit(status)` -/
def exitRun (s : Session) (r : Nat) (st : RunStatus) : Session :=
  modifyRun s r fun x => { x with status := st, exited := true }

/-- `run.SetStatus(status)` -/
def setStatus (s : Session) (r : Nat) (st : RunStatus) : Session :=
  modifyRun s r fun x => { x with status := st }

structure St where
  s : Session
  sp : List SprintEv
deriving Repr, DecidableEq, Inhabited

/-- the `logEvent` closures: `run.LogEvent(step, e); sprint.logEvent(e)` -/
def logEvent (st : St) (r : Nat) (step : Option StepRef) (k : EvK) : St :=
  let e : Ev := ⟨k.kind, k.isWait, step⟩
  { s := modifyRun st.s r fun x => { x with events := x.events ++ [e] },
    sp := st.sp ++ [⟨some r, e⟩] }

def logEvents (st : St) (r : Nat) (step : Option StepRef) (ks : List EvK) : St :=
  ks.foldl (fun acc k => logEvent acc r step k) st

/-- `sprint.logEvent` alone (session-level events before the first run exists) -/
def logSprintOnly (st : St) (ks : List EvK) : St :=
  { st with sp := st.sp ++ ks.map fun k => ⟨none, ⟨k.kind, k.isWait, none⟩⟩ }

/-- `failRun(sprint, run, step, err)` -/
def failRun (st : St) (r : Nat) (step : Option StepRef) : St :=
  logEvent { st with s := exitRun st.s r .failed } r step ⟨failureKind, false⟩

def runStatus (s : Session) (r : Nat) : Option RunStatus := (s.runs[r]?).map (·.status)

/-- `run.PathLocation()`: the last step and its node, `none` = error (empty path, missing
flow, or a node that no longer exists) -/
def pathLocation (a : Assets) (s : Session) (r : Nat) : Option (StepRef × Node) := do
  let run ← s.runs[r]?
  let last ← run.path.getLast?
  let node ← getNode a run.flow last.node
  pure (⟨r, run.path.length - 1⟩, node)

/-- `step.Leave(exit)` on the last step of run `r` -/
def leave (s : Session) (r : Nat) (e : Option Nat) : Session :=
  modifyRun s r fun x => { x with path := x.path.modify (x.path.length - 1) fun t => { t with exit := e } }

/-- `countWaits` -/
def countWaits (s : Session) : Nat :=
  (s.runs.map fun r => (r.events.filter (·.isWait)).length).sum

/-- the first run whose status is waiting -/
def waitingRun (s : Session) : Option Nat := s.runs.findIdx? (·.status == .waiting)

/-- `Wait.Accepts(resume)` -/
def accepts : WaitKind → ResumeKind → Bool
  | .msg _, .msg => true
  | .msg _, .expiration => true
  | .msg t, .timeout => t
  | .msg _, .dial => false
  | .dial, .dial => true
  | .dial, _ => false

inductive Result where
  | ok (st : St)
  | goErr (st : St)
  | engineErr (code : Nat) (st : St)
  /-- the tape does not fit the execution (wrong kind of choice, impossible outcome) -/
  | tapeErr (why : Nat)
  | outOfFuel
deriving Repr, DecidableEq, Inhabited

/-! ### `pickNodeExit` -/

inductive PickResult where
  | goErr (st : St)
  /-- the exit object returned (`none`: no exit, nowhere to go) -/
  | ok (st : St) (exit : Option (Option Nat))
  | tapeErr (why : Nat)

/-- `pickNodeExit(sprint, run, node, step, isTimeout, logEvent)`.  With a router the choice must
name one of the node's exits; without, the first exit is taken.  A router that selects no
category fails the run. -/
def pickNodeExit (st : St) (r : Nat) (node : Node) (step : StepRef) (evs : List EvK)
    (c : RouteChoice) : PickResult :=
  let st := logEvents st r (some step) evs
  if node.hasRouter then
    match c with
    | .goErr => .goErr st
    | .noCategory => .ok (failRun st r (some step)) none
    | .exit (some e) =>
      match node.exits[e]? with
      | some dest => .ok { st with s := leave st.s r (some e) } (some dest)
      | none => .tapeErr 11
    | .exit none => .tapeErr 12
  else
    match c with
    | .exit e =>
      match node.exits with
      | [] => if e = none then .ok { st with s := leave st.s r none } none else .tapeErr 13
      | dest :: _ => if e = some 0 then .ok { st with s := leave st.s r (some 0) } (some dest) else .tapeErr 14
    | _ => .tapeErr 15

/-! ### `visitNode` -/

inductive VisitResult where
  | goErr (st : St)
  | ok (st : St) (step : StepRef) (exit : Option (Option Nat))
  | tapeErr (why : Nat)

/-- `step := run.CreateStep(node)` -/
def createStep (st : St) (r nodeIdx : Nat) : St × StepRef :=
  let stepIdx := ((st.s.runs[r]?).map (·.path.length)).getD 0
  ({ st with s := modifyRun st.s r fun x => { x with path := x.path ++ [⟨nodeIdx, none⟩] } }, ⟨r, stepIdx⟩)

/-- the last `session.PushFlow` made by the node's actions, if any -/
def setPushedOpt (st : St) (p : Option Pushed) : St :=
  match p with
  | some p => { st with s := { st.s with pushed := some p } }
  | none => st

/-- `visitNode` after the actions have run and logged their events -/
def visitTail (st : St) (r : Nat) (node : Node) (step : StepRef) (vc : VisitChoice) : VisitResult :=
  match vc.res with
  | .goErr => .goErr st
  | .initErr => .ok st step none
  | .failed =>
    -- the run was failed by an action: a flow pushed earlier on this node is dropped
    .ok { st with s := { exitRun st.s r .failed with pushed := none } } step none
  | .done =>
    if st.s.pushed.isSome then .ok st step none
    else
      match (if node.hasRouter then node.wait else none), vc.begin with
      | some _, true =>
        -- run.SetStatus(waiting); s.status = waiting
        .ok { st with s := { setStatus st.s r .waiting with status := .waiting } } step none
      | _, _ =>
        match pickNodeExit st r node step [] vc.route with
        | .goErr st => .goErr st
        | .ok st e => .ok st step e
        | .tapeErr w => .tapeErr w

def visitNode (st : St) (r : Nat) (nodeIdx : Nat) (node : Node) (vc : VisitChoice) : VisitResult :=
  let cs := createStep st r nodeIdx
  -- trigger.InitializeRun, then the actions, each logging through `logEvent`
  let st := setPushedOpt (logEvents cs.1 r (some cs.2) vc.events) vc.pushed
  visitTail st r node cs.2 vc

/-! ### `findResumeExit` -/

inductive FindResult where
  | err (st : St)
  | ok (st : St) (exit : Option (Option Nat))
  | tapeErr (why : Nat)

def findResumeExit (a : Assets) (orc : Oracle) (st : St) (r : Nat) : FindResult :=
  if runStatus st.s r ≠ some .active then .ok st none
  else
    match pathLocation a st.s r with
    | none => .err st
    | some (step, node) =>
      match orc.late step.run step.idx with
      | some rr =>
        match pickNodeExit st r node step rr.events rr.route with
        | .goErr st => .err st
        | .ok st e => .ok st e
        | .tapeErr w => .tapeErr w
      | none => .tapeErr 21

/-! ### `continueUntilWait` -/

structure Loop where
  st : St
  cur : Option Nat
  exit : Option (Option Nat)
  step : Option StepRef
  n : Int
deriving Repr, Inhabited

/-- `for _, run := range s.runs { run.Exit(completed) }` -/
def exitAll (s : Session) : Session :=
  { s with runs := s.runs.map fun x => { x with status := .completed, exited := true } }

/-- first third of an iteration: "start by picking a destination node..." -/
def pickDest (a : Assets) (l : Loop) : Loop × Option Nat :=
  match l.st.s.pushed with
  | some p =>
    -- a new flow has been pushed: (terminal ⇒ every run is exited as completed), create a run for it
    let s := if p.terminal then exitAll l.st.s else l.st.s
    let newIdx := s.runs.length
    let s := { s with runs := s.runs ++ [⟨p.flow, l.cur, .active, false, [], []⟩], pushed := none }
    let dest := match getFlow a p.flow with
      | some f => if f.nodes.isEmpty then none else some 0
      | none => none
    ({ l with st := { l.st with s := s }, cur := some newIdx, step := none }, dest)
  | none =>
    match l.exit with
    | some d => ({ l with exit := none }, d)
    | none => (l, none)

def endStatus (s : Session) (cur : Nat) : SessStatus :=
  if runStatus s cur = some .failed then .failed else .completed

/-- second third: no destination - the current run is done; resume the parent or end the session -/
def noDest (a : Assets) (orc : Oracle) (l : Loop) (cur : Nat) : Sum Loop Result :=
  -- if currentRun.ExitedOn() == nil { currentRun.Exit(completed) }
  let s := if ((l.st.s.runs[cur]?).map (·.exited)).getD true then l.st.s else exitRun l.st.s cur .completed
  let l := { l with st := { l.st with s := s } }
  match (s.runs[cur]?).bind (·.parent) with
  | some p =>
    if runStatus s p = some .active then
      let child := cur
      -- step, _, _ = currentRun.PathLocation()
      let l := { l with cur := some p, step := (pathLocation a s p).map Prod.fst }
      if runStatus s child ≠ some .failed then
        if (getFlow a (((s.runs[p]?).map (·.flow)).getD 0)).isNone then
          .inl { l with st := failRun l.st p none }
        else
          match findResumeExit a orc l.st p with
          | .err st => .inl { l with st := failRun st p none, exit := none }
          | .ok st e => .inl { l with st := st, exit := e }
          | .tapeErr w => .inr (.tapeErr w)
      else
        .inl { l with st := failRun l.st p l.step }
    else
      .inr (.ok { l.st with s := { s with status := endStatus s cur } })
  | none =>
    .inr (.ok { l.st with s := { s with status := endStatus s cur } })

/-- last third: go to the destination -/
def goDest (a : Assets) (o : Opts) (orc : Oracle) (l : Loop) (cur d : Nat) : Sum Loop Result :=
  let n := l.n + 1
  let l := { l with n := n }
  if n > o.maxSteps then
    .inl { l with st := failRun l.st cur l.step }
  else
    let flow := ((l.st.s.runs[cur]?).map (·.flow)).getD 0
    match getNode a flow d with
    | none => .inr (.goErr l.st)
    | some node =>
      let stepIdx := ((l.st.s.runs[cur]?).map (·.path.length)).getD 0
      match orc.visit cur stepIdx with
      | some vc =>
        match visitNode l.st cur d node vc with
        | .goErr st => .inr (.goErr st)
        | .tapeErr w => .inr (.tapeErr w)
        | .ok st step e =>
          if st.s.status = .waiting then .inr (.ok st)
          else .inl { l with st := st, step := some step, exit := e }
      | none => .inr (.tapeErr 33)

/-- one iteration of the loop; `Sum.inl` = continue, `Sum.inr` = return -/
def iter (a : Assets) (o : Opts) (orc : Oracle) (l : Loop) : Sum Loop Result :=
  let ld := pickDest a l
  match ld.1.cur, ld.2 with
  | none, _ => .inr (.tapeErr 31)
  | some cur, none => noDest a orc ld.1 cur
  | some cur, some d => goDest a o orc ld.1 cur d

def loop (a : Assets) (o : Opts) (orc : Oracle) : Nat → Loop → Result
  | 0, _ => .outOfFuel
  | fuel + 1, l =>
    match iter a o orc l with
    | .inl l' => loop a o orc fuel l'
    | .inr r => r

/-- fuel that always suffices (see `Props/C05.lean`) -/
def fuelFor (o : Opts) (s : Session) : Nat :=
  (o.maxSteps.toNat + 2) * (2 * (s.runs.length + o.maxSteps.toNat + 2) + 4)

/-! ### `start` and `Resume` -/

def emptySession : Session := { runs := [], status := .active, pushed := none }

/-- `engine.NewSession(...)` / `session.start(trigger)` -/
def start (a : Assets) (o : Opts) (orc : Oracle) : Result :=
  let st : St := logSprintOnly ⟨emptySession, []⟩ orc.initEvents
  if orc.initErr then .goErr st
  else
    let st := { st with s := { st.s with pushed := some ⟨orc.initFlow, false⟩ } }
    loop a o orc (fuelFor o st.s) { st := st, cur := none, exit := none, step := none, n := 0 }

/-- `failSession` of `tryToResume` -/
def failSession (st : St) (waiting : Nat) : St :=
  let st := failRun st waiting none
  { st with s := { st.s with
      runs := st.s.runs.map fun x =>
        if x.status = .active ∨ x.status = .waiting then { x with status := .failed, exited := true } else x,
      status := .failed } }

/-- kinds of the fixed events of the resumes: `msg_received`, `wait_timed_out`, `run_expired`,
`dial_ended` -/
def resumeEventKind : ResumeKind → Nat
  | .msg => 2 | .timeout => 3 | .expiration => 4 | .dial => 5

/-- `baseResume.Apply`: refresh events, waiting ⇒ active (`SetInput(nil)` is not state of this model) -/
def baseApply (orc : Oracle) (st : St) (r : Nat) (step : StepRef) : St :=
  let st := logEvents st r (some step) orc.applyBase
  if runStatus st.s r = some .waiting then { st with s := setStatus st.s r .active } else st

/-- `resume.Apply(run, logEvent)` per resume type, then `ensureQueryBasedGroups(logEvent)` -/
def applyResume (orc : Oracle) (st : St) (r : Nat) (step : StepRef) (k : ResumeKind) : St :=
  let fixed : EvK := ⟨resumeEventKind k, false⟩
  let st := match k with
    | .msg => logEvent (baseApply orc st r step) r (some step) fixed
    | .timeout => baseApply orc (logEvent st r (some step) fixed) r step
    | .dial => baseApply orc (logEvent st r (some step) fixed) r step
    | .expiration => baseApply orc (logEvent { st with s := exitRun st.s r .expired } r (some step) fixed) r step
  logEvents st r (some step) orc.applyGroups

/-- `session.Resume(resume)` -/
def resume (a : Assets) (o : Opts) (orc : Oracle) (s : Session) (k : ResumeKind) : Result :=
  let st : St := ⟨s, []⟩
  if s.status ≠ .waiting then .engineErr 101 st
  else
    match waitingRun s with
    | none => .engineErr 102 st
    | some w =>
      -- tryToResume
      let flowIdx := ((s.runs[w]?).map (·.flow)).getD 0
      if (getFlow a flowIdx).isNone then .ok (failSession st w)
      else if (countWaits s : Int) ≥ o.maxResumes then .ok (failSession st w)
      else
        match pathLocation a s w with
        | none => .ok (failSession st w)
        | some (step, node) =>
          match (if node.hasRouter then node.wait else none) with
          | none => .ok (failSession st w)
          | some wk =>
            if !accepts wk k then .engineErr 103 st
            else
              let st := { st with s := { st.s with status := .active } }
              let st := applyResume orc st w step k
              match findResumeExit a orc st w with
              | .err st => .ok (failSession st w)
              | .tapeErr x => .tapeErr x
              | .ok st e =>
                loop a o orc (fuelFor o st.s)
                  { st := st, cur := some w, exit := e, step := some step, n := 0 }

end GoflowModel.Engine
